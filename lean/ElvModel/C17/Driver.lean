import ElvModel.Go.Driver
import ElvModel.C17.Model
import ElvModel.C17.Covered
import ElvModel.C17.DocMatch
import ElvModel.C17.ClosureSrc
import ElvModel.C17.MakeMap
namespace C17
open Go

/-! ### decoding -/

def splitList (s : String) (sep : String) : List String :=
  if s = "-" then [] else s.splitOn sep

/-- type codes: `F R O I`, a number (plain tag), `[code]` (slice). -/
partial def parseTy (s : String) : Option PTy :=
  match s with
  | "F" => some .frame
  | "R" => some .rawOptions
  | "O" => some .options
  | "I" => some .inputs
  | _ =>
    if s.startsWith "[" && s.endsWith "]" then
      (parseTy (String.ofList (s.toList.drop 1).dropLast)).map .slice
    else s.toNat?.map .plain

def tyCode : PTy → String
  | .frame => "F" | .rawOptions => "R" | .options => "O" | .inputs => "I"
  | .plain t => toString t
  | .slice e => "[" ++ tyCode e ++ "]"

def parseArg (s : String) : Option Arg :=
  match s.splitOn ":" with
  | id :: mask :: it :: _kind => do   -- a 4th component (the value kind) is for the implementation side
    let id ← id.toNat?
    let tys ← (splitList mask ".").mapM parseTy
    some ⟨id, fun t => tys.contains t, it == "1"⟩
  | _ => none

def showIn : InVal → String
  | .frame => "F" | .rawOpts => "R" | .optsStruct => "O"
  | .scanned t a => tyCode t ++ "@" ++ toString a
  | .inputsFrame => "I@frame"
  | .inputsArg a => "I@" ++ toString a

def showCallErr : CallErr → String
  | .arity l h a => s!"ERR arity {l} {h} {a}"
  | .noOptAccepted => "ERR noopt"
  | .badOption => "ERR badopt"
  | .wrongArgType i => s!"ERR argtype {i}"
  | .cannotIterate => "ERR noiter"

def gofnLine (sig variadic nopts optbad args : String) : String :=
  match (splitList sig ",").mapM parseTy, nopts.toNat?, (splitList args ";").mapM parseArg with
  | some sg, some no, some as =>
    match newGoFn sg (variadic == "1") with
    | .panic _ => "NEWPANIC"
    | .exc e => "EXC " ++ e
    | .ok b =>
      match goFnCall b as no (optbad == "1") with
      | .panic _ => "PANIC"
      | .exc e => "EXC " ++ e
      | .ok (.error e) => showCallErr e
      | .ok (.ok ins) =>
        -- the model also evaluates reflect.Value.Call's precondition
        let pre := if callOK (variadic == "1") sg ins then "" else " PRECONDITION-VIOLATED"
        String.intercalate " " ("OK" :: ins.map showIn) ++ pre
  | _, _, _ => "bad-op"

def parseNats (s : String) : Option (List Nat) := (splitList s ",").mapM String.toNat?

def parseOpts (s : String) : Option (List (Nat × Nat)) :=
  (splitList s ",").mapM fun kv =>
    match kv.splitOn "=" with
    | [k, v] => do some (← k.toNat?, ← v.toNat?)
    | _ => none

def showSlot : Slot → String
  | .unset => "unset"
  | .val v => s!"v{v}"
  | .list vs => "l[" ++ String.intercalate "," (vs.map toString) ++ "]"
  | .fresh k => s!"n{k}"

def closLine (nargs rest optnames optdefaults nnew args opts : String) : String :=
  match nargs.toNat?, rest.toInt?, parseNats optnames, parseNats optdefaults, nnew.toNat?, parseNats args, parseOpts opts with
  | some na, some r, some on, some od, some nn, some as, some os =>
    match closureCall ⟨na, r, on, od, nn⟩ as os with
    | .panic _ => "PANIC"
    | .exc e => "EXC " ++ e
    | .ok (.error (.arity l h a)) => s!"ERR arity {l} {h} {a}"
    | .ok (.error (.unsupported ns)) => "ERR unsupported " ++ String.intercalate "," (ns.map toString)
    | .ok (.ok slots) => String.intercalate " " ("OK" :: slots.map showSlot)
  | _, _, _, _, _, _, _ => "bad-op"

def subseqLine (hs ht : String) : String :=
  match hexDecode hs, hexDecode ht with
  | some s, some t =>
    match hasSubseq true s t with
    | .ok b => if b then "true" else "false"
    | .exc e => "EXC " ++ e
    | .panic _ => "PANIC"
  | _, _ => "bad-op"

/-! ### round 2: `doc:find` highlighting and `closure[def]`/`closure[body]` -/

/-- hex bytes, `e` for the empty string -/
def parseHexE (s : String) : Option Bytes := if s = "e" then some [] else hexDecode s
def hexE (b : Bytes) : String := if b.isEmpty then "e" else hexEncode b

def parseRange (s : String) : Option Ranging :=
  match s.splitOn ":" with
  | [a, b] => do some ⟨← a.toInt?, ← b.toInt?⟩
  | _ => none

def parseRanges (s : String) : Option (List Ranging) := (splitList s ",").mapM parseRange

def showRanges (rs : List Ranging) : String :=
  if rs.isEmpty then "-" else String.intercalate "," (rs.map fun r => s!"{r.from_}:{r.to}")

def docmergeLine (ranges : String) : String :=
  match parseRanges ranges with
  | some rs =>
    match sortAndMergeMatches stableSortByFrom rs with
    | .ok out => "OK " ++ showRanges out
    | .exc e => "EXC " ++ e
    | .panic _ => "PANIC"
  | none => "bad-op"

def docshowLine (code text ranges : String) : String :=
  match parseHexE text, parseRanges ranges with
  | some t, some rs =>
    match showBlock styledBoldRed ⟨⟨t, code == "1"⟩, rs⟩ with
    | .ok out => "OK " ++ hexE out
    | .exc e => "EXC " ++ e
    | .panic _ => "PANIC"
  | _, _ => "bad-op"

def parseBlock (s : String) : Option Block :=
  match s.toList with
  | 'c' :: rest => (parseHexE (String.ofList rest)).map (⟨·, true⟩)
  | 'p' :: rest => (parseHexE (String.ofList rest)).map (⟨·, false⟩)
  | _ => none

def docfindLine (blocks queries : String) : String :=
  match (splitList blocks ",").mapM parseBlock, (splitList queries ",").mapM parseHexE with
  | some bs, some qs =>
    match docFindIn stableSortByFrom styledBoldRed bs qs with
    | .ok none => "NOMATCH"
    | .ok (some out) => "OK " ++ (if out.isEmpty then "-" else String.intercalate "," (out.map hexE))
    | .exc e => "EXC " ++ e
    | .panic _ => "PANIC"
  | _, _ => "bad-op"

def parseInts (s : String) : Option (List Int) := (splitList s ",").mapM String.toInt?

def closrcLine (src printable : String) : String :=
  match parseHexE src, parseInts printable with
  | some src, some pr =>
    match C01.parse (fun r => pr.contains r) src with
    | .ok t _ =>
      let ls := lambdasOf t
      let items := ls.map fun lam =>
        match closureDefBody src lam with
        | .ok (d, some b) => "def=" ++ hexE d ++ " body=" ++ hexE b
        | .ok (d, none) => "def=" ++ hexE d ++ " body=none"
        | .exc e => "EXC " ++ e
        | .panic _ => "PANIC"
      String.intercalate " | " (s!"{ls.length}" :: items)
    | .panic _ => "PARSE-PANIC"
    | .fuel => "FUEL"
  | _, _ => "bad-op"

/-! ### `make-map` (after seeded change C17-makemap-unchecked-pair-length) -/

mutual
/-- prefix notation over `,`-separated tokens: `S<hex|e>`, `L<n>` followed by n values, `O<kind>/<id>` -/
partial def parseMV : List String → Option (MV × List String)
  | [] => none
  | t :: rest =>
    match t.toList with
    | 'S' :: h => (parseHexE (String.ofList h)).map fun b => (MV.str b, rest)
    | 'L' :: n => do
      let n ← (String.ofList n).toNat?
      let (xs, rest') ← parseMVs n rest
      some (MV.list xs, rest')
    | 'O' :: k =>
      match (String.ofList k).splitOn "/" with
      | [kind, id] => some (MV.other kind id, rest)
      | _ => none
    | _ => none
partial def parseMVs : Nat → List String → Option (List MV × List String)
  | 0, ts => some ([], ts)
  | n + 1, ts => do
    let (x, r) ← parseMV ts
    let (xs, r') ← parseMVs n r
    some (x :: xs, r')
end

mutual
def MV.enc : MV → String
  | .str b => "S" ++ hexE b
  | .list xs => "L" ++ toString xs.length ++ MV.encs xs
  | .other k id => "O" ++ k ++ "/" ++ id
def MV.encs : List MV → String
  | [] => ""
  | x :: xs => "," ++ x.enc ++ MV.encs xs
end

def insertKV (p : String × String) : List (String × String) → List (String × String)
  | [] => [p]
  | q :: qs => if p.1 < q.1 then p :: q :: qs else q :: insertKV p qs

/-- the map `m.Assoc(k1,v1).Assoc(k2,v2)…`: a later pair replaces an equal key; printed with sorted keys -/
def finalMap (ps : List (MV × MV)) : List (String × String) :=
  let kv := ps.map fun p => (p.1.enc, p.2.enc)
  let ded := kv.foldl (fun acc p => acc.filter (fun q => q.1 != p.1) ++ [p]) []
  ded.foldl (fun acc p => insertKV p acc) []

def makemapLine (toks : String) : String :=
  match parseMV (toks.splitOn ",") with
  | some (.list inputs, []) =>
    match makeMap MV.ops true inputs with
    | .ok ps =>
      let m := finalMap ps
      if m.isEmpty then "OK -" else "OK " ++ String.intercalate ";" (m.map fun p => p.1 ++ "=>" ++ p.2)
    | .exc e => "EXC " ++ e
    | .panic _ => "PANIC"
  | _ => "bad-op"

/-- Inventory line: the status of a site in the committed baseline. -/
def invLine (status : String) : String :=
  if status.startsWith "covered-by:" then
    let t := String.ofList (status.toList.drop "covered-by:".length)
    if coveredTheorems.contains t then "covered" else "unknown-theorem:" ++ t
  else if status.startsWith "reviewed:" then "reviewed"
  else if status == "uncovered" then "uncovered"
  else if status == "new" then "new"
  -- a reviewed site whose guard fingerprint is not the one of the baseline
  else if status == "guard-changed" then "guard-changed"
  else if status == "guard-unrecorded" then "guard-unrecorded"
  else "bad-status"

/-- ops:
* `gofn <sig> <variadic> <nopts> <optbad> <args>`
* `clos <nargs> <rest> <optnames> <optdefaults> <nnew> <args> <opts>`
* `subseq <hex s> <hex t>`
* `docmerge <from:to,…>` — `sortAndMergeMatches` on raw matches
* `docshow <0|1 code> <hex text> <from:to,…>` — `matchedBlock.Show` on arbitrary matches (overlapping ones panic on both sides)
* `docfind <hex markdown> <c|p hex,…> <hex,…>` — `match` + `Show` from the rendered blocks on (the markdown is for the implementation side, which checks that it renders to these blocks)
* `closrc <hex source> <printable>` — `closure[def]` / `closure[body]` of every lambda of the source, in source order
* `makemap <arg|pipe> <tokens>` — `make-map` on a list of inputs (as one argument or through the pipe); the
  model is the same for both
* `inv <site key> <status>`
* `call <name> <hex code>` / `form <kind> <hex code>` — exploration: the
  model has nothing to say about these (they are NOT correspondence ops); both
  sides print the constant `explored` and the verdict is the oracle's. -/
def stepLine : List String → String
  | ["gofn", sig, variadic, nopts, optbad, args] => gofnLine sig variadic nopts optbad args
  | ["clos", nargs, rest, on, od, nnew, args, opts] => closLine nargs rest on od nnew args opts
  | ["subseq", hs, ht] => subseqLine hs ht
  | ["docmerge", ranges] => docmergeLine ranges
  | ["docshow", code, text, ranges] => docshowLine code text ranges
  | ["docfind", _markdown, blocks, queries] => docfindLine blocks queries
  | ["closrc", src, printable] => closrcLine src printable
  | ["makemap", _mode, toks] => makemapLine toks
  | ["inv", _key, status] => invLine status
  | ["call", _name, _code] => "explored"
  | ["form", _kind, _code] => "explored"
  | _ => "bad-op"

def driver : Driver := Driver.pure stepLine
end C17
