/-
C17 (round 2) — `closure[def]` and `closure[body]` (pkg/eval/closure.go,
`closureFields.Def` / `closureFields.Body`):

    cf.c.Src.Code[cf.c.DefRange.From:cf.c.DefRange.To]
    r := cf.c.op.(diag.Ranger).Range(); cf.c.Src.Code[r.From:r.To]

The only place a `Closure` is made is `lambdaOp.exec`
(pkg/eval/compile_value.go): `Src` is the source the compiler was given,
`DefRange` the range of the lambda's `Primary` node and `op` the `chunkOp` of
its `Chunk` child (`fn` wraps it in `fnWrap`, whose `Range` is the same).  So
both slices are slices of the parsed source by the range of a node of its
parse tree (C01's parser model).
-/
import ElvModel.Go.Basic
import ElvModel.C01.Model
namespace C17
open Go

/-- `Src.Code[r.From:r.To]` for the range of the node `m`. -/
def closureSrcSlice (src : Bytes) (m : C01.Node) : Res Bytes := slice src m.frm m.to

mutual
/-- The lambda `Primary` nodes of a tree, in source (pre-)order. -/
def lambdasOf : C01.Node → List C01.Node
  | .mk k a b t f cs =>
    (if k == .primary && f.ptype == Gen.C01Chars.Lambda then [C01.Node.mk k a b t f cs] else []) ++ lambdasOfList cs
def lambdasOfList : List C01.Node → List C01.Node
  | [] => []
  | c :: cs => lambdasOf c ++ lambdasOfList cs
end

/-- `closure[def]` and `closure[body]` of the closure made from lambda node `lam`:
the body is the `Chunk` child. -/
def closureDefBody (src : Bytes) (lam : C01.Node) : Res (Bytes × Option Bytes) := do
  let d ← closureSrcSlice src lam
  match lam.childrenOf .chunk with
  | [] => .ok (d, none)
  | c :: _ => do
    let b ← closureSrcSlice src c
    .ok (d, some b)

end C17
