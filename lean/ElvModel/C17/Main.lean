import ElvModel.C17.Driver
def main : IO Unit := C17.driver.main
