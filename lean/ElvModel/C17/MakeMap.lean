/-
C17 (strengthening after seeded change C17-makemap-unchecked-pair-length) —
`makeMap` of pkg/eval/builtin_fn_container.go (`make-map`), its handling of
ONE input "pair":

    if !vals.CanIterate(v)            → bad value (iterable)
    if l := vals.Len(v); l != 2       → bad value (iterable with 2 elements)
    elems, err := vals.Collect(v)     → err
    if len(elems) != 2                → "internal bug: collected N values"
    m = m.Assoc(elems[0], elems[1])

`vals.Len` and `vals.Collect` are two different functions: for a string the
first counts BYTES, the second yields RUNES, so `Len(v) = 2` says nothing about
`len(elems)` (`é` is 2 bytes, 1 rune).  The model therefore takes the four
operations on values as ARBITRARY functions (`IterOps`): the theorem holds for
every way `Len` and `Collect` may disagree, and the last check — which looks
unreachable when one reads "Len = 2" as "two elements" — is what makes
`elems[0]`, `elems[1]` safe.  `guard = false` is the code without that check
(the seeded change); the concrete instance `MV.ops` (bytes vs. runes) is what
the driver runs and what the counter-model uses.

`m.Assoc(k, v)` is recorded as the list of pairs in association order (the
hash map itself is C07's); the driver prints the resulting map (later pair
wins) with sorted keys.
-/
import ElvModel.Go.Basic
import ElvModel.Go.Utf8
namespace C17
open Go

/-- What `makeMap` asks of a value. -/
structure IterOps (V : Type) where
  canIterate : V → Bool                       -- vals.CanIterate
  len : V → Int                               -- vals.Len (−1 = no length)
  kind : V → String                           -- vals.Kind
  collect : V → Except String (List V)        -- vals.Collect

/-- state of the callback: the pairs associated so far and `errMakeMap` -/
abbrev MMState (V : Type) := List (V × V) × Option String

def errNotIterable (kind : String) : String :=
  "bad value: input to make-map must be iterable, but is " ++ kind

def errWrongLen (kind : String) (l : Int) : String :=
  "bad value: input to make-map must be iterable with 2 elements, but is " ++ kind ++ " with " ++ toString l ++ " elements"

def errInternal (n : Nat) : String :=
  "internal bug: collected " ++ toString n ++ " values"

/-- `elems[0]`, `elems[1]`, `m.Assoc(…)` — the two index expressions of the inventory. -/
def assocPair {V} (acc : List (V × V)) (elems : List V) : Res (MMState V) :=
  (Go.index elems 0).bind fun k =>
  (Go.index elems 1).bind fun x =>
  .ok (acc ++ [(k, x)], none)

/-- The body of `input(func(v any) { … })`. -/
def makeMapStep {V} (ops : IterOps V) (guard : Bool) (st : MMState V) (v : V) : Res (MMState V) :=
  if st.2.isSome then .ok st
  else if ops.canIterate v = false then .ok (st.1, some (errNotIterable (ops.kind v)))
  else if ops.len v ≠ 2 then .ok (st.1, some (errWrongLen (ops.kind v) (ops.len v)))
  else match ops.collect v with
    | .error e => .ok (st.1, some e)
    | .ok elems =>
      if guard = true ∧ elems.length ≠ 2 then .ok (st.1, some (errInternal elems.length))
      else assocPair st.1 elems

/-- the callback over all inputs -/
def makeMapLoop {V} (ops : IterOps V) (guard : Bool) : List V → MMState V → Res (MMState V)
  | [], st => .ok st
  | v :: vs, st => (makeMapStep ops guard st v).bind fun st' => makeMapLoop ops guard vs st'

/-- `makeMap`: the pairs in association order, or the exception. -/
def makeMap {V} (ops : IterOps V) (guard : Bool) (inputs : List V) : Res (List (V × V)) :=
  (makeMapLoop ops guard inputs ([], none)).bind fun st =>
    match st.2 with
    | some e => .exc e
    | none => .ok st.1

/-! ### the concrete values the driver runs -/

/-- Elvish values as far as `make-map` tells them apart. -/
inductive MV where
  | str (b : Bytes)
  | list (xs : List MV)
  | other (kind : String) (id : String)    -- not iterable: number, bool, nil, map, fn
  deriving Inhabited

/-- `for _, r := range s { f(string(r)) }` -/
def strElems (b : Bytes) : List MV := (toRunes b).map fun r => MV.str (encodeRune r)

def MV.ops : IterOps MV where
  canIterate := fun v => match v with | .str _ => true | .list _ => true | .other _ _ => false
  len := fun v => match v with | .str b => b.length | .list xs => xs.length | .other _ _ => -1
  kind := fun v => match v with | .str _ => "string" | .list _ => "list" | .other k _ => k
  collect := fun v => match v with
    | .str b => .ok (strElems b)
    | .list xs => .ok xs
    | .other k _ => .error ("cannot iterate " ++ k)

end C17
