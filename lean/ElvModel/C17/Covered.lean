/-
The panic-freedom theorems the C17 partial-operation inventory may name in
`covered-by:<theorem>` (harness/c17/inventory_baseline.txt).  The driver
answers `unknown-theorem` for any other name, which breaks the correspondence;
`ElvProofs/C17.lean` checks at build time that every name listed here is a
theorem of that file.
-/
namespace C17

def coveredTheorems : List String := [
  "C17_goFn_call_no_panic",
  "C17_goFn_reflect_call_precondition",
  "C17_newGoFn_panics_only_on_both_options",
  "C17_closure_call_no_panic",
  "C17_hasSubseq_no_panic",
  "C17_parse_no_panic",
  "C17_hashmap_index_no_panic",
  "C17_vector_ops_no_panic",
  "C17_arith_no_panic",
  "C17_index_no_panic",
  "C17_string_index_no_panic",
  "C17_pipeline_no_panic",
  "C17_peach_no_panic",
  "C17_term_reader_no_panic",
  "C17_diag_context_no_panic",
  "C17_getopt_no_panic",
  "C17_getopt_complete_no_panic",
  "C17_str_repeat_no_panic",
  "C17_str_replace_no_panic",
  "C17_redir_no_panic",
  "C17_redir_fd_in_range",
  "C17_wcwidth_trim_no_panic",
  "C17_lsp_answers_every_request",
  -- round 2
  "C17_docfind_merge_no_panic",
  "C17_docfind_show_no_panic",
  "C17_docfind_no_panic",
  "C17_closure_src_fields_no_panic",
  "C17_completion_replace_no_panic",
  "C17_quote_no_panic",
  "C17_assign_no_panic",
  "C17_peach_interrupt_no_panic",
  "C17_editor_events_no_panic",
  "C17_highlight_no_panic",
  "C17_highlight_late_no_panic",
  "C17_md_emph_no_panic",
  "C17_form_cleanup_no_nil_deref",
  -- after seeded change C17-makemap-unchecked-pair-length
  "C17_makeMap_no_panic"
]

end C17
