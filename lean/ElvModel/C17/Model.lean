/-
C17 — builtin-surface glue that no other property models:

* `pkg/eval/go_fn.go`: `NewGoFn` (classification of the Go parameters) and
  `goFn.Call` up to the point where it hands the argument vector `in` to
  `reflect.Value.Call` (arity check, option check, the `for i, arg := range
  args` loop that indexes `b.normalArgs`, `args[len(args)-1]`), together with
  the precondition of `reflect.Value.Call` (number and types of `in`).
* `pkg/eval/closure.go`: `Closure.Call` — arity check, option check and the
  slot arithmetic that populates the local namespace (`local.slots[i]`,
  `args[c.RestArg : c.RestArg+restOff+1]`, `args[i+restOff]`,
  `c.OptDefaults[i]`, `local.slots[offset+i]`).
* `pkg/strutil/subseq.go`: `HasSubseq` (`edit:match-subseq`), before and after
  the repair of its slice expression.

Partial Go operations are explicit (`Go.index`, `Go.slice`, `setIdx`,
`panic "impossible"`); nothing is totalised.
-/
import ElvModel.Go.Basic
import ElvModel.Go.Utf8
namespace C17
open Go

/-! ## Shared helpers -/

/-- Go's `s[i] = v`. -/
def setIdx {α} (s : List α) (i : Int) (v : α) : Res (List α) :=
  if 0 ≤ i ∧ i < s.length then .ok (s.set i.toNat v) else .panic "index out of range"

/-- `for i := a; i < b; i++ { s = f i s }` (no `break`), by recursion on `b - a`. -/
def forRange {σ} (f : Int → σ → Res σ) : Nat → Int → σ → Res σ
  | 0, _, s => .ok s
  | n + 1, a, s => do
    let s' ← f a s
    forRange f n (a + 1) s'

/-- `for i := a; i < b; i++` -/
def forLoop {σ} (a b : Int) (f : Int → σ → Res σ) (s : σ) : Res σ :=
  forRange f (b - a).toNat a s

/-! ## `goFn` -/

/-- Go parameter types as far as `NewGoFn` and `reflect.Value.Call` tell them
apart. -/
inductive PTy where
  | frame                -- *Frame
  | rawOptions           -- RawOptions
  | options              -- a struct whose pointer implements optionsPtr
  | inputs               -- Inputs
  | plain (t : Nat)      -- any other type, identified by a tag
  | slice (e : PTy)      -- []E (the last parameter of a variadic function)
  deriving DecidableEq, Repr

structure GoFn where
  frame : Bool
  rawOptions : Bool
  options : Option PTy
  inputs : Bool
  normalArgs : List PTy
  variadicArg : Option PTy
  deriving Repr

/-- `reflect.Type.Elem()`. -/
def elemOf : PTy → Res PTy
  | .slice e => .ok e
  | _ => .panic "reflect: Elem of invalid type"

/-- The `for ; i < implType.NumIn(); i++` loop of `NewGoFn` over the parameters
left after the frame/options prefix: `(normalArgs, variadicArg, inputs)`. -/
def scanParams (variadic : Bool) : List PTy → Res (List PTy × Option PTy × Bool)
  | [] => .ok ([], none, false)
  | [p] =>
    if variadic then do
      let e ← elemOf p
      .ok ([], some e, false)
    else if p = .inputs then .ok ([], none, true)
    else .ok ([p], none, false)
  | p :: q :: rest => do
    let (ns, v, i) ← scanParams variadic (q :: rest)
    .ok (p :: ns, v, i)

/-- `if i < implType.NumIn() && implType.In(i) == p { …; i++ }`: whether the
first remaining parameter has type `p`, and the parameters after it. -/
def stripHead (p : PTy) : List PTy → Bool × List PTy
  | [] => (false, [])
  | q :: r => if q = p then (true, r) else (false, q :: r)

/-- `NewGoFn(name, impl)` for an `impl` with parameter types `sig`. -/
def newGoFn (sig : List PTy) (variadic : Bool) : Res GoFn :=
  let s1 := stripHead .frame sig
  let s2 := stripHead .rawOptions s1.2
  let s3 := stripHead .options s2.2      -- reflect.PointerTo(In(i)).Implements(optionsPtrType)
  if s3.1 && s2.1 then .panic "Function declares both RawOptions and Options parameters"
  else
    match scanParams variadic s3.2 with
    | .ok (ns, v, i) => .ok ⟨s1.1, s2.1, if s3.1 then some .options else none, i, ns, v⟩
    | .exc e => .exc e
    | .panic w => .panic w

/-- An argument value: its identity, which Go types `vals.ScanToGo` converts it
to, and `vals.CanIterate`. -/
structure Arg where
  id : Nat
  scans : PTy → Bool
  canIterate : Bool

/-- One element of the `in` vector handed to `reflect.Value.Call`. -/
inductive InVal where
  | frame | rawOpts | optsStruct
  | scanned (t : PTy) (arg : Nat)    -- reflect.New(t).Elem() filled from argument `arg`
  | inputsFrame                      -- f.IterateInputs
  | inputsArg (arg : Nat)            -- iteration over the last argument
  deriving DecidableEq, Repr

inductive CallErr where
  | arity (low high actual : Int)
  | noOptAccepted
  | badOption
  | wrongArgType (i : Nat)
  | cannotIterate
  deriving DecidableEq, Repr

abbrev CallRes := Res (Except CallErr (List InVal))

/-- The `for i, arg := range args` loop of `goFn.Call`. -/
def argLoop (b : GoFn) : Nat → List Arg → List InVal → CallRes
  | _, [], acc => .ok (.ok acc)
  | i, a :: rest, acc =>
    if i < b.normalArgs.length then
      match index b.normalArgs i with
      | .ok typ =>
        if a.scans typ then argLoop b (i + 1) rest (acc ++ [.scanned typ a.id])
        else .ok (.error (.wrongArgType i))
      | .exc e => .exc e
      | .panic w => .panic w
    else
      match b.variadicArg with
      | some typ =>
        if a.scans typ then argLoop b (i + 1) rest (acc ++ [.scanned typ a.id])
        else .ok (.error (.wrongArgType i))
      | none =>
        if b.inputs then .ok (.ok acc)   -- break
        else .panic "impossible"

/-- The arity check at the head of `goFn.Call`. -/
def goFnArityErr (b : GoFn) (nargs : Int) : Option CallErr :=
  let nnorm : Int := b.normalArgs.length
  if b.variadicArg.isSome then
    if nargs < nnorm then some (.arity nnorm (-1) nargs) else none
  else if b.inputs then
    if nargs ≠ nnorm ∧ nargs ≠ nnorm + 1 then some (.arity nnorm (nnorm + 1) nargs) else none
  else if nargs ≠ nnorm then some (.arity nnorm nnorm nargs) else none

/-- The part of `in` that does not depend on the arguments. -/
def prefixIns (b : GoFn) : List InVal :=
  (if b.frame then [.frame] else []) ++ (if b.rawOptions then [.rawOpts] else []) ++
    (if b.options.isSome then [.optsStruct] else [])

/-- `goFn.Call` up to `reflect.ValueOf(b.impl).Call(in)`: the exception it
returns, or `in`.  `nopts = len(opts)`, `optScanFails` = `scanOptions` fails. -/
def goFnCall (b : GoFn) (args : List Arg) (nopts : Nat) (optScanFails : Bool) : CallRes :=
  let nargs : Int := args.length
  let nnorm : Int := b.normalArgs.length
  match goFnArityErr b nargs with
  | some e => .ok (.error e)
  | none =>
    if !b.rawOptions && b.options.isNone && 0 < nopts then .ok (.error .noOptAccepted)
    else if b.options.isSome && optScanFails then .ok (.error .badOption)
    else
      match argLoop b 0 args (prefixIns b) with
      | .ok (.ok in2) =>
        if b.inputs then
          if nargs = nnorm then .ok (.ok (in2 ++ [.inputsFrame]))
          else
            match index args (nargs - 1) with
            | .ok it =>
              if it.canIterate then .ok (.ok (in2 ++ [.inputsArg it.id]))
              else .ok (.error .cannotIterate)
            | .exc e => .exc e
            | .panic w => .panic w
        else .ok (.ok in2)
      | r => r

/-- Is the value `x` assignable to a parameter of type `p`? -/
def assignable : InVal → PTy → Bool
  | .scanned t _, p => t == p
  | .frame, .frame => true
  | .rawOpts, .rawOptions => true
  | .optsStruct, .options => true
  | .inputsFrame, .inputs => true
  | .inputsArg _, .inputs => true
  | _, _ => false

/-- The precondition of `reflect.Value.Call(in)` on a function with parameter
types `sig`: without it `Call` panics ("too few/many input arguments", "using
value of type … as type …"). -/
def callOK (variadic : Bool) : List PTy → List InVal → Bool
  | [], ins => ins.isEmpty
  | [p], ins =>
    if variadic then
      match p with
      | .slice e => ins.all (assignable · e)
      | _ => false
    else
      match ins with
      | [x] => assignable x p
      | _ => false
  | p :: q :: ps, x :: xs => assignable x p && callOK variadic (q :: ps) xs
  | _ :: _ :: _, [] => false

/-! ## `Closure.Call` -/

/-- What a local slot holds after the call prologue. -/
inductive Slot where
  | unset                      -- nil vars.Var (never observable after a successful prologue)
  | val (v : Nat)              -- vars.FromInit(v)
  | list (vs : List Nat)       -- vars.FromInit(vals.MakeList(vs...))
  | fresh (k : Nat)            -- MakeVarFromName(newLocal[k].name)
  deriving DecidableEq, Repr

structure Closure where
  nArgs : Nat                  -- len(c.ArgNames)
  restArg : Int                -- c.RestArg
  optNames : List Nat          -- c.OptNames (names as numbers)
  optDefaults : List Nat       -- c.OptDefaults
  nNew : Nat                   -- len(c.newLocal)
  deriving Repr

inductive ClosErr where
  | arity (low high actual : Int)
  | unsupported (names : List Nat)     -- sorted
  deriving DecidableEq, Repr

def lookupOpt (opts : List (Nat × Nat)) (name : Nat) : Option Nat :=
  (opts.find? (·.1 == name)).map (·.2)

/-- Insertion into a sorted list (`sort.Strings`). -/
def insertSorted (x : Nat) : List Nat → List Nat
  | [] => [x]
  | y :: ys => if x ≤ y then x :: y :: ys else y :: insertSorted x ys

def sortNat (l : List Nat) : List Nat := l.foldr insertSorted []

/-- The arity check of `Closure.Call`. -/
def closArityErr (c : Closure) (nargs : Int) : Option ClosErr :=
  let n : Int := c.nArgs
  if c.restArg ≠ -1 then
    if nargs < n - 1 then some (.arity (n - 1) (-1) nargs) else none
  else if nargs ≠ n then some (.arity n n nargs) else none

/-- `local.slots[i] = vars.FromInit(args[i])` … for the positional parameters,
with the rest parameter (if any) taking `args[RestArg : RestArg+restOff+1]`. -/
def bindArgs (c : Closure) (args : List Nat) (slots0 : List Slot) : Res (List Slot) :=
  let nargs : Int := args.length
  let n : Int := c.nArgs
  if c.restArg = -1 then
    forLoop 0 n (fun i s => do
      let a ← index args i
      setIdx s i (.val a)) slots0
  else do
    let s ← forLoop 0 c.restArg (fun i s => do
      let a ← index args i
      setIdx s i (.val a)) slots0
    let restOff := nargs - n
    let rest ← slice args c.restArg (c.restArg + restOff + 1)
    let s ← setIdx s c.restArg (.list rest)
    forLoop (c.restArg + 1) n (fun i s => do
      let a ← index args (i + restOff)
      setIdx s i (.val a)) s

/-- `for i, name := range c.OptNames { v, ok := opts[name]; if !ok { v = c.OptDefaults[i] }; local.slots[offset+i] = … }` -/
def bindOpts (c : Closure) (opts : List (Nat × Nat)) (slots : List Slot) : Res (List Slot) :=
  forLoop 0 c.optNames.length (fun i s => do
    let name ← index c.optNames i
    let v ← match lookupOpt opts name with
      | some v => pure v
      | none => index c.optDefaults i
    setIdx s ((c.nArgs : Int) + i) (.val v)) slots

/-- `for i, info := range c.newLocal { local.slots[offset+i] = MakeVarFromName(info.name) }` -/
def bindNew (c : Closure) (slots : List Slot) : Res (List Slot) :=
  let off : Int := (c.nArgs : Int) + c.optNames.length
  forLoop 0 c.nNew (fun i s => setIdx s (off + i) (.fresh i.toNat)) slots

/-- `Closure.Call` up to `c.op.exec(fm)`: the exception, or the slots of the
new local namespace.  `opts` is a Go map (keys unique). -/
def closureCall (c : Closure) (args : List Nat) (opts : List (Nat × Nat)) :
    Res (Except ClosErr (List Slot)) :=
  match closArityErr c args.length with
  | some e => .ok (.error e)
  | none =>
    -- optSupported: the keys of opts found in c.OptNames (a map: no duplicates)
    let supported := (c.optNames.filter fun nm => (lookupOpt opts nm).isSome).eraseDups
    if supported.length < opts.length then
      .ok (.error (.unsupported (sortNat ((opts.map (·.1)).filter fun nm => !supported.contains nm))))
    else do
      let localSize := c.nArgs + c.optNames.length + c.nNew
      let slots0 : List Slot := List.replicate localSize .unset
      -- for i, name := range c.ArgNames { local.infos[i] = … }
      let _ ← forLoop 0 (c.nArgs : Int) (fun i (u : List Unit) => setIdx u i ()) (List.replicate localSize ())
      let slots1 ← bindArgs c args slots0
      let slots2 ← bindOpts c opts slots1
      let slots3 ← bindNew c slots2
      .ok (.ok slots3)

/-! ## `strutil.HasSubseq` -/

/-- `strings.IndexByte`-style search: first offset at which `p` holds. -/
def findOffset (n : Nat) (p : Nat → Bool) : Int :=
  match (List.range n).find? p with
  | some i => i
  | none => -1

def isPrefixAt (enc s : Bytes) (i : Nat) : Bool := (s.drop i).take enc.length == enc

/-- `strings.IndexRune(s, r)` for `r ≥ 0`. -/
def indexRune (s : Bytes) (r : Rune) : Int :=
  if r < 0x80 then findOffset s.length fun i => s[i]? == some (UInt8.ofNat r)
  else if r = RuneError then
    -- the first offset where ranging over s yields U+FFFD (an encoded U+FFFD
    -- or an invalid byte)
    match (runes s).find? (fun x => x.2.1 == RuneError) with
    | some x => x.1
    | none => -1
  else if !validRune r then -1
  else findOffset s.length (isPrefixAt (encodeRune r) s)

/-- The loop of `HasSubseq` over the runes of `t`; `fixed = false` is the code
as found (`s = s[i+len(string(p)):]`), `fixed = true` the repaired code
(`_, n := utf8.DecodeRuneInString(s[i:]); s = s[i+n:]`). -/
def hasSubseqLoop (fixed : Bool) : List Rune → Bytes → Res Bool
  | [], _ => .ok true
  | p :: ps, s =>
    let i := indexRune s p
    if i = -1 then .ok false
    else do
      let adv : Int ←
        if fixed then do
          let tail ← slice s i s.length
          pure ((decodeRune tail).2 : Int)
        else pure ((encodeRune p).length : Int)
      let s' ← slice s (i + adv) s.length
      hasSubseqLoop fixed ps s'

def hasSubseq (fixed : Bool) (s t : Bytes) : Res Bool := hasSubseqLoop fixed (toRunes t) s

end C17
