import ElvModel.Go.Driver
import ElvModel.C01.Model
namespace C01
open Go
open Gen.C01Chars

/-- canonical text column: `=` when the stored text is `src[from:to]`. -/
def textCol (src : Bytes) (n : Node) : String :=
  match slice src n.frm n.to with
  | .ok t => if t == n.text then "=" else hexEnc n.text
  | _ => hexEnc n.text

def b2s (b : Bool) : String := if b then "1" else "0"

def cnt (n : Node) (k : Kind) : Nat := (n.childrenOf k).length

/-- kind-specific semantic fields, as the Go side prints them from the struct
fields (`len(fn.Args)` …): here they are derived from the children. -/
def semCol (n : Node) : String :=
  let f := n.fields
  match n.kind with
  | .chunk => s!"pipelines={cnt n .pipeline}"
  | .pipeline => s!"bg={b2s f.flag},forms={cnt n .form}"
  | .form => s!"head={b2s (cnt n .compound > 0)},args={cnt n .compound - 1},opts={cnt n .mapPair},redirs={cnt n .redir}"
  | .redir => s!"mode={f.mode},fd={b2s f.flag},left={b2s f.hasLeft},right={b2s (cnt n .compound > (if f.hasLeft then 1 else 0))}"
  | .filter => s!"args={cnt n .compound},opts={cnt n .mapPair}"
  | .compound => s!"ctx={f.ctx},idx={cnt n .indexing}"
  | .indexing => s!"ctx={f.ctx},head={b2s (cnt n .primary > 0)},indices={cnt n .array}"
  | .array => s!"compounds={cnt n .compound}"
  | .primary =>
    let nc := cnt n .compound
    let br := f.ptype == Braced
    s!"ctx={f.ctx},type={f.ptype},value={hexEnc f.value},elems={if br then 0 else nc},pairs={cnt n .mapPair},braced={if br then nc else 0},chunk={b2s (cnt n .chunk > 0)}"
  | .mapPair => s!"key={b2s (cnt n .compound > 0)},value={b2s (cnt n .compound > 1)}"
  | .sep => "-"

mutual
def dumpNode (src : Bytes) : Node → String
  | .mk k a b t f cs =>
    let n : Node := .mk k a b t f cs
    "(" ++ k.name ++ " " ++ toString a ++ " " ++ toString b ++ " " ++ textCol src n ++ " " ++ semCol n
      ++ dumpList src cs ++ ")"
def dumpList (src : Bytes) : List Node → String
  | [] => ""
  | c :: cs => " " ++ dumpNode src c ++ dumpList src cs
end

def dumpMsg : Msg → String
  | .unexpectedRune r => s!"U{r}"
  | m => hexEnc (strBytes m.text)

def dumpErr (e : PErr) : String := s!"{e.frm}:{e.to}:{b2s e.partial_}:{dumpMsg e.msg}"

def parseNTName (kind : String) (ctx : Int) : Option NT :=
  match kind with
  | "Chunk" => some .chunk
  | "Pipeline" => some .pipeline
  | "Form" => some .form
  | "Redir" => some (.redir none)
  | "Filter" => some .filter
  | "Compound" => some (.compound ctx)
  | "Indexing" => some (.indexing ctx)
  | "Array" => some .array
  | "Primary" => some (.primary ctx)
  | "MapPair" => some .mapPair
  | _ => none

def parseIntList (s : String) : Option (List Int) :=
  if s = "-" then some [] else (s.splitOn ",").mapM String.toInt?

/-- op: `parse <Kind> <ctx> <hex src> <printable non-ASCII code points, comma separated | ->`
→ `OK <tree> E <errors…>` | `PANIC` | `FUEL` -/
def stepLine : List String → String
  | ["parse", kind, sctx, hsrc, sprint] =>
    match sctx.toInt?, hexDecode hsrc, parseIntList sprint with
    | some ctx, some src, some printable =>
      match parseNTName kind ctx with
      | some nt =>
        match parseAs (fun r => printable.contains r) nt src with
        | .ok t errs => "OK " ++ dumpNode src t ++ " E" ++ String.join (errs.map fun e => " " ++ dumpErr e)
        | .panic _ => "PANIC"
        | .fuel => "FUEL"
      | none => "bad-op"
    | _, _, _ => "bad-op"
  | _ => "bad-op"

def driver : Driver := Driver.pure stepLine
end C01
