/-
C01 model: the hand-written recursive-descent parser of elvish,
`pkg/parse/parser.go` + `pkg/parse/parse.go` + `pkg/parse/node.go`,
function for function, over byte strings.

* Source text is `Go.Bytes`; runes come from the Go-faithful `decodeRune` /
  `decodeLastRune`; `eof` is the rune `-1`, so runes are `Int` here.
* The parser state is `St = {pos, overEOF, errors}`; the source and
  `unicode.IsPrint` live in the read-only `Env`.
* Every Go partial operation is explicit: slices go through `Go.slice`, a
  negative position or an out-of-range error range is a `panic` outcome.
* Recursion between grammar functions is by fuel (`parseNT`), loops inside a
  grammar function have their own iteration bound; running out of either is
  the outcome `Out.fuel`, which the driver prints as `FUEL`.
* A node records the text the Go wrapper actually stored (`text`) next to its
  range, so "text = src[from:to]" is a theorem, not a definition.

Character classes, the enums and the escape table are regenerated from the
Go source (`ElvModel/Generated/C01Chars.lean`).
-/
import ElvModel.Go.Utf8
import ElvModel.Generated.C01Chars
namespace C01
open Go
open Gen.C01Chars

/-! ## Trees -/

/-- The Go node types of `pkg/parse/parse.go`. -/
inductive Kind where
  | chunk | pipeline | form | redir | filter | compound | indexing | array
  | primary | mapPair | sep
  deriving DecidableEq, Repr, Inhabited

def Kind.name : Kind → String
  | .chunk => "Chunk" | .pipeline => "Pipeline" | .form => "Form" | .redir => "Redir"
  | .filter => "Filter" | .compound => "Compound" | .indexing => "Indexing"
  | .array => "Array" | .primary => "Primary" | .mapPair => "MapPair" | .sep => "Sep"

/-- The exported non-structural fields of the Go node structs (the structural
ones — `Head`, `Args`, `Indexings`, … — are the children of the matching kind,
see the accessors below). -/
structure Fields where
  /-- `ExprCtx` of `Compound`, `Indexing`, `Primary`. -/
  ctx : Int := 0
  /-- `Primary.Type`. -/
  ptype : Int := 0
  /-- `Primary.Value`. -/
  value : Bytes := []
  /-- `Redir.Mode`. -/
  mode : Int := 0
  /-- `Pipeline.Background` / `Redir.RightIsFd`. -/
  flag : Bool := false
  /-- `Redir.Left != nil`. -/
  hasLeft : Bool := false
  /-- `Primary`: a lone `&` was seen in `[&]` (local `loneAmpersand`; kept so
  that `Type` can be computed where the code computes it). -/
  lone : Bool := false
  deriving DecidableEq, Repr, Inhabited

/-- One generic tree type for all node kinds.  `frm`/`to` are
`node.Ranging.From/To`, `text` is `node.sourceText`, `children` is
`node.children` (parent links are implicit in the tree). -/
inductive Node where
  | mk (kind : Kind) (frm to : Nat) (text : Bytes) (f : Fields) (children : List Node)
  deriving Repr, Inhabited

namespace Node
def kind : Node → Kind | mk k _ _ _ _ _ => k
def frm : Node → Nat | mk _ a _ _ _ _ => a
def to : Node → Nat | mk _ _ b _ _ _ => b
def text : Node → Bytes | mk _ _ _ t _ _ => t
def fields : Node → Fields | mk _ _ _ _ f _ => f
def children : Node → List Node | mk _ _ _ _ _ c => c

/-- Children of a given kind, in order: `Chunk.Pipelines`, `Pipeline.Forms`,
`Form.Opts`/`Redirs`, `Compound.Indexings`, `Indexing.Indices`,
`Array.Compounds`, `Primary.MapPairs`, … -/
def childrenOf (n : Node) (k : Kind) : List Node := n.children.filter (·.kind == k)
def ctx (n : Node) : Int := n.fields.ctx
def ptype (n : Node) : Int := n.fields.ptype
def value (n : Node) : Bytes := n.fields.value
end Node

/-! ## Errors -/

/-- The parse errors of `parse.go` (`err…` variables) and `parser.done`. -/
inductive Msg where
  | shouldBeForm | badRedirSign | shouldBeFD | shouldBeFilename | shouldBeArray
  | stringUnterminated | invalidEscape | invalidEscapeOct | invalidEscapeOctOverflow
  | invalidEscapeHex | invalidEscapeControl | shouldBePrimary | shouldBeVariableName
  | shouldBeRBracket | shouldBeRBrace | shouldBeBraceSepOrRBracket | shouldBeRParen
  | shouldBeCompound | shouldBePipe | bothElementsAndPairs | shouldBeNewline
  | unexpectedRune (r : Int)
  deriving DecidableEq, Repr, Inhabited

/-- The message text built by `newError`. -/
def Msg.text : Msg → String
  | .shouldBeForm => "should be form"
  | .badRedirSign => "bad redir sign, should be '<', '>', '>>' or '<>'"
  | .shouldBeFD => "should be a composite term representing fd"
  | .shouldBeFilename => "should be a composite term representing filename"
  | .shouldBeArray => "should be spaced"
  | .stringUnterminated => "string not terminated"
  | .invalidEscape => "invalid escape sequence"
  | .invalidEscapeOct => "invalid escape sequence, should be octal digit"
  | .invalidEscapeOctOverflow => "invalid octal escape sequence, should be below 256"
  | .invalidEscapeHex => "invalid escape sequence, should be hex digit"
  | .invalidEscapeControl => "invalid control sequence, should be a codepoint between 0x3F and 0x5F"
  | .shouldBePrimary => "should be single-quoted string, double-quoted string or bareword"
  | .shouldBeVariableName => "should be variable name"
  | .shouldBeRBracket => "should be ']'"
  | .shouldBeRBrace => "should be '}'"
  | .shouldBeBraceSepOrRBracket => "should be ',' or '}'"
  | .shouldBeRParen => "should be ')'"
  | .shouldBeCompound => "should be compound"
  | .shouldBePipe => "should be '|'"
  | .bothElementsAndPairs => "cannot contain both list elements and map pairs"
  | .shouldBeNewline => "should be newline"
  | .unexpectedRune r => s!"unexpected rune {r}"

/-- `diag.Error[ErrorTag]` restricted to what C01/C02 speak about: the range
of `Context`, `Partial`, and the message. -/
structure PErr where
  frm : Nat
  to : Nat
  partial_ : Bool
  msg : Msg
  deriving DecidableEq, Repr, Inhabited

/-! ## Parser state and monad -/

/-- Read-only part of `parser`: `src` and the library predicate. -/
structure Env where
  isPrint : Int → Bool
  src : Bytes

/-- Mutable part of `parser`: `pos`, `overEOF`, `errors`. -/
structure St where
  pos : Nat
  overEOF : Nat
  errors : List PErr
  deriving Repr, Inhabited

inductive Out (α : Type) where
  | ok (a : α) (s : St)
  | panic (why : String)
  | fuel
  deriving Inhabited

/-- Parser actions. -/
def M (α : Type) : Type := Env → St → Out α

@[inline] def M.pure {α} (a : α) : M α := fun _ s => .ok a s
@[inline] def M.bind {α β} (m : M α) (f : α → M β) : M β := fun e s =>
  match m e s with
  | .ok a s' => f a e s'
  | .panic w => .panic w
  | .fuel => .fuel
instance : Monad M where
  pure := M.pure
  bind := M.bind

def panic {α} (why : String) : M α := fun _ _ => .panic why
def outOfFuel {α} : M α := fun _ _ => .fuel
def getPos : M Nat := fun _ s => .ok s.pos s
def getEnv : M Env := fun e s => .ok e s
/-- Iteration bound handed to every loop: each iteration that continues
consumes at least one byte, so `len + 2` is never reached (theorem). -/
def loopFuel : M Nat := fun e s => .ok (e.src.length + 2) s

/-- `ps.src[a:b]` -/
def sliceSrc (a b : Nat) : M Bytes := fun e s =>
  match slice e.src a b with
  | .ok t => .ok t s
  | .exc w => .panic w
  | .panic w => .panic w

/-- `ps.src[ps.pos:]` (panics if `pos > len`). -/
def restSrc : M Bytes := fun e s =>
  if s.pos ≤ e.src.length then .ok (e.src.drop s.pos) s else .panic "slice bounds out of range"

/-- `(*parser).peek` -/
def peek : M Int := fun e s =>
  if s.pos = e.src.length then .ok eof s
  else if s.pos ≤ e.src.length then .ok ((decodeRune (e.src.drop s.pos)).1 : Nat) s
  else .panic "slice bounds out of range"

/-- `(*parser).hasPrefix` -/
def hasPrefix (p : Bytes) : M Bool := fun e s =>
  if s.pos ≤ e.src.length then .ok (p.isPrefixOf (e.src.drop s.pos)) s
  else .panic "slice bounds out of range"

/-- `(*parser).next` -/
def next : M Int := fun e s =>
  if s.pos = e.src.length then .ok eof { s with overEOF := s.overEOF + 1 }
  else if s.pos ≤ e.src.length then
    let rn := decodeRune (e.src.drop s.pos)
    .ok (rn.1 : Nat) { s with pos := s.pos + rn.2 }
  else .panic "slice bounds out of range"

/-- `(*parser).backup`.  A position that would become negative is reported as
a panic here: in Go every later use of `pos` slices `src` and panics. -/
def backup : M Unit := fun e s =>
  if s.overEOF > 0 then .ok () { s with overEOF := s.overEOF - 1 }
  else if s.pos ≤ e.src.length then
    let n := (decodeLastRune (e.src.take s.pos)).2
    if n ≤ s.pos then .ok () { s with pos := s.pos - n } else .panic "negative position"
  else .panic "slice bounds out of range"

/-- `(*parser).errorp`: `diag.NewContext` slices the source with the range, so
a range outside `0 ≤ from ≤ to ≤ len` panics. -/
def errorp (a b : Nat) (m : Msg) : M Unit := fun e s =>
  if a ≤ b ∧ b ≤ e.src.length then
    .ok () { s with errors := s.errors ++ [{ frm := a, to := b, partial_ := a == e.src.length, msg := m }] }
  else .panic "slice bounds out of range"

/-- `(*parser).error` -/
def error (m : Msg) : M Unit := fun e s =>
  let b := if s.pos < e.src.length then s.pos + 1 else s.pos
  errorp s.pos b m e s

/-- `(*parser).done` -/
def done : M Unit := fun e s =>
  if s.pos ≠ e.src.length then
    if s.pos ≤ e.src.length then
      error (.unexpectedRune ((decodeRune (e.src.drop s.pos)).1 : Nat)) e s
    else .panic "slice bounds out of range"
  else .ok () s

/-! ## Nodes under construction -/

/-- A Go node while its `parse` method runs: `From`, the fields set so far and
the children added so far. -/
structure NB where
  frm : Nat
  f : Fields
  children : List Node
  deriving Inhabited

/-- `addChild(n, ch)` -/
def NB.add (nb : NB) (ch : Node) : NB := { nb with children := nb.children ++ [ch] }

/-- `begin` of `addSep`: the end of the last child, or the node's `From`. -/
def NB.lastTo (nb : NB) : Nat :=
  match nb.children.getLast? with
  | some c => c.to
  | none => nb.frm

/-- `addSep` (with `NewSep`). -/
def addSep (nb : NB) : M NB := do
  let begin := nb.lastTo
  let pos ← getPos
  if begin < pos then
    let t ← sliceSrc begin pos
    pure (nb.add (.mk .sep begin pos t {} []))
  else pure nb

/-- `parseSep` -/
def parseSep (nb : NB) (sep : Int) : M (Bool × NB) := do
  let r ← peek
  if r == sep then
    let _ ← next
    let nb ← addSep nb
    pure (true, nb)
  else pure (false, nb)

/-- the comment loop of `parseSpacesInner` -/
def commentLoop : Nat → M Unit
  | 0 => outOfFuel
  | n + 1 => do
    let r ← peek
    if r == eof || r == 13 || r == 10 then pure ()
    else
      let _ ← next
      commentLoop n

/-- the `spaces:` loop of `parseSpacesInner` -/
def spacesLoop (newlines : Bool) : Nat → M Unit
  | 0 => outOfFuel
  | n + 1 => do
    let r ← peek
    if IsInlineWhitespace r then
      let _ ← next
      spacesLoop newlines n
    else if newlines && IsWhitespace r then
      let _ ← next
      spacesLoop newlines n
    else if r == 35 /- # -/ then
      let _ ← next
      let k ← loopFuel
      commentLoop k
      spacesLoop newlines n
    else if r == 94 /- ^ -/ then
      let _ ← next
      let r2 ← peek
      if r2 == 13 then
        let _ ← next
        let r3 ← peek
        if r3 == 10 then
          let _ ← next
          spacesLoop newlines n
        else spacesLoop newlines n
      else if r2 == 10 then
        let _ ← next
        spacesLoop newlines n
      else if r2 == eof then
        error .shouldBeNewline
        spacesLoop newlines n
      else
        backup
        pure ()
    else pure ()

/-- `parseSpacesInner` -/
def parseSpacesInner (nb : NB) (newlines : Bool) : M NB := do
  let k ← loopFuel
  spacesLoop newlines k
  addSep nb

def parseSpaces (nb : NB) : M NB := parseSpacesInner nb false
def parseSpacesAndNewlines (nb : NB) : M NB := parseSpacesInner nb true

/-! ## Leaf parts of `Primary` -/

/-- `int32` wrap-around (`rr = rr*16 + d` on a `rune`). -/
def wrap32 (x : Int) : Int := (x + 2147483648) % 4294967296 - 2147483648

/-- `byte(r)` for a rune. -/
def byteOf (r : Int) : UInt8 := UInt8.ofNat (r % 256).toNat

/-- `bytes.Buffer.WriteRune(r)`: negative and out-of-range runes are written as
U+FFFD. -/
def writeRune (r : Int) : Bytes :=
  if r < 0 then encodeRune RuneError else encodeRune r.toNat

/-- loop of `singleQuotedInner`; returns the buffer. -/
def singleQuotedLoop : Nat → Bytes → M Bytes
  | 0, _ => outOfFuel
  | n + 1, buf => do
    let r ← next
    if r == eof then
      error .stringUnterminated
      pure buf
    else if r == 39 /- ' -/ then
      let r2 ← peek
      if r2 == 39 then
        let _ ← next
        singleQuotedLoop n (buf ++ [39])
      else pure buf
    else singleQuotedLoop n (buf ++ writeRune r)

/-- `singleQuotedInner`: the value. -/
def singleQuotedInner : M Bytes := do
  let k ← loopFuel
  singleQuotedLoop k []

/-- the hex-digit loop of a `\x`, `\u`, `\U` escape: `n` digits to go. -/
def hexLoop : Nat → Int → M Int
  | 0, rr => pure rr
  | n + 1, rr => do
    let r ← next
    let dk := hexToDigit r
    if !dk.2 then
      backup
      error .invalidEscapeHex
      pure rr
    else hexLoop n (wrap32 (rr * 16 + dk.1))

/-- the two further digits of an octal escape. -/
def octLoop : Nat → Int → M Int
  | 0, rr => pure rr
  | n + 1, rr => do
    let r ← next
    if r < 48 || r > 55 then
      backup
      error .invalidEscapeOct
      pure rr
    else octLoop n (rr * 8 + (r - 48))

/-- one escape sequence of `doubleQuotedInner`, after the backslash; returns
the bytes appended to the buffer. -/
def doubleQuotedEscape : M Bytes := do
  let r ← next
  if r == 99 /- c -/ || r == 94 /- ^ -/ then
    let r ← next
    (if r < 0x3F || r > 0x5F then do
      backup
      error .invalidEscapeControl
      let _ ← next
      pure ()
    else pure ())
    if byteOf r == 63 /- ? -/ then pure [0x7F]
    else pure [byteOf (r - 0x40)]
  else if r == 120 /- x -/ || r == 117 /- u -/ || r == 85 /- U -/ then
    let n : Nat := if r == 120 then 2 else if r == 117 then 4 else 8
    let rr ← hexLoop n 0
    if r == 120 then pure [byteOf rr] else pure (writeRune rr)
  else if 48 ≤ r && r ≤ 55 then
    let rr ← octLoop 2 (r - 48)
    if rr ≤ 255 then pure [byteOf rr]
    else
      let pos ← getPos
      if 4 ≤ pos then
        errorp (pos - 4) pos .invalidEscapeOctOverflow
        pure []
      else panic "negative error position"
  else
    match doubleEscape.lookup r with
    | some rr => pure (writeRune rr)
    | none =>
      backup
      error .invalidEscape
      let _ ← next
      pure []

/-- loop of `doubleQuotedInner`. -/
def doubleQuotedLoop : Nat → Bytes → M Bytes
  | 0, _ => outOfFuel
  | n + 1, buf => do
    let r ← next
    if r == eof then
      error .stringUnterminated
      pure buf
    else if r == 34 /- " -/ then pure buf
    else if r == 92 /- \ -/ then
      let b ← doubleQuotedEscape
      doubleQuotedLoop n (buf ++ b)
    else doubleQuotedLoop n (buf ++ writeRune r)

def doubleQuotedInner : M Bytes := do
  let k ← loopFuel
  doubleQuotedLoop k []

/-- `for pred(ps.peek()) { ps.next() }` -/
def skipWhile (p : Int → Bool) : Nat → M Unit
  | 0 => outOfFuel
  | n + 1 => do
    let r ← peek
    if p r then
      let _ ← next
      skipWhile p n
    else pure ()

def NB.setType (nb : NB) (t : Int) : NB := { nb with f := { nb.f with ptype := t } }
def NB.setValue (nb : NB) (v : Bytes) : NB := { nb with f := { nb.f with value := v } }

/-- `(*Primary).bareword` -/
def bareword (nb : NB) : M NB := do
  let env ← getEnv
  let nb := nb.setType Bareword
  let k ← loopFuel
  skipWhile (fun r => allowedInBareword env.isPrint r nb.f.ctx) k
  let pos ← getPos
  let v ← sliceSrc nb.frm pos
  pure (nb.setValue v)

/-- `(*Primary).singleQuoted` -/
def singleQuoted (nb : NB) : M NB := do
  let nb := nb.setType SingleQuoted
  let _ ← next
  let v ← singleQuotedInner
  pure (nb.setValue v)

/-- `(*Primary).doubleQuoted` -/
def doubleQuoted (nb : NB) : M NB := do
  let nb := nb.setType DoubleQuoted
  let _ ← next
  let v ← doubleQuotedInner
  pure (nb.setValue v)

/-- `(*Primary).variable` -/
def variableP (nb : NB) : M NB := do
  let env ← getEnv
  let nb := nb.setType Variable
  let _ ← next
  let r ← next
  if r == eof then
    backup
    error .shouldBeVariableName
    let _ ← next
    pure nb
  else if r == 39 then
    let v ← singleQuotedInner
    pure (nb.setValue v)
  else if r == 34 then
    let v ← doubleQuotedInner
    pure (nb.setValue v)
  else
    (if !allowedInVariableName env.isPrint r && r != 64 /- @ -/ then do
      backup
      error .shouldBeVariableName
    else pure ())
    let k ← loopFuel
    skipWhile (allowedInVariableName env.isPrint) k
    let pos ← getPos
    let v ← sliceSrc (nb.frm + 1) pos
    pure (nb.setValue v)

/-- `(*Primary).starWildcard` -/
def starWildcard (nb : NB) : M NB := do
  let nb := nb.setType Wildcard
  let k ← loopFuel
  skipWhile (fun r => r == 42) k
  let pos ← getPos
  let v ← sliceSrc nb.frm pos
  pure (nb.setValue v)

/-- `(*Primary).questionWildcard` -/
def questionWildcard (nb : NB) : M NB := do
  let nb := nb.setType Wildcard
  let r ← peek
  (if r == 63 then do let _ ← next; pure () else pure ())
  let pos ← getPos
  let v ← sliceSrc nb.frm pos
  pure (nb.setValue v)

/-! ## Grammar functions (open recursion over the nonterminals) -/

/-- What `parse(ps, &T{…})` is called with. -/
inductive NT where
  | chunk | pipeline | form
  | redir (left : Option Node)
  | filter
  | compound (ctx : Int)
  | indexing (ctx : Int)
  | array
  | primary (ctx : Int)
  | mapPair
  deriving Inhabited

def NT.kind : NT → Kind
  | .chunk => .chunk | .pipeline => .pipeline | .form => .form | .redir _ => .redir
  | .filter => .filter | .compound _ => .compound | .indexing _ => .indexing
  | .array => .array | .primary _ => .primary | .mapPair => .mapPair

/-- The fields the struct literal passed to `parse` starts with. -/
def NT.init : NT → Fields
  | .compound c => { ctx := c }
  | .indexing c => { ctx := c }
  | .primary c => { ctx := c }
  | .redir (some _) => { hasLeft := true }
  | _ => {}

section Grammar
variable (rec : NT → M Node)

/-- loop of `(*Chunk).parseSeps`; `k` counts pipeline separators. -/
def parseSepsLoop : Nat → Nat → NB → M (Nat × NB)
  | 0, _, _ => outOfFuel
  | n + 1, k, nb => do
    let r ← peek
    if isPipelineSep r then
      let (_, nb) ← parseSep nb r
      parseSepsLoop n (k + 1) nb
    else if IsInlineWhitespace r || r == 35 then
      let nb ← parseSpaces nb
      parseSepsLoop n k nb
    else pure (k, nb)

/-- `(*Chunk).parseSeps` -/
def parseSeps (nb : NB) : M (Nat × NB) := do
  let k ← loopFuel
  parseSepsLoop k 0 nb

def chunkLoop : Nat → NB → M NB
  | 0, _ => outOfFuel
  | n + 1, nb => do
    let env ← getEnv
    let r ← peek
    if startsPipeline env.isPrint r then
      let p ← rec .pipeline
      let nb := nb.add p
      let (k, nb) ← parseSeps nb
      if k == 0 then pure nb else chunkLoop n nb
    else pure nb

/-- `(*Chunk).parse` -/
def chunkBody (nb : NB) : M NB := do
  let (_, nb) ← parseSeps nb
  let k ← loopFuel
  chunkLoop rec k nb

/-- the `for parseSep(pn, ps, '|')` loop of `(*Pipeline).parse`; the flag says
the function returned from inside the loop. -/
def pipelineLoop : Nat → NB → M (Bool × NB)
  | 0, _ => outOfFuel
  | n + 1, nb => do
    let env ← getEnv
    let (ok, nb) ← parseSep nb 124 /- | -/
    if ok then
      let nb ← parseSpacesAndNewlines nb
      let r ← peek
      if !startsForm env.isPrint r then
        error .shouldBeForm
        pure (true, nb)
      else
        let f ← rec .form
        pipelineLoop n (nb.add f)
    else pure (false, nb)

/-- `(*Pipeline).parse` -/
def pipelineBody (nb : NB) : M NB := do
  let f ← rec .form
  let nb := nb.add f
  let k ← loopFuel
  let (returned, nb) ← pipelineLoop rec k nb
  if returned then pure nb
  else
    let nb ← parseSpaces nb
    let r ← peek
    if r == 38 /- & -/ then
      let _ ← next
      let nb ← addSep nb
      let nb := { nb with f := { nb.f with flag := true } }
      parseSpaces nb
    else pure nb

def formLoop : Nat → NB → M NB
  | 0, _ => outOfFuel
  | n + 1, nb => do
    let env ← getEnv
    let r ← peek
    if r == 38 /- & -/ then
      let _ ← next
      let r2 ← peek
      let hasMapPair := startsCompound env.isPrint r2 LHSExpr
      backup
      if !hasMapPair then pure nb
      else
        let mp ← rec .mapPair
        let nb ← parseSpaces (nb.add mp)
        formLoop n nb
    else if startsCompound env.isPrint r NormalExpr then
      let cn ← rec (.compound NormalExpr)
      let r ← peek
      if isRedirSign r then
        let rd ← rec (.redir (some cn))
        let nb ← parseSpaces (nb.add rd)
        formLoop n nb
      else
        let nb ← parseSpaces (nb.add cn)
        formLoop n nb
    else if isRedirSign r then
      let rd ← rec (.redir none)
      let nb ← parseSpaces (nb.add rd)
      formLoop n nb
    else pure nb

/-- `(*Form).parse` -/
def formBody (nb : NB) : M NB := do
  let head ← rec (.compound CmdExpr)
  let nb ← parseSpaces (nb.add head)
  let k ← loopFuel
  formLoop rec k nb

/-- `Redir.Mode` from the sign text. -/
def redirMode (sign : Bytes) : Option Int :=
  if sign == [60] then some Read
  else if sign == [62] then some Write
  else if sign == [62, 62] then some Append
  else if sign == [60, 62] then some ReadWrite
  else none

/-- start of `(*Redir).parse`: `addChild(rn, rn.Left); rn.From = rn.Left.From`. -/
def attachLeft (left : Option Node) (nb : NB) : NB :=
  match left with
  | some l => { (nb.add l) with frm := l.frm }
  | none => nb

/-- the `switch sign` of `(*Redir).parse` -/
def setMode (nb : NB) (sign : Bytes) : M NB :=
  match redirMode sign with
  | some m => pure { nb with f := { nb.f with mode := m } }
  | none => do
    error .badRedirSign
    pure nb

/-- `(*Redir).parse` after the left operand was attached -/
def redirRest (nb : NB) : M NB := do
  let begin ← getPos
  let k ← loopFuel
  skipWhile isRedirSign k
  let pos ← getPos
  let sign ← sliceSrc begin pos
  let nb ← setMode nb sign
  let nb ← addSep nb
  let nb ← parseSpaces nb
  let (isFd, nb) ← parseSep nb 38
  let nb : NB := if isFd then { nb with f := { nb.f with flag := true } } else nb
  let right ← rec (.compound NormalExpr)
  let nb := nb.add right
  if right.children.isEmpty then
    (if nb.f.flag then error .shouldBeFD else error .shouldBeFilename)
    pure nb
  else pure nb

/-- `(*Redir).parse` -/
def redirBody (left : Option Node) (nb : NB) : M NB :=
  redirRest rec (attachLeft left nb)

def filterLoop : Nat → NB → M NB
  | 0, _ => outOfFuel
  | n + 1, nb => do
    let env ← getEnv
    let r ← peek
    if r == 38 then
      let mp ← rec .mapPair
      let nb ← parseSpaces (nb.add mp)
      filterLoop n nb
    else if startsCompound env.isPrint r NormalExpr then
      let c ← rec (.compound NormalExpr)
      let nb ← parseSpaces (nb.add c)
      filterLoop n nb
    else pure nb

/-- `(*Filter).parse` -/
def filterBody (nb : NB) : M NB := do
  let nb ← parseSpaces nb
  let k ← loopFuel
  filterLoop rec k nb

/-- `(*Compound).tilde` -/
def tilde (nb : NB) : M NB := do
  let r ← peek
  if r == 126 /- ~ -/ then
    let _ ← next
    let pos ← getPos
    if 1 ≤ pos then
      let pn : Node := .mk .primary (pos - 1) pos [126] { ptype := Tilde, value := [126] } []
      let inn : Node := .mk .indexing (pos - 1) pos [126] {} [pn]
      pure (nb.add inn)
    else panic "negative position"
  else pure nb

def compoundLoop (ctx : Int) : Nat → NB → M NB
  | 0, _ => outOfFuel
  | n + 1, nb => do
    let env ← getEnv
    let r ← peek
    if startsIndexing env.isPrint r ctx then
      let i ← rec (.indexing ctx)
      compoundLoop ctx n (nb.add i)
    else pure nb

/-- `(*Compound).parse` -/
def compoundBody (nb : NB) : M NB := do
  let nb ← tilde nb
  let k ← loopFuel
  compoundLoop rec nb.f.ctx k nb

def indexingLoop : Nat → NB → M NB
  | 0, _ => outOfFuel
  | n + 1, nb => do
    let env ← getEnv
    let (ok, nb) ← parseSep nb 91 /- [ -/
    if ok then
      let r ← peek
      (if !startsArray env.isPrint r && r != 93 then error .shouldBeArray else pure ())
      let a ← rec .array
      let nb := nb.add a
      let (ok, nb) ← parseSep nb 93 /- ] -/
      if !ok then
        error .shouldBeRBracket
        pure nb
      else indexingLoop n nb
    else pure nb

/-- `(*Indexing).parse` -/
def indexingBody (nb : NB) : M NB := do
  let head ← rec (.primary nb.f.ctx)
  let k ← loopFuel
  indexingLoop rec k (nb.add head)

def arrayLoop : Nat → NB → M NB
  | 0, _ => outOfFuel
  | n + 1, nb => do
    let env ← getEnv
    let r ← peek
    if startsCompound env.isPrint r NormalExpr then
      let c ← rec (.compound NormalExpr)
      let nb ← parseSpacesAndNewlines (nb.add c)
      arrayLoop n nb
    else pure nb

/-- `(*Array).parse` -/
def arrayBody (nb : NB) : M NB := do
  let nb ← parseSpacesAndNewlines nb
  let k ← loopFuel
  arrayLoop rec k nb

/-- `(*Primary).exitusCapture` -/
def exitusCapture (nb : NB) : M NB := do
  let _ ← next
  let _ ← next
  let nb ← addSep nb
  let nb := nb.setType ExceptionCapture
  let c ← rec .chunk
  let nb := nb.add c
  let (ok, nb) ← parseSep nb 41 /- ) -/
  if !ok then
    error .shouldBeRParen
    pure nb
  else pure nb

/-- `(*Primary).outputCapture` -/
def outputCapture (nb : NB) : M NB := do
  let nb := nb.setType OutputCapture
  let (_, nb) ← parseSep nb 40 /- ( -/
  let c ← rec .chunk
  let nb := nb.add c
  let (ok, nb) ← parseSep nb 41
  if !ok then
    error .shouldBeRParen
    pure nb
  else pure nb

/-- number of `Compound` children: `len(pn.Elements)` (or `Braced`). -/
def NB.count (nb : NB) (k : Kind) : Nat := (nb.children.filter (·.kind == k)).length

/-- the `items:` loop of `(*Primary).lbracket`. -/
def lbracketLoop : Nat → NB → M NB
  | 0, _ => outOfFuel
  | n + 1, nb => do
    let env ← getEnv
    let r ← peek
    if r == 38 then
      let _ ← next
      let r2 ← peek
      let hasMapPair := startsCompound env.isPrint r2 LHSExpr
      if !hasMapPair then
        let nb : NB := { nb with f := { nb.f with lone := true } }
        let nb ← addSep nb
        parseSpacesAndNewlines nb
      else
        backup
        let mp ← rec .mapPair
        let nb ← parseSpacesAndNewlines (nb.add mp)
        lbracketLoop n nb
    else if startsCompound env.isPrint r NormalExpr then
      let c ← rec (.compound NormalExpr)
      let nb ← parseSpacesAndNewlines (nb.add c)
      lbracketLoop n nb
    else pure nb

/-- `(*Primary).lbracket` -/
def lbracket (nb : NB) : M NB := do
  let (_, nb) ← parseSep nb 91
  let nb ← parseSpacesAndNewlines nb
  let k ← loopFuel
  let nb ← lbracketLoop rec k nb
  let (ok, nb) ← parseSep nb 93
  (if !ok then error .shouldBeRBracket else pure ())
  if nb.f.lone || nb.count .mapPair > 0 then
    (if nb.count .compound > 0 then error .bothElementsAndPairs else pure ())
    pure (nb.setType MapPrimary)
  else pure (nb.setType ListPrimary)

/-- the `items:` loop of `(*Primary).lambda`. -/
def lambdaLoop : Nat → NB → M NB
  | 0, _ => outOfFuel
  | n + 1, nb => do
    let env ← getEnv
    let r ← peek
    if r == 38 then
      let mp ← rec .mapPair
      let nb ← parseSpacesAndNewlines (nb.add mp)
      lambdaLoop n nb
    else if startsCompound env.isPrint r NormalExpr then
      let c ← rec (.compound NormalExpr)
      let nb ← parseSpacesAndNewlines (nb.add c)
      lambdaLoop n nb
    else pure nb

/-- `(*Primary).lambda` -/
def lambda (nb : NB) : M NB := do
  let nb := nb.setType Lambda
  let nb ← parseSpacesAndNewlines nb
  let (ok, nb) ← parseSep nb 124
  let nb ← (if ok then do
      let nb ← parseSpacesAndNewlines nb
      let k ← loopFuel
      let nb ← lambdaLoop rec k nb
      let (ok, nb) ← parseSep nb 124
      (if !ok then error .shouldBePipe else pure ())
      pure nb
    else pure nb)
  let c ← rec .chunk
  let nb := nb.add c
  let (ok, nb) ← parseSep nb 125 /- } -/
  if !ok then
    error .shouldBeRBrace
    pure nb
  else pure nb

def bracedLoop : Nat → NB → M NB
  | 0, _ => outOfFuel
  | n + 1, nb => do
    let r ← peek
    if isBracedSep r then
      let nb ← parseSpacesAndNewlines nb
      let (_, nb) ← parseSep nb 44 /- , -/
      let nb ← parseSpacesAndNewlines nb
      let c ← rec (.compound BracedElemExpr)
      bracedLoop n (nb.add c)
    else pure nb

/-- `(*Primary).lbrace` -/
def lbrace (nb : NB) : M NB := do
  let (_, nb) ← parseSep nb 123 /- { -/
  let r ← peek
  if r == 59 || r == 13 || r == 10 || r == 124 || IsInlineWhitespace r then
    lambda rec nb
  else
    let nb := nb.setType Braced
    let c ← rec (.compound BracedElemExpr)
    let k ← loopFuel
    let nb ← bracedLoop rec k (nb.add c)
    let (ok, nb) ← parseSep nb 125
    if !ok then
      error .shouldBeBraceSepOrRBracket
      pure nb
    else pure nb

/-- `(*Primary).parse` -/
def primaryBody (nb : NB) : M NB := do
  let env ← getEnv
  let r ← peek
  if !startsPrimary env.isPrint r nb.f.ctx then
    error .shouldBePrimary
    pure nb
  else if allowedInBareword env.isPrint r nb.f.ctx then bareword nb
  else if r == 39 then singleQuoted nb
  else if r == 34 then doubleQuoted nb
  else if r == 36 /- $ -/ then variableP nb
  else if r == 42 /- * -/ then starWildcard nb
  else if r == 63 /- ? -/ then do
    let cap ← hasPrefix [63, 40]
    if cap then exitusCapture rec nb else questionWildcard nb
  else if r == 40 then outputCapture rec nb
  else if r == 91 then lbracket rec nb
  else if r == 123 then lbrace rec nb
  else pure (nb.setType Bareword)

/-- `(*MapPair).parse` -/
def mapPairBody (nb : NB) : M NB := do
  let (_, nb) ← parseSep nb 38
  let key ← rec (.compound LHSExpr)
  let nb := nb.add key
  (if key.children.isEmpty then error .shouldBeCompound else pure ())
  let (ok, nb) ← parseSep nb 61 /- = -/
  if ok then
    let nb ← parseSpacesAndNewlines nb
    let v ← rec (.compound NormalExpr)
    pure (nb.add v)
  else pure nb

/-- `n.parse(ps)` dispatched on the node type. -/
def body : NT → NB → M NB
  | .chunk => chunkBody rec
  | .pipeline => pipelineBody rec
  | .form => formBody rec
  | .redir left => redirBody rec left
  | .filter => filterBody rec
  | .compound _ => compoundBody rec
  | .indexing _ => indexingBody rec
  | .array => arrayBody rec
  | .primary _ => primaryBody rec
  | .mapPair => mapPairBody rec

/-- The generic wrapper `parse[N](ps, n)`: records `From`, runs `n.parse`,
records `To` and `sourceText = src[n.From:pos]`.  `From` may have been moved
by `Redir.parse` (to the start of its left operand).

This is the code after `fixes/C01-redir-sourcetext.patch`; the unchanged
tree cut the text from `begin` (`wrapUnfixed`), which gives a `Redir` with a
left operand a text that is not the source of its range. -/
def wrap (nt : NT) : M Node := do
  let begin ← getPos
  let nb ← body rec nt { frm := begin, f := nt.init, children := [] }
  let pos ← getPos
  let text ← sliceSrc nb.frm pos
  pure (.mk nt.kind nb.frm pos text nb.f nb.children)

/-- `parse[N]` of the unchanged tree (before the fix): `sourceText =
src[begin:pos]`.  Kept for the counterexample theorem. -/
def wrapUnfixed (nt : NT) : M Node := do
  let begin ← getPos
  let nb ← body rec nt { frm := begin, f := nt.init, children := [] }
  let pos ← getPos
  let text ← sliceSrc begin pos
  pure (.mk nt.kind nb.frm pos text nb.f nb.children)

end Grammar

/-- The recursive-descent parser: `fuel` bounds the nesting of `parse` calls. -/
def parseNT : Nat → NT → M Node
  | 0, _ => outOfFuel
  | fuel + 1, nt => wrap (fun nt' => parseNT fuel nt') nt

/-- The parser of the unchanged tree (see `wrapUnfixed`). -/
def parseNTUnfixed : Nat → NT → M Node
  | 0, _ => outOfFuel
  | fuel + 1, nt => wrapUnfixed (fun nt' => parseNTUnfixed fuel nt') nt

/-! ## Entry points -/

inductive ParseResult where
  | ok (tree : Node) (errors : List PErr)
  | panic (why : String)
  | fuel
  deriving Inhabited

/-- Nesting fuel: each source byte opens at most 7 levels of `parse` calls
(`(` : Primary → Chunk → Pipeline → Form → Compound → Indexing → Primary). -/
def defaultFuel (src : Bytes) : Nat := 7 * src.length + 8

/-- `ParseAs(src, n, cfg)` with explicit fuel. -/
def parseAsFuel (isPrint : Int → Bool) (fuel : Nat) (nt : NT) (src : Bytes) : ParseResult :=
  let m : M Node := do
    let n ← parseNT fuel nt
    done
    pure n
  match m { isPrint := isPrint, src := src } { pos := 0, overEOF := 0, errors := [] } with
  | .ok n s => .ok n s.errors
  | .panic w => .panic w
  | .fuel => .fuel

/-- `ParseAs(src, n, cfg)` -/
def parseAs (isPrint : Int → Bool) (nt : NT) (src : Bytes) : ParseResult :=
  parseAsFuel isPrint (defaultFuel src) nt src

/-- `Parse(src, cfg)`: the tree rooted at a `Chunk`, and the errors. -/
def parse (isPrint : Int → Bool) (src : Bytes) : ParseResult :=
  parseAs isPrint .chunk src

/-- Run one grammar function on a given state (for importers: C03 parses a
`Compound` in a chosen `ExprCtx`). -/
def runNT (isPrint : Int → Bool) (src : Bytes) (nt : NT) (s : St) : Out Node :=
  parseNT (defaultFuel src) nt { isPrint := isPrint, src := src } s

def parseCompound (isPrint : Int → Bool) (src : Bytes) (ctx : Int) (s : St) : Out Node :=
  runNT isPrint src (.compound ctx) s

def parsePrimary (isPrint : Int → Bool) (src : Bytes) (ctx : Int) (s : St) : Out Node :=
  runNT isPrint src (.primary ctx) s

end C01
