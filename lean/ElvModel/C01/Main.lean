import ElvModel.C01.Driver
def main : IO Unit := C01.driver.main
