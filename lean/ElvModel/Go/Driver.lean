/-
Line-protocol driver loop shared by all per-property drivers.
One op per input line, tab-separated fields; one output line per op.
-/
namespace Go

/-- A driver: a state machine over op lines (fields already split on tabs). -/
structure Driver where
  σ : Type
  init : σ
  step : σ → List String → σ × String

/-- Stateless driver from a pure function. -/
def Driver.pure (f : List String → String) : Driver :=
  { σ := Unit, init := (), step := fun _ l => ((), f l) }

partial def Driver.loop (d : Driver) (hin hout : IO.FS.Stream) (s : d.σ) : IO Unit := do
  let line ← hin.getLine
  if line.isEmpty then
    hout.flush
    return ()
  let line := if line.back == '\n' then String.ofList line.toList.dropLast else line
  let (s', out) := d.step s (line.splitOn "\t")
  hout.putStrLn out
  d.loop hin hout s'

def Driver.main (d : Driver) : IO Unit := do
  let hin ← IO.getStdin
  let hout ← IO.getStdout
  d.loop hin hout d.init

end Go
