/-
Go prelude: byte strings, results with explicit panics, hex codec for the
line protocol.  Core Lean only (no Mathlib) so drivers link natively.
-/
namespace Go

/-- A Go `string` / `[]byte`: a list of bytes. -/
abbrev Bytes := List UInt8

/-- Outcome of a Go call: normal result, elvish exception, or Go panic.
Partial operations of Go are explicit outcomes, never totalised away. -/
inductive Res (α : Type) where
  | ok (a : α)
  | exc (e : String)
  | panic (why : String)
  deriving Repr, DecidableEq

namespace Res
def isPanic {α} : Res α → Bool
  | panic _ => true
  | _ => false
def bind {α β} (r : Res α) (f : α → Res β) : Res β :=
  match r with
  | ok a => f a
  | exc e => exc e
  | panic w => panic w
instance : Monad Res where
  pure := ok
  bind := bind
end Res

/-- Go's `s[i:j]` for `0 ≤ i ≤ j ≤ len s`; a panic otherwise. -/
def slice {α} (s : List α) (i j : Int) : Res (List α) :=
  if 0 ≤ i ∧ i ≤ j ∧ j ≤ s.length then
    .ok ((s.drop i.toNat).take (j.toNat - i.toNat))
  else .panic "slice bounds out of range"

/-- Go's `s[i]`. -/
def index {α} (s : List α) (i : Int) : Res α :=
  if 0 ≤ i then
    match s[i.toNat]? with
    | some a => .ok a
    | none => .panic "index out of range"
  else .panic "index out of range"

/-! ### Hex codec (line protocol: every byte string travels hex-encoded) -/

def hexDigit (n : Nat) : Char :=
  if n < 10 then Char.ofNat (48 + n) else Char.ofNat (87 + n)

def hexVal (c : Char) : Option Nat :=
  if '0' ≤ c ∧ c ≤ '9' then some (c.toNat - 48)
  else if 'a' ≤ c ∧ c ≤ 'f' then some (c.toNat - 87)
  else if 'A' ≤ c ∧ c ≤ 'F' then some (c.toNat - 55)
  else none

def hexEncode (b : Bytes) : String :=
  String.ofList (b.flatMap fun x => [hexDigit (x.toNat / 16), hexDigit (x.toNat % 16)])

def hexDecodeChars : List Char → Option Bytes
  | [] => some []
  | [_] => none
  | a :: b :: rest => do
    let x ← hexVal a
    let y ← hexVal b
    let r ← hexDecodeChars rest
    pure (UInt8.ofNat (x * 16 + y) :: r)

/-- `-` encodes the empty string (so fields are never empty). -/
def hexDecode (s : String) : Option Bytes :=
  if s = "-" then some [] else hexDecodeChars s.toList

def hexEnc (b : Bytes) : String :=
  if b.isEmpty then "-" else hexEncode b

def strBytes (s : String) : Bytes := s.toUTF8.toList

end Go
