/-
Go-faithful UTF-8: `utf8.DecodeRuneInString`, `utf8.DecodeLastRuneInString`,
`utf8.EncodeRune` / `string(rune)`, `for i, r := range s`, `utf8.ValidString`,
`utf8.RuneLen`, `utf8.RuneStart`.  Runes are `Nat` code points; arithmetic is
div/mod so that `omega` can reason about it.
-/
import ElvModel.Go.Basic
namespace Go

abbrev Rune := Nat
def RuneError : Rune := 0xFFFD
def MaxRune : Rune := 0x10FFFF
def UTFMax : Nat := 4

def isCont (b : Nat) : Bool := 0x80 ≤ b && b ≤ 0xBF

/-- `utf8.DecodeRuneInString(s)`: `(rune, size)`; `(RuneError, 0)` on empty,
`(RuneError, 1)` on any invalid or truncated encoding. -/
def decodeRune : Bytes → Rune × Nat
  | [] => (RuneError, 0)
  | b0 :: rest =>
    let x := b0.toNat
    if x < 0x80 then (x, 1)
    else if x < 0xC2 then (RuneError, 1)
    else if x < 0xE0 then
      match rest with
      | b1 :: _ =>
        if isCont b1.toNat then ((x - 0xC0) * 64 + (b1.toNat - 0x80), 2) else (RuneError, 1)
      | _ => (RuneError, 1)
    else if x < 0xF0 then
      match rest with
      | b1 :: b2 :: _ =>
        let lo := if x = 0xE0 then 0xA0 else 0x80
        let hi := if x = 0xED then 0x9F else 0xBF
        if lo ≤ b1.toNat && b1.toNat ≤ hi && isCont b2.toNat then
          ((x - 0xE0) * 4096 + (b1.toNat - 0x80) * 64 + (b2.toNat - 0x80), 3)
        else (RuneError, 1)
      | _ => (RuneError, 1)
    else if x < 0xF5 then
      match rest with
      | b1 :: b2 :: b3 :: _ =>
        let lo := if x = 0xF0 then 0x90 else 0x80
        let hi := if x = 0xF4 then 0x8F else 0xBF
        if lo ≤ b1.toNat && b1.toNat ≤ hi && isCont b2.toNat && isCont b3.toNat then
          ((x - 0xF0) * 262144 + (b1.toNat - 0x80) * 4096 + (b2.toNat - 0x80) * 64 + (b3.toNat - 0x80), 4)
        else (RuneError, 1)
      | _ => (RuneError, 1)
    else (RuneError, 1)

/-- `utf8.RuneStart(b)`: not a continuation byte. -/
def runeStart (b : UInt8) : Bool := !(isCont b.toNat)

/-- Is `r` a Unicode scalar value (what `string(r)` encodes as itself)? -/
def validRune (r : Rune) : Bool := r < 0xD800 || (0xDFFF < r && r ≤ 0x10FFFF)

/-- `utf8.AppendRune(nil, r)` / `string(rune(r))` for non-negative `r`;
surrogates and out-of-range values encode U+FFFD. -/
def encodeRune (r : Rune) : Bytes :=
  if r < 0x80 then [UInt8.ofNat r]
  else if r < 0x800 then [UInt8.ofNat (0xC0 + r / 64), UInt8.ofNat (0x80 + r % 64)]
  else if !(validRune r) then [0xEF, 0xBF, 0xBD]
  else if r < 0x10000 then
    [UInt8.ofNat (0xE0 + r / 4096), UInt8.ofNat (0x80 + r / 64 % 64), UInt8.ofNat (0x80 + r % 64)]
  else
    [UInt8.ofNat (0xF0 + r / 262144), UInt8.ofNat (0x80 + r / 4096 % 64),
     UInt8.ofNat (0x80 + r / 64 % 64), UInt8.ofNat (0x80 + r % 64)]

/-- `utf8.RuneLen(r)` for non-negative `r` (`-1` ↦ `none`). -/
def runeLen (r : Rune) : Option Nat :=
  if r < 0x80 then some 1
  else if r < 0x800 then some 2
  else if 0xD800 ≤ r && r ≤ 0xDFFF then none
  else if r < 0x10000 then some 3
  else if r ≤ 0x10FFFF then some 4
  else none

/-- `for i, r := range s`: `(byte offset, rune, size)` triples.  Fuel-free:
structural on a length bound. -/
def runesFrom : Nat → Nat → Bytes → List (Nat × Rune × Nat)
  | 0, _, _ => []
  | _, _, [] => []
  | fuel + 1, off, s@(_ :: _) =>
    let (r, n) := decodeRune s
    (off, r, n) :: runesFrom fuel (off + n) (s.drop n)

def runes (s : Bytes) : List (Nat × Rune × Nat) := runesFrom s.length 0 s

/-- `[]rune(s)` -/
def toRunes (s : Bytes) : List Rune := (runes s).map (·.2.1)

/-- `utf8.ValidString(s)` -/
def validUtf8 (s : Bytes) : Bool :=
  (runes s).all fun (_, r, n) => !(r == RuneError && n == 1)

/-- `string(rs)` for a rune slice. -/
def encodeRunes (rs : List Rune) : Bytes := rs.flatMap encodeRune

/-- `utf8.DecodeLastRuneInString(s)`. -/
def decodeLastRune (s : Bytes) : Rune × Nat :=
  let e := s.length
  if e = 0 then (RuneError, 0)
  else
    match s[e - 1]? with
    | none => (RuneError, 0)
    | some last =>
      if last.toNat < 0x80 then (last.toNat, 1)
      else
        let lim := e - UTFMax
        -- for start--; start >= lim; start-- { if RuneStart(s[start]) { break } }
        let rec back (fuel : Nat) (start : Int) : Int :=
          match fuel with
          | 0 => start
          | fuel + 1 =>
            if start < (lim : Int) then start
            else
              match s[start.toNat]? with
              | some b => if runeStart b then start else back fuel (start - 1)
              | none => start
        let start := back 4 ((e : Int) - 2)
        let start := if start < 0 then 0 else start.toNat
        let (r, size) := decodeRune (s.drop start)
        if start + size ≠ e then (RuneError, 1) else (r, size)

end Go
