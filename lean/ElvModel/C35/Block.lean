/-
C35 — executable model of the whole BLOCK phase of pkg/md/md.go
(`blockParser.render` with `blockTree`): container matching
(`matchContinuationMarkers`), container opening (`processContainerMarkers` on
top of the `startingMarkers` model of `parseStartingMarkers`), list
continuation, paragraph continuation / lazy continuation, `closeBlocks` /
`closeParagraph`, blank-line handling (`unmatchedBlockquote`, the
"item that starts with a blank line" look-ahead), thematic breaks, ATX
headings (closer + `{…}` attribute), fenced code (`parseFencedCodeBlock`,
`processCodeFenceInfo`), indented code, the seven kinds of HTML blocks, and the
line splitter (`next` / `backup`).

Shape: `renderBlocks doc` is a FOLD over the list of lines (`blockLoop`,
structural recursion).  The nested loops of md.go (one per leaf block kind,
each of which consumes lines and may `backup()` one line) are the `Mode` of the
state: a line met in a leaf mode either continues the leaf, or ends it and is
then handled once more by `stepNormal` — `backup()` followed by the next
iteration of the main loop.  Every iteration therefore consumes exactly one
line, and termination is by construction.

Go operations that can panic are explicit: wherever md.go indexes or reslices
the CONTAINER STACK with a computed bound (`containers[matched-1]`,
`containers[:keep]`, `len(containers)-1`) the model emits `BOp.panic` when the
bound is out of range (`guard`); slices of a line at an offset returned by a
regular-expression match are in range by the semantics of `regexp` and are
modelled by `drop`/`take`.  The only fuel-taking loop is `startingMarkers`
(`BOp.fuel`).  Line numbers are Go `int`s (`lineNo - len(paragraph)`).
`C35_block_total` proves that neither marker is ever emitted.

The ops carry what `md.Op` carries (type, LineNo, Number, Info, Lines) and,
for paragraphs and headings, the text handed to `renderInline`.
-/
import ElvModel.C35.Model
namespace C35
open Go

inductive CT where
  | quote | bulletList | bulletItem | orderedList | orderedItem
  deriving Repr, BEq, DecidableEq

def CT.isList : CT → Bool
  | .bulletList | .orderedList => true
  | _ => false

def CT.isItem : CT → Bool
  | .bulletItem | .orderedItem => true
  | _ => false

/-- `container`: `indent` = `len(continuation)` -/
structure Ctr where
  typ : CT
  punct : UInt8
  start : Nat
  indent : Nat
  deriving Repr, BEq, DecidableEq

inductive BOp where
  | hr (ln : Int)
  | heading (ln : Int) (level : Nat) (text attr : Bytes)
  | code (ln : Int) (info : Bytes) (lines : List Bytes)
  | html (ln : Int) (lines : List Bytes)
  | para (ln : Int) (text : Bytes)
  | opn (ln : Int) (t : CT) (number : Nat)
  | cls (ln : Int) (t : CT)
  | fuel
  | panic
  deriving Repr, BEq, DecidableEq

/-- the nested line loops of md.go; collected lines are kept most recent first -/
inductive Mode where
  | normal
  | fenced (startLn : Int) (indent : Nat) (ch : UInt8) (n : Nat) (info : Bytes) (lines : List Bytes)
  | indented (startLn : Int) (lines saved : List Bytes)
  | htmlC (startLn : Int) (kind : Nat) (lines saved : List Bytes)
  | htmlB (startLn : Int) (lines : List Bytes)
  deriving Repr, BEq, DecidableEq

structure BSt where
  ctrs : List Ctr      -- outermost first
  para : List Bytes    -- most recent first
  mode : Mode
  deriving Repr, DecidableEq

/-- a bound check of the Go code -/
def guard (ok : Bool) : List BOp := if ok then [] else [.panic]

/-! ### regular expressions only used by the multi-line part -/

/-- "(?:^ {0,3})(`{3,}|~{3,})[ \t]*$": (fence character, length) -/
def fenceCloserRe (line : Bytes) : Option (UInt8 × Nat) :=
  let n := leadingSpaces line
  if n > 3 then none else
  match line.drop n with
  | c :: rest =>
    if c == 0x60 || c == 0x7E then
      let k := countWhile (· == c) (c :: rest)
      if k ≥ 3 && isBlank ((c :: rest).drop k) then some (c, k) else none
    else none
  | [] => none

/-- `processCodeFenceInfo`: backslash escapes and character references
(`leadingCharRef` + `unescapeHTML`: the eight known names and numeric
references are decoded, every other `&…;` stays literal) -/
def processInfo : Nat → Bytes → Bytes
  | _, [] => []
  | k + 1, _ :: t => processInfo k t
  | 0, b :: t =>
    if b == 0x26 then
      match parseEntity t with
      | .char r len => encodeRune r ++ processInfo (len - 1) t
      | _ => b :: processInfo 0 t
    else if b == 0x5C then
      match t with
      | p :: _ => if isAsciiPunctB p then p :: processInfo 1 t else b :: processInfo 0 t
      | [] => [b]
    else b :: processInfo 0 t

/-! #### HTML block starts

`(?i:…)` in Go folds Unicode-wide: `s` also matches U+017F (`ſ`) and `k` also
matches U+212A (KELVIN SIGN). -/

def lowerB (b : UInt8) : UInt8 := if isUpperB b then b + 0x20 else b

/-- match the lower-case ASCII pattern `pat` case-insensitively at the start of
`s`; returns the rest -/
def foldPrefix : Bytes → Bytes → Option Bytes
  | [], s => some s
  | p :: ps, s =>
    match s with
    | [] => none
    | b :: t =>
      if lowerB b == p then foldPrefix ps t
      else if p == 0x73 && b == 0xC5 && t.head? == some 0xBF then foldPrefix ps (t.drop 1)
      else if p == 0x6B && b == 0xE2 && t.head? == some 0x84 && (t.drop 1).head? == some 0xAA then
        foldPrefix ps (t.drop 2)
      else none

/-- does one of `pats` occur (case-insensitively) after the literal `pre` somewhere in `s`? -/
def containsFold (pre : Bytes) (pats : List Bytes) : Bytes → Bool
  | [] => false
  | s@(_ :: t) =>
    (startsWith s pre && pats.any (fun p => (foldPrefix p (s.drop pre.length)).isSome)) ||
    containsFold pre pats t

def html1Names : List Bytes := [bs "pre", bs "script", bs "style", bs "textarea"]

def html6Names : List Bytes :=
  ["address", "article", "aside", "base", "basefont", "blockquote", "body", "caption", "center",
   "col", "colgroup", "dd", "details", "dialog", "dir", "div", "dl", "dt", "fieldset",
   "figcaption", "figure", "footer", "form", "frame", "frameset", "h1", "h2", "h3", "h4", "h5",
   "h6", "head", "header", "hr", "html", "iframe", "legend", "li", "link", "main", "menu",
   "menuitem", "nav", "noframes", "ol", "optgroup", "option", "p", "param", "search", "section",
   "summary", "table", "tbody", "td", "tfoot", "th", "thead", "title", "tr", "track", "ul"].map bs

/-- the part of `line` after `^ {0,3}<` -/
def afterLt (line : Bytes) : Option Bytes :=
  let n := leadingSpaces line
  if n > 3 then none else
  match line.drop n with
  | 0x3C :: t => some t
  | _ => none

/-- `(?:[ \t>]|$|/>)` -/
def html6Follow (r : Bytes) : Bool :=
  match r with
  | [] => true
  | b :: t => b == SP || b == 0x09 || b == 0x3E || (b == 0x2F && t.head? == some 0x3E)

def isTagWs (b : UInt8) : Bool := b == SP || b == 0x09 || b == NL
def isTagNameCh (b : UInt8) : Bool := isAlnumB b || b == 0x2D
def isAttrStart (b : UInt8) : Bool := isLetterB b || b == 0x5F || b == 0x3A
def isAttrCh (b : UInt8) : Bool := isAlnumB b || b == 0x5F || b == 0x2E || b == 0x3A || b == 0x2D
def isUnqCh (b : UInt8) : Bool :=
  !(isTagWs b || b == 0x22 || b == 0x27 || b == 0x3D || b == 0x3C || b == 0x3E || b == 0x60)

/-- states of the automaton for `(?:openTag|closingTag)[ \t]*$` (after `<`) -/
inductive TagSt where
  | name | ws | attr | wsAttr | eq | unq | dq | sq | afterQ | slash | cname | cws | done
  deriving Repr, BEq, DecidableEq

/-- `none` = dead state -/
def tagStep (s : TagSt) (b : UInt8) : Option TagSt :=
  let endOrWs : Option TagSt :=
    if isTagWs b then some .ws else if b == 0x2F then some .slash else if b == 0x3E then some .done else none
  match s with
  | .name => if isTagNameCh b then some .name else endOrWs
  | .ws => if isAttrStart b then some .attr else endOrWs
  | .attr =>
    if isAttrCh b then some .attr
    else if isTagWs b then some .wsAttr
    else if b == 0x3D then some .eq
    else if b == 0x2F then some .slash else if b == 0x3E then some .done else none
  | .wsAttr =>
    if isTagWs b then some .wsAttr
    else if b == 0x3D then some .eq
    else if isAttrStart b then some .attr
    else if b == 0x2F then some .slash else if b == 0x3E then some .done else none
  | .eq =>
    if isTagWs b then some .eq
    else if b == 0x22 then some .dq else if b == 0x27 then some .sq
    else if isUnqCh b then some .unq else none
  | .unq =>
    if isUnqCh b then some .unq
    else if isTagWs b then some .ws else if b == 0x3E then some .done else none
  | .dq => if b == 0x22 then some .afterQ else some .dq
  | .sq => if b == 0x27 then some .afterQ else some .sq
  | .afterQ => endOrWs
  | .slash => if b == 0x3E then some .done else none
  | .cname => if isTagNameCh b then some .cname else if isTagWs b then some .cws else if b == 0x3E then some .done else none
  | .cws => if isTagWs b then some .cws else if b == 0x3E then some .done else none
  | .done => if b == SP || b == 0x09 then some .done else none

def tagRun : TagSt → Bytes → Bool
  | s, [] => s == .done
  | s, b :: t =>
    match tagStep s b with
    | some s' => tagRun s' t
    | none => false

/-- `html7Regexp` -/
def html7Re (line : Bytes) : Bool :=
  match afterLt line with
  | some (0x2F :: c :: t) => isLetterB c && tagRun .cname t
  | some (c :: t) => isLetterB c && tagRun .name t
  | _ => false

/-- which of `html1Regexp` … `html5Regexp` matches first (1–5), 6 for
`html6Regexp || (no paragraph && html7Regexp)`, 0 for none -/
def htmlStartKind (line : Bytes) (noPara : Bool) : Nat :=
  match afterLt line with
  | none => 0
  | some t =>
    if html1Names.any (fun p => (foldPrefix p t).isSome) then 1
    else if startsWith t (bs "!--") then 2
    else if startsWith t (bs "?") then 3
    else if (match t with
        | 0x21 :: c :: _ => isLetterB c
        | _ => false) then 4
    else if startsWith t (bs "![CDATA[") then 5
    else
      let t' := match t with
        | 0x2F :: r => r
        | _ => t
      if html6Names.any (fun p => match foldPrefix p t' with
          | some r => html6Follow r
          | none => false) then 6
      else if noPara && html7Re line then 6
      else 0

/-- the closer of a closer-terminated HTML block of kind 1–5 -/
def htmlCloser (kind : Nat) (line : Bytes) : Bool :=
  match kind with
  | 1 => containsFold (bs "</") html1Names line
  | 2 => containsSub (bs "-->") line
  | 3 => containsSub (bs "?>") line
  | 4 => line.contains 0x3E
  | _ => containsSub (bs "]]>") line

/-! ### blockTree -/

/-- `matchContinuationMarkers`: the line without the matched markers and the
number of containers matched -/
def matchCont : List Ctr → Bytes → Nat → Bytes × Nat
  | [], line, i => (line, i)
  | c :: cs, line, i =>
    match c.typ with
    | .quote =>
      match blockquoteMarkerLen line with
      | some l => matchCont cs (line.drop l) (i + 1)
      | none => (line, i)
    | .bulletList => matchCont cs line (i + 1)
    | .orderedList => matchCont cs line (i + 1)
    | _ =>
      if leadingSpaces line ≥ c.indent then matchCont cs (line.drop c.indent) (i + 1) else (line, i)

/-- `unmatchedBlockquote(matched)` (`i` = index of the head of the list) -/
def unmatchedQuote : List Ctr → Nat → Nat → Option Nat
  | [], _, _ => none
  | c :: cs, i, m => if i ≥ m && c.typ == .quote then some i else unmatchedQuote cs (i + 1) m

/-- `closeParagraph(lineNo)` -/
def closePara (st : BSt) (ln : Int) : List BOp :=
  if st.para.isEmpty then []
  else [.para (ln - (st.para.length : Int)) (trimSpTab (joinNL st.para.reverse))]

/-- `closeBlocks(keep, lineNo)`; `containers[:keep]` needs `keep ≤ len` -/
def closeBlocks (st : BSt) (keep : Nat) (ln : Int) : BSt × List BOp :=
  ({ st with ctrs := st.ctrs.take keep, para := [] },
   closePara st ln ++ ((st.ctrs.drop keep).reverse.map fun c => BOp.cls ln c.typ) ++
     guard (decide (keep ≤ st.ctrs.length)))

def contPunct : Cont → UInt8
  | .quote => 0
  | .bullet p _ => p
  | .ordered p _ _ => p

def Cont.isItem : Cont → Bool
  | .quote => false
  | _ => true

/-- the loop over `newContainers` in `processContainerMarkers` -/
def openNew (ln : Int) : Bool → List Cont → List Ctr × List BOp
  | _, [] => ([], [])
  | cl, .quote :: r =>
    let (cs, ops) := openNew ln cl r
    ({ typ := .quote, punct := 0, start := 0, indent := 0 } :: cs, .opn ln .quote 0 :: ops)
  | cl, .bullet p ind :: r =>
    let (cs, ops) := openNew ln false r
    let item : Ctr := { typ := .bulletItem, punct := p, start := 0, indent := ind }
    if cl then (item :: cs, .opn ln .bulletItem 0 :: ops)
    else ({ typ := .bulletList, punct := p, start := 0, indent := 0 } :: item :: cs,
          .opn ln .bulletList 0 :: .opn ln .bulletItem 0 :: ops)
  | cl, .ordered p s ind :: r =>
    let (cs, ops) := openNew ln false r
    let item : Ctr := { typ := .orderedItem, punct := p, start := s, indent := ind }
    if cl then (item :: cs, .opn ln .orderedItem 0 :: ops)
    else ({ typ := .orderedList, punct := p, start := s, indent := 0 } :: item :: cs,
          .opn ln .orderedList s :: .opn ln .orderedItem 0 :: ops)

structure PM where
  st : BSt
  line : Bytes
  matched : Nat
  newItem : Bool
  ops : List BOp

/-- `len(newContainers) > 0 && newContainers[0].punct == t.containers[matched-1].punct` -/
def continueList (c : Ctr) (newCs : List Cont) : Bool :=
  match newCs.head? with
  | some n => contPunct n == c.punct
  | none => false

/-- the `continueList` decision of `processContainerMarkers`: if the last
matched container is a list, keep it iff the first new container is an item
with the same punctuation; returns (continueList, matched) -/
def adjustMatched (last : Option Ctr) (newCs : List Cont) (matched : Nat) : Bool × Nat :=
  match last with
  | some c =>
    if c.typ.isList then (continueList c newCs, if continueList c newCs then matched else matched - 1)
    else (false, matched)
  | none => (false, matched)

/-- `processContainerMarkers(line, lineNo)` -/
def processMarkers (st : BSt) (ln : Int) (line0 : Bytes) : PM :=
  let mc := matchCont st.ctrs line0 0
  match startingMarkers (mc.1.length + 1) mc.1 (st.para.isEmpty || mc.2 != st.ctrs.length) [] with
  | none => { st := st, line := mc.1, matched := mc.2, newItem := false, ops := [.fuel] }
  | some sm =>
    -- `t.containers[matched-1]`
    let last : Option Ctr := if mc.2 > 0 then st.ctrs[mc.2 - 1]? else none
    let g := guard (mc.2 == 0 || last.isSome)
    let adj := adjustMatched last sm.2 mc.2
    if sm.2.isEmpty then { st := st, line := sm.1, matched := adj.2, newItem := false, ops := g }
    else
      let cb := closeBlocks st adj.2 ln
      let on := openNew ln adj.1 sm.2
      { st := { cb.1 with ctrs := cb.1.ctrs ++ on.1 }, line := sm.1, matched := (cb.1.ctrs ++ on.1).length,
        newItem := (match sm.2.getLast? with
          | some c => c.isItem
          | none => false),
        ops := g ++ cb.2 ++ on.2 }

/-- the ATX heading op for a line on which `atxHeadingRegexp` matched -/
def headingOp (ln : Int) (line : Bytes) (openerEnd level : Nat) : BOp :=
  let l := trimRightSpTab (line.drop openerEnd)
  let cl := atxCloserLen l
  let l := if cl > 0 then trimRightSpTab (l.take (l.length - cl)) else l
  match atxAttrRe l with
  | some (p, a) => .heading ln level (trimSpTab (trimRightSpTab (l.take p))) a
  | none => .heading ln level (trimSpTab l) []

/-- `closeBlocks(matchedContainers, …)`, then the leaf op(s); the parser goes on in mode `m` -/
def leafStep (pm : PM) (ln : Int) (m : Mode) (ops : List BOp) : BSt × List BOp :=
  let cb := closeBlocks pm.st pm.matched ln
  ({ cb.1 with mode := m }, pm.ops ++ cb.2 ++ ops)

/-- the blank-line branch of the main loop (after the `unmatchedBlockquote` test) -/
def blankStep (pm : PM) (ln : Int) (next : Option Bytes) : BSt × List BOp :=
  let r : BSt × List BOp :=
    match pm.newItem, next with
    | true, some nl =>
      -- `closeBlocks(len(p.tree.containers)-1, …)`: the index must not be negative
      if isBlank (matchCont pm.st.ctrs nl 0).1 then
        ((closeBlocks pm.st (pm.st.ctrs.length - 1) ln).1,
         guard (decide (1 ≤ pm.st.ctrs.length)) ++ (closeBlocks pm.st (pm.st.ctrs.length - 1) ln).2)
      else (pm.st, [])
    | _, _ => (pm.st, [])
  ({ r.1 with para := [] }, pm.ops ++ r.2 ++ closePara r.1 ln)

/-- one iteration of the main loop of `render` on `line0` (number `ln`);
`next` = the following line if there is one (`p.lines.more()`) -/
def stepNormal (st : BSt) (ln : Int) (line0 : Bytes) (next : Option Bytes) : BSt × List BOp :=
  let pm := processMarkers st ln line0
  let line := pm.line
  if isBlank line then
    match unmatchedQuote pm.st.ctrs 0 pm.matched with
    | some i => ((closeBlocks pm.st i ln).1, pm.ops ++ (closeBlocks pm.st i ln).2)
    | none => blankStep pm ln next
  else
    if thematicBreakRe line then leafStep pm ln .normal [.hr ln]
    else
    match atxHeadingRe line with
    | some (openerEnd, level) => leafStep pm ln .normal [headingOp ln line openerEnd level]
    | none =>
    match codeFenceRe line with
    | some (indent, n, ch, info) => leafStep pm ln (.fenced ln indent ch n (trimSpTab (processInfo 0 info)) []) []
    | none =>
    if pm.st.para.isEmpty && startsWith line (bs "    ") then leafStep pm ln (.indented ln [line.drop 4] []) []
    else
    match htmlStartKind line pm.st.para.isEmpty with
    | 0 =>
      if pm.st.para.isEmpty then
        ({ (closeBlocks pm.st pm.matched ln).1 with para := [trimLeftSpTab line] },
         pm.ops ++ (closeBlocks pm.st pm.matched ln).2)
      else ({ pm.st with para := trimLeftSpTab line :: pm.st.para }, pm.ops)
    | 6 => leafStep pm ln (.htmlB ln [line]) []
    | k =>
      if htmlCloser k line then leafStep pm ln .normal [.html ln [line]]
      else leafStep pm ln (.htmlC ln k [line] []) []

/-- `doBlock(); closeBlocks(i, lineNo); return` (the line is consumed) -/
def endWith (st : BSt) (ln : Int) (uq : Option Nat) (op : BOp) : BSt × List BOp :=
  match uq with
  | some i => ((closeBlocks { st with mode := .normal } i ln).1, op :: (closeBlocks { st with mode := .normal } i ln).2)
  | none => ({ st with mode := .normal }, [op])

/-- `backup(); doBlock(); return` — the main loop then reads the line again -/
def again (st : BSt) (ln : Int) (line0 : Bytes) (next : Option Bytes) (op : BOp) : BSt × List BOp :=
  ((stepNormal { st with mode := .normal } ln line0 next).1,
   op :: (stepNormal { st with mode := .normal } ln line0 next).2)

/-- one line: the body of the nested loop of the current leaf, falling back
to `stepNormal` on the SAME line after `backup()` -/
def stepBlk (st : BSt) (ln : Int) (line0 : Bytes) (next : Option Bytes) : BSt × List BOp :=
  let line := (matchCont st.ctrs line0 0).1
  let matched := (matchCont st.ctrs line0 0).2
  let uq := unmatchedQuote st.ctrs 0 matched
  let unmatched := Nat.blt matched st.ctrs.length
  match st.mode with
  | .normal => stepNormal st ln line0 next
  | .fenced sl indent ch n info lines =>
    let op := BOp.code sl info lines.reverse
    let more : BSt × List BOp :=
      ({ st with mode := .fenced sl indent ch n info (line.drop (min indent (leadingSpaces line)) :: lines) }, [])
    if isBlank line && uq.isSome then endWith st ln uq op
    else if !(isBlank line) && unmatched then again st ln line0 next op
    else
      match fenceCloserRe line with
      | some (c, k) => if c == ch && Nat.ble n k then ({ st with mode := .normal }, [op]) else more
      | none => more
  | .indented sl lines saved =>
    let op := BOp.code sl [] lines.reverse
    if isBlank line then
      if uq.isSome then endWith st ln uq op
      else ({ st with mode := .indented sl lines ((if startsWith line (bs "    ") then line.drop 4 else []) :: saved) }, [])
    else if unmatched || !(startsWith line (bs "    ")) then again st ln line0 next op
    else ({ st with mode := .indented sl (line.drop 4 :: (saved ++ lines)) [] }, [])
  | .htmlC sl kind lines saved =>
    let op := BOp.html sl lines.reverse
    if isBlank line then
      if uq.isSome then endWith st ln uq op
      else ({ st with mode := .htmlC sl kind lines (line :: saved) }, [])
    else if unmatched then again st ln line0 next op
    else if htmlCloser kind line then ({ st with mode := .normal }, [.html sl (line :: (saved ++ lines)).reverse])
    else ({ st with mode := .htmlC sl kind (line :: (saved ++ lines)) [] }, [])
  | .htmlB sl lines =>
    let op := BOp.html sl lines.reverse
    if isBlank line then endWith st ln uq op
    else if unmatched then again st ln line0 next op
    else ({ st with mode := .htmlB sl (line :: lines) }, [])

/-- end of input: the open leaf is emitted, then `closeBlocks(0, lastLineNo+1)` -/
def finish (st : BSt) (ln : Int) : List BOp :=
  let leafOps : List BOp :=
    match st.mode with
    | .normal => []
    | .fenced sl _ _ _ info lines => [.code sl info lines.reverse]
    | .indented sl lines _ => [.code sl [] lines.reverse]
    | .htmlC sl _ lines _ => [.html sl lines.reverse]
    | .htmlB sl lines => [.html sl lines.reverse]
  leafOps ++ (closeBlocks st 0 ln).2

/-- the main loop: structural recursion on the list of lines -/
def blockLoop : BSt → Int → List Bytes → List BOp
  | st, ln, [] => finish st ln
  | st, ln, l :: rest =>
    let r := stepBlk st ln l rest.head?
    r.2 ++ blockLoop r.1 (ln + 1) rest

def initSt : BSt := { ctrs := [], para := [], mode := .normal }

/-- `md.Render(doc, codec)` up to inline parsing: the ops handed to the codec -/
def renderBlocks (doc : Bytes) : List BOp := blockLoop initSt 1 (docLines doc)

/-! ### printing (the trace compared with `md.TraceCodec`) -/

/-- inline parsing is transparent up to emphasis/code-span delimiters and
whitespace when the document has none of ``\ & < [ ] !`` -/
def hardDoc (doc : Bytes) : Bool :=
  doc.any fun b => b == 0x5C || b == 0x26 || b == 0x3C || b == 0x5B || b == 0x5D || b == 0x21

def normText (s : Bytes) : Bytes :=
  s.filter fun b => !(b == 0x2A || b == 0x5F || b == 0x60 || b == SP || b == 0x09 || b == NL)

def linesHex (ls : List Bytes) : String := s!"{ls.length}:{hexEnc (joinNL ls)}"

def ctOpen : CT → Nat → String
  | .quote, _ => "BQ["
  | .bulletList, _ => "UL["
  | .orderedList, n => s!"OL{n}["
  | _, _ => "LI["

def ctClose : CT → String
  | .quote => "]BQ"
  | .bulletList => "]UL"
  | .orderedList => "]OL"
  | _ => "]LI"

def bopStr (hard : Bool) : BOp → String
  | .hr ln => s!"HR@{ln}"
  | .heading ln lvl t a => s!"H{lvl}@{ln}:{if hard then "?" else hexEnc (normText t)}:{hexEnc a}"
  | .code ln info ls => s!"CB@{ln}:{hexEnc info}:{linesHex ls}"
  | .html ln ls => s!"HT@{ln}:{linesHex ls}"
  | .para ln t => s!"P@{ln}:{if hard then "?" else hexEnc (normText t)}"
  | .opn ln t n => s!"{ctOpen t n}@{ln}"
  | .cls ln t => s!"{ctClose t}@{ln}"
  | .fuel => "FUEL"
  | .panic => "PANIC"

def blkOp (h : String) : String :=
  match hexDecode h with
  | none => "bad-op"
  | some doc =>
    let ops := renderBlocks doc
    if ops.contains .panic then "PANIC"
    else if ops.contains .fuel then "FUEL"
    else if ops.isEmpty then "EMPTY"
    else " ".intercalate (ops.map (bopStr (hardDoc doc)))

end C35
