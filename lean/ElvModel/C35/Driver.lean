import ElvModel.Go.Driver
import ElvModel.C35.RefHtml
import ElvModel.C35.Model
import ElvModel.C35.Block
namespace C35
open Go

def specLine (hmd hhtml : String) : String :=
  match hexDecode hmd, hexDecode hhtml with
  | some md, some want =>
    if !(inSubset stdU md) then "out"
    else
      match render stdU false md with
      | none => "in NONE"
      | some got => if got == want then "in ok" else s!"in MISMATCH {hexEnc got}"
  | _, _ => "bad-op"

def docBytes (md : Bytes) : String :=
  if !(inSubset stdU md) then "out"
  else
    match render stdU true md with
    | none => "NONE"
    | some got => s!"H {hexEnc got}"

def docLine (hmd : String) : String :=
  match hexDecode hmd with
  | some md => docBytes md
  | none => "bad-op"

def entLine (h : String) : String :=
  match hexDecode h with
  | some e =>
    match render stdU true (bs "x&" ++ e ++ bs ";y") with
    | none => "NONE"
    | some got => s!"E {hexEnc got}"
  | none => "bad-op"

/-- ops:
 `spec <example> <hex markdown> <hex reference html>` → `out` | `in ok` | `in MISMATCH <hex>` (tie of the reference to CommonMark)
 `doc <hex markdown>` → `out` | `H <hex html>` (reference, lists forced loose, elvish serialisation)
 `fuzz <hex bytes>` → `done` (totality stream; the model side has nothing to say)
 `ent <hex E>` → `E <hex html>`: the reference rendering of the paragraph `x&E;y`
 `pc <hex l1> <hex l2> <k>` → as `doc` for the two-line paragraph whose second line is indented by k spaces
 `ei <hex marker> <k>` → `H <hex html>` for `a\n<marker><k spaces>` (an empty item cannot interrupt a paragraph)
 `oi <hex marker> <hex content>` → `H <hex html>` for `a\n<marker> <content>` (an ordered item not numbered 1 cannot interrupt a paragraph)
 `qi <hex quote marker> <hex item>` → `H <hex html>` for `a\n<quote marker><item>` (a list item in a block quote opened on the same line interrupts nothing)
 `gl <hex dest> <hex quoted title>` → as `doc` for `[a](<dest>title)` (a title needs whitespace before it)
 `line <0|1> <hex line>` → block ops elvish emits for a one-line document (model of md.go's line classifier and container openers)
 `emph <hex text>` → inline ops of elvish's delimiter-stack algorithm (model of inline.go processEmphasis)
 `blk <hex markdown>` → the block-structure trace of md.Render (model of the whole block phase of md.go, ElvModel/C35/Block.lean) -/
def stepLineOp : List String → String
  | ["spec", _, hmd, hhtml] => specLine hmd hhtml
  | ["doc", hmd] => docLine hmd
  | ["fuzz", _] => "done"
  | ["line", "0", h] => lineOp false h
  | ["line", "1", h] => lineOp true h
  | ["ent", h] => entLine h
  | ["pc", h1, h2, k] =>
    match hexDecode h1, hexDecode h2, k.toNat? with
    | some l1, some l2, some k => docBytes (l1 ++ [NL] ++ List.replicate k SP ++ l2 ++ [NL])
    | _, _, _ => "bad-op"
  | ["oi", hm, hc] =>
    match hexDecode hm, hexDecode hc with
    | some m, some c =>
      match render stdU true (bs "a\n" ++ m ++ [SP] ++ c) with
      | none => "NONE"
      | some got => s!"H {hexEnc got}"
    | _, _ => "bad-op"
  | ["qi", hq, hm] =>
    match hexDecode hq, hexDecode hm with
    | some q, some m =>
      match render stdU true (bs "a\n" ++ q ++ m) with
      | none => "NONE"
      | some got => s!"H {hexEnc got}"
    | _, _ => "bad-op"
  | ["gl", hd, ht] =>
    match hexDecode hd, hexDecode ht with
    | some d, some t => docBytes (bs "[a](<" ++ d ++ bs ">" ++ t ++ bs ")")
    | _, _ => "bad-op"
  | ["ei", hm, k] =>
    match hexDecode hm, k.toNat? with
    | some m, some k =>
      match render stdU true (bs "a\n" ++ m ++ List.replicate k SP) with
      | none => "NONE"
      | some got => s!"H {hexEnc got}"
    | _, _ => "bad-op"
  | ["emph", h] => emphOp h
  | ["blk", h] => blkOp h
  | _ => "bad-op"

def driver : Driver := Driver.pure stepLineOp
end C35
