import ElvModel.C35.Driver
def main : IO Unit := C35.driver.main
