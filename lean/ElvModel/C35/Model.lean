/-
C35 — executable models of the two risky cores of elvish's Markdown engine
(pkg/md), function by function:

* `md.go`: the line classifier of `blockParser.render` (the regular expressions
  `thematicBreakRegexp`, `atxHeadingRegexp`/closer/attribute, `codeFenceRegexp`,
  the indented-code prefix) and the container openers `parseStartingMarkers`
  (`blockquoteMarkerRegexp`, `itemStartingMarkerRegexp`,
  `itemStartingMarkerBlankLineRegexp`, rules #1–#3 for the item indent), run
  on a document of one line, or of the line `a` followed by one line (so that
  the `newParagraph = false` paths are reached);

* `inline.go`: `inlineParser.render` restricted to texts whose only
  metacharacters are `*` and `_`, with the delimiter "stack" and
  `processEmphasis` (`openersBottom`, rule of 3, strong/regular choice,
  unlinking) and `buffer.ops`.

The doubly linked delimiter list is modelled as a zipper: `left` = the live
delimiters before the current closer (nearest first), `right` = the closer and
everything after it.  Pointer comparisons (`p != *openerBottom`) compare
`bufIdx`, which is unique per delimiter.  Slicing `Text[2:]`/`Text[1:]` of an
empty piece would panic in Go; the model has an explicit `panic` outcome.

Models the FIXED tree (fixes/C35-*.patch): an empty list item does not
interrupt a paragraph; the content of a newly opened block quote starts a new
paragraph; continuation lines lose their leading spaces/tabs.
-/
import ElvModel.C35.Chars
namespace C35
open Go

/-! ## md.go: regular expressions of the block parser -/

/-- `^ {0,3}((?:-[ \t]*){3,}|(?:_[ \t]*){3,}|(?:\*[ \t]*){3,})$` -/
def thematicBreakRe (line : Bytes) : Bool :=
  let n := leadingSpaces line
  n ≤ 3 &&
  match line.drop n with
  | c :: rest =>
    (c == 0x2D || c == 0x5F || c == 0x2A) &&
    rest.all (fun b => b == c || b == SP || b == 0x09) &&
    (rest.filter (· == c)).length + 1 ≥ 3
  | [] => false

/-- `^ {0,3}(#{1,6})(?:[ \t]|$)`: (end of opener, level) -/
def atxHeadingRe (line : Bytes) : Option (Nat × Nat) :=
  let n := leadingSpaces line
  if n > 3 then none else
  let k := countWhile (· == 0x23) (line.drop n)
  if k < 1 || k > 6 then none else
  match line.drop (n + k) with
  | [] => some (n + k, k)
  | c :: _ => if c == SP || c == 0x09 then some (n + k, k) else none

/-- `atxHeadingCloserRegexp.FindString` on a right-trimmed line:
`[ \t]#+[ \t]*$` — returns the length of the match (0 = no match) -/
def atxCloserLen (line : Bytes) : Nat :=
  let rev := line.reverse
  let h := countWhile (· == 0x23) rev
  if h == 0 then 0 else
  match rev.drop h with
  | p :: _ => if p == SP || p == 0x09 then h + 1 else 0
  | [] => 0

/-- leftmost occurrence of " {" in `s` at offset ≥ `from` with a non-empty rest -/
def findAttrOpen : Nat → Bytes → Option Nat
  | _, [] => none
  | i, b :: t =>
    if b == SP && t.head? == some 0x7B && t.length ≥ 2 then some i
    else (findAttrOpen (i + 1) t)

/-- ` {([^}]+)}$`: (start of match, captured attribute) -/
def atxAttrRe (line : Bytes) : Option (Nat × Bytes) :=
  if line.getLast? != some 0x7D then none else
  let body := line.dropLast
  -- the capture may not contain '}': only look after the last '}' of body
  let q := body.length - countWhile (· != 0x7D) body.reverse
  match findAttrOpen 0 (body.drop q) with
  | some p => some (q + p, body.drop (q + p + 2))
  | none => none

/-- "(^ {0,3})(?:(`{3,})([^`]*)|(~{3,})(.*))$": (indent, opener length, fence char, raw info) -/
def codeFenceRe (line : Bytes) : Option (Nat × Nat × UInt8 × Bytes) :=
  let n := leadingSpaces line
  if n > 3 then none else
  match line.drop n with
  | c :: rest =>
    if c == 0x60 then
      let k := countWhile (· == 0x60) (c :: rest)
      let info := (c :: rest).drop k
      if k ≥ 3 && !(info.contains 0x60) then some (n, k, c, info) else none
    else if c == 0x7E then
      let k := countWhile (· == 0x7E) (c :: rest)
      if k ≥ 3 then some (n, k, c, (c :: rest).drop k) else none
    else none
  | [] => none

/-- `^ {0,3}> ?`: length of the match -/
def blockquoteMarkerLen (line : Bytes) : Option Nat :=
  let n := leadingSpaces line
  if n ≤ 3 && (line.drop n).head? == some 0x3E then
    some (if (line.drop (n + 1)).head? == some SP then n + 2 else n + 1)
  else none

structure ItemM where
  /-- length of the whole match -/
  len : Nat
  bullet : Option UInt8
  start : Nat
  punct : UInt8
  /-- length of capture group 4 (trailing spaces; 0 for the blank-line form) -/
  spaces : Nat
  deriving Repr

/-- the common prefix `^ {0,3}(?:([-+*])|([0-9]{1,9})([.)]))`:
(length, bullet, start, punct) -/
def itemPrefix (line : Bytes) : Option (Nat × Option UInt8 × Nat × UInt8) :=
  let n := leadingSpaces line
  if n > 3 then none else
  match line.drop n with
  | c :: rest =>
    if c == 0x2D || c == 0x2B || c == 0x2A then some (n + 1, some c, 0, c)
    else
      let k := countWhile isDigitB (c :: rest)
      if k < 1 || k > 9 then none else
      match (c :: rest).drop k with
      | d :: _ => if d == 0x2E || d == 0x29 then some (n + k + 1, none, decVal ((c :: rest).take k), d) else none
      | [] => none
  | [] => none

/-- `itemStartingMarkerRegexp`: prefix then `( +)` -/
def itemMarkerRe (line : Bytes) : Option ItemM :=
  match itemPrefix line with
  | none => none
  | some (l, b, s, p) =>
    let sp := countWhile (· == SP) (line.drop l)
    if sp ≥ 1 then some { len := l + sp, bullet := b, start := s, punct := p, spaces := sp } else none

/-- `itemStartingMarkerBlankLineRegexp`: prefix then `[ \t]*()$` -/
def itemMarkerBlankRe (line : Bytes) : Option ItemM :=
  match itemPrefix line with
  | none => none
  | some (l, b, s, p) =>
    if isBlank (line.drop l) then some { len := line.length, bullet := b, start := s, punct := p, spaces := 0 }
    else none

/-! ## md.go: parseStartingMarkers -/

inductive Cont where
  | quote
  | bullet (punct : UInt8) (indent : Nat)
  | ordered (punct : UInt8) (start : Nat) (indent : Nat)
  deriving Repr, BEq, DecidableEq

/-- The loop of `parseStartingMarkers`.  Every iteration that continues
removes a non-empty marker from the line, so `fuel = len(line) + 1` suffices
(`C35_markers_terminate`); `none` = out of fuel. -/
def startingMarkers : Nat → Bytes → Bool → List Cont → Option (Bytes × List Cont)
  | 0, _, _, _ => none
  | fuel + 1, line, newPara, acc =>
    if thematicBreakRe line then some (line, acc.reverse) else
    match blockquoteMarkerLen line with
    | some l => startingMarkers fuel (line.drop l) true (.quote :: acc)   -- fixes/C35-blockquote-new-paragraph.patch
    | none =>
      let m := match itemMarkerRe line with
        | some m => some m
        | none => if newPara then itemMarkerBlankRe line else none
      match m with
      | none => some (line, acc.reverse)
      | some m =>
        let markerLen := if m.spaces ≥ 5 then m.len - m.spaces + 1 else m.len
        let marker := line.take markerLen
        let restBlank := isBlank (line.drop markerLen)
        if restBlank && !newPara then some (line, acc.reverse) else
        let indent := if restBlank then (trimRightSpTab marker).length + 1 else markerLen
        match m.bullet with
        | some b => startingMarkers fuel (line.drop markerLen) true (.bullet b indent :: acc)
        | none =>
          if m.start != 1 && !newPara then some (line, acc.reverse)
          else startingMarkers fuel (line.drop markerLen) true (.ordered m.punct m.start indent :: acc)

/-! ## md.go: one line through `render` -/

def stripMarks (s : Bytes) : Bytes := s.filter (fun b => !(b == 0x2A || b == 0x5F || b == 0x60))

def contOpen : Cont → List String
  | .quote => ["BQ["]
  | .bullet _ _ => ["UL[", "LI["]
  | .ordered _ s _ => [s!"OL{s}[", "LI["]

def contClose : Cont → List String
  | .quote => ["]BQ"]
  | .bullet _ _ => ["]LI", "]UL"]
  | .ordered _ _ _ => ["]LI", "]OL"]

/-- the leaf classification of `render` for a line with no `<` (no HTML
blocks), given whether a paragraph is open (`para`, already left-trimmed
lines) — returns the ops, and the paragraph lines still open afterwards -/
def classifyLeaf (line : Bytes) (para : List Bytes) : List String × List Bytes :=
  let closeP : List String :=
    if para.isEmpty then [] else ["P:" ++ hexEnc (stripMarks (trimSpTab (joinNL para)))]
  if isBlank line then (closeP, [])
  else if thematicBreakRe line then (closeP ++ ["HR"], [])
  else
    match atxHeadingRe line with
    | some (openerEnd, level) =>
      let l := trimRightSpTab (line.drop openerEnd)
      let cl := atxCloserLen l
      let l := if cl > 0 then trimRightSpTab (l.take (l.length - cl)) else l
      let (attr, l) := match atxAttrRe l with
        | some (p, a) => (a, trimRightSpTab (l.take p))
        | none => ([], l)
      (closeP ++ [s!"H{level}:{hexEnc (stripMarks (trimSpTab l))}:{hexEnc attr}"], [])
    | none =>
      match codeFenceRe line with
      | some (_, _, _, info) => (closeP ++ [s!"CB:{hexEnc (trimSpTab info)}:-"], [])
      | none =>
        if para.isEmpty && startsWith line (bs "    ") then ([s!"CB:-:{hexEnc (line.drop 4)}"], [])
        else ([], para ++ [trimLeftSpTab line])

/-- ops of a document consisting of `first` (optional line `a`) and `line` -/
def lineOps (two : Bool) (line : Bytes) : Option (List String) :=
  if line.contains 0x3C || line.contains NL || line.contains 0x5C || line.contains 0x26 ||
     line.contains 0x5B || line.contains 0x5D || line.contains 0x21 then none else
  let para0 : List Bytes := if two then [[0x61]] else []
  match startingMarkers (line.length + 1) line (!two) [] with
  | none => some ["FUEL"]
  | some (rest, conts) =>
    -- new containers close the open paragraph (closeBlocks(matched = 0))
    let (pre, para) :=
      if conts.isEmpty then (([] : List String), para0)
      else ((if two then ["P:61"] else []), [])
    let (leafOps, para') := classifyLeaf rest para
    let closeP : List String :=
      if para'.isEmpty then [] else ["P:" ++ hexEnc (stripMarks (trimSpTab (joinNL para')))]
    some (pre ++ conts.flatMap contOpen ++ leafOps ++ closeP ++ conts.reverse.flatMap contClose)

def lineOp (two : Bool) (h : String) : String :=
  match hexDecode h with
  | none => "bad-op"
  | some line =>
    match lineOps two line with
    | none => "unsupported"
    | some [] => "EMPTY"
    | some ops => " ".intercalate ops

/-! ## inline.go: delimiter stack and processEmphasis -/

inductive IOp where
  | text (s : Bytes)
  | emStart | emEnd | stStart | stEnd
  deriving Repr, BEq

/-- `piece`: `before` in iteration order, `after` in append order (iterated backwards) -/
structure Piece where
  before : List IOp
  text : Bytes
  after : List IOp
  deriving Repr

/-- a node of the delimiter list; `id` = bufIdx, `rem` = len(piece.main.Text) -/
structure D where
  id : Nat
  typ : UInt8
  n : Nat
  rem : Nat
  canOpen : Bool
  canClose : Bool
  deriving Repr

inductive Bot where
  | sentinel
  | at (id : Nat)
  deriving Repr, BEq

abbrev OBKey := Bool × Nat × Bool

structure PE where
  left : List D
  right : List D
  ob : List (OBKey × Bot)
  pieces : List Piece
  deriving Repr

inductive PERes where
  | ok (s : PE)
  | fuel
  | panic
  deriving Repr

def obLookup (ob : List (OBKey × Bot)) (k : OBKey) : Bot :=
  match ob.find? (fun e => e.1 == k) with
  | some e => e.2
  | none => .sentinel

def obSet (ob : List (OBKey × Bot)) (k : OBKey) (v : Bot) : List (OBKey × Bot) :=
  (k, v) :: ob.filter (fun e => !(e.1 == k))

/-- the condition of the opener search loop -/
def openerOK (p c : D) : Bool :=
  p.canOpen && p.typ == c.typ &&
  ((!p.canClose && !c.canOpen) || (p.n + c.n) % 3 != 0 || (p.n % 3 == 0 && c.n % 3 == 0))

/-- `for p := closer.prev; p != *openerBottom && p != bottom; p = p.prev`:
returns the opener and the delimiters to its left -/
def findOp (c : D) (bot : Bot) : List D → Option (D × List D)
  | [] => none
  | p :: rest =>
    if bot == .at p.id then none
    else if openerOK p c then some (p, rest)
    else findOp c bot rest

def updPiece (ps : List Piece) (i : Nat) (f : Piece → Piece) : List Piece :=
  ps.mapIdx (fun j p => if j == i then f p else p)

/-- 2 for strong emphasis (both pieces still have two characters), else 1 -/
def useOf (o c : D) : Nat := if o.rem ≥ 2 && c.rem ≥ 2 then 2 else 1

/-- the delimiters left of the closer after a match: everything between opener
and closer is dropped (`opener.next = closer`), an exhausted opener is unlinked -/
def leftAfter (o : D) (use : Nat) (rest : List D) : List D :=
  if o.rem - use == 0 then rest else { o with rem := o.rem - use } :: rest

def piecesAfter (ps : List Piece) (o c : D) (use : Nat) : List Piece :=
  let strong := use == 2
  let ps := updPiece ps o.id fun p =>
    { p with text := p.text.drop use, after := p.after ++ [if strong then IOp.stStart else .emStart] }
  updPiece ps c.id fun p =>
    { p with text := p.text.drop use, before := p.before ++ [if strong then IOp.stEnd else .emEnd] }

/-- `processEmphasis(bottom)` for the sentinel bottom -/
def peLoop : Nat → PE → PERes
  | 0, _ => .fuel
  | fuel + 1, s =>
    match s.right with
    | [] => .ok s
    | c :: right =>
      if c.canClose == false then peLoop fuel { s with left := c :: s.left, right := right }
      else
        match findOp c (obLookup s.ob (c.typ == 0x5F, c.n % 3, c.canOpen)) s.left with
        | none =>
          let prev := match s.left with
            | [] => Bot.sentinel
            | p :: _ => .at p.id
          let ob' := obSet s.ob (c.typ == 0x5F, c.n % 3, c.canOpen) prev
          if c.canOpen then peLoop fuel { s with left := c :: s.left, right := right, ob := ob' }
          else peLoop fuel { s with right := right, ob := ob' }
        | some (o, rest) =>
          if o.rem == 0 || c.rem == 0 then .panic else
          let use := useOf o c
          if c.rem - use == 0 then
            peLoop fuel { s with left := leftAfter o use rest, right := right,
                                 pieces := piecesAfter s.pieces o c use }
          else
            peLoop fuel { s with left := leftAfter o use rest,
                                 right := { c with rem := c.rem - use } :: right,
                                 pieces := piecesAfter s.pieces o c use }

/-- termination measure of `peLoop` -/
def peMeasure (s : PE) : Nat := (s.right.map (fun d => d.rem + 1)).sum

/-- Go's `unicode.IsSpace` / `unicode.IsPunct || unicode.IsSymbol` as parameters -/
structure GoU where
  isSpace : Nat → Bool
  isPunct : Nat → Bool

def goStdU : GoU where
  isSpace r := r == 0x20 || (0x09 ≤ r && r ≤ 0x0D) || r == 0x85 || zsSpaces.contains r ||
               r == 0x2028 || r == 0x2029
  isPunct r := if r < 0x80 then isAsciiPunctB (UInt8.ofNat r) else tblPunct.contains r

/-- `canOpenCloseEmphasis` -/
def canOpenClose (G : GoU) (b : UInt8) (prev next : Nat) : Bool × Bool :=
  let left := !G.isSpace next && (!G.isPunct next || G.isSpace prev || G.isPunct prev)
  let right := !G.isSpace prev && (!G.isPunct prev || G.isSpace next || G.isPunct next)
  if b == 0x2A then (left, right)
  else (left && (!right || G.isPunct prev), right && (!left || G.isPunct next))

/-- `isMeta`: one of ``![]*_`\&<`` or newline -/
def isMetaB (b : UInt8) : Bool :=
  b == 0x21 || b == 0x5B || b == 0x5D || b == 0x2A || b == 0x5F || b == 0x60 || b == 0x5C ||
  b == 0x26 || b == 0x3C || b == NL

structure Tok where
  pieces : List Piece   -- most recent first
  delims : List D       -- most recent first
  prev : Nat
  skip : Nat
  unsupported : Bool

/-- one iteration of `inlineParser.render` at byte `b` (only `*`, `_` and text) -/
def tokStep (G : GoU) (st : Tok) (b : UInt8) (t : Bytes) : Tok :=
  if b == 0x2A || b == 0x5F then
    let k := countWhile (· == b) (b :: t)
    let next := match decodeRune ((b :: t).drop k) with
      | (_, 0) => NL.toNat
      | (r, _) => r
    let (co, cc) := canOpenClose G b st.prev next
    let id := st.pieces.length
    { st with pieces := { before := [], text := List.replicate k b, after := [] } :: st.pieces,
              delims := { id := id, typ := b, n := k, rem := k, canOpen := co, canClose := cc } :: st.delims,
              prev := b.toNat, skip := k - 1 }
  else if isMetaB b then { st with unsupported := true }
  else
    -- parseText: up to the next metacharacter
    let k := countWhile (fun c => !isMetaB c) t
    let txt := b :: t.take k
    let prev := (decodeLastRune txt).1
    { st with pieces := { before := [], text := txt, after := [] } :: st.pieces, prev := prev, skip := k }

def tokScan (G : GoU) : Tok → Bytes → Tok
  | st, [] => st
  | st, b :: t =>
    match st.skip with
    | k + 1 => tokScan G { st with skip := k } t
    | 0 => tokScan G (tokStep G st b t) t

/-- `buffer.ops` (no newlines can occur) -/
def bufferOps (pieces : List Piece) : List IOp :=
  let flat := pieces.flatMap fun p => p.before ++ [IOp.text p.text] ++ p.after.reverse
  flat.foldl (fun acc op =>
    match op with
    | .text s =>
      if s.isEmpty then acc else
      match acc.getLast? with
      | some (.text a) => acc.dropLast ++ [.text (a ++ s)]
      | _ => acc ++ [.text s]
    | o => acc ++ [o]) []

inductive EmphOut where
  | ops (l : List IOp)
  | fuel | panic | unsupported

def renderEmph (G : GoU) (text : Bytes) : EmphOut :=
  let st := tokScan G { pieces := [], delims := [], prev := NL.toNat, skip := 0, unsupported := false } text
  if st.unsupported then .unsupported else
  let s0 : PE := { left := [], right := st.delims.reverse, ob := [], pieces := st.pieces.reverse }
  match peLoop (peMeasure s0 + 1) s0 with
  | .fuel => .fuel
  | .panic => .panic
  | .ok s => .ops (bufferOps s.pieces)

def iopStr : IOp → String
  | .text s => "T:" ++ hexEnc s
  | .emStart => "E["
  | .emEnd => "]E"
  | .stStart => "S["
  | .stEnd => "]S"

/-- op `emph`: the heading `# <text>`; the content is `strings.Trim(text, " \t")` -/
def emphOp (h : String) : String :=
  match hexDecode h with
  | none => "bad-op"
  | some text =>
    if text.contains 0x23 || text.contains 0x7B then "unsupported" else
    match renderEmph goStdU (trimSpTab text) with
    | .fuel => "FUEL"
    | .panic => "PANIC"
    | .unsupported => "unsupported"
    | .ops [] => "EMPTY"
    | .ops l => " ".intercalate (l.map iopStr)

end C35
