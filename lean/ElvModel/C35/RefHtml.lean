/-
C35 — CommonMark REFERENCE: tight/loose decision, HTML rendering (the format
of the reference implementation's `spec.json` output) and the declared
subset `inSubset`.

`render loose := false` is CommonMark's output; `render loose := true` renders
every list loose and writes `<li>` followed by a newline — what elvish
documents ("lists are always considered loose") and emits; the two coincide on
documents without tight lists up to the serialisation of an empty item
(`C35_loose_eq` in ElvProofs).
-/
import ElvModel.C35.RefInline
import ElvModel.C35.RefBlock
namespace C35
open Go

/-! ### Escaping -/

def escHtml (s : Bytes) : Bytes :=
  s.flatMap fun b =>
    if b == 0x26 then [0x26, 0x61, 0x6D, 0x70, 0x3B]            -- &amp;
    else if b == 0x3C then [0x26, 0x6C, 0x74, 0x3B]             -- &lt;
    else if b == 0x3E then [0x26, 0x67, 0x74, 0x3B]             -- &gt;
    else if b == 0x22 then [0x26, 0x71, 0x75, 0x6F, 0x74, 0x3B] -- &quot;
    else [b]

def hexUp (n : Nat) : UInt8 := UInt8.ofNat (if n < 10 then 48 + n else 55 + n)

def urlSafe (b : UInt8) : Bool := isAlnumB b || (bs "-_.+!*(),%#@?=;:/$~").contains b

/-- the reference implementation's href escaping; in `loose` (elvish
serialisation) mode an apostrophe is written as itself instead of `&#x27;` -/
def escUrl (loose : Bool) (s : Bytes) : Bytes :=
  s.flatMap fun b =>
    if urlSafe b then [b]
    else if b == 0x26 then bs "&amp;"
    else if b == 0x27 then (if loose then [b] else bs "&#x27;")
    else [0x25, hexUp (b.toNat / 16), hexUp (b.toNat % 16)]

/-! ### Inlines -/

/-- plain-text content (image descriptions) -/
def plainText : Nat → List Inl → Bytes
  | 0, _ => []
  | fuel + 1, l => l.flatMap fun
    | .text s => s
    | .code s => s
    | .emph c => plainText fuel c
    | .strong c => plainText fuel c
    | .link _ _ c => plainText fuel c
    | .image _ _ c => plainText fuel c
    | .autolink _ t => t
    | .hardbreak => [NL]
    | .softbreak => [NL]

def titleAttr (t : Bytes) : Bytes :=
  if t.isEmpty then [] else bs " title=\"" ++ escHtml t ++ bs "\""

def inlHtml (loose : Bool) : Nat → List Inl → Bytes
  | 0, _ => bs "FUEL"
  | fuel + 1, l => l.flatMap fun
    | .text s => escHtml s
    | .code s => bs "<code>" ++ escHtml s ++ bs "</code>"
    | .emph c => bs "<em>" ++ inlHtml loose fuel c ++ bs "</em>"
    | .strong c => bs "<strong>" ++ inlHtml loose fuel c ++ bs "</strong>"
    | .link d t c => bs "<a href=\"" ++ escUrl loose d ++ bs "\"" ++ titleAttr t ++ bs ">" ++ inlHtml loose fuel c ++ bs "</a>"
    | .image d t c =>
      bs "<img src=\"" ++ escUrl loose d ++ bs "\" alt=\"" ++ escHtml (plainText fuel c) ++ bs "\"" ++ titleAttr t ++ bs " />"
    | .autolink d t => bs "<a href=\"" ++ escUrl loose d ++ bs "\">" ++ escHtml t ++ bs "</a>"
    | .hardbreak => bs "<br />\n"
    | .softbreak => [NL]

/-! ### Tight / loose (spec §5.3: "A list is loose if any of its constituent
list items are separated by blank lines, or if any of its constituent list
items directly contain two block-level elements with a blank line between
them") -/

def Raw.isBlankNode : Raw → Bool
  | .blank => true
  | _ => false

def Raw.isItemNode : Raw → Bool
  | .item _ => true
  | _ => false

/-- does the chain of last children (through lists and items) end in a blank line? -/
def lastFlagged : Nat → List Raw → Bool
  | 0, _ => false
  | fuel + 1, cs =>
    match cs.getLast? with
    | some .blank => true
    | some (.list _ _ _ items) => lastFlagged fuel items
    | some (.item c) => lastFlagged fuel c
    | _ => false

def looseSubs (fuel : Nat) (hasNextItem : Bool) : List Raw → Bool
  | [] => false
  | s :: rest =>
    if s.isBlankNode then looseSubs fuel hasNextItem rest else
    let hasNext := rest.any (fun r => !r.isBlankNode)
    let ewb := (match rest with | r :: _ => r.isBlankNode | [] => false) ||
      (match s with
       | .list _ _ _ items => lastFlagged fuel items
       | _ => false)
    ((hasNextItem || hasNext) && ewb) || looseSubs fuel hasNextItem rest

def looseItems (fuel : Nat) : List Raw → Bool
  | [] => false
  | it :: rest =>
    match it with
    | .item c =>
      let hasNextItem := rest.any Raw.isItemNode
      let flagged := (match c.getLast? with | some r => r.isBlankNode | none => false) ||
                     (match rest with | r :: _ => r.isBlankNode | [] => false)
      (flagged && hasNextItem) || looseSubs fuel hasNextItem c || looseItems fuel rest
    | _ => looseItems fuel rest

/-! ### Blocks -/

/-- "cr": start a new line unless already at one -/
def cr (out : Bytes) : Bytes :=
  match out.getLast? with
  | none => out
  | some b => if b == NL then out else out ++ [NL]

def paraText (lines : List Bytes) : Bytes := trimRightSpTab (joinNL lines)

def infoClass (info : Bytes) : Option Bytes :=
  match unescape info with
  | none => none
  | some i =>
    let w := i.takeWhile (fun b => !(b == SP || b == 0x09))
    some (if w.isEmpty then [] else bs " class=\"language-" ++ escHtml w ++ bs "\"")

structure ROut where
  out : Bytes
  bad : Bool     -- an inline or info string fell outside the subset / fuel ran out

/-- render a block sequence.  `tight`: paragraphs are written without `<p>`;
`loose` (a mode): force every list loose, elvish's `<li>\n`. -/
def renderRaws (U : UClass) (loose : Bool) : Nat → Bool → List Raw → ROut → ROut
  | 0, _, _, o => { o with bad := true }
  | fuel + 1, tight, rs, o =>
    rs.foldl (fun o r =>
      match r with
      | .blank => o
      | .para lines =>
        match parseInlines U (paraText lines) with
        | none => { o with bad := true }
        | some inl =>
          let h := inlHtml loose (fuel + (paraText lines).length) inl
          if tight then { o with out := o.out ++ h }
          else { o with out := cr o.out ++ bs "<p>" ++ h ++ bs "</p>\n" }
      | .heading lvl raw =>
        match parseInlines U raw with
        | none => { o with bad := true }
        | some inl =>
          let tag := [0x68, UInt8.ofNat (48 + lvl)]
          { o with out := cr o.out ++ bs "<" ++ tag ++ bs ">" ++ inlHtml loose (fuel + raw.length) inl ++
                          bs "</" ++ tag ++ bs ">\n" }
      | .hr => { o with out := cr o.out ++ bs "<hr />\n" }
      | .code info lines =>
        match infoClass info with
        | none => { o with bad := true }
        | some cls =>
          { o with out := cr o.out ++ bs "<pre><code" ++ cls ++ bs ">" ++
                          lines.flatMap (fun l => escHtml l ++ [NL]) ++ bs "</code></pre>\n" }
      | .quote c =>
        let o1 := renderRaws U loose fuel false c { o with out := cr o.out ++ bs "<blockquote>\n" }
        { o1 with out := cr o1.out ++ bs "</blockquote>\n" }
      | .list ordered start _ items =>
        let t := !loose && !(looseItems fuel items)
        let openTag :=
          if ordered then
            (if start == 1 then bs "<ol>\n" else bs "<ol start=\"" ++ bs (toString start) ++ bs "\">\n")
          else bs "<ul>\n"
        let o1 := items.foldl (fun o it =>
          match it with
          | .item c =>
            let o2 := renderRaws U loose fuel t c
              { o with out := cr o.out ++ bs "<li>" ++ (if loose then [NL] else []) }
            { o2 with out := (if loose then cr o2.out else o2.out) ++ bs "</li>\n" }
          | _ => o) { o with out := cr o.out ++ openTag }
        { o1 with out := cr o1.out ++ (if ordered then bs "</ol>\n" else bs "</ul>\n") }
      | .item _ => o) o

/-- the reference renderer; `none` = outside the subset / out of fuel -/
def render (U : UClass) (loose : Bool) (doc : Bytes) : Option Bytes :=
  match parseBlocks doc with
  | none => none
  | some rs =>
    let o := renderRaws U loose (doc.length + 2) false rs { out := [], bad := false }
    if o.bad then none else some o.out

/-! ### The declared subset (purely syntactic, mirrored in harness/c35/subset.go) -/

def stripQuoteIndent (l : Bytes) : Bytes := l.dropWhile (fun b => b == SP || b == 0x3E)

def isSetextLike (l : Bytes) : Bool :=
  let s := trimRightSp (stripQuoteIndent l)
  !s.isEmpty && (s.all (· == 0x3D) || s.all (· == 0x2D))

def badUrlByte (b : UInt8) : Bool :=
  b == 0x5E || b == 0x7B || b == 0x7D || b == 0x7C || b ≥ 0x80

/-- scan the document for `<`, `&`, `](` hazards; structural on the input -/
def hazards : Bytes → Bool
  | [] => false
  | b :: t =>
    (if b == 0x3C then
      (match t with
       | c :: _ =>
         if c == 0x21 || c == 0x3F || c == 0x2F then true
         else if isLetterB c then
           (match uriAutolinkLen t with
            | some _ => false
            | none => (emailAutolinkLen t).isNone)
         else false
       | [] => false) ||
      (t.takeWhile (fun c => !(c == 0x3E || c == NL))).any badUrlByte
    else if b == 0x26 then
      (match parseEntity t with
       | .unknown _ => true
       | _ => false)
    else if b == 0x5D then
      (match t with
       | 0x3A :: _ => true
       | 0x28 :: t' =>
         ((t'.dropWhile (fun c => c == SP || c == NL)).takeWhile (fun c => !(c == SP || c == NL))).any badUrlByte
       | _ => false)
    else false) || hazards t

/-- remove block-quote markers (`^ {0,3}> ?`, repeatedly) from the start of a line -/
def stripQuoteMarkers : Nat → Bytes → Bytes
  | 0, l => l
  | fuel + 1, l =>
    let n := leadingSpaces l
    if n ≤ 3 && (l.drop n).head? == some 0x3E then
      let r := l.drop (n + 1)
      stripQuoteMarkers fuel (if r.head? == some SP then r.drop 1 else r)
    else l

/-- a line that is whitespace-only, possibly after block-quote markers (how much
of such a line belongs to an indented code block inside a list item differs
between CommonMark implementations; the reference drops it) -/
def whitespaceOnly (l : Bytes) : Bool :=
  let r := stripQuoteMarkers l.length l
  !r.isEmpty && r.all (· == SP)

def lineHazards : Option Bytes → List Bytes → Bool
  | _, [] => false
  | prev, l :: ls =>
    whitespaceOnly l ||
    (isSetextLike l && (match prev with
        | some p => !(stripQuoteIndent p).isEmpty
        | none => false)) ||
    (containsSub (bs " {") l && (trimRightSp l).getLast? == some 0x7D) ||
    -- whether a character reference for a space or tab at the edge of an info
    -- string is trimmed is not settled by the spec
    ((containsSub (bs "```") l || containsSub (bs "~~~") l) &&
      (containsSub (bs "&#") l || containsSub (bs "&Tab;") l || containsSub (bs "&NewLine;") l)) ||
    lineHazards (some l) ls

def inSubset (U : UClass) (doc : Bytes) : Bool :=
  doc.all (fun b => b == NL || (0x20 ≤ b && b != 0x7F)) &&
  validUtf8 doc &&
  (toRunes doc).all (knownRune U) &&
  !(hazards doc) &&
  !(lineHazards none (docLines doc))

end C35
