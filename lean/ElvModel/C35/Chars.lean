/-
C35 — byte/character vocabulary shared by the CommonMark reference
(`RefInline`, `RefBlock`, `RefHtml`) and the models of elvish's risky cores
(`Model`).  Core Lean only.
-/
import ElvModel.Go.Basic
import ElvModel.Go.Utf8
namespace C35
open Go

/-- Bytes of an ASCII string literal (short literals only). -/
def bs (s : String) : Bytes := s.toUTF8.toList

def isDigitB (b : UInt8) : Bool := 0x30 ≤ b && b ≤ 0x39
def isUpperB (b : UInt8) : Bool := 0x41 ≤ b && b ≤ 0x5A
def isLowerB (b : UInt8) : Bool := 0x61 ≤ b && b ≤ 0x7A
def isLetterB (b : UInt8) : Bool := isUpperB b || isLowerB b
def isAlnumB (b : UInt8) : Bool := isLetterB b || isDigitB b
def isHexB (b : UInt8) : Bool :=
  isDigitB b || (0x41 ≤ b && b ≤ 0x46) || (0x61 ≤ b && b ≤ 0x66)

/-- CommonMark "ASCII punctuation character". -/
def isAsciiPunctB (b : UInt8) : Bool :=
  (0x21 ≤ b && b ≤ 0x2F) || (0x3A ≤ b && b ≤ 0x40) || (0x5B ≤ b && b ≤ 0x60) ||
  (0x7B ≤ b && b ≤ 0x7E)

def SP : UInt8 := 0x20
def NL : UInt8 := 0x0A

def hexDigitVal (b : UInt8) : Nat :=
  if isDigitB b then b.toNat - 0x30
  else if 0x41 ≤ b && b ≤ 0x46 then b.toNat - 0x37
  else b.toNat - 0x57

def decVal (ds : Bytes) : Nat := ds.foldl (fun a d => a * 10 + (d.toNat - 0x30)) 0
def hexVal' (ds : Bytes) : Nat := ds.foldl (fun a d => a * 16 + hexDigitVal d) 0

/-- number of leading bytes satisfying `p` -/
def countWhile (p : UInt8 → Bool) : Bytes → Nat
  | [] => 0
  | b :: t => if p b then countWhile p t + 1 else 0

theorem countWhile_le (p : UInt8 → Bool) (s : Bytes) : countWhile p s ≤ s.length := by
  induction s with
  | nil => simp [countWhile]
  | cons b t ih => simp only [countWhile]; split <;> simp <;> omega

def leadingSpaces (s : Bytes) : Nat := countWhile (· == SP) s

def isBlank (s : Bytes) : Bool := s.all (fun b => b == SP || b == 0x09)

def trimLeftSp (s : Bytes) : Bytes := s.dropWhile (· == SP)
def trimRightSp (s : Bytes) : Bytes := (s.reverse.dropWhile (· == SP)).reverse
def trimRightSpTab (s : Bytes) : Bytes :=
  (s.reverse.dropWhile (fun b => b == SP || b == 0x09)).reverse
def trimLeftSpTab (s : Bytes) : Bytes := s.dropWhile (fun b => b == SP || b == 0x09)
def trimSpTab (s : Bytes) : Bytes := trimRightSpTab (trimLeftSpTab s)

def startsWith (s pre : Bytes) : Bool := pre.isPrefixOf s
def endsWith (s suf : Bytes) : Bool := suf.reverse.isPrefixOf s.reverse

/-- split on `\n` (Go `strings.Split(s, "\n")`: always at least one piece) -/
def splitNL : Bytes → List Bytes
  | [] => [[]]
  | b :: t =>
    match splitNL t with
    | [] => [[b]]   -- unreachable: splitNL is never empty
    | l :: ls => if b == NL then [] :: l :: ls else (b :: l) :: ls

/-- lines of a document as CommonMark sees them: a final `\n` does not start
another line. -/
def docLines (s : Bytes) : List Bytes :=
  if s.isEmpty then [] else
  let ls := splitNL s
  if s.getLast? == some NL then ls.dropLast else ls

def joinNL : List Bytes → Bytes
  | [] => []
  | [l] => l
  | l :: ls => l ++ NL :: joinNL ls

/-- Does `needle` occur in `s`? -/
def containsSub (needle : Bytes) : Bytes → Bool
  | [] => needle.isEmpty
  | s@(_ :: t) => needle.isPrefixOf s || containsSub needle t

/-! ### Unicode classes

CommonMark's flanking rules need "Unicode whitespace" (Zs, tab, LF, FF, CR) and
"Unicode punctuation" (P and S).  ASCII is decided exactly; outside ASCII the
class of a code point is a parameter (`UClass`), instantiated for execution by
a short declared table — documents using other non-ASCII code points are
outside the declared subset (`inSubset`). -/

structure UClass where
  /-- non-ASCII punctuation/symbol code points -/
  punct : Nat → Bool
  /-- non-ASCII code points that are "other" (letters, digits, marks) -/
  other : Nat → Bool

def zsSpaces : List Nat :=
  [0xA0, 0x1680, 0x2000, 0x2001, 0x2002, 0x2003, 0x2004, 0x2005, 0x2006, 0x2007, 0x2008,
   0x2009, 0x200A, 0x202F, 0x205F, 0x3000]

def isUniSpace (r : Nat) : Bool :=
  r == 0x20 || r == 0x09 || r == 0x0A || r == 0x0C || r == 0x0D || zsSpaces.contains r

def isUniPunct (U : UClass) (r : Nat) : Bool :=
  if r < 0x80 then isAsciiPunctB (UInt8.ofNat r) else U.punct r

/-- the declared table used for execution -/
def tblPunct : List Nat :=
  [0xA1, 0xA3, 0xA7, 0xAB, 0xBB, 0xBF, 0x2014, 0x2018, 0x2019, 0x201C, 0x201D, 0x2026,
   0x20AC, 0x1F600]
def tblOther : List Nat :=
  [0xE4, 0xE9, 0xF6, 0xFC, 0xDF, 0x3B1, 0x3B3, 0x3C9, 0x3BB, 0x42D, 0x445, 0x44F, 0x4E16, 0x754C]

def stdU : UClass := { punct := tblPunct.contains, other := tblOther.contains }

/-- is a non-ASCII code point classified by the table at all? -/
def knownRune (U : UClass) (r : Nat) : Bool :=
  r < 0x80 || zsSpaces.contains r || U.punct r || U.other r

/-! ### Entities -/

/-- named entities the reference knows (all are HTML5 entities) -/
def namedEntities : List (String × Nat) :=
  [("lt", 60), ("gt", 62), ("amp", 38), ("quot", 34), ("apos", 39), ("nbsp", 0xA0),
   ("Tab", 9), ("NewLine", 10)]

/-- names known NOT to be HTML5 entities (rendered literally by CommonMark) -/
def nonEntities : List String := ["quote"]

def lookupNamed (name : Bytes) : Option Nat :=
  (namedEntities.find? (fun p => bs p.1 == name)).map (·.2)

/-- Outcome of looking at an `&` : how many bytes the reference consumes and
what they mean. -/
inductive Ent where
  | none                       -- not a character reference: literal `&`
  | char (r : Nat) (len : Nat) -- a reference of `len` bytes denoting code point `r`
  | unknown (len : Nat)        -- syntactically a named reference the reference does not know
  deriving Repr, DecidableEq

/-- `s` starts just after the `&`. -/
def parseEntity (s : Bytes) : Ent :=
  match s with
  | 0x23 :: t =>   -- '#'
    match t with
    | x :: t' =>
      if x == 0x78 || x == 0x58 then
        let k := countWhile isHexB t'
        if 1 ≤ k && k ≤ 6 && (t'.drop k).head? == some 0x3B then
          let v := hexVal' (t'.take k)
          .char (if v == 0 || !(validRune v) then 0xFFFD else v) (k + 4)
        else .none
      else
        let k := countWhile isDigitB t
        if 1 ≤ k && k ≤ 7 && (t.drop k).head? == some 0x3B then
          let v := decVal (t.take k)
          .char (if v == 0 || !(validRune v) then 0xFFFD else v) (k + 3)
        else .none
    | [] => .none
  | _ =>
    let k := countWhile isAlnumB s
    if 1 ≤ k && (s.drop k).head? == some 0x3B then
      let name := s.take k
      match lookupNamed name with
      | some r => .char r (k + 2)
      | none => if nonEntities.any (fun n => bs n == name) then .none else .unknown (k + 2)
    else .none

end C35
