/-
C35 — CommonMark REFERENCE, phase 1 (block structure), written from the spec
text (0.31.2 §4, §5 and the appendix "Phase 1: block structure") for the
declared subset: paragraphs, ATX headings, thematic breaks, fenced and indented
code blocks, block quotes, bullet and ordered lists (tight and loose), blank
lines, lazy continuation.  Not covered (documents are rejected by `inSubset`):
tabs, setext headings, link reference definitions, HTML blocks.

The whole tree is built first (`Raw`, blank lines kept as nodes so that
tightness can be decided afterwards); inlines are parsed in phase 2.
`parseBlocks` is a fold over the lines, so it terminates by construction; the
only inner loop (`openBlocks`, container openers on one line) takes fuel
bounded by the line length.
-/
import ElvModel.C35.Chars
namespace C35
open Go

inductive Raw where
  | para (lines : List Bytes)
  | heading (lvl : Nat) (raw : Bytes)
  | hr
  | code (info : Bytes) (lines : List Bytes)
  | quote (c : List Raw)
  | list (ordered : Bool) (start : Nat) (delim : UInt8) (items : List Raw)
  | item (c : List Raw)
  | blank
  deriving Repr, BEq, Inhabited

inductive FKind where
  | doc
  | quote
  | list (ordered : Bool) (start : Nat) (delim : UInt8)
  | item (indent : Nat)
  deriving Repr, BEq, Inhabited

structure Frame where
  kind : FKind
  kids : List Raw     -- most recent first
  deriving Repr, Inhabited

inductive Leaf where
  | none
  | para (lines : List Bytes)                                   -- most recent first
  | fenced (ch : UInt8) (n indent : Nat) (info : Bytes) (lines : List Bytes)
  | indented (lines : List Bytes) (pending : List Bytes)
  deriving Repr, Inhabited

structure BState where
  frames : List Frame   -- innermost first; the last one is the document
  leaf : Leaf
  fuelOut : Bool
  deriving Repr, Inhabited

def Leaf.isPara : Leaf → Bool
  | .para _ => true
  | _ => false

def Leaf.isNone : Leaf → Bool
  | .none => true
  | _ => false

def pushKid (r : List Raw) : List Frame → List Frame
  | [] => []
  | f :: fs => { f with kids := r ++ f.kids } :: fs

def closeLeaf (st : BState) : BState :=
  match st.leaf with
  | .none => st
  | .para ls => { st with frames := pushKid [.para ls.reverse] st.frames, leaf := .none }
  | .fenced _ _ _ info ls => { st with frames := pushKid [.code info ls.reverse] st.frames, leaf := .none }
  | .indented ls pending =>
    -- trailing blank lines are not part of the code block; they are blank
    -- lines of the enclosing container
    { st with frames := pushKid (List.replicate pending.length .blank ++ [.code [] ls.reverse]) st.frames,
              leaf := .none }

def frameToRaw (f : Frame) : Raw :=
  match f.kind with
  | .doc => .quote f.kids.reverse   -- never used
  | .quote => .quote f.kids.reverse
  | .list o s d => .list o s d f.kids.reverse
  | .item _ => .item f.kids.reverse

/-- pop the innermost container (the leaf must be closed already) -/
def closeTop (st : BState) : BState :=
  match st.frames with
  | f :: g :: fs =>
    { st with frames := { g with kids := frameToRaw f :: g.kids } :: fs }
  | _ => st

/-- close containers until only `keep` non-document containers remain -/
def closeDown : Nat → BState → Nat → BState
  | 0, st, _ => st
  | fuel + 1, st, keep =>
    if st.frames.length - 1 > keep then closeDown fuel (closeTop (closeLeaf st)) keep else st

def closeUnmatched (st : BState) (matched : Nat) : BState :=
  closeDown st.frames.length st matched

/-- close what is unmatched, the leaf, and a list on top (a list can only
contain items) — ready to add a non-item block -/
def prepareBlock (st : BState) (matched : Nat) : BState :=
  let st := closeLeaf (closeUnmatched st matched)
  match st.frames with
  | f :: _ => match f.kind with
    | .list .. => closeTop st
    | _ => st
  | [] => st

/-! ### Continuation of open containers -/

def matchOne (k : FKind) (emptyItem : Bool) (line : Bytes) : Option Bytes :=
  match k with
  | .doc => some line
  | .list .. => some line
  | .quote =>
    let n := leadingSpaces line
    if n ≤ 3 && (line.drop n).head? == some 0x3E then
      let r := line.drop (n + 1)
      some (if r.head? == some SP then r.drop 1 else r)
    else none
  | .item indent =>
    if isBlank line then (if emptyItem then none else some [])
    else if leadingSpaces line ≥ indent then some (line.drop indent)
    else none

/-- `fs`: the non-document containers, OUTERMOST first -/
def matchFrames (leafNone : Bool) : List Frame → Bytes → Nat × Bytes
  | [], line => (0, line)
  | f :: fs, line =>
    let emptyItem := fs.isEmpty && f.kids.isEmpty && leafNone
    match matchOne f.kind emptyItem line with
    | none => (0, line)
    | some rest =>
      let (n, r) := matchFrames leafNone fs rest
      (n + 1, r)

/-! ### Block starts -/

/-- thematic break: ≤3 spaces, then ≥3 of the same `-`, `_` or `*`, with
spaces/tabs between, nothing else -/
def isThematicBreak (line : Bytes) : Bool :=
  let n := leadingSpaces line
  if n > 3 then false else
  match line.drop n with
  | c :: rest =>
    (c == 0x2D || c == 0x5F || c == 0x2A) &&
    rest.all (fun b => b == c || b == SP || b == 0x09) &&
    (rest.filter (· == c)).length ≥ 2
  | [] => false

/-- ATX heading: (level, raw inline content) -/
def atxHeading (line : Bytes) : Option (Nat × Bytes) :=
  let n := leadingSpaces line
  if n > 3 then none else
  let body := line.drop n
  let k := countWhile (· == 0x23) body
  if k < 1 || k > 6 then none else
  let after := body.drop k
  match after with
  | [] => some (k, [])
  | c :: _ =>
    if !(c == SP || c == 0x09) then none else
    let content := trimSpTab after
    -- optional closing sequence: a run of # preceded by space/tab (or being everything)
    let rev := content.reverse
    let h := countWhile (· == 0x23) rev
    let content :=
      if h == 0 then content
      else
        match rev.drop h with
        | [] => []
        | p :: _ => if p == SP || p == 0x09 then trimRightSpTab (rev.drop h).reverse else content
    some (k, content)

/-- opening code fence: (fence char, length, indent, raw info string) -/
def fenceOpen (line : Bytes) : Option (UInt8 × Nat × Nat × Bytes) :=
  let n := leadingSpaces line
  if n > 3 then none else
  match line.drop n with
  | c :: rest =>
    if c == 0x60 || c == 0x7E then
      let k := countWhile (· == c) (c :: rest)
      if k < 3 then none else
      let info := (c :: rest).drop k
      if c == 0x60 && info.contains 0x60 then none
      else some (c, k, n, trimSpTab info)
    else none
  | [] => none

def fenceClose (ch : UInt8) (n : Nat) (line : Bytes) : Bool :=
  let i := leadingSpaces line
  if i > 3 then false else
  let body := line.drop i
  let k := countWhile (· == ch) body
  k ≥ n && k ≥ 3 && isBlank (body.drop k)

structure Marker where
  ordered : Bool
  start : Nat
  delim : UInt8
  /-- spaces before the marker + width of the marker itself -/
  width : Nat
  /-- what follows the marker -/
  after : Bytes
  deriving Repr

def listMarker (line : Bytes) : Option Marker :=
  let n := leadingSpaces line
  if n > 3 then none else
  match line.drop n with
  | c :: rest =>
    if c == 0x2D || c == 0x2B || c == 0x2A then
      if rest.isEmpty || rest.head? == some SP then
        some { ordered := false, start := 0, delim := c, width := n + 1, after := rest }
      else none
    else
      let k := countWhile isDigitB (c :: rest)
      if k < 1 || k > 9 then none else
      match (c :: rest).drop k with
      | d :: rest' =>
        if (d == 0x2E || d == 0x29) && (rest'.isEmpty || rest'.head? == some SP) then
          some { ordered := true, start := decVal ((c :: rest).take k), delim := d,
                 width := n + k + 1, after := rest' }
        else none
      | [] => none
  | [] => none

/-! ### One line -/

def addKids (st : BState) (r : List Raw) : BState := { st with frames := pushKid r st.frames }

def pushFrame (st : BState) (k : FKind) : BState :=
  { st with frames := { kind := k, kids := [] } :: st.frames }

/-- a non-blank line that starts no block: paragraph continuation (possibly
lazy) or a new paragraph -/
def addText (st : BState) (matched : Nat) (rest : Bytes) : BState :=
  match st.leaf with
  | .para ls => { st with leaf := .para (trimLeftSp rest :: ls) }
  | _ =>
    let st := prepareBlock st matched
    { st with leaf := .para [trimLeftSp rest] }

def finishBlank (st : BState) (matched : Nat) : BState :=
  let st := closeLeaf (closeUnmatched st matched)
  match st.frames with
  | f :: _ =>
    match f.kind with
    | .item _ => if f.kids.isEmpty then st else addKids st [.blank]
    | _ => addKids st [.blank]
  | [] => st

/-- look for block starts in `rest` (the line after the continuation markers
of the `matched` containers) -/
def openBlocks : Nat → BState → Nat → Bytes → BState
  | 0, st, _, _ => { st with fuelOut := true }
  | fuel + 1, st, matched, rest =>
    if isBlank rest then finishBlank st matched else
    let ind := leadingSpaces rest
    let tipPara := st.leaf.isPara
    if ind ≥ 4 then
      if tipPara then addText st matched rest
      else
        let st := prepareBlock st matched
        { st with leaf := .indented [rest.drop 4] [] }
    else
    let body := rest.drop ind
    if body.head? == some 0x3E then
      let st := prepareBlock st matched
      let st := pushFrame st .quote
      let r := body.drop 1
      let r := if r.head? == some SP then r.drop 1 else r
      openBlocks fuel st (st.frames.length - 1) r
    else
    match atxHeading rest with
    | some (lvl, raw) => addKids (prepareBlock st matched) [.heading lvl raw]
    | none =>
    match fenceOpen rest with
    | some (ch, n, indent, info) =>
      { prepareBlock st matched with leaf := .fenced ch n indent info [] }
    | none =>
    if isThematicBreak rest then addKids (prepareBlock st matched) [.hr] else
    match listMarker rest with
    | none => addText st matched rest
    | some m =>
      let blankAfter := isBlank m.after
      let interrupts := tipPara && matched == st.frames.length - 1
      if interrupts && (blankAfter || (m.ordered && m.start != 1)) then addText st matched rest
      else
        let sp := leadingSpaces m.after
        let (offset, r) :=
          if blankAfter then (m.width + 1, ([] : Bytes))
          else if sp ≥ 5 then (m.width + 1, m.after.drop 1)
          else (m.width + sp, m.after.drop sp)
        -- close what does not continue; keep a list on top if the new item continues it
        let st := closeLeaf (closeUnmatched st matched)
        let st :=
          match st.frames with
          | f :: _ =>
            match f.kind with
            | .list o _ d =>
              if o == m.ordered && d == m.delim then st
              else pushFrame (closeTop st) (.list m.ordered m.start m.delim)
            | _ => pushFrame st (.list m.ordered m.start m.delim)
          | [] => st
        let st := pushFrame st (.item offset)
        openBlocks fuel st (st.frames.length - 1) r

def nonDocFrames (st : BState) : List Frame := st.frames.reverse.drop 1

def stepLine (st : BState) (line : Bytes) : BState :=
  let nonDoc := st.frames.length - 1
  let (matched, rest) := matchFrames st.leaf.isNone (nonDocFrames st) line
  let allMatched := matched == nonDoc
  let fuel := line.length + 2
  match st.leaf with
  | .fenced ch n indent info ls =>
    if allMatched then
      if fenceClose ch n rest then closeLeaf st
      else
        let strip := min indent (leadingSpaces rest)
        { st with leaf := .fenced ch n indent info (rest.drop strip :: ls) }
    else openBlocks fuel (closeUnmatched st matched) matched rest
  | .indented ls pending =>
    if allMatched then
      if isBlank rest then { st with leaf := .indented ls (rest.drop 4 :: pending) }
      else if leadingSpaces rest ≥ 4 then { st with leaf := .indented (rest.drop 4 :: (pending ++ ls)) [] }
      else openBlocks fuel (closeLeaf st) matched rest
    else openBlocks fuel (closeUnmatched st matched) matched rest
  | _ => openBlocks fuel st matched rest

def parseBlocks (doc : Bytes) : Option (List Raw) :=
  let st0 : BState := { frames := [{ kind := .doc, kids := [] }], leaf := .none, fuelOut := false }
  let st := (docLines doc).foldl stepLine st0
  let st := closeLeaf (closeUnmatched st 0)
  if st.fuelOut then none else
  match st.frames with
  | [f] => some f.kids.reverse
  | _ => none

end C35
