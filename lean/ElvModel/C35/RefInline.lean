/-
C35 — CommonMark REFERENCE, phase 2 (inline structure), written from the spec
text (0.31.2 §6 and the appendix "An algorithm for parsing nested emphasis and
links"), for the declared subset: backslash escapes, entity and numeric
character references, code spans, `*`/`_` emphasis, inline links and images,
autolinks, hard and soft line breaks, textual content.  Raw HTML and reference
links are outside the subset (`RefHtml.inSubset` rejects documents that could
contain them).

Shape (deliberately unlike pkg/md/inline.go): a tokenizer that is structurally
recursive on the input (a token is recognised at its first byte by looking
ahead; the following `skip` bytes are dropped), producing a list of items in
which delimiter runs and bracket openers are ordinary list elements — there is
no linked delimiter stack and no `openers_bottom` table; emphasis is resolved
by `procEmph`, a zipper walk that looks back for the nearest matching opener.
-/
import ElvModel.C35.Chars
namespace C35
open Go

inductive Inl where
  | text (s : Bytes)
  | code (s : Bytes)
  | emph (c : List Inl)
  | strong (c : List Inl)
  | link (dest title : Bytes) (c : List Inl)
  | image (dest title : Bytes) (c : List Inl)
  | autolink (dest text : Bytes)
  | hardbreak
  | softbreak
  deriving Repr, BEq, Inhabited

/-- work items of the inline parser -/
inductive Item where
  | node (i : Inl)
  /-- delimiter run: character, remaining length, original length, flanking -/
  | delim (ch : UInt8) (n orig : Nat) (canOpen canClose : Bool)
  /-- `[` or `![` -/
  | bracket (image active : Bool)
  deriving Repr, BEq, Inhabited

/-! ### Emphasis (spec §6.2 rules 1–17 via the appendix algorithm) -/

/-- can `o` (an opener further left) be matched by closer `c`?  Rules 9/10:
"if one of the delimiters can both open and close emphasis, then the sum of
the lengths of the delimiter runs containing the opening and closing
delimiters must not be a multiple of 3 unless both lengths are multiples of 3". -/
def delimMatch (och : UInt8) (oorig : Nat) (oOpen oClose : Bool)
    (cch : UInt8) (corig : Nat) (cOpen : Bool) : Bool :=
  och == cch && oOpen &&
  !((oClose || cOpen) && (oorig + corig) % 3 == 0 && !(oorig % 3 == 0 && corig % 3 == 0))

/-- turn every leftover item into literal text -/
def itemToInl : Item → Inl
  | .node i => i
  | .delim ch n _ _ _ => .text (List.replicate n ch)
  | .bracket image _ => .text (if image then [0x21, 0x5B] else [0x5B])

/-- search `left` (nearest first) for an opener matching the closer; returns
the items between (nearest first), the opener's data and the rest. -/
def findOpener (cch : UInt8) (corig : Nat) (cOpen : Bool) :
    List Item → Option (List Item × (Nat × Nat × Bool × Bool) × List Item)
  | [] => none
  | it :: rest =>
    match it with
    | .delim och n oorig oo oc =>
      if delimMatch och oorig oo oc cch corig cOpen then some ([], (n, oorig, oo, oc), rest)
      else
        match findOpener cch corig cOpen rest with
        | some (btw, o, r) => some (it :: btw, o, r)
        | none => none
    | _ =>
      match findOpener cch corig cOpen rest with
      | some (btw, o, r) => some (it :: btw, o, r)
      | none => none

/-- 2 (strong emphasis) when both runs still have two characters, else 1 -/
def refUse (on cn : Nat) : Nat := if on ≥ 2 && cn ≥ 2 then 2 else 1

/-- the processed items after a match: the new emphasis node, then what is
left of the opener run (if anything), then everything before the opener -/
def refLeftAfter (btw : List Item) (cch : UInt8) (on use oorig : Nat) (oo oc : Bool)
    (rest : List Item) : List Item :=
  let inner := (btw.reverse.map itemToInl)
  let nd := if use == 2 then Inl.strong inner else Inl.emph inner
  if on - use > 0 then Item.node nd :: Item.delim cch (on - use) oorig oo oc :: rest
  else Item.node nd :: rest

/-- `procEmph fuel left right`: `left` holds the already processed items,
nearest first; `right` the unprocessed ones.  Each step either moves one item
from `right` to `left` or uses up at least one delimiter character of the
closer at the head of `right`, so `fuel = Σ delimiter lengths + |right|`
suffices (`none` = out of fuel, printed as FUEL by the driver). -/
def procEmph : Nat → List Item → List Item → Option (List Item)
  | 0, _, _ => none
  | _ + 1, left, [] => some left
  | fuel + 1, left, it :: right =>
    match it with
    | .delim cch cn corig co true =>
      match findOpener cch corig co left with
      | none => procEmph fuel (it :: left) right
      | some (btw, (on, oorig, oo, oc), rest) =>
        if cn - refUse on cn > 0 then
          procEmph fuel (refLeftAfter btw cch on (refUse on cn) oorig oo oc rest)
            (Item.delim cch (cn - refUse on cn) corig co true :: right)
        else procEmph fuel (refLeftAfter btw cch on (refUse on cn) oorig oo oc rest) right
    | _ => procEmph fuel (it :: left) right

def delimLen : Item → Nat
  | .delim _ n _ _ _ => n
  | _ => 0

def emphFuel (items : List Item) : Nat :=
  (items.map delimLen).sum + items.length + 1

/-- resolve emphasis in a list of items (in document order) -/
def resolveEmph (items : List Item) : Option (List Inl) :=
  match procEmph (emphFuel items) [] items with
  | none => none
  | some left => some (left.reverse.map itemToInl)

/-! ### Link destination / title (spec §6.3) -/

/-- backslash escapes and character references inside destinations, titles and
info strings.  Structural: `skip` bytes are dropped after a multi-byte token.
Returns `none` if an unknown named entity occurs (outside the subset). -/
def unescapeGo : Nat → Bytes → Option Bytes
  | _, [] => some []
  | skip + 1, _ :: t => unescapeGo skip t
  | 0, b :: t =>
    if b == 0x5C then
      match t with
      | p :: _ => if isAsciiPunctB p then (unescapeGo 1 t).map (p :: ·) else (unescapeGo 0 t).map (b :: ·)
      | [] => some [b]
    else if b == 0x26 then
      match parseEntity t with
      | .char r len => (unescapeGo (len - 1) t).map (encodeRune r ++ ·)
      | .unknown _ => none
      | .none => (unescapeGo 0 t).map (b :: ·)
    else (unescapeGo 0 t).map (b :: ·)

def unescape (s : Bytes) : Option Bytes := unescapeGo 0 s

/-- length of an angle-bracket destination body (after `<`), up to and
excluding the closing `>`; `none` if a newline or unescaped `<` comes first
or the input ends.  `esc` = the previous byte was an unconsumed backslash. -/
def angleDestLen : Bool → Bytes → Option Nat
  | _, [] => none
  | esc, b :: t =>
    if esc && isAsciiPunctB b then (angleDestLen false t).map (· + 1)
    else if b == 0x3E then some 0
    else if b == NL || b == 0x3C then none
    else if b == 0x5C then (angleDestLen true t).map (· + 1)
    else (angleDestLen false t).map (· + 1)

/-- length of a bare destination: no ASCII control or space, parentheses
balanced unless escaped.  Returns `none` if parentheses are unbalanced at the
point where the destination must end. -/
def bareDestLen : Bool → Nat → Bytes → Option Nat
  | _, depth, [] => if depth == 0 then some 0 else none
  | esc, depth, b :: t =>
    if esc && isAsciiPunctB b then (bareDestLen false depth t).map (· + 1)
    else if b < 0x20 || b == SP || b == 0x7F then (if depth == 0 then some 0 else none)
    else if b == 0x5C then (bareDestLen true depth t).map (· + 1)
    else if b == 0x28 then (bareDestLen false (depth + 1) t).map (· + 1)
    else if b == 0x29 then
      if depth == 0 then some 0 else (bareDestLen false (depth - 1) t).map (· + 1)
    else (bareDestLen false depth t).map (· + 1)

/-- length of a title body after its opening quote, up to and excluding the
closer.  `(`-titles may not contain an unescaped `(`. -/
def titleLen (opener closer : UInt8) : Bool → Bytes → Option Nat
  | _, [] => none
  | esc, b :: t =>
    if esc && isAsciiPunctB b then (titleLen opener closer false t).map (· + 1)
    else if b == closer then some 0
    else if b == opener then none
    else if b == 0x5C then (titleLen opener closer true t).map (· + 1)
    else (titleLen opener closer false t).map (· + 1)

def isWsB (b : UInt8) : Bool := b == SP || b == 0x09 || b == NL

/-- The part after `]`: `(` ws dest? (ws title)? ws `)`.
Returns (bytes consumed, destination, title), both unescaped;
`none` = not an inline link.  `some none`-style failure of unescaping (an
unknown entity) also yields `none`: such documents are outside the subset. -/
def parseLinkTail (s : Bytes) : Option (Nat × Bytes × Bytes) :=
  match s with
  | 0x28 :: t0 =>
    let w0 := countWhile isWsB t0
    let t1 := t0.drop w0
    -- destination
    let destR : Option (Nat × Bytes) :=
      match t1 with
      | 0x3C :: t2 =>
        match angleDestLen false t2 with
        | some k => some (k + 2, t2.take k)
        | none => none
      | _ =>
        match bareDestLen false 0 t1 with
        | some k => some (k, t1.take k)
        | none => none
    match destR with
    | none => none
    | some (dl, rawDest) =>
      let t3 := t1.drop dl
      let w1 := countWhile isWsB t3
      let t4 := t3.drop w1
      -- optional title, which must be separated from the destination by whitespace
      let titleR : Option (Nat × Bytes) :=
        match t4 with
        | q :: t5 =>
          if (q == 0x22 || q == 0x27 || q == 0x28) && w1 > 0 then
            let closer := if q == 0x28 then 0x29 else q
            match titleLen q closer false t5 with
            | some k => some (k + 2, t5.take k)
            | none => none
          else some (0, [])
        | [] => some (0, [])
      match titleR with
      | none => none
      | some (tl, rawTitle) =>
        let t6 := t4.drop tl
        let w2 := countWhile isWsB t6
        match t6.drop w2 with
        | 0x29 :: _ =>
          match unescape rawDest, unescape rawTitle with
          | some d, some ti => some (1 + w0 + dl + w1 + tl + w2 + 1, d, ti)
          | _, _ => none
        | _ => none
  | _ => none

/-! ### Autolinks (spec §6.5) -/

def isSchemeB (b : UInt8) : Bool := isAlnumB b || b == 0x2B || b == 0x2E || b == 0x2D

/-- `s` starts after `<`.  Returns the length of the URI (excluding `>`). -/
def uriAutolinkLen (s : Bytes) : Option Nat :=
  match s with
  | b :: t =>
    if isLetterB b then
      let k := countWhile isSchemeB t
      -- scheme = 2..32 characters, then ':'
      -- (greedy match is enough: ':' is not a scheme character)
      if 1 ≤ k && k ≤ 31 && (t.drop k).head? == some 0x3A then
        let body := t.drop (k + 1)
        let m := countWhile (fun c => !(c < 0x20 || c == 0x7F || c == SP || c == 0x3C || c == 0x3E)) body
        if (body.drop m).head? == some 0x3E then some (1 + k + 1 + m) else none
      else none
    else none
  | [] => none

def isEmailLocalB (b : UInt8) : Bool :=
  isAlnumB b || (bs ".!#$%&'*+/=?^_`{|}~-").contains b

/-- one domain label: alnum, then up to 61 alnum/hyphen, ending in alnum;
returns its length (longest valid) -/
def domainLabelLen (s : Bytes) : Option Nat :=
  let k := countWhile (fun b => isAlnumB b || b == 0x2D) s
  -- longest prefix of at most 63 bytes ending in an alphanumeric
  let k := min k 63
  let lab := s.take k
  let trimmed := (lab.reverse.dropWhile (· == 0x2D)).reverse
  match trimmed with
  | b :: _ => if isAlnumB b then some trimmed.length else none
  | [] => none

def domainLen : Nat → Bytes → Option Nat
  | 0, _ => none
  | fuel + 1, s =>
    match domainLabelLen s with
    | none => none
    | some k =>
      match s.drop k with
      | 0x2E :: t =>
        match domainLen fuel t with
        | some m => some (k + 1 + m)
        | none => some k
      | _ => some k

def emailAutolinkLen (s : Bytes) : Option Nat :=
  let k := countWhile isEmailLocalB s
  if k == 0 then none else
  match s.drop k with
  | 0x40 :: t =>
    match domainLen (t.length + 1) t with
    | some m => if (t.drop m).head? == some 0x3E then some (k + 1 + m) else none
    | none => none
  | _ => none

/-! ### Code spans (spec §6.1) -/

/-- position (relative to `s`) of the first backtick run of exactly `k`
backticks; `inRun` = the previous byte was a backtick. -/
def findBacktickCloser (k : Nat) : Bool → Bytes → Option Nat
  | _, [] => none
  | inRun, s@(b :: t) =>
    if b == 0x60 then
      if !inRun && countWhile (· == 0x60) s == k then some 0
      else (findBacktickCloser k true t).map (· + 1)
    else (findBacktickCloser k false t).map (· + 1)

def normalizeCode (s : Bytes) : Bytes :=
  let s := s.map (fun b => if b == NL then SP else b)
  if s.length ≥ 2 && s.head? == some SP && s.getLast? == some SP && !(s.all (· == SP)) then
    (s.drop 1).dropLast
  else s

/-! ### Tokenizer -/

/-- flanking (spec §6.2): `prev`/`next` are the code points around the run
(`\n` at the ends of the text). -/
def flanking (U : UClass) (ch : UInt8) (prev next : Nat) : Bool × Bool :=
  let nsp := isUniSpace next
  let psp := isUniSpace prev
  let npu := isUniPunct U next
  let ppu := isUniPunct U prev
  let left := !nsp && (!npu || psp || ppu)
  let right := !psp && (!ppu || nsp || npu)
  if ch == 0x2A then (left, right)
  else (left && (!right || ppu), right && (!left || npu))

structure Scan where
  acc : List Item      -- items so far, most recent first
  prev : Nat           -- code point before the current position
  skip : Nat           -- bytes of the current token still to drop
  bad : Bool           -- something outside the subset / out of fuel was met
  deriving Inhabited

def pushText (acc : List Item) (s : Bytes) : List Item := Item.node (.text s) :: acc

/-- split `acc` at the nearest bracket: (items after it nearest first, the bracket's flags, items before) -/
def splitAtBracket : List Item → Option (List Item × (Bool × Bool) × List Item)
  | [] => none
  | it :: rest =>
    match it with
    | .bracket image active => some ([], (image, active), rest)
    | _ =>
      match splitAtBracket rest with
      | some (a, f, b) => some (it :: a, f, b)
      | none => none

def deactivateLinks : List Item → List Item
  | [] => []
  | .bracket false _ :: r => .bracket false false :: deactivateLinks r
  | it :: r => it :: deactivateLinks r

/-- the token starting at `b :: t` -/
def tokenAt (U : UClass) (st : Scan) (b : UInt8) (t : Bytes) : Scan :=
  let acc := st.acc
  if b == 0x5C then                                   -- backslash
    match t with
    | p :: _ =>
      if p == NL then
        let sp := countWhile (· == SP) (t.drop 1)
        { st with acc := .node .hardbreak :: acc, prev := NL.toNat, skip := 1 + sp }
      else if isAsciiPunctB p then { st with acc := pushText acc [p], prev := p.toNat, skip := 1 }
      else { st with acc := pushText acc [b], prev := b.toNat }
    | [] => { st with acc := pushText acc [b], prev := b.toNat }
  else if b == 0x60 then                              -- code span
    let k := countWhile (· == 0x60) (b :: t)
    let after := (b :: t).drop k
    match findBacktickCloser k false after with
    | some j =>
      { st with acc := .node (.code (normalizeCode (after.take j))) :: acc, prev := 0x60, skip := k + j + k - 1 }
    | none => { st with acc := pushText acc (List.replicate k 0x60), prev := 0x60, skip := k - 1 }
  else if b == 0x2A || b == 0x5F then                 -- delimiter run
    let k := countWhile (· == b) (b :: t)
    let after := (b :: t).drop k
    let next := match decodeRune after with
      | (_, 0) => NL.toNat
      | (r, _) => r
    let (co, cc) := flanking U b st.prev next
    { st with acc := .delim b k k co cc :: acc, prev := b.toNat, skip := k - 1 }
  else if b == 0x5B then                              -- [
    { st with acc := .bracket false true :: acc, prev := b.toNat }
  else if b == 0x21 && t.head? == some 0x5B then      -- ![
    { st with acc := .bracket true true :: acc, prev := 0x5B, skip := 1 }
  else if b == 0x5D then                              -- ]
    match splitAtBracket acc with
    | none => { st with acc := pushText acc [b], prev := b.toNat }
    | some (inner, (image, active), outer) =>
      let opener : Item := .node (.text (if image then [0x21, 0x5B] else [0x5B]))
      if !active then
        { st with acc := pushText (inner ++ opener :: outer) [b], prev := b.toNat }
      else
        match parseLinkTail t with
        | none => { st with acc := pushText (inner ++ opener :: outer) [b], prev := b.toNat }
        | some (n, dest, title) =>
          match resolveEmph inner.reverse with
          | none => { st with bad := true }
          | some children =>
            let nd := if image then Inl.image dest title children else Inl.link dest title children
            let outer' := if image then outer else deactivateLinks outer
            { st with acc := .node nd :: outer', prev := 0x29, skip := n }
  else if b == 0x3C then                              -- autolink
    match uriAutolinkLen t with
    | some k =>
      let u := t.take k
      { st with acc := .node (.autolink u u) :: acc, prev := 0x3E, skip := k + 1 }
    | none =>
      match emailAutolinkLen t with
      | some k =>
        let u := t.take k
        { st with acc := .node (.autolink (bs "mailto:" ++ u) u) :: acc, prev := 0x3E, skip := k + 1 }
      | none => { st with acc := pushText acc [b], prev := b.toNat }
  else if b == 0x26 then                              -- entity
    match parseEntity t with
    | .char r len => { st with acc := pushText acc (encodeRune r), prev := 0x3B, skip := len - 1 }
    | .unknown _ => { st with acc := pushText acc [b], prev := b.toNat, bad := true }
    | .none => { st with acc := pushText acc [b], prev := b.toNat }
  else if b == SP then                                -- spaces before a line ending
    let k := countWhile (· == SP) (b :: t)
    match (b :: t).drop k with
    | c :: rest =>
      if c == NL then
        let sp := countWhile (· == SP) rest
        { st with acc := .node (if k ≥ 2 then .hardbreak else .softbreak) :: acc, prev := NL.toNat,
                  skip := k + sp }
      else { st with acc := pushText acc (List.replicate k SP), prev := SP.toNat, skip := k - 1 }
    | [] => { st with acc := pushText acc (List.replicate k SP), prev := SP.toNat, skip := k - 1 }
  else if b == NL then
    let sp := countWhile (· == SP) t
    { st with acc := .node .softbreak :: acc, prev := NL.toNat, skip := sp }
  else
    let (r, n) := decodeRune (b :: t)
    { st with acc := pushText acc ((b :: t).take n), prev := r, skip := n - 1 }

/-- structural recursion on the input: termination of the tokenizer is by
construction -/
def scan (U : UClass) : Scan → Bytes → Scan
  | st, [] => st
  | st, b :: t =>
    match st.skip with
    | k + 1 => scan U { st with skip := k } t
    | 0 => scan U (tokenAt U st b t) t

/-- merge adjacent text nodes, recursively; structural via fuel on depth -/
def mergeText : Nat → List Inl → List Inl
  | 0, l => l
  | fuel + 1, l =>
    let l1 := l.map fun (i : Inl) =>
      match i with
      | .emph c => Inl.emph (mergeText fuel c)
      | .strong c => Inl.strong (mergeText fuel c)
      | .link d t c => Inl.link d t (mergeText fuel c)
      | .image d t c => Inl.image d t (mergeText fuel c)
      | x => x
    l1.foldr (fun x acc =>
      match x, acc with
      | .text a, .text b :: rest => .text (a ++ b) :: rest
      | .text [], rest => rest
      | x, rest => x :: rest) []

/-- the inline content of a paragraph / heading; `none` = outside the subset
(unknown entity) or out of fuel -/
def parseInlines (U : UClass) (s : Bytes) : Option (List Inl) :=
  let st := scan U { acc := [], prev := NL.toNat, skip := 0, bad := false } s
  if st.bad then none else
  match resolveEmph st.acc.reverse with
  | none => none
  | some l => some (mergeText (s.length + 1) l)

end C35
