/-
C23 — a concrete `FS` for the driver: POSIX path resolution over a finite tree.

This is a model of the operating system (what `lstat(2)` and
`opendir`/`readdir` answer for a path string), not of elvish.  It is tied to
the kernel by the same differential run as the glob model; the theorems are
stated for every `FS` and do not depend on it.

The tree is a flat list of entries keyed by their canonical location (the
list of names from the model root `T`, no `.`/`..`/symlinks).  The real tree
lives in a scratch directory whose absolute path is `absRoot`; absolute paths
are resolved by stripping that prefix (the generator never leaves `T`).
-/
import ElvModel.C23.Model
namespace C23
open Go

inductive Node
  | file
  | dir
  | symlink (target : Bytes)
  | other
  deriving DecidableEq, Repr

structure Tree where
  entries : List (List Bytes × Node)   -- location ↦ node; the root `[]` is a directory
  absRoot : List Bytes                  -- components of the absolute path of the root
  cwd : List Bytes                      -- location of the working directory

/-- Split on `/` (like `strings.Split(s, "/")`: `"a/"` ↦ `["a", ""]`). -/
def splitSlash : Bytes → List Bytes
  | [] => [[]]
  | b :: rest =>
    match splitSlash rest with
    | [] => [[b]]   -- unreachable
    | c :: cs => if b == slashByte then [] :: c :: cs else (b :: c) :: cs

def Tree.nodeAt (t : Tree) (loc : List Bytes) : Option Node :=
  if loc = [] then some .dir
  else (t.entries.find? (·.1 == loc)).map (·.2)

def dropPrefix : List Bytes → List Bytes → Option (List Bytes)
  | [], l => some l
  | _ :: _, [] => none
  | p :: ps, x :: xs => if p == x then dropPrefix ps xs else none

/-- Where an absolute path starts: components after `/`, with the scratch
prefix removed (`none`: outside the modelled tree). -/
def Tree.absComps (t : Tree) (path : Bytes) : Option (List Bytes) :=
  match dropPrefix t.absRoot ((splitSlash path).filter (· ≠ [])) with
  -- a trailing slash survives the filter as a final empty component
  | some cs => some (if path.getLast? == some slashByte then cs ++ [[]] else cs)
  | none => none

/-- Walk `comps` from `loc`.  Symbolic links are followed except in the final
position; `followLast` follows there too (as `opendir` does).  `fuel` counts
symbolic links (the kernel gives up with ELOOP after 40). -/
def Tree.walk (t : Tree) (followLast : Bool) : Nat → Nat → List Bytes → List Bytes → Option (List Bytes)
  | _, _, loc, [] => some loc
  | 0, _, _, _ :: _ => none
  | steps + 1, links, loc, c :: rest =>
    if t.nodeAt loc ≠ some .dir then none
    else if c = [] ∨ c = [dotByte] then t.walk followLast steps links loc rest
    else if c = [dotByte, dotByte] then t.walk followLast steps links loc.dropLast rest
    else
      let child := loc ++ [c]
      match t.nodeAt child with
      | none => none
      | some (.symlink tgt) =>
        if rest = [] ∧ !followLast then some child
        else
          match links with
          | 0 => none
          | links + 1 =>
            if tgt = [] then none
            else
              let tc := splitSlash tgt
              match tgt with
              | b :: _ =>
                if b == slashByte then
                  match t.absComps tgt with
                  | some cs => t.walk followLast steps links [] (cs ++ rest)
                  | none => none
                else t.walk followLast steps links loc (tc ++ rest)
              | [] => none
      | some _ => t.walk followLast steps links child rest

def Tree.resolve (t : Tree) (followLast : Bool) (path : Bytes) : Option (List Bytes) :=
  match path with
  | [] => none
  | b :: _ =>
    let comps := splitSlash path
    if b == slashByte then
      match t.absComps path with
      | some cs => t.walk followLast 4096 40 [] cs
      | none => none
    else t.walk followLast 4096 40 t.cwd comps

def nodeKind : Node → Kind
  | .file => .file
  | .dir => .dir
  | .symlink _ => .symlink
  | .other => .other

def Tree.lstat (t : Tree) (path : Bytes) : Option Kind :=
  match t.resolve false path with
  | some loc => (t.nodeAt loc).map nodeKind
  | none => none

/-- insertion sort by byte order (what `os.ReadDir` returns) -/
def bytesLt : Bytes → Bytes → Bool
  | [], [] => false
  | [], _ :: _ => true
  | _ :: _, [] => false
  | a :: as, b :: bs => a < b || (a == b && bytesLt as bs)

def insertSorted (x : Bytes × Bool) : List (Bytes × Bool) → List (Bytes × Bool)
  | [] => [x]
  | y :: ys => if bytesLt x.1 y.1 then x :: y :: ys else y :: insertSorted x ys

def Tree.readDir (t : Tree) (path : Bytes) : Option (List (Bytes × Bool)) :=
  let path := if path = [] then [dotByte] else path
  match t.resolve true path with
  | none => none
  | some loc =>
    if t.nodeAt loc ≠ some .dir then none
    else
      let es := t.entries.filterMap fun (l, n) =>
        match l.getLast? with
        | some name => if l.dropLast == loc then some (name, n == .dir) else none
        | none => none
      some (es.foldr insertSorted [])

def Tree.toFS (t : Tree) : FS := { lstat := t.lstat, readDir := t.readDir }

/-! ### Finiteness: what bounds the recursion depth of `glob` on a tree

Wildcard components only descend into entries whose `IsDir()` is true, i.e.
real directories (`n == .dir` above; a symbolic link to a directory is listed
with `false`).  A real sub-directory lies one component deeper in the entry
list, so a chain of such descents is at most `depthBound` long.  Literal
components (`..`, symbolic links) can move anywhere, but each of them uses up
pattern segments.  Hence the fuel `(len(segs)+1) * (depthBound+2) + 1`; it is
proved sufficient in `ElvProofs/C23/TreeRank.lean` for well-formed trees. -/

/-- the longest location (in components) a walk can be at -/
def Tree.depthBound (t : Tree) : Nat :=
  t.entries.foldr (fun e m => max e.1.length m) t.cwd.length

/-- a directory entry name: not empty, not `.` or `..`, no `/` -/
def nameOK (c : Bytes) : Bool :=
  c != [] && c != [dotByte] && c != [dotByte, dotByte] && !c.contains slashByte

/-- well-formed: every component of every location is a name, and no location
is listed twice (what a tree materialised on a real file system looks like) -/
def Tree.wf (t : Tree) : Bool :=
  t.entries.all (fun e => e.1.all nameOK) && decide ((t.entries.map (·.1)).Nodup)

/-- The fuel the driver gives `glob`: pattern length × depth (see above). -/
def fuelFor (t : Tree) (segs : List Seg) : Nat := (segs.length + 1) * (t.depthBound + 2) + 1

end C23
