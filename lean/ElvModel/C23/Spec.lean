/-
C23 — the declarative reading of the language reference's wildcard rules.

* `Matches segs name`: a path element `name` is matched by a slash-free
  sequence of segments.  A literal matches itself, `?` one rune, `*` and `**`
  any run of runes; each wildcard only runes accepted by its matchers, and no
  wildcard ever consumes a `/` byte.  Runes are what Go's decoder sees from the
  current position (`Go.decodeRune`).
* `HiddenOK`: a wildcard at the start of an element does not match a name
  starting with `.` unless it carries `match-hidden`.
* `Expands fs segs dir path`: `path` is produced from directory `dir`: literal
  components are followed as paths (so `.`/`..`/symbolic links work), every other
  component must be an entry of the directory listing that matches, wildcards
  descend only into real directories, and `**` may continue across a `/`.
-/
import ElvModel.C23.Model
namespace C23
open Go

/-- The wildcard `w` consumes one rune (`n` bytes) at the start of `s`. -/
def RuneStep (w : Wild) (s : Bytes) (n : Nat) : Prop :=
  s ≠ [] ∧ n = (decodeRune s).2 ∧ w.accepts (decodeRune s).1 = true ∧ slashByte ∉ s.take n

instance (w : Wild) (s : Bytes) (n : Nat) : Decidable (RuneStep w s n) := by
  unfold RuneStep; exact inferInstance

inductive Matches : List Seg → Bytes → Prop
  | nil : Matches [] []
  | lit {d rest s} : Matches rest s → Matches (.lit d :: rest) (d ++ s)
  | question {w rest s n} : w.type = .question → RuneStep w s n → Matches rest (s.drop n) →
      Matches (.wild w :: rest) s
  | skip {w rest s} : w.type ≠ .question → Matches rest s → Matches (.wild w :: rest) s
  | step {w rest s n} : w.type ≠ .question → RuneStep w s n → Matches (.wild w :: rest) (s.drop n) →
      Matches (.wild w :: rest) s

def HiddenOK : List Seg → Bytes → Prop
  | .wild w :: _, b :: _ => b = dotByte → w.hidden = true
  | _, _ => True

/-- The element `name` is matched by the slash-free pattern `segs`. -/
def ElemMatches (segs : List Seg) (name : Bytes) : Prop :=
  HiddenOK segs name ∧ Matches segs name

def NoSlash (segs : List Seg) : Prop := ∀ s ∈ segs, isSlash s = false

def SingleLit (segs : List Seg) : Prop := ∃ d, segs = [.lit d]

inductive Expands (fs : FS) : List Seg → Bytes → Bytes → Prop
  /-- the pattern is used up (it ended in `/`): the directory itself -/
  | endDir {dir k} : fs.lstat dir = some k → Expands fs [] dir dir
  /-- a final literal component: the path must exist -/
  | litLast {dir d k} : fs.lstat (dir ++ d) = some k → Expands fs [.lit d] dir (dir ++ d)
  /-- a literal component followed by `/`: followed as a path -/
  | litDir {dir d rest p} : fs.lstat (dir ++ d ++ [slashByte]) = some .dir →
      Expands fs rest (dir ++ d ++ [slashByte]) p → Expands fs (.lit d :: .slash :: rest) dir p
  /-- the final component: a matching directory entry -/
  | last {comp dir es name isDir k} : comp ≠ [] → NoSlash comp → ¬ SingleLit comp →
      fs.readDir dir = some es → (name, isDir) ∈ es → ElemMatches comp name →
      fs.lstat (dir ++ name) = some k → Expands fs comp dir (dir ++ name)
  /-- a component followed by `/`: a matching entry that is a real directory -/
  | sub {comp rest dir es name p} : NoSlash comp → ¬ SingleLit comp →
      fs.readDir dir = some es → (name, true) ∈ es → ElemMatches comp name →
      Expands fs rest (dir ++ name ++ [slashByte]) p → Expands fs (comp ++ .slash :: rest) dir p
  /-- `**` runs on across the `/` after a matching real directory -/
  | cross {pre w post dir es name p} : NoSlash pre → w.type = .starstar →
      fs.readDir dir = some es → (name, true) ∈ es → ElemMatches (pre ++ [.wild w]) name →
      Expands fs (.wild w :: post) (dir ++ name ++ [slashByte]) p →
      Expands fs (pre ++ .wild w :: post) dir p

/-- `Pattern.Glob`: a leading `/` starts at the root. -/
def ExpandsTop (fs : FS) (segs : List Seg) (p : Bytes) : Prop :=
  match segs with
  | .slash :: rest => Expands fs rest [slashByte] p
  | _ => Expands fs segs [] p

/-! ### The class of patterns on which greedy matching is complete -/

def Wild.unrestricted (w : Wild) : Bool := w.matchers.isEmpty

/-- Literals are non-empty valid UTF-8 (so that matching stays on rune
boundaries), and every `*`/`**` that has an earlier `*`/`**` in the same path
element carries no matcher.  `seenStar` = a star occurred since the last `/`. -/
def greedyOK : Bool → List Seg → Bool
  | _, [] => true
  | _, .slash :: rest => greedyOK false rest
  | seen, .lit d :: rest => !d.isEmpty && validUtf8 d && greedyOK seen rest
  | seen, .wild w :: rest =>
    if w.type == .question then greedyOK seen rest
    else (!seen || w.unrestricted) && greedyOK true rest

def GreedyOK (segs : List Seg) : Prop := greedyOK false segs = true

instance (segs : List Seg) : Decidable (GreedyOK segs) :=
  inferInstanceAs (Decidable (greedyOK false segs = true))

end C23
