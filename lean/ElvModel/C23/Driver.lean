import ElvModel.Go.Driver
import ElvModel.C23.Model
import ElvModel.C23.FsTree
namespace C23
open Go

/-! Line protocol (fields tab separated, byte strings hex, `-` = empty):

* `parse <hex>`  →  segments `L<hex>` `S` `Q` `A` `D` joined by `,` (`-` if none)
* `glob <mode> <tree> <absroot> <cwd> <pattern> <mods>`
  * mode `G` (`glob.Pattern.Glob` on the given segments), `P` (`glob.Glob` on a
    pattern string), `E` (an elvish wildcard expression, through `doGlob`)
  * tree: `;`-separated entries `f<hexpath>` `d<hexpath>` `o<hexpath>`
    `l<hexpath>=<hextarget>`, paths relative to the model root
  * pattern: `P<hex>` or `,`-separated `L<hex>` | `S` | `W<q|s|d><0|1>[:matcher]*`
    with matchers `s<hex utf-8 of the set>`, `r<from>.<to>.<0|1>` (1 = inclusive),
    `c<class>.<hex utf-8 of the runes of the universe in the class>`
  * mods: `<nomatch-ok 0|1>.<-|dir|regular>.<but hex,+-separated | ->`
  * → `G`/`P`: `<hexpath>:<f|d|l|o>` joined by `,`; `E`: `OK <hexpaths>` | `EXC nomatch`
-/

def decodeComps (h : String) : Option (List Bytes) :=
  (hexDecode h).map fun b => if b = [] then [] else splitSlash b

def parseEntry (s : String) : Option (List Bytes × Node) :=
  match s.toList with
  | 'f' :: r => (decodeComps (String.ofList r)).map fun p => (p, Node.file)
  | 'd' :: r => (decodeComps (String.ofList r)).map fun p => (p, Node.dir)
  | 'o' :: r => (decodeComps (String.ofList r)).map fun p => (p, Node.other)
  | 'l' :: r =>
    match (String.ofList r).splitOn "=" with
    | [p, t] => do
      let p ← decodeComps p
      let t ← hexDecode t
      pure (p, .symlink t)
    | _ => none
  | _ => none

def parseTree (tree absroot cwd : String) : Option Tree := do
  let es ← if tree == "-" then some [] else (tree.splitOn ";").mapM parseEntry
  let a ← hexDecode absroot
  let c ← decodeComps cwd
  pure { entries := es, absRoot := (splitSlash a).filter (· ≠ []), cwd := c }

def runesOf (b : Bytes) : List Rune := toRunes b

def parseMatcher (s : String) : Option (Rune → Bool) :=
  match s.toList with
  | 's' :: r => (hexDecode (String.ofList r)).map fun b => let rs := runesOf b; fun x => rs.contains x
  | 'c' :: r =>
    match (String.ofList r).splitOn "." with
    | [_, h] => (hexDecode h).map fun b => let rs := runesOf b; fun x => rs.contains x
    | _ => none
  | 'r' :: r =>
    match (String.ofList r).splitOn "." with
    | [a, b, i] => do
      let a ← a.toNat?
      let b ← b.toNat?
      pure (if i == "1" then fun x => decide (a ≤ x ∧ x ≤ b) else fun x => decide (a ≤ x ∧ x < b))
    | _ => none
  | _ => none

def parseSeg (s : String) : Option Seg :=
  match s.toList with
  | ['S'] => some .slash
  | 'L' :: r => (hexDecode (String.ofList r)).map .lit
  | 'W' :: t :: h :: r =>
    let ty : Option WildType :=
      if t = 'q' then some .question else if t = 's' then some .star
      else if t = 'd' then some .starstar else none
    match ty, r with
    | some ty, [] => some (.wild ⟨ty, h = '1', []⟩)
    | some ty, ':' :: ms =>
      (((String.ofList ms).splitOn ":").mapM parseMatcher).map fun ms => .wild ⟨ty, h = '1', ms⟩
    | _, _ => none
  | _ => none

def parseSegs (s : String) : Option (List Seg) :=
  if s == "-" then some [] else (s.splitOn ",").mapM parseSeg

def showSeg : Seg → String
  | .lit d => "L" ++ hexEnc d
  | .slash => "S"
  | .wild w =>
    match w.type with
    | .question => "Q"
    | .star => "A"
    | .starstar => "D"

def showSegs (l : List Seg) : String :=
  if l.isEmpty then "-" else ",".intercalate (l.map showSeg)

def showKind : Kind → String
  | .file => "f" | .dir => "d" | .symlink => "l" | .other => "o"

def showOuts (l : List Out) : String :=
  if l.isEmpty then "-" else ",".intercalate (l.map fun (p, k) => hexEnc p ++ ":" ++ showKind k)

def showPaths (l : List Bytes) : String :=
  if l.isEmpty then "-" else ",".intercalate (l.map hexEnc)

def parseMods (s : String) : Option (Bool × TypeMod × List Bytes) :=
  match s.splitOn "." with
  | [n, t, b] => do
    let ty ← if t == "-" then some TypeMod.none else if t == "dir" then some .dir
             else if t == "regular" then some .regular else none
    let buts ← if b == "-" then some [] else (b.splitOn "+").mapM hexDecode
    pure (n == "1", ty, buts)
  | _ => none

def showRes {α} (f : α → String) : Res α → String
  | .ok a => f a
  | .exc e => if e == "wildcard has no match" then "EXC nomatch" else "EXC " ++ e
  | .panic _ => "PANIC"

/- The fuel is `fuelFor` of FsTree.lean (pattern length × tree depth; proved sufficient for
well-formed trees, `C23_driver_never_out_of_fuel`).  A tree that is not well-formed (a name that is
empty, `.`, `..` or holds `/`; a location listed twice) cannot be materialised and is refused. -/

def stepLine : List String → String
  | ["parse", h] =>
    match hexDecode h with
    | some s => showRes showSegs (parse s)
    | none => "bad-op"
  | ["glob", mode, tree, absroot, cwd, pat, mods] =>
    match parseTree tree absroot cwd, parseMods mods with
    | some t, some (nmok, ty, buts) =>
      let fs := t.toFS
      if !t.wf then "bad-tree"
      else if mode == "P" then
        match hexDecode (String.ofList (pat.toList.drop 1)) with
        | some s =>
          match parse s with
          | .ok segs => showRes showOuts (patternGlob fs (fuelFor t segs) segs)
          | r => showRes showSegs r
        | none => "bad-op"
      else
        match parseSegs pat with
        | some segs =>
          if mode == "G" then showRes showOuts (patternGlob fs (fuelFor t segs) segs)
          else if mode == "E" then
            showRes (fun l => "OK " ++ showPaths l) (doGlob fs (fuelFor t segs) ⟨segs, nmok, buts, ty⟩)
          else "bad-op"
        | none => "bad-op"
    | _, _ => "bad-op"
  | _ => "bad-op"

def driver : Driver := Driver.pure stepLine
end C23
