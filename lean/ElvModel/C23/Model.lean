/-
C23 — model of elvish wildcard expansion.

  pkg/glob/pattern.go   Segment / Wild / Wild.Match
  pkg/glob/parse.go     Parse
  pkg/glob/glob.go      Pattern.Glob, glob, matchElement, matchFixedLength
  pkg/eval/glob.go      doGlob (but:, type:, nomatch-ok)

The file system is a parameter (`FS`): `os.Lstat` and `os.ReadDir` as functions
of the path string.  Strings are byte lists, runes come from `Go.decodeRune`.
The model follows the code function by function, including its greedy
chunk matcher (which is incomplete for matcher-restricted stars, see
`ElvProofs/C23.lean`).  Two repairs of the unchanged tree are modelled as
fixed code (fixes/C23-*.patch): results are de-duplicated by `Pattern.Glob`,
and `type:regular` accepts symbolic links as the reference says.
-/
import ElvModel.Go.Utf8
namespace C23
open Go

/-! ## pattern.go -/

inductive WildType
  | question | star | starstar
  deriving DecidableEq, Repr

/-- `glob.Wild`; matchers are arbitrary rune predicates. -/
structure Wild where
  type : WildType
  hidden : Bool
  matchers : List (Rune → Bool)

inductive Seg
  | lit (d : Bytes)
  | slash
  | wild (w : Wild)

/-- `Wild.Match`: no matcher ⇒ every rune, else the OR of the matchers. -/
def Wild.accepts (w : Wild) (r : Rune) : Bool :=
  w.matchers.isEmpty || w.matchers.any (fun m => m r)

/-- `IsWild2(seg, Star, StarStar)` -/
def isStarLike : Seg → Bool
  | .wild w => w.type != .question
  | _ => false

def isSlash : Seg → Bool
  | .slash => true
  | _ => false

/-- `IsWild1(seg, StarStar)` -/
def isStarStar : Seg → Bool
  | .wild w => w.type == .starstar
  | _ => false

def slashByte : UInt8 := 0x2F
def dotByte : UInt8 := 0x2E

/-! ## parse.go -/

/-- The literal loop of `Parse`: `s` is the input from the rune under
inspection on; returns the literal and the input left (after `backup`). -/
def parseLit : Nat → Bytes → Bytes → Res (Bytes × Bytes)
  | 0, _, _ => .exc "FUEL"
  | fuel + 1, s, acc =>
    match s with
    | [] => .ok (acc, [])                                   -- eof
    | _ :: _ =>
      let (r, n) := decodeRune s
      if r = 0x3F ∨ r = 0x2A ∨ r = 0x2F then .ok (acc, s)   -- ? * /
      else if r = 0x5C then                                  -- backslash
        let s' := s.drop n
        match s' with
        | [] => .ok (acc, [])                               -- eof after backslash
        | _ :: _ =>
          let (r2, n2) := decodeRune s'
          parseLit fuel (s'.drop n2) (acc ++ encodeRune r2)
      else parseLit fuel (s.drop n) (acc ++ encodeRune r)

/-- `glob.Parse` (segments only; `DirOverride` is always empty). -/
def parseLoop : Nat → Bytes → Res (List Seg)
  | 0, _ => .exc "FUEL"
  | fuel + 1, s =>
    match s with
    | [] => .ok []
    | _ :: _ =>
      let (r, n) := decodeRune s
      if r = 0x3F then do
        let t ← parseLoop fuel (s.drop n)
        pure (.wild ⟨.question, false, []⟩ :: t)
      else if r = 0x2A then
        let rest := (s.drop n).dropWhile (· == 0x2A)
        let cnt := s.length - rest.length
        do
          let t ← parseLoop fuel rest
          pure (.wild ⟨if cnt = 1 then .star else .starstar, false, []⟩ :: t)
      else if r = 0x2F then do
        let t ← parseLoop fuel ((s.drop n).dropWhile (· == 0x2F))
        pure (.slash :: t)
      else
        match parseLit (s.length + 1) s [] with
        | .ok (d, rest) =>
          -- the first rune is consumed by the literal loop, so `rest` is shorter
          if rest.length < s.length then do
            let t ← parseLoop fuel rest
            pure (.lit d :: t)
          else .exc "FUEL"
        | .exc e => .exc e
        | .panic w => .panic w

def parse (s : Bytes) : Res (List Seg) := parseLoop (s.length + 1) s

/-! ## glob.go: matching one path element -/

/-- `matchFixedLength`: `none` = no match, `some rest` = matched, `rest` left. -/
def matchFixedLength : List Seg → Bytes → Res (Option Bytes)
  | [], name => .ok (some name)
  | seg :: segs, name =>
    if name = [] then .ok none
    else
      match seg with
      | .lit d =>
        if d.length ≤ name.length ∧ name.take d.length = d then
          matchFixedLength segs (name.drop d.length)
        else .ok none
      | .wild w =>
        if w.type = .question then
          if w.accepts (decodeRune name).1 then matchFixedLength segs (name.drop (decodeRune name).2)
          else .ok none
        else .panic "matchFixedLength given non-question wild segment"
      | .slash => .panic "matchFixedLength given non-literal non-wild segment"

/-- Chunks of `matchElement`'s loop: the segments are cut before every `*`/`**`. -/
def startsStar : List Seg → Bool
  | h :: _ => isStarLike h
  | [] => false

def chunkify : List Seg → List (List Seg)
  | [] => []
  | s :: t =>
    match chunkify t with
    | [] => [[s]]
    | c :: cs => if startsStar c then [s] :: c :: cs else (s :: c) :: cs

/-- The inner `for i := 0; i < len(name);` loop of `matchElement`: the starting
star swallows runes one at a time until the chunk matches behind it. -/
def starLoop (w : Wild) (chunk : List Seg) (last : Bool) : Nat → Bytes → Res (Option Bytes)
  | _, [] => .ok none
  | 0, _ :: _ => .exc "FUEL"
  | fuel + 1, name@(_ :: _) =>
    if !w.accepts (decodeRune name).1 then .ok none
    else
      let name' := name.drop (decodeRune name).2
      match matchFixedLength chunk name' with
      | .ok (some rest) =>
        if rest = [] ∨ last = false then .ok (some rest) else starLoop w chunk last fuel name'
      | .ok none => starLoop w chunk last fuel name'
      | .exc e => .exc e
      | .panic p => .panic p

/-- Split a chunk into its optional starting star and the fixed-length part. -/
def chunkParts : List Seg → Option Wild × List Seg
  | .wild w :: f => if w.type = .question then (none, .wild w :: f) else (some w, f)
  | c => (none, c)

/-- One iteration of the `segs:` loop: match the chunk at the current position,
or let its starting star swallow runes until it matches.  `last` = no segment
is left after this chunk, so the name must be used up. -/
def tryChunk (star : Option Wild) (fixed : List Seg) (last : Bool) (name : Bytes) : Res (Option Bytes) :=
  let loop : Res (Option Bytes) :=
    match star with
    | none => .ok none
    | some w => starLoop w fixed last name.length name
  match matchFixedLength fixed name with
  | .exc e => .exc e
  | .panic p => .panic p
  | .ok (some rest) => if rest = [] ∨ last = false then .ok (some rest) else loop
  | .ok none => loop

/-- The `segs:` loop of `matchElement`, one iteration per chunk. -/
def matchChunks : List (List Seg) → Bytes → Res Bool
  | [], name => .ok (name == [])
  | c :: cs, name =>
    match tryChunk (chunkParts c).1 (chunkParts c).2 cs.isEmpty name with
    | .ok (some rest) => matchChunks cs rest
    | .ok none => .ok false
    | .exc e => .exc e
    | .panic p => .panic p

/-- The hidden-file test at the top of `matchElement`. -/
def hiddenReject : List Seg → Bytes → Bool
  | .wild w :: _, b :: _ => b == dotByte && !w.hidden
  | _, _ => false

/-- `matchElement(segs, name)` -/
def matchElement (segs : List Seg) (name : Bytes) : Res Bool :=
  match segs with
  | [] => .ok (name == [])
  | _ :: _ =>
    if hiddenReject segs name then .ok false
    else matchChunks (chunkify segs) name

/-! ## glob.go: walking the directory tree -/

inductive Kind
  | file | dir | symlink | other
  deriving DecidableEq, Repr

/-- `os.Lstat` (only existence and the kind are used) and `os.ReadDir`
(entry name and `DirEntry.IsDir()`), as functions of the path string. -/
structure FS where
  lstat : Bytes → Option Kind
  readDir : Bytes → Option (List (Bytes × Bool))

/-- One reported `PathInfo`: the path and what `Lstat` said it is. -/
abbrev Out := Bytes × Kind

def lstatOut (fs : FS) (path : Bytes) : List Out :=
  match fs.lstat path with
  | some k => [(path, k)]
  | none => []

/-- The literal-prefix loop: follow `lit/` pairs through `Lstat`.
`none` = a component is missing or not a directory (glob returns). -/
def followLits (fs : FS) : List Seg → Bytes → Option (List Seg × Bytes)
  | .lit d :: .slash :: rest, dir =>
    let dir' := dir ++ d ++ [slashByte]
    if fs.lstat dir' = some .dir then followLits fs rest dir' else none
  | segs, dir => some (segs, dir)

/-- `for _, info := range infos { … }` collecting what the bodies report. -/
def forEntries (es : List (Bytes × Bool)) (f : Bytes → Bool → Res (List Out)) : Res (List Out) :=
  match es with
  | [] => .ok []
  | (name, isDir) :: rest => do
    let a ← f name isDir
    let b ← forEntries rest f
    pure (a ++ b)

/-- The enumeration of the first slash (`nexti` loop) followed by the final
whole-pattern loop.  `pre` = `segs[:i]` already scanned, `post` = `segs[i:]`. -/
def enum (fs : FS) (recur : List Seg → Bytes → Res (List Out)) (dir : Bytes)
    (es : List (Bytes × Bool)) : List Seg → List Seg → Res (List Out)
  | pre, [] =>
    forEntries es fun name _ => do
      if (← matchElement pre name) then pure (lstatOut fs (dir ++ name)) else pure []
  | pre, .slash :: rest =>
    forEntries es fun name isDir => do
      if (← matchElement pre name) && isDir then recur rest (dir ++ name ++ [slashByte]) else pure []
  | pre, .wild w :: rest =>
    if w.type = .starstar then do
      let a ← forEntries es fun name isDir => do
        if (← matchElement (pre ++ [.wild w]) name) && isDir then
          recur (.wild w :: rest) (dir ++ name ++ [slashByte])
        else pure []
      let b ← enum fs recur dir es (pre ++ [.wild w]) rest
      pure (a ++ b)
    else enum fs recur dir es (pre ++ [.wild w]) rest
  | pre, .lit d :: rest => enum fs recur dir es (pre ++ [.lit d]) rest

/-- `glob(segs, dir, cb)` with a callback that always continues; the fuel
bounds the directory depth (`FUEL` is reported, never defaulted). -/
def glob (fs : FS) : Nat → List Seg → Bytes → Res (List Out)
  | 0, _, _ => .exc "FUEL"
  | fuel + 1, segs, dir =>
    match followLits fs segs dir with
    | none => .ok []
    | some (segs, dir) =>
      match segs with
      | [] => .ok (lstatOut fs dir)
      | [.lit d] => .ok (lstatOut fs (dir ++ d))
      | _ =>
        match fs.readDir dir with
        | none => .ok []
        | some es => enum fs (glob fs fuel) dir es [] segs

/-- `Pattern.Glob` of the unchanged tree (no `DirOverride`, not Windows). -/
def patternGlobRaw (fs : FS) (fuel : Nat) (segs : List Seg) : Res (List Out) :=
  match segs with
  | .slash :: rest => glob fs fuel rest [slashByte]
  | _ => glob fs fuel segs []

/-- First occurrence of every path (the `seen` map of fixes/C23-dedup.patch). -/
def dedup : List Out → List Bytes → List Out
  | [], _ => []
  | (p, k) :: rest, seen =>
    if seen.contains p then dedup rest seen else (p, k) :: dedup rest (p :: seen)

/-- `Pattern.Glob` as fixed: every path is reported once. -/
def patternGlob (fs : FS) (fuel : Nat) (segs : List Seg) : Res (List Out) := do
  let r ← patternGlobRaw fs fuel segs
  pure (dedup r [])

/-! ## eval/glob.go: doGlob -/

inductive TypeMod
  | none | dir | regular
  deriving DecidableEq, Repr

/-- `typeCbMap` as fixed (fixes/C23-type-regular-symlink.patch): the
reference counts symbolic links as regular files. -/
def TypeMod.accepts : TypeMod → Kind → Bool
  | .none, _ => true
  | .dir, k => k == .dir
  | .regular, k => k == .file || k == .symlink

/-- `typeCbMap` of the unchanged tree (`os.FileMode.IsRegular` on `Lstat`). -/
def TypeMod.acceptsRaw : TypeMod → Kind → Bool
  | .none, _ => true
  | .dir, k => k == .dir
  | .regular, k => k == .file

structure GlobPattern where
  segs : List Seg
  noMatchOK : Bool
  buts : List Bytes
  type : TypeMod

/-- `doGlob` (never interrupted): drop `but:` paths, apply `type:`, and raise
`ErrWildcardNoMatch` when nothing is left and `nomatch-ok` is absent. -/
def doGlob (fs : FS) (fuel : Nat) (gp : GlobPattern) : Res (List Bytes) := do
  let outs ← patternGlob fs fuel gp.segs
  let vs := (outs.filter fun o => !gp.buts.contains o.1 && gp.type.accepts o.2).map (·.1)
  if vs.isEmpty && !gp.noMatchOK then .exc "wildcard has no match" else pure vs

end C23
