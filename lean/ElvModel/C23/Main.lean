import ElvModel.C23.Driver
def main : IO Unit := C23.driver.main
