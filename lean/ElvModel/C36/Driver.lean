import ElvModel.Go.Driver
import ElvModel.C36.Model
import ElvModel.C35.RefHtml
namespace C36
open Go C35

def resLine (r : Res Bytes) : String :=
  match r with
  | .ok b => s!"F {hexEnc b}"
  | .exc e => s!"EXC {e}"
  | .panic _ => "PANIC"

/-- does the C35 reference read `out` back as one paragraph whose only inline
is the text `s`?  (`-` = `out` is outside the reference's declared subset) -/
def soundFlag (out s : Bytes) : String :=
  if !(inSubset stdU out) then "-" else
  match render stdU true out with
  | some h => if h == bs "<p>" ++ escHtml s ++ bs "</p>\n" then "1" else "0"
  | none => "0"

/-- ops:
 `esc <hex s>` → `F <hex formatted> sound=<1|0|->`: FmtCodec.Do(paragraph [text s]), and whether the C35 reference parses the result back to the text s
 `atx <level> <hex s>` → `F <hex>`: FmtCodec.Do(heading [text s])
 `fence <hex info> <hex lines, each terminated by \n>` → `F <hex>`: FmtCodec.Do(code block)
 `span <hex text>` → `F <hex>`: FmtCodec.Do(paragraph [code span text])
 `reflow <width> <hex s>` → `F <hex>`: FmtCodec{Width}.Do(paragraph [text s]), printable ASCII
 `fmt <width> <hex markdown>` → `done`: whole-formatter laws, judged by the oracle only -/
def stepLineOp : List String → String
  | ["esc", h] =>
    match hexDecode h with
    | some s =>
      match fmtTextParagraph goStdU s with
      | .ok out => s!"F {hexEnc out} sound={soundFlag out s}"
      | r => resLine r
    | none => "bad-op"
  | ["atx", n, h] =>
    match n.toNat?, hexDecode h with
    | some n, some s => resLine (fmtTextHeading goStdU n s)
    | _, _ => "bad-op"
  | ["fence", hi, hl] =>
    match hexDecode hi, hexDecode hl with
    | some info, some ls => resLine (.ok (fmtCodeBlock info (if ls.isEmpty then [] else splitNL ls.dropLast)))
    | _, _ => "bad-op"
  | ["span", h] =>
    match hexDecode h with
    | some t => resLine (fmtCodeSpan t |>.bind fun x => .ok (x ++ [NL]))
    | none => "bad-op"
  | ["reflow", w, h] =>
    match w.toInt?, hexDecode h with
    | some w, some s => resLine (fmtTextReflow goStdU w s)
    | _, _ => "bad-op"
  | ["fmt", _, _] => "done"
  | _ => "bad-op"

def driver : Driver := Driver.pure stepLineOp
end C36
