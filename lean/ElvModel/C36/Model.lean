/-
C36 — executable model of the escaping and layout decisions of the Markdown
formatter pkg/md/fmt.go (FmtCodec), function by function:

* `escapeText` (which bytes of a text node get a backslash / an entity),
  `leadingCharRef`, `escapeLeadingSpaceTab`, `escapeTrailingSpaceTab`,
  `escapeStartOfLine` (block-marker lookalikes at the start of a line);
* `codeFences` / `escapeCodeFenceInfo` (fence character and length),
  the backtick-run length and padding chosen for a code span;
* `writeSegmentsATXHeading` for a heading made of one text node;
* `writeSegmentsParagraphReflow` for a paragraph made of one text node: the
  split into unbreakable spans and the greedy line breaker.

The whole-formatter laws (render ∘ fmt = render, fmt ∘ fmt = fmt) are not
modelled; they are the implementation-side oracle (harness/c36).
-/
import ElvModel.C35.Chars
import ElvModel.C35.Model
namespace C36
open Go C35

/-! ### leadingCharRef: `^&(?:[a-zA-Z0-9]+|#[0-9]{1,7}|#[xX][0-9a-fA-F]{1,6});` -/

/-- length of the character reference at the start of `s` (0 = none) -/
def charRefLen (s : Bytes) : Nat :=
  match s with
  | 0x26 :: t =>
    match t with
    | 0x23 :: u =>
      let k := countWhile isDigitB u
      if 1 ≤ k && k ≤ 7 && (u.drop k).head? == some 0x3B then k + 3
      else
        match u with
        | x :: v =>
          if x == 0x78 || x == 0x58 then
            let k := countWhile isHexB v
            if 1 ≤ k && k ≤ 6 && (v.drop k).head? == some 0x3B then k + 4 else 0
          else 0
        | [] => 0
    | _ =>
      let k := countWhile isAlnumB t
      if 1 ≤ k && (t.drop k).head? == some 0x3B then k + 2 else 0
  | _ => 0

/-! ### escapeText -/

/-- `isWord(r, l)`: non-empty, not space, not punctuation -/
def isWord (G : GoU) (r : Nat) (l : Nat) : Bool := l > 0 && !G.isSpace r && !G.isPunct r

structure Esc where
  out : Bytes      -- output so far, reversed
  prev : Nat × Nat -- utf8.DecodeLastRuneInString(s[:i])
  skip : Nat

/-- one rune of the `for i, r := range s` loop of `escapeText` (valid UTF-8);
`b :: t` = `s[i:]` -/
def escStep (G : GoU) (st : Esc) (b : UInt8) (t : Bytes) : Esc :=
  let push (x : Bytes) (st : Esc) : Esc := { st with out := x.reverse ++ st.out }
  if b == 0x5B || b == 0x5D || b == 0x2A || b == 0x60 || b == 0x5C then
    { push [0x5C, b] st with prev := (b.toNat, 1) }
  else if b == 0x5F then
    let (nr, nl) := decodeRune t
    let st' := if isWord G st.prev.1 st.prev.2 && isWord G nr nl then push [b] st else push [0x5C, b] st
    { st' with prev := (b.toNat, 1) }
  else if b == 0x26 then
    let st' := if charRefLen (b :: t) == 0 then push [b] st else push [0x5C, b] st
    { st' with prev := (b.toNat, 1) }
  else if b == 0x3C then
    -- canBeSpecialAfterLt is true for every byte (b != '/' covers all but '/',
    -- and '/' is an email-local punctuation), so `<` is always escaped
    { push [0x5C, b] st with prev := (b.toNat, 1) }
  else
    let (r, n) := decodeRune (b :: t)
    if r == 0xA0 && n == 2 then { push (bs "&nbsp;") st with prev := (r, n), skip := 1 }
    else { push ((b :: t).take n) st with prev := (r, n), skip := n - 1 }

def escScan (G : GoU) : Esc → Bytes → Esc
  | st, [] => st
  | st, b :: t =>
    match st.skip with
    | k + 1 => escScan G { st with skip := k } t
    | 0 => escScan G (escStep G st b t) t

def escapeText (G : GoU) (s : Bytes) : Bytes :=
  (escScan G { out := [], prev := (RuneError, 0), skip := 0 } s).out.reverse

/-! ### start / end of line -/

/-- `escapeLeadingSpaceTab` (panics on the empty string: `s[0]`) -/
def escapeLeadingSpaceTab (s : Bytes) : Res Bytes :=
  match s with
  | [] => .panic "index out of range"
  | b :: t =>
    if b == SP then .ok (bs "&#32;" ++ t)
    else if b == 0x09 then .ok (bs "&Tab;" ++ t)
    else .ok s

def escapeTrailingSpaceTab (s : Bytes) : Res Bytes :=
  match s.getLast? with
  | none => .panic "index out of range"
  | some b =>
    if b == SP then .ok (s.dropLast ++ bs "&#32;")
    else if b == 0x09 then .ok (s.dropLast ++ bs "&Tab;")
    else .ok s

def startsWithSpaceOrTab (s : Bytes) : Bool :=
  match s with
  | b :: _ => b == SP || b == 0x09
  | [] => false

/-- `^((?:-[ \t]*)+|(?:_[ \t]*)+)$` -/
def thematicBreakLookalike (s : Bytes) : Bool :=
  match s with
  | c :: rest => (c == 0x2D || c == 0x5F) && rest.all (fun b => b == c || b == SP || b == 0x09)
  | [] => false

/-- `trailingDashes.FindString(sb)`: `(?:- *)*$` — the longest suffix made of
dashes and spaces that starts with a dash (or the empty suffix) -/
def trailingDashes (sb : Bytes) : Bytes :=
  let suf := (sb.reverse.takeWhile (fun b => b == 0x2D || b == SP)).reverse
  suf.dropWhile (· == SP)

/-- `escapeStartOfLine(s, startOfParagraph, endOfLine)`; `sb` = output so far -/
def escapeStartOfLine (sb : Bytes) (s : Bytes) (sop eol : Bool) : Res Bytes :=
  match escapeLeadingSpaceTab s with
  | .panic w => .panic w
  | .exc e => .exc e
  | .ok s =>
    let bsl (x : Bytes) : Bytes := 0x5C :: x
    match s with
    | [] => .panic "index out of range"
    | c :: tail =>
      let early : Option Bytes :=
        if c == 0x2D || c == 0x2B then
          if startsWithSpaceOrTab tail || (tail.isEmpty && sop && eol) then some (bsl s) else none
        else if c == 0x3E then some (bsl s)
        else if c == 0x23 then
          let k := min (countWhile (· == 0x23) s) 6
          let tl := s.drop k
          if startsWithSpaceOrTab tl || (tl.isEmpty && eol) then some (bsl s) else none
        else none
      match early with
      | some r => .ok r
      | none =>
        if startsWith s (bs "~~~") then .ok (bsl s)
        else
          let k := countWhile isDigitB s
          let ordered := 1 ≤ k && k ≤ 9 &&
            (match (s.drop k).head? with
             | some d => d == 0x2E || d == 0x29
             | none => false)
          if ordered then
            let tl := s.drop (k + 1)
            let number := s.take k
            if (startsWithSpaceOrTab tl || (tl.isEmpty && eol)) &&
               (sop || number.dropWhile (· == 0x30) == [0x31]) then
              .ok (number ++ [0x5C] ++ s.drop k)
            else .ok s
          else if eol && thematicBreakLookalike s then
            let line := if sop && c == 0x2D then trailingDashes sb ++ s else s
            if thematicBreakRe line then .ok (bsl s) else .ok s
          else .ok s

/-- `FmtCodec.Do(OpParagraph [OpText s])` on a fresh codec, `Width = 0` -/
def fmtTextParagraph (G : GoU) (s : Bytes) : Res Bytes :=
  match escapeTrailingSpaceTab (escapeText G s) with
  | .ok t =>
    match escapeStartOfLine [] t true true with
    | .ok u => .ok (u ++ [NL])
    | .panic w => .panic w
    | .exc e => .exc e
  | .panic w => .panic w
  | .exc e => .exc e

/-! ### ATX heading of one text node (models the FIXED tree) -/

def fmtTextHeading (G : GoU) (level : Nat) (s : Bytes) : Res Bytes :=
  match escapeLeadingSpaceTab (escapeText G s) with
  | .ok t =>
    match escapeTrailingSpaceTab t with
    | .ok t =>
      let h := countWhile (· == 0x23) t.reverse
      let t :=
        if h == 0 then t else
        let head := t.take (t.length - h)
        let endsWs := match head.getLast? with
          | some b => b == SP || b == 0x09
          | none => false
        if endsWs || head.isEmpty then head ++ [0x5C] ++ List.replicate h 0x23 else t
      -- fixes/C36-heading-attr-lookalike.patch: content that ends like the
      -- attribute extension ` {...}` gets its final `}` written as `&#125;`
      let t := if (atxAttrRe (SP :: t)).isSome then t.dropLast ++ bs "&#125;" else t
      .ok (List.replicate level 0x23 ++ [SP] ++ t ++ [NL])
    | .panic w => .panic w
    | .exc e => .exc e
  | .panic w => .panic w
  | .exc e => .exc e

/-! ### code fences and code spans -/

/-- lengths of the maximal runs of `c` in `s` -/
def runLens (c : UInt8) : Bytes → List Nat
  | [] => []
  | b :: t =>
    if b == c then
      match runLens c t with
      | [] => [1]
      | k :: ks => if t.head? == some c then (k + 1) :: ks else 1 :: k :: ks
    else runLens c t

def maxRun (c : UInt8) (lines : List Bytes) : Nat :=
  (lines.flatMap (runLens c)).foldl max 0

def escapeCodeFenceInfo (s : Bytes) : Bytes :=
  let rec go : Bytes → Bytes
    | [] => []
    | b :: t =>
      if b == 0x5C then 0x5C :: 0x5C :: go t
      else if b == NL then bs "&NewLine;" ++ go t
      else if b == 0x26 then (if charRefLen (b :: t) == 0 then b :: go t else 0x5C :: b :: go t)
      else b :: go t
  go s

/-- `codeFences(info, lines)`: (fence character, length, opening line) -/
def codeFences (info : Bytes) (lines : List Bytes) : UInt8 × Nat × Bytes :=
  let ch : UInt8 := if info.contains 0x60 then 0x7E else 0x60
  let l := max 3 (maxRun ch lines + 1)
  let fence := List.replicate l ch
  let start :=
    if ch == 0x7E && info.head? == some 0x7E then fence ++ [SP] ++ escapeCodeFenceInfo info
    else fence ++ escapeCodeFenceInfo info
  (ch, l, start)

/-- `FmtCodec.Do(OpCodeBlock)` on a fresh codec -/
def fmtCodeBlock (info : Bytes) (lines : List Bytes) : Bytes :=
  let (ch, l, start) := codeFences info lines
  start ++ [NL] ++ lines.flatMap (· ++ [NL]) ++ List.replicate l ch ++ [NL]

/-- smallest `l ≥ 1` such that `text` has no backtick run of exactly `l` -/
def spanDelimLen : Nat → Nat → List Nat → Nat
  | 0, l, _ => l
  | fuel + 1, l, runs => if runs.contains l then spanDelimLen fuel (l + 1) runs else l

/-- the code span segment; panics on empty text (`text[0]`) -/
def fmtCodeSpan (text : Bytes) : Res Bytes :=
  match text.head?, text.getLast? with
  | some first, some last =>
    let runs := runLens 0x60 text
    let l := spanDelimLen (runs.length + 1) 1 runs
    let delim := List.replicate l 0x60
    let addSpace := first == 0x60 || last == 0x60 ||
      (first == SP && last == SP && !(text.all (· == SP)))
    let pad : Bytes := if addSpace then [SP] else []
    .ok (delim ++ pad ++ text ++ pad ++ delim)
  | _, _ => .panic "index out of range"

/-! ### reflow of a paragraph made of one text node -/

/-- `whitespaceRunRegexp.Split` then dropping empty parts -/
def splitSpans (s : Bytes) : List Bytes :=
  let rec go (cur : Bytes) : Bytes → List Bytes
    | [] => if cur.isEmpty then [] else [cur.reverse]
    | b :: t =>
      if b == SP || b == 0x09 || b == NL then
        (if cur.isEmpty then go [] t else cur.reverse :: go [] t)
      else go (b :: cur) t
  go [] s

def joinSp : List Bytes → Bytes
  | [] => []
  | [x] => x
  | x :: xs => x ++ SP :: joinSp xs

/-- does `span` (width `w`) still fit on the current line?  When the line
would be exactly `maxW` wide it only fits if `escapeStartOfLine` adds nothing
(`exactOK`). -/
def fitsLine (exactOK : Bool → Bytes → Bool) (maxW : Int) (sop : Bool) (cur : List Bytes)
    (curW : Nat) (span : Bytes) (w : Nat) : Bool :=
  decide ((curW : Int) + 1 + w < maxW) ||
  (decide ((curW : Int) + 1 + w = maxW) && exactOK sop (joinSp (cur ++ [span])))

/-- The greedy line breaker of `writeSegmentsParagraphReflow` (no hard line
breaks): `cur` = spans of the current line (in order), `curW` its width.
`exactOK line` = "`escapeStartOfLine` leaves `line` unchanged" (consulted only
when the line would be exactly `maxW` wide). -/
def breakLines (width : Bytes → Nat) (exactOK : Bool → Bytes → Bool) (maxW : Int) :
    Bool → List Bytes → Nat → List Bytes → List (List Bytes)
  | _, cur, _, [] => if cur.isEmpty then [] else [cur]
  | sop, cur, curW, span :: rest =>
    if cur.isEmpty then breakLines width exactOK maxW sop [span] (width span) rest
    else if fitsLine exactOK maxW sop cur curW span (width span) then
      breakLines width exactOK maxW sop (cur ++ [span]) (curW + 1 + width span) rest
    else cur :: breakLines width exactOK maxW false [span] (width span) rest

/-- ASCII width (`wcwidth.Of` on printable ASCII) -/
def asciiWidth (s : Bytes) : Nat := s.length

/-- `FmtCodec{Width: w}.Do(OpParagraph [OpText s])` on a fresh codec, for
printable-ASCII `s` (so that `wcwidth.Of` is the length) -/
def fmtTextReflow (G : GoU) (w : Int) (s : Bytes) : Res Bytes :=
  let spans := splitSpans (escapeText G s)
  if spans.isEmpty then .ok (bs "&NewLine;" ++ [NL]) else
  let exactOK (sop : Bool) (line : Bytes) : Bool :=
    match escapeStartOfLine [] line sop true with
    | .ok r => r == line
    | _ => false
  let lines := breakLines asciiWidth exactOK w true [] 0 spans
  -- writeCurrentLine: escapeStartOfLine(line, startOfParagraph, true); text never starts an HTML block
  let rec emit (sop : Bool) : List (List Bytes) → Res Bytes
    | [] => .ok []
    | l :: ls =>
      match escapeStartOfLine [] (joinSp l) sop true, emit false ls with
      | .ok e, .ok r => .ok (e ++ [NL] ++ r)
      | .panic w, _ => .panic w
      | _, .panic w => .panic w
      | _, _ => .exc "unreachable"
  emit true lines

end C36
