import ElvModel.C36.Driver
def main : IO Unit := C36.driver.main
