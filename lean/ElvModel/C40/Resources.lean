/-
C40 — resource-accounting semantics of the effect-op tree of pkg/eval.

What is followed, function by function (pkg/eval, the tree with the `fix:`
commits and fixes/C40-pipe-failure-cleanup.patch applied):

* `pipelineOp.exec`   (compile_effect.go)  → `execPipeline` / `stageLoop` / `runStage`
* `formOp.exec`       (compile_effect.go)  → `runStage` (redirections, body, stage epilogue)
* `redirOp.exec`, `releaseReplacedPort`, `formOwnedPort.close`, `growAccess`
                      (compile_effect.go)  → `execRedir`, `release`, `closeFop`, `growSet`
* `PipePort`, `ValueCapturePort`, `outputCaptureOp.exec`, `exceptionCaptureOp.exec`
                      (port.go, compile_value.go) → `captureWith`, `Op.excCapture`
* `Frame.IterateInputs`, `onlyBytes`, `onlyValues` (frame.go, builtin_fn_io.go)
                      → `iterBegin` / `iterEnd`, `Op.drain`, `Op.onlyBytes`, `Op.onlyValues`
* `peach`, `runParallel`, `each` (builtin_fn_flow.go) → `Op.peach`, `Op.runParallel`, `Op.each`
* `chunkOp.exec` and the interrupt checks (`fm.Canceled()`) → `execPipelines`, `World.cancelled`

The world records the descriptors that are open (`os.Pipe` +2, `os.OpenFile`
+1, `Close` −1 with double closes counted apart), the goroutines started and
finished, and the way the real code can stop making progress for resource
reasons (a reader waiting for EOF on a pipe whose write end is still open).

Stages of a pipeline, `peach` / `run-parallel` callbacks and capture
goroutines run concurrently in the real code.  For the ACCOUNT at the moment
the top-level `exec` returns only the multiset of open/close/go/exit events
matters, not their interleaving: every concurrent activity works on its own
forked frame (`Frame.Fork` clones the port slice) and its own `fops`, and the
parent joins all of them (`wg.Wait`) before it returns.  The model therefore
runs them one after the other, in the order in which the code starts them.
What this sequentialisation does not show (data, blocking of writers) is the
subject of C18.
-/
namespace C40

/-- How a piece of code ends.  `gone` is the reader-gone exception
(`errs.ReaderGone`), which `pipelineOp.exec` drops for a stage whose output is
a pipe; `int` is `ErrInterrupted` (or an error containing it). -/
inductive Outcome where
  | ok | exc | int | gone
  deriving DecidableEq, Repr, Inhabited

/-- Which repairs are in the code. -/
structure Cfg where
  /-- fixes/C40-pipe-failure-cleanup.patch: when `os.Pipe` fails in the middle of
  `pipelineOp.exec`, close the read end handed over by the previous stage. -/
  pipeFailCleanup : Bool
  deriving Repr

def Cfg.fixed : Cfg := ⟨true⟩
def Cfg.orig : Cfg := ⟨false⟩

/-- A `*Port`.  `pid` stands for the pointer identity (fresh per allocation);
`file` is the descriptor of `Port.File` (none: nil file or a descriptor that
the evaluation neither opened nor may close, such as /dev/null); `peer` is, for
the read end of a pipe created by `pipelineOp.exec`, the descriptor of the
write end (EOF is seen only after that one is closed). -/
structure Port where
  pid : Nat
  file : Option Nat
  peer : Option Nat
  deriving DecidableEq, Repr

/-- `formOwnedPort`. -/
structure Fop where
  file : Bool
  chan : Bool
  deriving DecidableEq, Repr

def Fop.none : Fop := ⟨false, false⟩

abbrev Ports := List (Option Port)
abbrev Fops := List Fop

structure World where
  /-- descriptors currently open -/
  openFds : List Nat
  nextFd : Nat
  nextPid : Nat
  /-- descriptors opened / successfully closed / `Close` calls on owned files -/
  opened : Nat
  closed : Nat
  closeCalls : Nat
  /-- `close(p.Chan)` calls (not a descriptor; recorded only) -/
  chanCloses : Nat
  spawned : Nat
  finished : Nat
  /-- `Close` of a descriptor that is not open (double close, EBADF) -/
  badClose : Nat
  /-- nil dereferences in the bookkeeping (`fop.File` set on a nil port) -/
  panics : Nat
  /-- a wait that can never complete was reached (reader waiting for EOF on a
  pipe whose write end is open): the real evaluation would not return -/
  hung : Bool
  /-- the Interrupts context has been cancelled -/
  cancelled : Bool
  deriving Repr

/-! ### Primitive events -/

/-- A successful open of one descriptor. -/
def openFd (w : World) : World × Nat :=
  ({ w with openFds := w.nextFd :: w.openFds, nextFd := w.nextFd + 1, opened := w.opened + 1 }, w.nextFd)

/-- `(*os.File).Close`. -/
def closeFd (w : World) (fd : Nat) : World :=
  if fd ∈ w.openFds then
    { w with openFds := w.openFds.erase fd, closed := w.closed + 1, closeCalls := w.closeCalls + 1 }
  else
    { w with badClose := w.badClose + 1, closeCalls := w.closeCalls + 1 }

/-- `go …` (k statements). -/
def spawn (w : World) (k : Nat) : World := { w with spawned := w.spawned + k }

/-- k goroutines return. -/
def finish (w : World) (k : Nat) : World := { w with finished := w.finished + k }

/-- `&Port{…}`. -/
def newPort (w : World) (file peer : Option Nat) : World × Port :=
  ({ w with nextPid := w.nextPid + 1 }, ⟨w.nextPid, file, peer⟩)

/-! ### Slices indexed by fd (`growAccess`) -/

/-- `*growAccess(&s, i) = v`, zero value `d`. -/
def growSet {α : Type} (l : List α) (i : Nat) (d v : α) : List α :=
  if i < l.length then l.set i v else l ++ List.replicate (i - l.length) d ++ [v]

/-- `fm.ports[i]`, nil when out of range. -/
def portAt (ports : Ports) (i : Nat) : Option Port :=
  match ports[i]? with
  | some (some p) => some p
  | _ => Option.none

/-- `fops[i]`, the zero value when out of range (entries beyond the length
are never closed by the stage epilogue). -/
def fopAt (fops : Fops) (i : Nat) : Fop :=
  match fops[i]? with
  | some f => f
  | Option.none => Fop.none

def setPort (ports : Ports) (i : Nat) (v : Option Port) : Ports := growSet ports i Option.none v
def setFop (fops : Fops) (i : Nat) (f : Fop) : Fops := growSet fops i Fop.none f

/-- Index of the first entry that is (pointer-)equal to `o`: the loop of
`releaseReplacedPort`.  Ports are compared as whole records; `pid` is fresh per
allocation, so this is pointer equality on every table the model builds. -/
def firstIdx (o : Port) : Ports → Nat → Option Nat
  | [], _ => Option.none
  | q :: rest, k => if q = some o then some k else firstIdx o rest (k + 1)

/-! ### Closing what a form owns -/

/-- `formOwnedPort.close(p)`; `p` nil with `fop.File` set is a nil dereference. -/
def closeFop (w : World) (p : Option Port) (fop : Fop) : World :=
  let w1 :=
    if fop.file then
      match p with
      | Option.none => { w with panics := w.panics + 1 }
      | some q =>
        match q.file with
        | Option.none => { w with badClose := w.badClose + 1, closeCalls := w.closeCalls + 1 }
        | some fd => closeFd w fd
    else w
  if fop.chan then { w1 with chanCloses := w1.chanCloses + 1 } else w1

/-- `for i, fop := range fops { fop.close(newFm.ports[i]) }`, from index `k`. -/
def closeLoop (w : World) (ports : Ports) : Fops → Nat → World
  | [], _ => w
  | f :: rest, k => closeLoop (closeFop w (portAt ports k) f) ports rest (k + 1)

/-- `releaseReplacedPort(ports, fops, old, oldFop)`. -/
def release (w : World) (ports : Ports) (fops : Fops) (old : Option Port) (oldFop : Fop) : World × Fops :=
  match old with
  | Option.none => (w, fops)
  | some o =>
    match firstIdx o ports 0 with
    | some i =>
      let f := fopAt fops i
      (w, setFop fops i ⟨f.file || oldFop.file, f.chan || oldFop.chan⟩)
    | Option.none => (closeFop w (some o) oldFop, fops)

/-! ### Waiting for end of input -/

/-- Does a reader of this port's file see EOF?  For the read end of a pipeline
pipe only after the write end has been closed. -/
def eofReady (w : World) (p : Option Port) : Bool :=
  match p with
  | Option.none => true
  | some q =>
    match q.peer with
    | Option.none => true
    | some x => !(w.openFds.contains x)

/-- A goroutine (or the caller) reads the frame's input file to EOF. -/
def waitEof (w : World) (ports : Ports) : World :=
  if eofReady w (portAt ports 0) then w else { w with hung := true }

/-- `Frame.IterateInputs`: three goroutines (lines of the input file, values of
the input channel, the closer of the merged channel). -/
def iterBegin (w : World) : World := spawn w 3
/-- …all three have returned when the merged channel has been drained. -/
def iterEnd (w : World) (ports : Ports) : World := finish (waitEof w ports) 3

/-- `DummyInputPort` (a package-level port on /dev/null). -/
def dummyInput : Port := ⟨0, Option.none, Option.none⟩

/-! ### The op tree -/

inductive Mode where
  | read | write | append | readWrite
  deriving DecidableEq, Repr

mutual
  /-- What a form does after its redirections. -/
  inductive Op where
    /-- a command that creates nothing (`nop`, `echo`, `put`, `fail`, `range` into a pipe nobody reads) -/
    | leaf (o : Outcome)
    /-- the harness interrupt: cancels the context -/
    | cancel
    /-- `sleep`: interrupted iff the context is cancelled -/
    | sleep
    /-- a builtin that consumes its input through `IterateInputs` (`each $nop~`, `count`, …) -/
    | drain
    | onlyBytes
    | onlyValues
    /-- `{ chunk }`: a closure call on the form's own frame -/
    | block (c : Chunk)
    /-- `cmd (chunk)`: output capture as an argument; `pipeOk` = `os.Pipe` succeeded -/
    | capture (pipeOk : Bool) (c : Chunk)
    /-- `cmd ?(chunk)` -/
    | excCapture (c : Chunk)
    /-- `peach`: one goroutine per item that was started (`bodies`); inputs from the pipe or from an argument -/
    | peach (viaInputs : Bool) (bodies : List Chunk)
    | runParallel (bodies : List Chunk)
    /-- `each` over an argument list: sequential, stops at the first exception -/
    | each (bodies : List Chunk)
  inductive Chunk where
    | mk (ps : List Pipeline)
  inductive Pipeline where
    /-- `failAt = some i`: the `os.Pipe` call made for form `i` fails -/
    | mk (bg : Bool) (failAt : Option Nat) (forms : List Form)
  inductive Form where
    | mk (redirs : List Redir) (body : Op)
  inductive Redir where
    | mk (dst : Option Nat) (mode : Mode) (src : Src)
  inductive Src where
    /-- a file name; `ok` = `os.OpenFile` succeeded -/
    | file (ok : Bool)
    /-- `>&n` -/
    | fd (n : Nat)
    /-- `>&-` -/
    | close
    /-- a source that makes `evalForFd` / `evalForValue` raise -/
    | bad
    /-- a file object the program did not open (descriptor `fd`) -/
    | obj (fd : Nat)
    /-- `>(chunk)`: the file name is computed by an output capture -/
    | capFile (pipeOk : Bool) (c : Chunk) (ok : Bool)
end

/-- `MakePipelineError` on outcome classes: nil, the single exception, or a
`PipelineError` (class `int` if a component is, else `exc`). -/
def mkPipelineError (os : List Outcome) : Outcome :=
  match os.filter (· ≠ .ok) with
  | [] => .ok
  | [e] => e
  | es => if es.contains .int then .int else .exc

/-- default destination of a redirection without explicit fd -/
def Mode.defaultDst : Mode → Nat
  | .read => 0
  | _ => 1

/-- A stage's reader-gone exception is dropped when its output is a pipe. -/
def dropGone (outputIsPipe : Bool) (o : Outcome) : Outcome :=
  if outputIsPipe && o == .gone then .ok else o

/-- `outputCaptureOp.exec`: `ValueCapturePort` (= `PipePort`: `os.Pipe`, two
goroutines), the chunk (`body`) on a fork whose port 1 is the capture port, then
`collect()` = `done()`: `w.Close()`, `close(ch)`, `wg.Wait()`; the byte reader
goroutine closes `r` when it sees EOF (i.e. once the write end is closed). -/
def captureWith (w : World) (ports : Ports) (pipeOk : Bool)
    (body : World → Ports → World × Outcome) : World × Outcome :=
  if pipeOk then
    let o1 := openFd w
    let o2 := openFd o1.1
    let w3 := spawn o2.1 2
    let np := newPort w3 (some o2.2) Option.none
    let res := body np.1 (setPort ports 1 (some np.2))
    let w5 := closeFd res.1 o2.2
    let w6 := if w5.openFds.contains o2.2 then { w5 with hung := true } else w5
    let w7 := closeFd w6 o1.2
    (finish w7 2, res.2)
  else (w, .exc)

/-- `os.Pipe` plus the two ports `pipelineOp.exec` builds on it: the world, the
output port of this form and the input port of the next one. -/
def mkPipe (w : World) : World × Port × Port :=
  let o1 := openFd w
  let o2 := openFd o1.1
  let p1 := newPort o2.1 (some o2.2) Option.none
  let p2 := newPort p1.1 (some o1.2) (some o2.2)
  (p2.1, p1.2, p2.2)

/-- A successfully opened file as a redirection source. -/
def openFilePort (w : World) : World × Port :=
  let o := openFd w
  newPort o.1 (some o.2) Option.none

/-- The cleanup of fixes/C40-pipe-failure-cleanup.patch: `input.File.Close()`. -/
def closeInput (w : World) (nextIn : Option Port) : World :=
  match nextIn with
  | some p =>
    match p.file with
    | some fd => closeFd w fd
    | Option.none => w
  | Option.none => w

mutual
  /-- `effectOp.exec` of a form body (after the redirections). -/
  def execOp (cfg : Cfg) (w : World) (ports : Ports) : Op → World × Outcome
    | .leaf o => (w, o)
    | .cancel => ({ w with cancelled := true }, .ok)
    | .sleep => (w, if w.cancelled then .int else .ok)
    | .drain => (iterEnd (iterBegin w) ports, .ok)
    | .onlyBytes => (finish (waitEof (spawn w 1) ports) 1, .ok)
    | .onlyValues => (finish (waitEof (spawn w 1) ports) 1, .ok)
    | .block c => execChunk cfg w ports c
    | .capture pipeOk c => captureWith w ports pipeOk (fun w' ports' => execChunk cfg w' ports' c)
    | .excCapture c => ((execChunk cfg w ports c).1, .ok)
    | .peach viaInputs bodies =>
      let w0 := if viaInputs then iterBegin w else w
      let r := execSpawned cfg w0 (setPort ports 0 (some dummyInput)) bodies
      let w1 := if viaInputs then iterEnd r.1 ports else r.1
      (w1, mkPipelineError r.2)
    | .runParallel bodies =>
      let r := execSpawned cfg w ports bodies
      (r.1, mkPipelineError r.2)
    | .each bodies => execSeq cfg w ports bodies

  /-- One goroutine per body, each on a fork of the frame; all are joined. -/
  def execSpawned (cfg : Cfg) (w : World) (ports : Ports) : List Chunk → World × List Outcome
    | [] => (w, [])
    | c :: cs =>
      let r := execChunk cfg (spawn w 1) ports c
      let rest := execSpawned cfg (finish r.1 1) ports cs
      (rest.1, r.2 :: rest.2)

  /-- `each`: one call after the other, stops at the first exception. -/
  def execSeq (cfg : Cfg) (w : World) (ports : Ports) : List Chunk → World × Outcome
    | [] => (w, .ok)
    | c :: cs =>
      let r := execChunk cfg w ports c
      if r.2 = .ok then execSeq cfg r.1 ports cs else r

  def execChunk (cfg : Cfg) (w : World) (ports : Ports) : Chunk → World × Outcome
    | .mk ps => execPipelines cfg w ports ps

  /-- `chunkOp.exec`: pipelines in sequence, then the interrupt check. -/
  def execPipelines (cfg : Cfg) (w : World) (ports : Ports) : List Pipeline → World × Outcome
    | [] => (w, if w.cancelled then .int else .ok)
    | p :: ps =>
      let r := execPipeline cfg w ports p
      if r.2 = .ok then execPipelines cfg r.1 ports ps else r

  /-- `pipelineOp.exec`. -/
  def execPipeline (cfg : Cfg) (w : World) (ports : Ports) : Pipeline → World × Outcome
    | .mk bg failAt forms =>
      if w.cancelled then (w, .int)
      else if bg then
        -- background job: forms (and the waiter) keep running after exec
        -- returns; what was handed to them is still live at that moment
        let links := forms.length - 1
        ({ w with opened := w.opened + 2 * links, spawned := w.spawned + forms.length + 1 }, .ok)
      else stageLoop cfg w ports failAt forms 0 Option.none []

  /-- The loop over the forms of a foreground pipeline.  `i` is the index of the
  first form of `forms`, `nextIn` the read end created for it by the previous
  iteration, `acc` the (reversed) `excs` so far. -/
  def stageLoop (cfg : Cfg) (w : World) (ports : Ports) (failAt : Option Nat) :
      List Form → Nat → Option Port → List Outcome → World × Outcome
    | [], _, _, acc => (w, mkPipelineError acc.reverse)
    | f :: fs, i, nextIn, acc =>
      -- newFm := fm.Fork(); input pipe
      let ports1 := match nextIn with
        | some p => setPort ports 0 (some p)
        | Option.none => ports
      let fops1 : Fops := match nextIn with
        | some _ => setFop [] 0 ⟨true, false⟩
        | Option.none => []
      if fs.isEmpty then
        -- last form: runs on the caller's goroutine
        let r := runStage cfg w ports1 fops1 f
        (r.1, mkPipelineError (r.2 :: acc).reverse)
      else if failAt = some i then
        -- os.Pipe failed; the forms before this one have been started
        ((if cfg.pipeFailCleanup then closeInput w nextIn else w), .exc)
      else
        let pp := mkPipe w
        let ports2 := setPort ports1 1 (some pp.2.1)
        let fops2 := setFop fops1 1 ⟨true, true⟩
        let r := runStage cfg (spawn pp.1 1) ports2 fops2 f
        stageLoop cfg (finish r.1 1) ports failAt fs (i + 1) (some pp.2.2) (dropGone true r.2 :: acc)

  /-- The closure `f` of `pipelineOp.exec`: `form.exec`, then close what the form owns. -/
  def runStage (cfg : Cfg) (w : World) (ports : Ports) (fops : Fops) : Form → World × Outcome
    | .mk redirs body =>
      let r := execRedirs cfg w ports fops redirs
      match r.2.2.2 with
      | .ok =>
        let b := execOp cfg r.1 r.2.1 body
        (closeLoop b.1 r.2.1 r.2.2.1 0, b.2)
      | o => (closeLoop r.1 r.2.1 r.2.2.1 0, o)

  /-- The redirection loop of `formOp.exec`. -/
  def execRedirs (cfg : Cfg) (w : World) (ports : Ports) (fops : Fops) :
      List Redir → World × Ports × Fops × Outcome
    | [] => (w, ports, fops, .ok)
    | rd :: rest =>
      let r := execRedir cfg w ports fops rd
      match r.2.2.2 with
      | .ok => execRedirs cfg r.1 r.2.1 r.2.2.1 rest
      | _ => r

  /-- `redirOp.exec`. -/
  def execRedir (cfg : Cfg) (w : World) (ports : Ports) (fops : Fops) : Redir → World × Ports × Fops × Outcome
    | .mk dst? mode src =>
      let dst := match dst? with
        | some d => d
        | Option.none => mode.defaultDst
      let oldPort := portAt ports dst
      let oldFop := fopAt fops dst
      let fops0 := setFop fops dst Fop.none
      -- the source; on success the new port and whether the form owns its file
      let s := execSrc cfg w ports src
      match s.2 with
      | Sum.inl o =>
        -- the redirection failed: the table is unchanged
        let rel := release s.1 ports fops0 oldPort oldFop
        (rel.1, ports, rel.2, o)
      | Sum.inr (np, owned) =>
        let ports' := setPort ports dst (some np)
        let fops' := if owned then setFop fops0 dst ⟨true, false⟩ else fops0
        let rel := release s.1 ports' fops' oldPort oldFop
        (rel.1, ports', rel.2, .ok)

  /-- Evaluation of the right-hand side of a redirection: an exception, or the
  port to install and whether its file is owned by the form. -/
  def execSrc (cfg : Cfg) (w : World) (ports : Ports) : Src → World × (Outcome ⊕ (Port × Bool))
    | .file ok =>
      if ok then
        let fp := openFilePort w
        (fp.1, Sum.inr (fp.2, true))
      else (w, Sum.inl .exc)
    | .fd n =>
      match portAt ports n with
      | some p => (w, Sum.inr (p, false))
      | Option.none => (w, Sum.inl .exc)
    | .close =>
      let np := newPort w Option.none Option.none
      (np.1, Sum.inr (np.2, false))
    | .bad => (w, Sum.inl .exc)
    | .obj fd =>
      let np := newPort w (some fd) Option.none
      (np.1, Sum.inr (np.2, false))
    | .capFile pipeOk c ok =>
      let r := captureWith w ports pipeOk (fun w' ports' => execChunk cfg w' ports' c)
      match r.2 with
      | .ok =>
        if ok then
          let fp := openFilePort r.1
          (fp.1, Sum.inr (fp.2, true))
        else (r.1, Sum.inl .exc)
      | o => (r.1, Sum.inl o)
end

/-! ### Trees without background pipelines -/

mutual
  def Op.noBg : Op → Bool
    | .block c => c.noBg
    | .capture _ c => c.noBg
    | .excCapture c => c.noBg
    | .peach _ bs => Chunk.noBgList bs
    | .runParallel bs => Chunk.noBgList bs
    | .each bs => Chunk.noBgList bs
    | _ => true
  def Chunk.noBgList : List Chunk → Bool
    | [] => true
    | c :: cs => c.noBg && Chunk.noBgList cs
  def Chunk.noBg : Chunk → Bool
    | .mk ps => Pipeline.noBgList ps
  def Pipeline.noBgList : List Pipeline → Bool
    | [] => true
    | p :: ps => p.noBg && Pipeline.noBgList ps
  def Pipeline.noBg : Pipeline → Bool
    | .mk bg _ forms => !bg && Form.noBgList forms
  def Form.noBgList : List Form → Bool
    | [] => true
    | f :: fs => f.noBg && Form.noBgList fs
  def Form.noBg : Form → Bool
    | .mk rs body => Redir.noBgList rs && body.noBg
  def Redir.noBgList : List Redir → Bool
    | [] => true
    | r :: rs => r.noBg && Redir.noBgList rs
  def Redir.noBg : Redir → Bool
    | .mk _ _ src => src.noBg
  def Src.noBg : Src → Bool
    | .capFile _ c _ => c.noBg
    | _ => true
end

/-! ### The top-level evaluation -/

/-- The world in which `Evaler.Eval` starts: `base` descriptors open, nothing
opened by the evaluation yet. -/
def World.init (base : List Nat) (next : Nat) : World :=
  { openFds := base, nextFd := next, nextPid := 1, opened := base.length, closed := 0, closeCalls := 0,
    chanCloses := 0, spawned := 0, finished := 0, badClose := 0, panics := 0, hung := false,
    cancelled := false }

/-- The port table `Evaler.Eval` starts with in the harness: three ports on
descriptors the harness owns. -/
def topPorts : Ports :=
  [some dummyInput, some ⟨0, Option.none, Option.none⟩, some ⟨0, Option.none, Option.none⟩]

/-- descriptors opened minus descriptors closed during `w → w'` -/
def netFds (w w' : World) : Int := (w'.opened - w.opened : Int) - (w'.closed - w.closed : Int)
/-- goroutines started minus goroutines finished during `w → w'` -/
def netGo (w w' : World) : Int := (w'.spawned - w.spawned : Int) - (w'.finished - w.finished : Int)

end C40
