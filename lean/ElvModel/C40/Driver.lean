import ElvModel.Go.Driver
import ElvModel.C40.Resources
import ElvModel.C40.Sites
namespace C40
open Go

/-! Decoder of the op-tree encoding (prefix notation, tokens separated by
spaces) and the line protocol.  Grammar:

```
Chunk    := C k Pipeline*k
Pipeline := P bg failAt k Form*k          bg: 0|1   failAt: - | n
Form     := F k Redir*k Op
Redir    := R dst mode Src                dst: - | n   mode: r|w|a|rw
Src      := file0 | file1 | fd n | close | bad | obj | cap pipeOk Chunk ok
Op       := ok | exc | gone | int | cancel | sleep | drain | ob | ov
          | blk Chunk | cap pipeOk Chunk | ecap Chunk
          | peach via k Chunk*k | par k Chunk*k | each k Chunk*k
```
-/

abbrev P (α : Type) := List String → Option (α × List String)

def pNat : P Nat
  | t :: ts => t.toNat?.map (·, ts)
  | [] => none

def pBool : P Bool
  | "0" :: ts => some (false, ts)
  | "1" :: ts => some (true, ts)
  | _ => none

def pOptNat : P (Option Nat)
  | "-" :: ts => some (none, ts)
  | t :: ts => t.toNat?.map (fun n => (some n, ts))
  | [] => none

def pMode : P Mode
  | "r" :: ts => some (.read, ts)
  | "w" :: ts => some (.write, ts)
  | "a" :: ts => some (.append, ts)
  | "rw" :: ts => some (.readWrite, ts)
  | _ => none

mutual
  partial def pMany {α : Type} (p : P α) : Nat → P (List α)
    | 0, ts => some ([], ts)
    | n + 1, ts => do
      let (x, ts) ← p ts
      let (xs, ts) ← pMany p n ts
      pure (x :: xs, ts)

  partial def pChunk : P Chunk
    | "C" :: ts => do
      let (k, ts) ← pNat ts
      let (ps, ts) ← pMany pPipeline k ts
      pure (.mk ps, ts)
    | _ => none

  partial def pPipeline : P Pipeline
    | "P" :: ts => do
      let (bg, ts) ← pBool ts
      let (fa, ts) ← pOptNat ts
      let (k, ts) ← pNat ts
      let (fs, ts) ← pMany pForm k ts
      pure (.mk bg fa fs, ts)
    | _ => none

  partial def pForm : P Form
    | "F" :: ts => do
      let (k, ts) ← pNat ts
      let (rs, ts) ← pMany pRedir k ts
      let (b, ts) ← pOp ts
      pure (.mk rs b, ts)
    | _ => none

  partial def pRedir : P Redir
    | "R" :: ts => do
      let (d, ts) ← pOptNat ts
      let (m, ts) ← pMode ts
      let (s, ts) ← pSrc ts
      pure (.mk d m s, ts)
    | _ => none

  partial def pSrc : P Src
    | "file0" :: ts => some (.file false, ts)
    | "file1" :: ts => some (.file true, ts)
    | "fd" :: ts => do
      let (n, ts) ← pNat ts
      pure (.fd n, ts)
    | "close" :: ts => some (.close, ts)
    | "bad" :: ts => some (.bad, ts)
    | "obj" :: ts => some (.obj 3, ts)
    | "cap" :: ts => do
      let (po, ts) ← pBool ts
      let (c, ts) ← pChunk ts
      let (ok, ts) ← pBool ts
      pure (.capFile po c ok, ts)
    | _ => none

  partial def pOp : P Op
    | "ok" :: ts => some (.leaf .ok, ts)
    | "exc" :: ts => some (.leaf .exc, ts)
    | "gone" :: ts => some (.leaf .gone, ts)
    | "int" :: ts => some (.leaf .int, ts)
    | "cancel" :: ts => some (.cancel, ts)
    | "sleep" :: ts => some (.sleep, ts)
    | "drain" :: ts => some (.drain, ts)
    | "ob" :: ts => some (.onlyBytes, ts)
    | "ov" :: ts => some (.onlyValues, ts)
    | "blk" :: ts => do
      let (c, ts) ← pChunk ts
      pure (.block c, ts)
    | "cap" :: ts => do
      let (po, ts) ← pBool ts
      let (c, ts) ← pChunk ts
      pure (.capture po c, ts)
    | "ecap" :: ts => do
      let (c, ts) ← pChunk ts
      pure (.excCapture c, ts)
    | "peach" :: ts => do
      let (via, ts) ← pBool ts
      let (k, ts) ← pNat ts
      let (cs, ts) ← pMany pChunk k ts
      pure (.peach via cs, ts)
    | "par" :: ts => do
      let (k, ts) ← pNat ts
      let (cs, ts) ← pMany pChunk k ts
      pure (.runParallel cs, ts)
    | "each" :: ts => do
      let (k, ts) ← pNat ts
      let (cs, ts) ← pMany pChunk k ts
      pure (.each cs, ts)
    | _ => none
end

def parseTree (s : String) : Option Chunk :=
  match pChunk ((s.splitOn " ").filter (· ≠ "")) with
  | some (c, []) => some c
  | _ => none

def Outcome.str : Outcome → String
  | .ok => "ok" | .exc => "exc" | .int => "int" | .gone => "exc"

/-- The world `Eval` starts in for the driver: descriptors 0..9 belong to the
process, fresh ones start at 100. -/
def driverWorld : World := World.init (List.range 10) 100

/-- anomalies the model itself detects (never expected on the fixed code) -/
def flags (w : World) : String :=
  (if w.hung then " HUNG" else "") ++ (if w.panics > 0 then " NILDEREF" else "") ++
  (if w.badClose > 0 then " BADCLOSE" else "")

def progLine (cfg : Cfg) (mode tree : String) : String :=
  match parseTree tree with
  | none => "bad-tree"
  | some c =>
    let w0 := driverWorld
    let r := execChunk cfg w0 topPorts c
    let w := r.1
    let net := s!"{netFds w0 w} {netGo w0 w}{flags w}"
    if mode == "det" then
      s!"{r.2.str} {w.opened - w0.opened} {w.closeCalls} {w.spawned} {net}"
    else s!"* * * * {net}"

/-- ops:
`prog <det|net> <budget> <runs> <hex code> <tree>` → `<outcome> <opened> <close calls> <goroutines started> <net fds> <net goroutines>`
(`* * * *` for the first four in `net` mode: schedule- or EMFILE-dependent programs);
`site <key>` → `covered` | `unmodelled`. -/
def stepLine : List String → String
  | ["prog", mode, _budget, _runs, _code, tree] => progLine Cfg.fixed mode tree
  | ["site", key] => if siteCovered key then "covered" else "unmodelled"
  | _ => "bad-op"

def driver : Driver := Driver.pure stepLine
end C40
