import ElvModel.C40.Driver
def main : IO Unit := C40.driver.main
