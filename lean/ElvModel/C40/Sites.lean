/-
C40 — the resource sites of pkg/eval the accounting model covers.

Keys are `file:function:kind:ordinal` as printed by the go/ast extractor
harness/c40/sites.go (ordinal = position among the sites of that kind in that
function, in source order; no line numbers).  The harness regenerates the list
from $VERIF_REPO at every run and sends one `site` op per entry: a site of the
code that is not in this table makes the driver answer `unmodelled`, i.e. the
proof's model no longer covers the code.  The second component names the model
definition (ElvModel/C40/Resources.lean) that accounts for the site.
-/
namespace C40

def coveredSites : List (String × String) := [
  -- pipelineOp.exec (with fixes/C40-pipe-failure-cleanup.patch)
  ("compile_effect.go:pipelineOp.exec:os.Pipe:0", "mkPipe (stageLoop)"),
  ("compile_effect.go:pipelineOp.exec:Close:0", "closeInput (stageLoop, os.Pipe failed)"),
  ("compile_effect.go:pipelineOp.exec:go:0", "execPipeline bg (waiter after a failed os.Pipe; background only)"),
  ("compile_effect.go:pipelineOp.exec:Wait:0", "execPipeline bg (same goroutine)"),
  ("compile_effect.go:pipelineOp.exec:Wait:1", "stageLoop: earlier stages joined after a failed os.Pipe (finish)"),
  ("compile_effect.go:pipelineOp.exec:go:1", "stageLoop: spawn 1 per non-last form"),
  ("compile_effect.go:pipelineOp.exec:go:2", "execPipeline bg (waiter; background only)"),
  ("compile_effect.go:pipelineOp.exec:Wait:2", "execPipeline bg (same goroutine)"),
  ("compile_effect.go:pipelineOp.exec:Wait:3", "stageLoop: finish 1 per non-last form before exec returns"),
  ("compile_effect.go:formOwnedPort.close:Close:0", "closeFop"),
  ("compile_effect.go:redirOp.exec:os.OpenFile:0", "openFilePort (execSrc .file / .capFile)"),
  -- port.go
  ("port.go:PipePort:os.Pipe:0", "captureWith: two openFd"),
  ("port.go:PipePort:go:0", "captureWith: spawn 2 (value reader)"),
  ("port.go:PipePort:go:1", "captureWith: spawn 2 (byte reader)"),
  ("port.go:PipePort:Close:0", "captureWith: closeFd r by the byte reader at EOF"),
  ("port.go:PipePort:Close:1", "captureWith: closeFd w in done()"),
  ("port.go:PipePort:Wait:0", "captureWith: finish 2"),
  -- frame.go
  ("frame.go:Frame.IterateInputs:go:0", "iterBegin (lines of the input file)"),
  ("frame.go:Frame.IterateInputs:go:1", "iterBegin (values of the input channel)"),
  ("frame.go:Frame.IterateInputs:go:2", "iterBegin (closer of the merged channel)"),
  ("frame.go:Frame.IterateInputs:Wait:0", "iterEnd"),
  -- builtins
  ("builtin_fn_flow.go:peach:go:0", "execSpawned (Op.peach)"),
  ("builtin_fn_flow.go:peach:Wait:0", "execSpawned: finish"),
  ("builtin_fn_flow.go:runParallel:go:0", "execSpawned (Op.runParallel)"),
  ("builtin_fn_flow.go:runParallel:Wait:0", "execSpawned: finish"),
  ("builtin_fn_io.go:onlyBytes:go:0", "Op.onlyBytes"),
  ("builtin_fn_io.go:onlyValues:go:0", "Op.onlyValues"),
  -- outside any evaluation (created once per process / per shell session) or
  -- creating no descriptor in this process
  ("external_cmd.go:externalCmd.Call:os.StartProcess:0", "Op.leaf: a child process, no descriptor created in this process"),
  ("external_cmd.go:externalCmd.Call:Wait:0", "Op.leaf: the child is waited for before Call returns"),
  ("interrupts.go:ListenInterrupts:go:0", "outside Eval: per shell session, ended by its cancel function"),
  ("port.go:FilePort:go:0", "outside Eval: per shell session, ended by its cleanup function"),
  ("port.go:getBlackholeChan:go:0", "package initialisation: one goroutine per process"),
  ("port.go:getDevNull:os.Open:0", "package initialisation: one descriptor per process")
]

def siteCovered (key : String) : Bool := coveredSites.any (·.1 == key)

end C40
