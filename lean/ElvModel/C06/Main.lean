import ElvModel.C06.Driver
def main : IO Unit := C06.driver.main
