/-
C06 specification: the abstraction function.  `toList` reads the elements of
a vector out of its representation — the leaves of the tree left to right,
then the tail — without using any of the operations of the model; a slice is
the corresponding segment of its parent.  The theorems in ElvProofs/C06.lean
state every operation of the model as the plain list operation on `toList`.
-/
import ElvModel.C06.Model
namespace C06

variable {α : Type}

/-- the element held by a slot, if it is one -/
def slotVal : Slot α → Option α
  | .val a => some a
  | _ => none

/-- the elements below a slot of height `h`, left to right (nil children hold none) -/
def elems : Nat → Slot α → List α
  | 0, .node cs => cs.filterMap slotVal
  | h + 1, .node cs => cs.flatMap (elems h)
  | _, _ => []

/-- `*vector`: the tree (unused while everything fits the tail), then the tail -/
def Vector.toList (v : Vector α) : List α :=
  (if treeSize v = 0 then [] else elems v.height (toAny v.root)) ++ v.tail.filterMap slotVal

/-- a `Vector` interface value; a slice is `parent[begin:end]` -/
def Vec.toList : Vec α → List α
  | .nil => []
  | .vec v => v.toList
  | .sub v b e => (v.toList.drop b.toNat).take (e.toNat - b.toNat)

end C06
