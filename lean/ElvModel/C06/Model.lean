/-
C06 model: pkg/persistent/vector/vector.go — the persistent vector
(`vector{count,height,root,tail}`), the `subVector` view and the iterator,
function by function.  The branching constants come from the Go source through
`Gen.C06Consts` (regenerated at every check).

Conventions
* A Go `any` slot of a node array is a `Slot`: untyped `nil`, an element
  (`val`), a `node` pointer to a `[nodeSize]any` array (`node cs`), or a typed
  nil `node` pointer stored in an interface (`nilNode`; `x == nil` is false
  for it, `.(node)` succeeds and yields a nil pointer).
* A Go value of type `node` (pointer) is `NodeP = Option (List Slot)`.
* Dereferencing, array indexing, the `.(node)` assertion and calling a method
  on a nil `Vector` interface are partial: `Go.Res` with explicit panics.
* `count`, `height` and positions inside the tree are `Nat` (they are never
  negative in Go either: every use is behind a `0 ≤ i` guard); the indices the
  API receives are `Int`.
* Slices are modelled by value.  `sliceFor` returns a *view* of a tree array
  in Go; that no write ever goes through such a view is what the
  correspondence run re-checks by re-observing every old version.
* The loops `for shift := height*chunkBits; shift > 0; shift -= chunkBits` are
  structural recursion on `height` (same iterations when `chunkBits ≥ 1`).
* This is the code AFTER fixes/C06-subvector-bounds.patch (`subVector.Index/
  Assoc/SubVector` test `i`/`j` against `s.Len()`); the unfixed `SubVector`
  and `Assoc` are kept as `subSubVectorUnfixed` / `subAssocUnfixed` for the
  counterexample theorems.
-/
import ElvModel.Go.Basic
import ElvModel.Generated.C06Consts
namespace C06
open Go
open Gen.C06Consts

/-- One `any` slot. -/
inductive Slot (α : Type) where
  | nil
  | val (a : α)
  | node (cs : List (Slot α))
  | nilNode
  deriving Repr

/-- `[nodeSize]any` -/
abbrev Arr (α : Type) := List (Slot α)
/-- Go type `node` = `*[nodeSize]any` -/
abbrev NodeP (α : Type) := Option (Arr α)

variable {α : Type}

/-- storing a `node` into an `any` -/
def toAny : NodeP α → Slot α
  | none => .nilNode
  | some a => .node a

/-- `x.(node)` -/
def asNode : Slot α → Res (NodeP α)
  | .node a => .ok (some a)
  | .nilNode => .ok none
  | _ => .panic "interface conversion: not a node"

/-- `*n` -/
def deref : NodeP α → Res (Arr α)
  | some a => .ok a
  | none => .panic "nil pointer dereference"

/-- `a[i]` -/
def getIdx {β : Type} (a : List β) (i : Nat) : Res β :=
  match a[i]? with
  | some x => .ok x
  | none => .panic "index out of range"

/-- `a[i] = x` -/
def setIdx {β : Type} (a : List β) (i : Nat) (x : β) : Res (List β) :=
  if i < a.length then .ok (a.set i x) else .panic "index out of range"

/-- `newNode()` -/
def newNode : Arr α := List.replicate nodeSize .nil

/-- `nodeFromSlice(s)`: `copy` into a fresh array. -/
def nodeFromSlice (s : List (Slot α)) : Arr α :=
  s.take nodeSize ++ List.replicate (nodeSize - s.length) .nil

structure Vector (α : Type) where
  count : Nat
  height : Nat
  root : NodeP α
  tail : List (Slot α)
  deriving Repr

/-- `Empty` -/
def empty : Vector α := ⟨0, 0, none, []⟩

/-- A value of the `Vector` interface: nil, `*vector`, or `*subVector{v,begin,end}`. -/
inductive Vec (α : Type) where
  | nil
  | vec (v : Vector α)
  | sub (v : Vector α) (b e : Int)
  deriving Repr

/-- `(*vector).treeSize` -/
def treeSize (v : Vector α) : Nat :=
  if v.count < tailMaxLen then 0 else ((v.count - 1) >>> chunkBits) <<< chunkBits

/-- digit of `i` used at a node of height `h` -/
def digit (h i : Nat) : Nat := (i >>> (h * chunkBits)) &&& chunkMask

/-- the descent loop of `Index`, `sliceFor`: from a node of height `h` to the leaf of `i`. -/
def descend : Nat → NodeP α → Nat → Res (NodeP α)
  | 0, n, _ => .ok n
  | h + 1, n, i => do
    let a ← deref n
    let c ← getIdx a (digit (h + 1) i)
    let n' ← asNode c
    descend h n' i

/-- `(*vector).Index`; `none` is `(nil, false)`. -/
def vIndex (v : Vector α) (i : Int) : Res (Option (Slot α)) :=
  if i < 0 ∨ i ≥ v.count then .ok none
  else
    let i := i.toNat
    if i ≥ treeSize v then do
      let x ← getIdx v.tail (i &&& chunkMask)
      pure (some x)
    else do
      let n ← descend v.height v.root i
      let a ← deref n
      let x ← getIdx a (i &&& chunkMask)
      pure (some x)

/-- `(*vector).sliceFor` (by value) -/
def sliceFor (v : Vector α) (i : Nat) : Res (List (Slot α)) :=
  if i ≥ treeSize v then .ok v.tail
  else do
    let n ← descend v.height v.root i
    deref n

/-- `doAssoc` -/
def doAssoc : Nat → NodeP α → Nat → α → Res (NodeP α)
  | 0, n, i, x => do
    let m ← deref n
    let m' ← setIdx m (i &&& chunkMask) (.val x)
    pure (some m')
  | h + 1, n, i, x => do
    let m ← deref n
    let sub := digit (h + 1) i
    let c ← getIdx m sub
    let cn ← asNode c
    let r ← doAssoc h cn i x
    let m' ← setIdx m sub (toAny r)
    pure (some m')

/-- `newPath` -/
def newPath : Nat → NodeP α → Res (NodeP α)
  | 0, leaf => .ok leaf
  | h + 1, leaf => do
    let p ← newPath h leaf
    let ret ← setIdx (newNode : Arr α) 0 (toAny p)
    pure (some ret)

/-- `(*vector).pushTail`; `count` is `v.count`. -/
def pushTail (count : Nat) : Nat → NodeP α → NodeP α → Res (NodeP α)
  | 0, _, tail => .ok tail
  | h + 1, n, tail => do
    let idx := digit (h + 1) (count - 1)
    let m ← deref n
    let child ← getIdx m idx
    match child with
    | .nil => do
      let p ← newPath h tail
      let m' ← setIdx m idx (toAny p)
      pure (some m')
    | c => do
      let cn ← asNode c
      let r ← pushTail count h cn tail
      let m' ← setIdx m idx (toAny r)
      pure (some m')

/-- `(*vector).Conj` (always a `*vector`) -/
def vConj (v : Vector α) (x : α) : Res (Vector α) :=
  if v.count - treeSize v < tailMaxLen then
    .ok ⟨v.count + 1, v.height, v.root, v.tail ++ [.val x]⟩
  else do
    let tailNode : NodeP α := some (nodeFromSlice v.tail)
    if (v.count >>> chunkBits) > (1 <<< (v.height * chunkBits)) then do
      let p ← newPath v.height tailNode
      let r0 ← setIdx (newNode : Arr α) 0 (toAny v.root)
      let r1 ← setIdx r0 1 (toAny p)
      pure ⟨v.count + 1, v.height + 1, some r1, [.val x]⟩
    else do
      let r ← pushTail v.count v.height v.root tailNode
      pure ⟨v.count + 1, v.height, r, [.val x]⟩

/-- `(*vector).Assoc` -/
def vAssoc (v : Vector α) (i : Int) (x : α) : Res (Vec α) :=
  if i < 0 ∨ i > v.count then .ok .nil
  else if i = v.count then do
    let w ← vConj v x
    pure (.vec w)
  else
    let i := i.toNat
    if i ≥ treeSize v then do
      let newTail ← setIdx v.tail (i &&& chunkMask) (.val x)
      pure (.vec ⟨v.count, v.height, v.root, newTail⟩)
    else do
      let r ← doAssoc v.height v.root i x
      pure (.vec ⟨v.count, v.height, r, v.tail⟩)

/-- the leaf-level branch of `popTail` (`level ≤ 1`) -/
def popTailLow (idx : Nat) (n : NodeP α) : Res (NodeP α) :=
  if idx = 0 then .ok none
  else do
    let m ← deref n
    let m' ← setIdx m idx .nil
    pure (some m')

/-- `(*vector).popTail`; `count` is `v.count`. -/
def popTail (count : Nat) : Nat → NodeP α → Res (NodeP α)
  | 0, n => popTailLow (digit 0 (count - 2)) n
  | 1, n => popTailLow (digit 1 (count - 2)) n
  | l + 2, n => do
    let idx := digit (l + 2) (count - 2)
    let a ← deref n
    let c ← getIdx a idx
    let cn ← asNode c
    let newChild ← popTail count (l + 1) cn
    if newChild.isNone ∧ idx = 0 then pure none
    else do
      let m ← deref n
      match newChild with
      | none => do
        let m' ← setIdx m idx .nil
        pure (some m')
      | some a' => do
        let m' ← setIdx m idx (.node a')
        pure (some m')

/-- `(*vector).Pop` -/
def vPop (v : Vector α) : Res (Vec α) :=
  if v.count = 0 then .ok .nil
  else if v.count = 1 then .ok (.vec empty)
  else if v.count - treeSize v > 1 then
    if v.tail.length = 0 then .panic "makeslice: len out of range"
    else .ok (.vec ⟨v.count - 1, v.height, v.root, v.tail.take (v.tail.length - 1)⟩)
  else do
    let newTail ← sliceFor v (v.count - 2)
    let newRoot ← popTail v.count v.height v.root
    if v.height > 0 then do
      let a ← deref newRoot
      let c1 ← getIdx a 1
      match c1 with
      | .nil => do
        let c0 ← getIdx a 0
        let n0 ← asNode c0
        pure (.vec ⟨v.count - 1, v.height - 1, n0, newTail⟩)
      | _ => pure (.vec ⟨v.count - 1, v.height, newRoot, newTail⟩)
    else pure (.vec ⟨v.count - 1, v.height, newRoot, newTail⟩)

/-- `(*vector).SubVector` -/
def vSubVector (v : Vector α) (b e : Int) : Vec α :=
  if b < 0 ∨ b > e ∨ e > v.count then .nil else .sub v b e

/-! ### the `Vector` interface (dynamic dispatch; a nil receiver panics) -/

def nilRecv {β : Type} : Res β := .panic "nil pointer dereference (method call on nil Vector)"

namespace Vec

def Len : Vec α → Res Int
  | .nil => nilRecv
  | .vec v => .ok v.count
  | .sub _ b e => .ok (e - b)

def SubVector : Vec α → Int → Int → Res (Vec α)
  | .nil, _, _ => nilRecv
  | .vec v, i, j => .ok (vSubVector v i j)
  | .sub v b e, i, j =>
    -- fixed: `if i < 0 || i > j || j > s.Len() { return nil }`
    if i < 0 ∨ i > j ∨ j > e - b then .ok .nil
    else .ok (vSubVector v (b + i) (b + j))

def Index : Vec α → Int → Res (Option (Slot α))
  | .nil, _ => nilRecv
  | .vec v, i => vIndex v i
  | .sub v b e, i =>
    -- fixed: `i >= s.Len()` (was `s.begin+i >= s.end`)
    if i < 0 ∨ i ≥ e - b then .ok none else vIndex v (b + i)

def Conj : Vec α → α → Res (Vec α)
  | .nil, _ => nilRecv
  | .vec v, x => do
    let w ← vConj v x
    pure (.vec w)
  | .sub v b e, x => do
    let w ← vAssoc v e x
    w.SubVector b (e + 1)

def Assoc : Vec α → Int → α → Res (Vec α)
  | .nil, _, _ => nilRecv
  | .vec v, i, x => vAssoc v i x
  | .sub v b e, i, x =>
    -- fixed: `i > s.Len()` / `i == s.Len()` (was `s.begin+i > s.end`, overflows)
    if i < 0 ∨ i > e - b then .ok .nil
    else if i = e - b then Conj (.sub v b e) x
    else do
      let w ← vAssoc v (b + i) x
      w.SubVector b e

def Pop : Vec α → Res (Vec α)
  | .nil => nilRecv
  | .vec v => vPop v
  | .sub v b e =>
    if e - b = 0 then .ok .nil
    else if e - b = 1 then .ok (.vec empty)
    else .ok (vSubVector v b (e - 1))

end Vec

/-- the unfixed `(*subVector).SubVector`: forwards without looking at its own bounds -/
def subSubVectorUnfixed (v : Vector α) (b _e i j : Int) : Vec α :=
  vSubVector v (b + i) (b + j)

/-- Go `int` addition (two's complement, 64 bit) -/
def wrap64 (x : Int) : Int := (x + 2 ^ 63) % 2 ^ 64 - 2 ^ 63

/-- the unfixed `(*subVector).Assoc`: `s.begin+i` is compared (and can overflow) -/
def subAssocUnfixed (v : Vector α) (b e i : Int) (x : α) : Res (Vec α) :=
  let bi := wrap64 (b + i)
  if i < 0 ∨ bi > e then .ok .nil
  else if bi = e then Vec.Conj (.sub v b e) x
  else do
    let w ← vAssoc v bi x
    w.SubVector b e

/-! ### iterator -/

structure PathEntry (α : Type) where
  node : NodeP α
  index : Nat
  deriving Repr

/-- `pathEntry.current` -/
def PathEntry.current (e : PathEntry α) : Res (Slot α) := do
  let a ← deref e.node
  getIdx a e.index

structure Iter (α : Type) where
  v : Vector α
  treeSize : Nat
  index : Nat
  stop : Nat
  path : List (PathEntry α)
  deriving Repr

/-- the path-recording descent of `newIteratorWithRange` -/
def descendPath (begin : Nat) : Nat → NodeP α → List (PathEntry α) → Res (List (PathEntry α))
  | 0, n, acc => .ok (acc ++ [⟨n, begin &&& chunkMask⟩])
  | h + 1, n, acc => do
    let idx := digit (h + 1) begin
    let a ← deref n
    let c ← getIdx a idx
    let n' ← asNode c
    descendPath begin h n' (acc ++ [⟨n, idx⟩])

/-- `newIteratorWithRange` -/
def newIteratorWithRange (v : Vector α) (b e : Nat) : Res (Iter α) :=
  if b ≥ treeSize v then .ok ⟨v, treeSize v, b, e, []⟩
  else do
    let p ← descendPath b v.height v.root []
    pure ⟨v, treeSize v, b, e, p⟩

namespace Iter

/-- `(*iterator).Elem` -/
def Elem (it : Iter α) : Res (Slot α) :=
  if it.index ≥ it.treeSize then getIdx it.v.tail (it.index - it.treeSize)
  else
    match it.path.getLast? with
    | none => .panic "index out of range [-1]"
    | some e => e.current

/-- `(*iterator).HasElem` -/
def HasElem (it : Iter α) : Bool := it.index < it.stop

/-- scan from the deepest entry for one that can be advanced; returns the
entries above it, the entry, and the number of deeper entries. -/
def splitAdv : List (PathEntry α) → Nat → Option (List (PathEntry α) × PathEntry α × Nat)
  | [], _ => none
  | e :: rest, k =>
    if e.index + 1 < nodeSize then some (rest.reverse, e, k) else splitAdv rest (k + 1)

/-- re-populate `k` deeper levels below entry `p` -/
def repop : Nat → PathEntry α → Res (List (PathEntry α))
  | 0, _ => .ok []
  | k + 1, p => do
    let c ← p.current
    let cn ← asNode c
    let e : PathEntry α := ⟨cn, 0⟩
    let rest ← repop k e
    pure (e :: rest)

/-- `(*iterator).Next` -/
def Next (it : Iter α) : Res (Iter α) :=
  if it.index + 1 ≥ it.treeSize then .ok { it with index := it.index + 1 }
  else
    match splitAdv it.path.reverse 0 with
    | none => .panic "cannot advance; vector iterator bug"
    | some (pre, e, k) => do
      let e' : PathEntry α := ⟨e.node, e.index + 1⟩
      let deeper ← repop k e'
      pure { it with path := pre ++ [e'] ++ deeper, index := it.index + 1 }

/-- `for ; it.HasElem(); it.Next() { … it.Elem() … }`; `fuel` bounds the number
of iterations, running out is the explicit outcome `exc "FUEL"`. -/
def collect : Nat → Iter α → Res (List (Slot α))
  | 0, it => if it.HasElem then .exc "FUEL" else .ok []
  | fuel + 1, it =>
    if it.HasElem then do
      let x ← it.Elem
      let it' ← it.Next
      let rest ← collect fuel it'
      pure (x :: rest)
    else .ok []

/-- the whole loop; `stop - index` iterations always suffice because `Next`
increases `index` by one. -/
def toSlots (it : Iter α) : Res (List (Slot α)) := collect (it.stop - it.index) it

end Iter

/-- `Vector.Iterator()` -/
def Vec.Iterator : Vec α → Res (Iter α)
  | .nil => nilRecv
  | .vec v => newIteratorWithRange v 0 v.count
  | .sub v b e => newIteratorWithRange v b.toNat e.toNat

/-- all elements by iteration -/
def Vec.iterate (w : Vec α) : Res (List (Slot α)) := do
  let it ← w.Iterator
  it.toSlots

end C06
