/-
C06 driver.  State: a table of named versions (slots) holding `Vector`
interface values of `Int` elements.  Every op prints one line; see
harness/c06/c06.go for the grammar.
-/
import ElvModel.Go.Driver
import ElvModel.C06.Model
namespace C06
open Go

abbrev V := Vec Int

structure St where
  slots : List (Option V)   -- none = slot never assigned

def St.init : St := ⟨[]⟩

def St.get (s : St) (k : Nat) : Option V :=
  match s.slots[k]? with
  | some (some v) => some v
  | _ => none

def St.put (s : St) (k : Nat) (v : V) : St :=
  let sl := if k < s.slots.length then s.slots else s.slots ++ List.replicate (k + 1 - s.slots.length) none
  ⟨sl.set k (some v)⟩

/-- FNV-style digest over elements; `bad` marks a slot that is not an element. -/
def dig (h : UInt64) (x : Slot Int) : UInt64 × Bool :=
  match x with
  | .val a => (h * 1099511628211 + UInt64.ofNat (a.toNat + 1), false)
  | _ => (h * 1099511628211, true)

def digList (l : List (Slot Int)) : String :=
  let (h, bad) := l.foldl (fun (acc : UInt64 × Bool) x => let (h', b) := dig acc.1 x; (h', acc.2 || b)) (14695981039346656037, false)
  if bad then "BAD" else toString h.toNat

/-- elements by `Index(0..len-1)` -/
def byIndex (w : V) (n : Nat) : Res (List (Slot Int)) :=
  let rec go : Nat → List (Slot Int) → Res (List (Slot Int))
    | 0, acc => .ok acc
    | k + 1, acc =>
      match w.Index k with
      | .ok (some x) => go k (x :: acc)
      | .ok none => .exc "MISSING"
      | .exc e => .exc e
      | .panic p => .panic p
  go n []

def resStr : Res String → String
  | .ok s => s
  | .exc e => e
  | .panic _ => "PANIC"

def kindOf : V → String
  | .nil => "nil"
  | .vec _ => "vec"
  | .sub _ _ _ => "sub"

/-- `<len> <digest by Index> <digest by iterator>` -/
def observe (w : V) : String :=
  match w with
  | .nil => "nil"
  | _ =>
    match w.Len with
    | .ok n =>
      let a := resStr (do let l ← byIndex w n.toNat; pure (digList l))
      let b := resStr (do let l ← w.iterate; pure (digList l))
      s!"{kindOf w} {n} {a} {b}"
    | _ => "PANIC"

def describe (w : V) : String :=
  match w with
  | .nil => "nil"
  | _ => match w.Len with
    | .ok n => s!"{kindOf w} {n}"
    | _ => "PANIC"

def obsAll (s : St) : String :=
  let rec go : List (Option V) → Nat → List String
    | [], _ => []
    | none :: r, k => go r (k + 1)
    | some w :: r, k => s!"{k}:{observe w}" :: go r (k + 1)
  " ".intercalate (go s.slots 0)

/-- store the result of an op in slot `d`; print its kind and length -/
def finish (s : St) (d : Nat) (r : Res V) : St × String :=
  match r with
  | .ok w => (s.put d w, describe w)
  | .exc e => (s, e)
  | .panic _ => (s, "PANIC")

def repeatM (n : Nat) (w : V) (f : Nat → V → Res V) : Res V :=
  let rec go : Nat → Nat → V → Res V
    | 0, _, w => .ok w
    | k + 1, i, w => do
      let w' ← f i w
      go k (i + 1) w'
  go n 0 w

def step (s : St) : List String → St × String
  | ["reset"] => (St.init, "ok")
  | ["empty", d] =>
    match d.toNat? with
    | some d => (s.put d (.vec empty), "vec 0")
    | none => (s, "bad-op")
  | ["mv", d, a] =>
    match d.toNat?, a.toNat? with
    | some d, some a => match s.get a with
      | some w => (s.put d w, "ok")
      | none => (s, "no-src")
    | _, _ => (s, "bad-op")
  | ["conj", d, a, x] =>
    match d.toNat?, a.toNat?, x.toInt? with
    | some d, some a, some x => match s.get a with
      | some w => finish s d (w.Conj x)
      | none => (s, "no-src")
    | _, _, _ => (s, "bad-op")
  | ["conjn", d, a, n, x] =>
    match d.toNat?, a.toNat?, n.toNat?, x.toInt? with
    | some d, some a, some n, some x => match s.get a with
      | some w => finish s d (repeatM n w fun i w => w.Conj (x + i))
      | none => (s, "no-src")
    | _, _, _, _ => (s, "bad-op")
  | ["popn", d, a, n] =>
    match d.toNat?, a.toNat?, n.toNat? with
    | some d, some a, some n => match s.get a with
      | some w => finish s d (repeatM n w fun _ w => w.Pop)
      | none => (s, "no-src")
    | _, _, _ => (s, "bad-op")
  | ["pop", d, a] =>
    match d.toNat?, a.toNat? with
    | some d, some a => match s.get a with
      | some w => finish s d w.Pop
      | none => (s, "no-src")
    | _, _ => (s, "bad-op")
  | ["assoc", d, a, i, x] =>
    match d.toNat?, a.toNat?, i.toInt?, x.toInt? with
    | some d, some a, some i, some x => match s.get a with
      | some w => finish s d (w.Assoc i x)
      | none => (s, "no-src")
    | _, _, _, _ => (s, "bad-op")
  | ["sub", d, a, i, j] =>
    match d.toNat?, a.toNat?, i.toInt?, j.toInt? with
    | some d, some a, some i, some j => match s.get a with
      | some w => finish s d (w.SubVector i j)
      | none => (s, "no-src")
    | _, _, _, _ => (s, "bad-op")
  | ["index", a, i] =>
    match a.toNat?, i.toInt? with
    | some a, some i => match s.get a with
      | some w =>
        (s, match w.Index i with
          | .ok none => "none"
          | .ok (some (.val x)) => s!"some {x}"
          | .ok (some _) => "some BAD"
          | .exc e => e
          | .panic _ => "PANIC")
      | none => (s, "no-src")
    | _, _ => (s, "bad-op")
  | ["obs", a] =>
    match a.toNat? with
    | some a => match s.get a with
      | some w => (s, observe w)
      | none => (s, "no-src")
    | none => (s, "bad-op")
  | ["obsall"] => (s, obsAll s)
  -- vals level: the index was converted by vals.ConvertListIndex (C13) at
  -- generation time; what is modelled here is what indexList/assocList do
  -- with the converted index.
  | ["vindex", a, _, conv] =>
    match a.toNat? with
    | some a => match s.get a with
      | some w =>
        if conv = "ERR" then (s, "ERR") else
        match conv.toInt? with
        | some i =>
          (s, match w.Index i with
            | .ok none => "none"
            | .ok (some (.val x)) => s!"some {x}"
            | .ok (some _) => "some BAD"
            | .exc e => e
            | .panic _ => "PANIC")
        | none => (s, "bad-op")
      | none => (s, "no-src")
    | none => (s, "bad-op")
  | ["vslice", d, a, _, lo, hi] =>
    match d.toNat?, a.toNat? with
    | some d, some a => match s.get a with
      | some w =>
        if lo = "ERR" then (s, "ERR") else
        match lo.toInt?, hi.toInt? with
        | some i, some j => finish s d (w.SubVector i j)
        | _, _ => (s, "bad-op")
      | none => (s, "no-src")
    | _, _ => (s, "bad-op")
  | ["vassoc", d, a, _, conv, x] =>
    match d.toNat?, a.toNat?, x.toInt? with
    | some d, some a, some x => match s.get a with
      | some w =>
        if conv = "ERR" then (s, "ERR") else
        match conv.toInt? with
        | some i => finish s d (w.Assoc i x)
        | none => (s, "bad-op")
      | none => (s, "no-src")
    | _, _, _ => (s, "bad-op")
  | _ => (s, "bad-op")

def driver : Driver := { σ := St, init := St.init, step := step }
end C06
