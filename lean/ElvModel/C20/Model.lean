/-
C20 — `peach`, `each` and `run-parallel` (pkg/eval/builtin_fn_flow.go) as
labelled transition systems with explicit nondeterminism: a label says which
goroutine moves and what it observed.  Core Lean only.

`peach` (the code WITH fixes/C20-peach-semaphore.patch when both flags of
`Cfg` are `true`; the unchanged tree is `recheck := false, checkAcq := false`):

    inputs(func(v any) {                                   -- feeder, one round per input
        if broken != 0 { return }                          -- chk1 b
        if workerSema != nil {
            if workerSema.Acquire(ctx, 1) != nil { return } -- acqOk | acqErr
            if broken != 0 { workerSema.Release(1); return } -- chk2 b ; frel
        }
        wg.Add(1); go func() {                             -- spawn
            ex := f.Call(newFm, v)                          -- start i ; out i v … ; finish i o
            switch Reason(ex) {
            case Break: broken = 1                          -- mark i
            default (other exception):
                errMu.Lock(); err = Multi(err, ex); defer errMu.Unlock(); broken = 1   -- mark i
            }
            wg.Done()                                       -- done i
            if workerSema != nil { workerSema.Release(1) }  -- release i
        }()
    })                                                     -- eof
    wg.Wait(); return err                                  -- waitRet

The interrupt context is the monotone flag `cancelled`, set by the environment
label `cancel`, enabled in every state (C19 reuses this system).

`errMu` is held by a failing worker from before its `err` update until the
goroutine exits; its only effect on the labelled steps is that the update of
`err` is atomic, which is how `mark` is modelled; the mutex has no state here.

The semaphore follows golang.org/x/sync/semaphore v0.8.0: `Acquire` succeeds
only when `cur < size`; it fails only when the context is done, leaving `cur`
unchanged; `Release` with `cur = 0` panics ("released more than held").
`sync.WaitGroup.Done` with a zero counter panics as well.  Both panics are
explicit (`panicked`), never totalised away.
-/
namespace C20

/-- How a callback ended: no exception, `continue`, `break`, any other exception.
The identity of an exception is the index of the input whose callback raised it. -/
inductive Outcome where
  | ok | cont | brk | exc
  deriving DecidableEq, Repr

/-- `break` or a failure: the outcomes after which `peach`/`each` stop feeding. -/
def Outcome.bad : Outcome → Bool
  | .brk => true
  | .exc => true
  | _ => false

/-- State of the worker for one input (index in `State.ws` = index of the input). -/
inductive WPc where
  | skipped               -- the input was consumed without starting a callback
  | spawned               -- `go func()` executed, callback not yet started
  | running               -- inside `f.Call`
  | fin (o : Outcome)     -- `f.Call` returned; `broken`/`err` not yet updated
  | marked (o : Outcome)  -- `broken` (and `err`) updated after a bad outcome
  | doneW (o : Outcome)   -- `wg.Done()` called
  | exited (o : Outcome)  -- permit released (bounded `peach` only)
  deriving DecidableEq, Repr

/-- Program counter of the feeder (the goroutine that called `peach`). -/
inductive FPc where
  | top                        -- between inputs
  | acq                        -- in `workerSema.Acquire`
  | chk2                       -- holds a permit, about to re-check `broken`
  | frel                       -- holds a permit, about to release it and skip the input
  | spawning (permit : Bool)   -- about to `wg.Add(1); go …`; `permit`: holds a permit
  | waiting                    -- in `wg.Wait()`
  | ret                        -- returned
  deriving DecidableEq, Repr

structure Cfg where
  /-- `&num-workers`: `none` is `+inf` (no semaphore). -/
  k : Option Nat
  /-- number of inputs -/
  n : Nat
  /-- fix C20: `broken` is checked again after `Acquire` -/
  recheck : Bool := true
  /-- fix C19: the error of `Acquire` is honoured -/
  checkAcq : Bool := true
  deriving Repr

structure State where
  fpc : FPc := .top
  /-- one entry per input consumed so far; the next input has index `ws.length` -/
  ws : List WPc := []
  broken : Bool := false
  cancelled : Bool := false
  /-- `semaphore.Weighted.cur` -/
  held : Nat := 0
  /-- WaitGroup counter -/
  wg : Nat := 0
  /-- the exceptions merged into `err` (as input indices), in merge order -/
  err : List Nat := []
  /-- what arrived on the output port: (input index of the writer, value) -/
  outs : List (Nat × Nat) := []
  panicked : Bool := false
  deriving Repr

inductive Label where
  | chk1 (b : Bool)     -- feeder reads `broken` before `Acquire`, sees `b`
  | acqOk | acqErr      -- `Acquire` returned nil / ctx.Err()
  | chk2 (b : Bool)     -- feeder reads `broken` after `Acquire`
  | frel                -- feeder releases its permit (input skipped)
  | spawn               -- `wg.Add(1); go …`
  | eof                 -- inputs exhausted
  | waitRet             -- `wg.Wait()` returned
  | start (i : Nat)     -- worker `i` calls the callback
  | out (i v : Nat)     -- callback `i` writes `v` to the output port
  | finish (i : Nat) (o : Outcome)
  | mark (i : Nat)      -- worker `i` sets `broken` (and merges its exception into `err`)
  | done (i : Nat)      -- `wg.Done()`
  | release (i : Nat)   -- `workerSema.Release(1)`
  | cancel              -- environment: the interrupt context is cancelled
  deriving DecidableEq, Repr

def init : State := {}

/-- The outcome with which a worker may call `wg.Done()`. -/
def WPc.doneOutcome : WPc → Option Outcome
  | .fin .ok => some .ok
  | .fin .cont => some .cont
  | .marked o => some o
  | _ => none

/-- One atomic step; `none` = the label is not enabled in this state. -/
def step (c : Cfg) (s : State) (l : Label) : Option State :=
  if s.panicked then none else
  match l with
  | .cancel => some { s with cancelled := true }
  | .chk1 b =>
    if s.fpc = .top ∧ s.ws.length < c.n ∧ b = s.broken then
      if b then some { s with ws := s.ws ++ [.skipped] }
      else match c.k with
        | none => some { s with fpc := .spawning false }
        | some _ => some { s with fpc := .acq }
    else none
  | .acqOk =>
    match c.k with
    | some K =>
      if s.fpc = .acq ∧ s.held < K then
        some { s with held := s.held + 1, fpc := if c.recheck then .chk2 else .spawning true }
      else none
    | none => none
  | .acqErr =>
    if s.fpc = .acq ∧ s.cancelled then
      if c.checkAcq then some { s with fpc := .top, ws := s.ws ++ [.skipped] }
      else some { s with fpc := .spawning false }
    else none
  | .chk2 b =>
    if s.fpc = .chk2 ∧ b = s.broken then
      some { s with fpc := if b then .frel else .spawning true }
    else none
  | .frel =>
    if s.fpc = .frel then
      if s.held = 0 then some { s with panicked := true }
      else some { s with fpc := .top, held := s.held - 1, ws := s.ws ++ [.skipped] }
    else none
  | .spawn =>
    match s.fpc with
    | .spawning _ => some { s with fpc := .top, wg := s.wg + 1, ws := s.ws ++ [.spawned] }
    | _ => none
  | .eof =>
    if s.fpc = .top ∧ s.ws.length = c.n then some { s with fpc := .waiting } else none
  | .waitRet =>
    if s.fpc = .waiting ∧ s.wg = 0 then some { s with fpc := .ret } else none
  | .start i =>
    match s.ws[i]? with
    | some .spawned => some { s with ws := s.ws.set i .running }
    | _ => none
  | .out i v =>
    match s.ws[i]? with
    | some .running => some { s with outs := s.outs ++ [(i, v)] }
    | _ => none
  | .finish i o =>
    match s.ws[i]? with
    | some .running => some { s with ws := s.ws.set i (.fin o) }
    | _ => none
  | .mark i =>
    match s.ws[i]? with
    | some (.fin .brk) => some { s with ws := s.ws.set i (.marked .brk), broken := true }
    | some (.fin .exc) =>
      some { s with ws := s.ws.set i (.marked .exc), broken := true, err := s.err ++ [i] }
    | _ => none
  | .done i =>
    match s.ws[i]? with
    | some p =>
      match p.doneOutcome with
      | some o =>
        if s.wg = 0 then some { s with panicked := true }
        else some { s with ws := s.ws.set i (.doneW o), wg := s.wg - 1 }
      | none => none
    | none => none
  | .release i =>
    match c.k, s.ws[i]? with
    | some _, some (.doneW o) =>
      if s.held = 0 then some { s with panicked := true }
      else some { s with ws := s.ws.set i (.exited o), held := s.held - 1 }
    | _, _ => none

/-- `Run c tr s`: `tr` (oldest label first) is an execution from `init` to `s`. -/
inductive Run (c : Cfg) : List Label → State → Prop where
  | init : Run c [] init
  | step {tr s l s'} : Run c tr s → step c s l = some s' → Run c (tr ++ [l]) s'

/-- Replays a trace; `inr i` = the label at position `i` is not enabled. -/
def replay (c : Cfg) : State → Nat → List Label → State ⊕ Nat
  | s, _, [] => .inl s
  | s, i, l :: ls =>
    match step c s l with
    | some s' => replay c s' (i + 1) ls
    | none => .inr i

/-! ### Observables -/

def WPc.isRunning : WPc → Bool
  | .running => true
  | _ => false

/-- callbacks currently running -/
def State.running (s : State) : Nat := s.ws.countP WPc.isRunning

/-- has the callback of this worker been started? -/
def WPc.started : WPc → Bool
  | .skipped => false
  | .spawned => false
  | _ => true

/-- has the callback of this worker returned? -/
def WPc.finished : WPc → Bool
  | .fin _ => true
  | .marked _ => true
  | .doneW _ => true
  | .exited _ => true
  | _ => false

def WPc.outcome : WPc → Option Outcome
  | .fin o => some o
  | .marked o => some o
  | .doneW o => some o
  | .exited o => some o
  | _ => none

/-- worker has passed `wg.Done()` (or never existed) -/
def WPc.settled : WPc → Bool
  | .skipped => true
  | .doneW _ => true
  | .exited _ => true
  | _ => false

/-- the inputs whose callback was started, in start order -/
def startsOf : List Label → List Nat
  | [] => []
  | .start i :: t => i :: startsOf t
  | _ :: t => startsOf t

/-- everything written by callbacks, in write order -/
def outsOf : List Label → List (Nat × Nat)
  | [] => []
  | .out i v :: t => (i, v) :: outsOf t
  | _ :: t => outsOf t

/-! ### `each` — sequential reference (builtin_fn_flow.go:each)

`cb i = (what callback i writes, how it ends)`.  `each` runs the callbacks in
input order on the calling goroutine and stops at the first bad outcome. -/

structure EachObs where
  starts : List Nat := []
  outs : List (Nat × Nat) := []
  err : List Nat := []
  deriving DecidableEq, Repr

/-- `eachFrom cb i m`: `each` over the inputs `i, i+1, …, i+m-1`, not yet broken. -/
def eachFrom (cb : Nat → List Nat × Outcome) : Nat → Nat → EachObs
  | _, 0 => {}
  | i, m + 1 =>
    let here : EachObs := { starts := [i], outs := (cb i).1.map (fun v => (i, v)),
                            err := if (cb i).2 = .exc then [i] else [] }
    if (cb i).2.bad then here
    else
      let r := eachFrom cb (i + 1) m
      { starts := here.starts ++ r.starts, outs := here.outs ++ r.outs, err := here.err ++ r.err }

def eachRun (cb : Nat → List Nat × Outcome) (n : Nat) : EachObs := eachFrom cb 0 n

/-! ### `run-parallel` (builtin_fn_flow.go:runParallel)

    wg.Add(len(functions))
    for i, function := range functions { go func() {       -- rspawn i
        err := function.Call(…)                             -- rstart i ; rfinish i o
        if err != nil { *pexc = err }
        wg.Done() }() }                                     -- rdone i
    wg.Wait(); return MakePipelineError(exceptions)         -- rwait
-/

inductive RPc where
  | idle | spawned | running | fin (o : Outcome) | doneW (o : Outcome)
  deriving DecidableEq, Repr

inductive RLabel where
  | rspawn (i : Nat) | rstart (i : Nat) | rfinish (i : Nat) (o : Outcome) | rdone (i : Nat) | rwait
  deriving DecidableEq, Repr

structure RState where
  /-- one entry per function -/
  ws : List RPc
  /-- index of the next function the loop will spawn -/
  next : Nat := 0
  wg : Nat
  returned : Bool := false
  panicked : Bool := false
  deriving Repr

def rinit (n : Nat) : RState := { ws := List.replicate n .idle, wg := n }

def rstep (s : RState) (l : RLabel) : Option RState :=
  if s.panicked ∨ s.returned then none else
  match l with
  | .rspawn i =>
    if i = s.next ∧ i < s.ws.length then some { s with ws := s.ws.set i .spawned, next := s.next + 1 }
    else none
  | .rstart i =>
    match s.ws[i]? with
    | some .spawned => some { s with ws := s.ws.set i .running }
    | _ => none
  | .rfinish i o =>
    match s.ws[i]? with
    | some .running => some { s with ws := s.ws.set i (.fin o) }
    | _ => none
  | .rdone i =>
    match s.ws[i]? with
    | some (.fin o) =>
      if s.wg = 0 then some { s with panicked := true }
      else some { s with ws := s.ws.set i (.doneW o), wg := s.wg - 1 }
    | _ => none
  | .rwait =>
    if s.next = s.ws.length ∧ s.wg = 0 then some { s with returned := true } else none

inductive RRun (n : Nat) : List RLabel → RState → Prop where
  | init : RRun n [] (rinit n)
  | step {tr s l s'} : RRun n tr s → rstep s l = some s' → RRun n (tr ++ [l]) s'

def rreplay : RState → Nat → List RLabel → RState ⊕ Nat
  | s, _, [] => .inl s
  | s, i, l :: ls =>
    match rstep s l with
    | some s' => rreplay s' (i + 1) ls
    | none => .inr i

/-- `MakePipelineError`: `none` when no function raised anything, otherwise the
outcomes that are exceptions (position, outcome), in argument order. -/
def RState.result (s : RState) : List (Nat × Outcome) :=
  let rec go : Nat → List RPc → List (Nat × Outcome)
    | _, [] => []
    | i, .doneW o :: t => if o = .ok then go (i + 1) t else (i, o) :: go (i + 1) t
    | i, _ :: t => go (i + 1) t
  go 0 s.ws

end C20
