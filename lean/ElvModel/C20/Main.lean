import ElvModel.C20.Driver
def main : IO Unit := C20.driver.main
