import ElvModel.Go.Driver
import ElvModel.C20.Model
/-
Line protocol of C20.

  peach <k|inf> <n> <cbspec> <sched> <trace>   → ok st=… outs=… err=… oo=…  | reject@<pos>:<token>
  each  <n> <cbspec>                            → st=… oo=… err=…
  rp    <n> <cbspec> <sched> <trace>            → ok res=…                   | reject@<pos>:<token>

`trace` is the log recorded from the real code (hooks/C20-peach-trace.patch),
one token per atomic step, blank separated.  The driver replays it with the
model's `step`; every token must be enabled (trace refinement), and the final
observation of the model state is printed for comparison with what the harness
observed on the real run.  `cbspec` is `<o><m>` per input, comma separated:
outcome letter k|c|b|e and the number of values the callback writes.
-/
namespace C20
open Go

def parseOutcome : Char → Option Outcome
  | 'k' => some .ok
  | 'c' => some .cont
  | 'b' => some .brk
  | 'e' => some .exc
  | _ => none

def outcomeChar : Outcome → Char
  | .ok => 'k'
  | .cont => 'c'
  | .brk => 'b'
  | .exc => 'e'

def natAfter (s : String) (n : Nat) : Option Nat := (s.drop n).toString.toNat?

/-- `<a>:<b>` after dropping `n` characters -/
def pairAfter (s : String) (n : Nat) : Option (String × String) :=
  match (s.drop n).toString.splitOn ":" with
  | [a, b] => some (a, b)
  | _ => none

def parseLabel (t : String) : Option Label :=
  if t = "c0" then some (.chk1 false)
  else if t = "c1" then some (.chk1 true)
  else if t = "ao" then some .acqOk
  else if t = "ae" then some .acqErr
  else if t = "d0" then some (.chk2 false)
  else if t = "d1" then some (.chk2 true)
  else if t = "fr" then some .frel
  else if t = "sp" then some .spawn
  else if t = "eof" then some .eof
  else if t = "wr" then some .waitRet
  else if t = "x" then some .cancel
  else if t.startsWith "dn" then (natAfter t 2).map .done
  else if t.startsWith "s" then (natAfter t 1).map .start
  else if t.startsWith "m" then (natAfter t 1).map .mark
  else if t.startsWith "r" then (natAfter t 1).map .release
  else if t.startsWith "o" then do
    let (a, b) ← pairAfter t 1
    pure (.out (← a.toNat?) (← b.toNat?))
  else if t.startsWith "f" then do
    let (a, b) ← pairAfter t 1
    let o ← match b.toList with
      | [ch] => parseOutcome ch
      | _ => none
    pure (.finish (← a.toNat?) o)
  else none

def parseRLabel (t : String) : Option RLabel :=
  if t = "wr" then some .rwait
  else if t.startsWith "sp" then (natAfter t 2).map .rspawn
  else if t.startsWith "dn" then (natAfter t 2).map .rdone
  else if t.startsWith "s" then (natAfter t 1).map .rstart
  else if t.startsWith "f" then do
    let (a, b) ← pairAfter t 1
    let o ← match b.toList with
      | [ch] => parseOutcome ch
      | _ => none
    pure (.rfinish (← a.toNat?) o)
  else none

def tokens (s : String) : List String :=
  if s = "-" then [] else (s.splitOn " ").filter (· ≠ "")

def parseAll {α} (p : String → Option α) : List String → Option (List α)
  | [] => some []
  | t :: ts => do
    let a ← p t
    let r ← parseAll p ts
    pure (a :: r)

def joinWith (sep : String) (l : List String) : String :=
  if l.isEmpty then "-" else sep.intercalate l

def pairLe (a b : Nat × Nat) : Bool := a.1 < b.1 || (a.1 == b.1 && a.2 ≤ b.2)

def showPairs (l : List (Nat × Nat)) : String :=
  joinWith "," (l.map fun p => s!"{p.1}:{p.2}")

def showNats (l : List Nat) : String := joinWith "," (l.map toString)

/-- indices of the workers whose callback was started -/
def startedIdx : Nat → List WPc → List Nat
  | _, [] => []
  | i, p :: t => if p.started then i :: startedIdx (i + 1) t else startedIdx (i + 1) t

def tokAt (l : List String) (i : Nat) : String :=
  match l[i]? with
  | some t => t
  | none => "?"

def parseK (s : String) : Option (Option Nat) :=
  if s = "inf" then some none else s.toNat?.map some

def peachLine (ks ns tr : String) : String :=
  match parseK ks, ns.toNat? with
  | some k, some n =>
    let toks := tokens tr
    match parseAll parseLabel toks with
    | none => "bad-trace"
    | some ls =>
      let c : Cfg := { k := k, n := n }
      match replay c init 0 ls with
      | .inr i => s!"reject@{i}:{tokAt toks i}"
      | .inl s =>
        let oo := if k = some 1 then showPairs s.outs else "-"
        let head := if s.fpc = .ret ∧ ¬ s.panicked then "ok" else if s.panicked then "PANIC" else "partial"
        s!"{head} st={showNats (startedIdx 0 s.ws)} outs={showPairs (s.outs.mergeSort pairLe)} err={showNats (s.err.mergeSort (· ≤ ·))} oo={oo}"
  | _, _ => "bad-op"

def parseCb (s : String) : Option (List (List Nat × Outcome)) :=
  parseAll (fun t =>
    match t.toList with
    | ch :: rest => do
      let o ← parseOutcome ch
      let m ← (String.ofList rest).toNat?
      pure (List.range m, o)
    | [] => none) (if s = "-" then [] else s.splitOn ",")

def cbOf (l : List (List Nat × Outcome)) (i : Nat) : List Nat × Outcome :=
  match l[i]? with
  | some x => x
  | none => ([], .ok)

def eachLine (ns cbs : String) : String :=
  match ns.toNat?, parseCb cbs with
  | some n, some l =>
    let r := eachRun (cbOf l) n
    s!"st={showNats r.starts} oo={showPairs r.outs} err={showNats r.err}"
  | _, _ => "bad-op"

def rpLine (ns tr : String) : String :=
  match ns.toNat? with
  | some n =>
    let toks := tokens tr
    match parseAll parseRLabel toks with
    | none => "bad-trace"
    | some ls =>
      match rreplay (rinit n) 0 ls with
      | .inr i => s!"reject@{i}:{tokAt toks i}"
      | .inl s =>
        let head := if s.returned ∧ ¬ s.panicked then "ok" else if s.panicked then "PANIC" else "partial"
        let r := s.result
        let res := (r.filter (·.2 = .brk)).map (fun _ => "b") ++ (r.filter (·.2 = .cont)).map (fun _ => "c")
          ++ (r.filter (·.2 = .exc)).map (fun p => s!"e{p.1}")
        s!"{head} res={joinWith "," res}"
  | none => "bad-op"

def stepLine : List String → String
  | ["peach", k, n, _cb, _sched, tr] => peachLine k n tr
  | ["each", n, cb] => eachLine n cb
  | ["rp", n, _cb, _sched, tr] => rpLine n tr
  | _ => "bad-op"

def driver : Driver := Driver.pure stepLine
end C20
