/-
C31 model: pkg/cli/term/read_rune.go (`readRune`) and
pkg/cli/term/reader_unix.go (`readEvent`, `ctrlModify`, `parseCSI`,
`xtermModify`, `mouseModify`) over an explicit byte source.

The byte source is the injectable `byteReaderWithTimeout` of the Go code: a
list of items, each a byte or a `gap` ("no byte arrives within the per-byte
timeout").  A timed read (`timeout ≥ 0`) at a gap consumes it and reports a
timeout; an untimed read (`timeout < 0`, only ever the first read of an event)
waits through gaps.  At the end of the list every read reports `eof`.  The
source also logs the timeout passed to every read, so "which reads are
untimed" is a statement about the model's result, not about its text.

Conventions: runes read from the terminal are `Nat` (they are never negative);
key runes are `Int` (function keys are negative constants); Go `int` in the CSI
number accumulation wraps at 64 bits (`wrap64`); `x & m` / `x >> k` on bytes
and ints are written with `%` and `/` (Euclidean, so they agree with two's
complement on negative values).  Slice indexing goes through `Go.index`
(explicit panic).  The `CSISeq` loop takes fuel with an explicit out-of-fuel
outcome; `C31_fuel_sufficient` shows it is never produced.
-/
import ElvModel.Go.Utf8
import ElvModel.Generated.C31Keys
namespace C31
open Go

/-! ### The byte source -/

inductive Item where
  | byte (b : UInt8)
  | gap
  deriving Repr, DecidableEq, Inhabited

/-- The `timeout` argument of `ReadByteWithTimeout`: `-1`, `keySeqTimeout`,
`utf8SeqTimeout`. -/
inductive Timeout where
  | untimed
  | keySeq
  | utf8Seq
  deriving Repr, DecidableEq

def Timeout.timed : Timeout → Bool
  | .untimed => false
  | _ => true

inductive RdErr where
  | timeout
  | eof
  deriving Repr, DecidableEq

structure Src where
  items : List Item
  /-- timeouts passed to `ReadByteWithTimeout` so far, oldest first -/
  log : List Timeout
  deriving Repr, DecidableEq

/-- Computations reading from the source. -/
def M (α : Type) : Type := Src → α × Src

namespace M
def run {α} (m : M α) (s : Src) : α × Src := m s
protected def pure {α} (a : α) : M α := fun s => (a, s)
protected def bind {α β} (m : M α) (f : α → M β) : M β := fun s =>
  match m s with
  | (a, s') => f a s'
instance : Monad M where
  pure := M.pure
  bind := M.bind
end M

/-- What the fake byte source does with the item list. -/
def readByteAux (timed : Bool) : List Item → Except RdErr UInt8 × List Item
  | [] => (.error .eof, [])
  | .byte b :: rest => (.ok b, rest)
  | .gap :: rest => if timed then (.error .timeout, rest) else readByteAux timed rest

/-- `rd.ReadByteWithTimeout(t)` -/
def readByte (t : Timeout) : M (Except RdErr UInt8) := fun s =>
  match readByteAux t.timed s.items with
  | (r, rest) => (r, { items := rest, log := s.log ++ [t] })

/-- number of items not yet consumed (only used to size the loop fuel) -/
def remaining : M Nat := fun s => (s.items.length, s)

/-! ### read_rune.go -/

/-- `for i := 0; i < pending; i++ { b, err := rd.ReadByteWithTimeout(utf8SeqTimeout); …; r = r<<6 + rune(b&0x3f) }` -/
def readCont : Nat → Nat → M (Except RdErr Nat)
  | 0, r => pure (.ok r)
  | n + 1, r => do
    match ← readByte .utf8Seq with
    | .error e => pure (.error e)
    | .ok b => readCont n (r * 64 + b.toNat % 64)

/-- `readRune(rd, timeout)`; the error value stands for `(badRune, err)`. -/
def readRune (t : Timeout) : M (Except RdErr Nat) := do
  match ← readByte t with
  | .error e => pure (.error e)
  | .ok leader =>
    let x := leader.toNat
    if x / 128 = 0 then readCont 0 x                 -- leader>>7 == 0
    else if x / 32 = 6 then readCont 1 (x % 32)      -- leader>>5 == 0x6, leader & 0x1f
    else if x / 16 = 14 then readCont 2 (x % 16)     -- leader>>4 == 0xe, leader & 0xf
    else if x / 8 = 30 then readCont 3 (x % 8)       -- leader>>3 == 0x1e, leader & 0x7
    else readCont 0 0                                -- no case matches: r = 0, pending = 0

/-! ### Keys and events -/

structure Key where
  rune : Int
  mod : Nat
  deriving Repr, DecidableEq

def shift : Nat := Gen.C31Keys.Shift.toNat
def alt : Nat := Gen.C31Keys.Alt.toNat
def ctrl : Nat := Gen.C31Keys.Ctrl.toNat

/-- `ui.K(r, mods...)` with the mods already or-ed. -/
def K (r : Int) (mod : Nat := 0) : Key := ⟨r, mod⟩
/-- `ui.Key{}` -/
def Key.zero : Key := ⟨0, 0⟩

inductive Event where
  | key (k : Key)
  | mouse (line col : Int) (down : Bool) (button : Int) (mod : Nat)
  | cursor (line col : Int)
  | paste (b : Bool)
  deriving Repr, DecidableEq

inductive Err where
  /-- an error of the byte source on the first byte of an event (returned as is) -/
  | read (e : RdErr)
  /-- `seqError{msg, seq}` -/
  | seq (msg : String) (seq : Bytes)
  deriving Repr, DecidableEq

inductive Outcome where
  | event (e : Event)
  | err (e : Err)
  | panic (why : String)
  | fuel
  deriving Repr, DecidableEq

def Outcome.ofRes : Res Outcome → Outcome
  | .ok o => o
  | .exc e => .panic e
  | .panic w => .panic w

/-- The key tables of reader_unix.go.  `tilde`/`tilde27` are regenerated from
the source; `g3`/`byLast` are hand-copied (outside the translator's subset)
and tied by the `tbl` correspondence op.  No C31 theorem depends on their
content: the theorems are stated for every `Tables`. -/
structure Tables where
  g3 : List (Int × Key)
  byLast : List (Int × Key)
  tilde : List (Int × Int)
  tilde27 : List (Int × Int)

/-- `ctrlModify` -/
def ctrlModify (r : Int) : Key :=
  if r = 0x0 then K 96 ctrl            -- '`'
  else if r = 0x1e then K 54 ctrl      -- '6'
  else if r = 0x1f then K 47 ctrl      -- '/'
  else if r = Gen.C31Keys.Tab ∨ r = Gen.C31Keys.Enter ∨ r = Gen.C31Keys.Backspace then K r
  else if 0x1 ≤ r ∧ r ≤ 0x1d then K (r + 0x40) ctrl
  else K r

/-- `xtermModify` -/
def xtermModify (k : Key) (mod : Int) : Key :=
  if mod < 0 ∨ mod > 16 then Key.zero
  else if mod = 0 then k
  else
    let f := mod - 1
    let m := k.mod
    let m := if f % 2 ≠ 0 then m ||| shift else m
    let m := if f / 2 % 2 ≠ 0 then m ||| alt else m
    let m := if f / 4 % 2 ≠ 0 then m ||| ctrl else m
    let m := if f / 8 % 2 ≠ 0 then m ||| alt else m
    { k with mod := m }

/-- `mouseModify` (the argument may be negative after 64-bit wrap-around) -/
def mouseModify (n : Int) : Nat :=
  let m := 0
  let m := if n / 4 % 2 ≠ 0 then m ||| shift else m
  let m := if n / 8 % 2 ≠ 0 then m ||| alt else m
  let m := if n / 16 % 2 ≠ 0 then m ||| ctrl else m
  m

/-- `parseCSI(nums, last)` -/
def parseCSI (T : Tables) (nums : List Int) (last : Int) : Res Key :=
  match T.byLast.lookup last with
  | some k =>
    if nums.length = 0 then pure k
    else if nums.length = 2 then do
      let n0 ← index nums 0
      if n0 = 1 then do
        let n1 ← index nums 1
        pure (xtermModify k n1)
      else pure Key.zero
    else pure Key.zero
  | none =>
    if last = 126 then                                   -- '~'
      if nums.length = 1 ∨ nums.length = 2 then do
        let n0 ← index nums 0
        match T.tilde.lookup n0 with
        | some r =>
          if nums.length = 1 then pure (K r)
          else do
            let n1 ← index nums 1
            pure (xtermModify (K r) n1)
        | none => pure Key.zero
      else if nums.length = 3 then do
        let n0 ← index nums 0
        if n0 = 27 then do
          let n2 ← index nums 2
          match T.tilde27.lookup n2 with
          | some r => do
            let n1 ← index nums 1
            pure (xtermModify (K r) n1)
          | none => pure Key.zero
        else pure Key.zero
      else pure Key.zero
    else if last = 36 ∨ last = 94 ∨ last = 64 then       -- '$' '^' '@'
      if nums.length = 1 then do
        let n0 ← index nums 0
        match T.tilde.lookup n0 with
        | some r =>
          let mod := if last = 36 then shift else if last = 94 then ctrl else shift ||| ctrl
          pure (K r mod)
        | none => pure Key.zero
      else pure Key.zero
    else pure Key.zero

/-! ### readEvent -/

/-- `runeEndOfSeq` -/
def eos : Int := Gen.C31Keys.runeEndOfSeq

/-- Go `int` arithmetic result reduced to 64-bit two's complement. -/
def wrap64 (x : Int) : Int := (x + 9223372036854775808) % 18446744073709551616 - 9223372036854775808

/-- The closure `readRune` inside `readEvent`: a rune within `keySeqTimeout`,
appended to `currentSeq`; `runeEndOfSeq` on any error. -/
def next (seq : Bytes) : M (Int × Bytes) := do
  match ← readRune .keySeq with
  | .error _ => pure (eos, seq)
  | .ok r => pure ((r : Int), seq ++ encodeRune r)

def seqErr (msg : String) (seq : Bytes) : Outcome := .err (.seq msg seq)

/-- `nums[cur] = v` -/
def setIdx {α} (l : List α) (i : Int) (v : α) : Res (List α) :=
  if 0 ≤ i ∧ i < l.length then .ok (l.set i.toNat v) else .panic "index out of range"

/-- The digit case of the `CSISeq` loop. -/
def addDigit (nums : List Int) (r : Int) : Res (List Int) := do
  let nums := if nums.length = 0 then nums ++ [0] else nums
  let cur : Int := (nums.length : Int) - 1
  let v ← index nums cur
  setIdx nums cur (wrap64 (wrap64 (v * 10) + (r - 48)))

/-- The `CSISeq:` loop.  Returns the numbers, the terminator and the sequence
text, or the outcome of an early return. -/
def csiLoop : Nat → List Int → Int → Bytes → M (Outcome ⊕ (List Int × Int × Bytes))
  | 0, _, _, _ => pure (.inl .fuel)
  | fuel + 1, nums, r, seq =>
    if r = 59 then do                                    -- ';'
      let (r', seq') ← next seq
      csiLoop fuel (nums ++ [0]) r' seq'
    else if 48 ≤ r ∧ r ≤ 57 then                         -- '0'..'9'
      match addDigit nums r with
      | .ok nums' => do
        let (r', seq') ← next seq
        csiLoop fuel nums' r' seq'
      | .exc e => pure (.inl (.panic e))
      | .panic w => pure (.inl (.panic w))
    else if r = eos then pure (.inl (seqErr "incomplete CSI" seq))
    else pure (.inr (nums, r, seq))

/-- `r == '~' && len(nums) == 1 && (nums[0] == 200 || nums[0] == 201)` and,
if so, `nums[0] == 200`. -/
def pasteArg (nums : List Int) (r : Int) : Res (Option Bool) :=
  if r = 126 ∧ nums.length = 1 then do
    let n0 ← index nums 0
    pure (if n0 = 200 ∨ n0 = 201 then some (n0 == 200) else none)
  else pure none

/-- The code after the `CSISeq` loop. -/
def finishCSI (T : Tables) (two : Bool) (starter : Int) (nums : List Int) (r : Int) (seq : Bytes) : Outcome :=
  Outcome.ofRes <|
    if starter = 0 ∧ r = 82 then                                   -- 'R'
      if nums.length ≠ 2 then pure (seqErr "bad CPR" seq)
      else do
        let a ← index nums 0
        let b ← index nums 1
        pure (.event (.cursor a b))
    else if starter = 60 ∧ (r = 109 ∨ r = 77) then                 -- '<', 'm', 'M'
      if nums.length ≠ 3 then pure (seqErr "bad SGR mouse event" seq)
      else do
        let n0 ← index nums 0
        let n1 ← index nums 1
        let n2 ← index nums 2
        pure (.event (.mouse n2 n1 (r == 77) (n0 % 4) (mouseModify n0)))
    else do
      match ← pasteArg nums r with
      | some b => pure (.event (.paste b))
      | none =>
        let k ← parseCSI T nums r
        if k = Key.zero then pure (seqErr "bad CSI" seq)
        else pure (.event (.key (if two then { k with mod := k.mod ||| alt } else k)))

/-- The `case 'M':` branch: X10 mouse event. -/
def mouseX10 (seq : Bytes) : M Outcome := do
  let (cb, seq) ← next seq
  if cb = eos then pure (seqErr "incomplete mouse event" seq)
  else do
    let (cx, seq) ← next seq
    if cx = eos then pure (seqErr "incomplete mouse event" seq)
    else do
      let (cy, seq) ← next seq
      if cy = eos then pure (seqErr "incomplete mouse event" seq)
      else
        let button := cb % 4
        let down := !(button == 3)
        let button := if button = 3 then -1 else button
        pure (.event (.mouse (cy - 32) (cx - 32) down button (mouseModify cb)))

/-- The `CSISeq:` loop run with enough fuel for the input that is left: every
iteration but the last consumes at least one item. -/
def csiRun (nums : List Int) (r : Int) (seq : Bytes) : M (Outcome ⊕ (List Int × Int × Bytes)) := do
  let n ← remaining
  csiLoop (n + 2) nums r seq

/-- The `case '[':` branch. -/
def csi (T : Tables) (two : Bool) (seq : Bytes) : M Outcome := do
  let (r, seq) ← next seq
  if r = eos then pure (.event (.key (K 91 alt)))                  -- '['
  else if r = 77 then mouseX10 seq                                 -- 'M'
  else do
    let (starter, r, seq) ←
      (if r = 60 then do                                           -- '<'
        let (r', seq') ← next seq
        pure (r, r', seq')
      else pure ((0 : Int), r, seq) : M (Int × Int × Bytes))
    match ← csiRun [] r seq with
    | .inl o => pure o
    | .inr (nums, r, seq) => pure (finishCSI T two starter nums r seq)

/-- The `case 'O':` branch. -/
def g3 (T : Tables) (two : Bool) (seq : Bytes) : M Outcome := do
  let (r, seq) ← next seq
  if r = eos then pure (.event (.key (K 79 alt)))                  -- 'O'
  else
    match T.g3.lookup r with
    | some k => pure (.event (.key (if two then { k with mod := k.mod ||| alt } else k)))
    | none => pure (seqErr "bad G3" seq)

/-- `readEvent` after its first rune `r0` has been read: `currentSeq := string(r)`
and the `switch r`. -/
def readEventTail (T : Tables) (r0 : Nat) : M Outcome :=
  let seq := encodeRune r0
  if (r0 : Int) = 0x1b then do
    let (r2, seq) ← next seq
    let (two, r2, seq) ←
      (if r2 = 0x1b then do
        let (r2', seq') ← next seq
        pure (true, r2', seq')
      else pure (false, r2, seq) : M (Bool × Int × Bytes))
    if r2 = eos then pure (.event (.key (K 91 ctrl)))              -- lone Escape: Ctrl-[
    else if r2 = 91 then csi T two seq                             -- '['
    else if r2 = 79 then g3 T two seq                              -- 'O'
    else
      let k := ctrlModify r2
      pure (.event (.key { k with mod := k.mod ||| alt }))
  else pure (.event (.key (ctrlModify r0)))

/-- `readEvent(rd)`: the first rune is read without a timeout. -/
def readEvent (T : Tables) : M Outcome := do
  match ← readRune .untimed with
  | .error e => pure (.err (.read e))
  | .ok r0 => readEventTail T r0

/-- `(*reader).ReadRawEvent`: `r, err := readRune(rd.fr, -1); return K(r), err` -/
def readRawEvent : M Outcome := do
  match ← readRune .untimed with
  | .error e => pure (.err (.read e))
  | .ok r => pure (.event (.key (K r)))

/-! ### The reader loop (pkg/cli/app.go: one `ReadEvent` call after another) -/

/-- One call: outcome, number of items consumed, timeouts passed by this call,
remaining items. -/
structure Call where
  out : Outcome
  consumed : Nat
  log : List Timeout
  deriving Repr, DecidableEq

def call (m : M Outcome) (items : List Item) : Call × List Item :=
  match m.run { items := items, log := [] } with
  | (o, s) => ({ out := o, consumed := items.length - s.items.length, log := s.log }, s.items)

/-- Decode a whole stream: call `m` until the stream is used up.  `none`
marks running out of fuel (a call that made no progress). -/
def eventsFuel (m : M Outcome) : Nat → List Item → List (Option Call)
  | _, [] => []
  | 0, _ :: _ => [none]
  | fuel + 1, items@(_ :: _) =>
    match call m items with
    | (c, rest) => some c :: eventsFuel m fuel rest

def events (m : M Outcome) (items : List Item) : List (Option Call) :=
  eventsFuel m items.length items

/-! ### The tables -/

/-- Names used as values in the generated `csiSeqTilde` table. -/
def uiConst : String → Option Int
  | "ui.F1" => some Gen.C31Keys.F1 | "ui.F2" => some Gen.C31Keys.F2
  | "ui.F3" => some Gen.C31Keys.F3 | "ui.F4" => some Gen.C31Keys.F4
  | "ui.F5" => some Gen.C31Keys.F5 | "ui.F6" => some Gen.C31Keys.F6
  | "ui.F7" => some Gen.C31Keys.F7 | "ui.F8" => some Gen.C31Keys.F8
  | "ui.F9" => some Gen.C31Keys.F9 | "ui.F10" => some Gen.C31Keys.F10
  | "ui.F11" => some Gen.C31Keys.F11 | "ui.F12" => some Gen.C31Keys.F12
  | "ui.Up" => some Gen.C31Keys.Up | "ui.Down" => some Gen.C31Keys.Down
  | "ui.Right" => some Gen.C31Keys.Right | "ui.Left" => some Gen.C31Keys.Left
  | "ui.Home" => some Gen.C31Keys.Home | "ui.Insert" => some Gen.C31Keys.Insert
  | "ui.Delete" => some Gen.C31Keys.Delete | "ui.End" => some Gen.C31Keys.End
  | "ui.PageUp" => some Gen.C31Keys.PageUp | "ui.PageDown" => some Gen.C31Keys.PageDown
  | "ui.Tab" => some Gen.C31Keys.Tab | "ui.Enter" => some Gen.C31Keys.Enter
  | "ui.Backspace" => some Gen.C31Keys.Backspace
  | _ => none

/-- Resolve the symbolic values of a generated table; `none` if a name is
unknown (the driver then answers `BAD-TABLE` to every op). -/
def resolve : List (Int × String) → Option (List (Int × Int))
  | [] => some []
  | (k, n) :: t =>
    match uiConst n, resolve t with
    | some v, some t' => some ((k, v) :: t')
    | _, _ => none

open Gen.C31Keys in
/-- `g3Seq`, hand-copied from reader_unix.go (values are `ui.K(key, mods…)`). -/
def g3Seq : List (Int × Key) :=
  [(65, K Up), (66, K Down), (67, K Right), (68, K Left),         -- 'A' 'B' 'C' 'D'
   (72, K Home), (70, K End), (77, K Insert),                     -- 'H' 'F' 'M'
   (97, K Up ctrl), (98, K Down ctrl), (99, K Right ctrl), (100, K Left ctrl),  -- 'a'..'d'
   (80, K F1), (81, K F2), (82, K F3), (83, K F4)]                -- 'P' 'Q' 'R' 'S'

open Gen.C31Keys in
/-- `csiSeqByLast`, hand-copied from reader_unix.go. -/
def csiSeqByLast : List (Int × Key) :=
  [(65, K Up), (66, K Down), (67, K Right), (68, K Left),
   (97, K Up shift), (98, K Down shift), (99, K Right shift), (100, K Left shift),
   (72, K Home), (70, K End),
   (90, K Tab shift)]                                             -- 'Z'

/-- The tables of the code under check. -/
def tables? : Option Tables :=
  match resolve Gen.C31Keys.csiSeqTilde with
  | some t => some { g3 := g3Seq, byLast := csiSeqByLast, tilde := t, tilde27 := Gen.C31Keys.csiSeqTilde27 }
  | none => none

end C31
