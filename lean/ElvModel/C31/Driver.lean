import ElvModel.Go.Driver
import ElvModel.C31.Model
namespace C31
open Go

/-- items travel as two hex digits per byte, `TT` for a gap, `-` for none -/
def decodeItemChars : List Char → Option (List Item)
  | [] => some []
  | [_] => none
  | 'T' :: 'T' :: rest => do
    let r ← decodeItemChars rest
    pure (Item.gap :: r)
  | a :: b :: rest => do
    let x ← hexVal a
    let y ← hexVal b
    let r ← decodeItemChars rest
    pure (Item.byte (UInt8.ofNat (x * 16 + y)) :: r)

def decodeItems (s : String) : Option (List Item) :=
  if s = "-" then some [] else decodeItemChars s.toList

def b01 (b : Bool) : String := if b then "1" else "0"

def showLog (l : List Timeout) : String :=
  String.ofList (l.map fun t => if t.timed then 't' else 'u')

def showOutcome : Outcome → Option String
  | .event (.key k) => some s!"K{k.rune},{k.mod}"
  | .event (.mouse l c d b m) => some s!"M{l},{c},{b01 d},{b},{m}"
  | .event (.cursor l c) => some s!"C{l},{c}"
  | .event (.paste b) => some s!"P{b01 b}"
  | .err (.read .timeout) => some "E:timeout"
  | .err (.read .eof) => some "E:eof"
  | .err (.seq msg seq) => some s!"E:seq:{msg.replace " " "_"}:{hexEnc seq}"
  | .panic _ => none
  | .fuel => none

/-- one line for a whole stream; `PANIC` / `FUEL` if any call ends that way -/
def showCalls (cs : List (Option Call)) : String :=
  if cs.any (fun c => match c with | some { out := .panic _, .. } => true | _ => false) then "PANIC"
  else if cs.any (fun c => match c with | none => true | some { out := .fuel, .. } => true | _ => false) then "FUEL"
  else if cs.isEmpty then "-"
  else " ".intercalate (cs.filterMap fun c =>
    match c with
    | some c => (showOutcome c.out).map fun o => s!"{o}/{c.consumed}/{showLog c.log}"
    | none => none)

def showKeyTable (t : List (Int × Key)) : String :=
  let t := t.mergeSort (fun a b => a.1 ≤ b.1)
  ",".intercalate (t.map fun (k, v) => s!"{k}:{v.rune}:{v.mod}")

def showRuneTable (t : List (Int × Int)) : String :=
  let t := t.mergeSort (fun a b => a.1 ≤ b.1)
  ",".intercalate (t.map fun (k, v) => s!"{k}:{v}")

/-- ops:
`ev <items>`  decode the stream with `ReadEvent` until it is used up;
`raw <items>` the same with `ReadRawEvent`;
`tbl <name>`  dump a key table. -/
def stepLine (T : Tables) : List String → String
  | ["ev", its] =>
    match decodeItems its with
    | some items => showCalls (events (readEvent T) items)
    | none => "bad-op"
  | ["raw", its] =>
    match decodeItems its with
    | some items => showCalls (events readRawEvent items)
    | none => "bad-op"
  | ["tbl", "g3Seq"] => showKeyTable T.g3
  | ["tbl", "csiSeqByLast"] => showKeyTable T.byLast
  | ["tbl", "csiSeqTilde"] => showRuneTable T.tilde
  | ["tbl", "csiSeqTilde27"] => showRuneTable T.tilde27
  | _ => "bad-op"

def driver : Driver :=
  match tables? with
  | some T => Driver.pure (stepLine T)
  | none => Driver.pure fun _ => "BAD-TABLE"
end C31
