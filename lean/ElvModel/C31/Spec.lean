/-
C31 specification vocabulary: what "plain text" is and what the reader loop
is compared with.
-/
import ElvModel.C31.Model
namespace C31
open Go

/-- A character of plain text: a Unicode scalar value that is neither a C0
control (which includes ESC) nor DEL.  (Printable characters are a subset;
the reader treats every such code point alike.) -/
def plain (c : Nat) : Prop := 0x20 ≤ c ∧ c ≠ 0x7f ∧ validRune c = true

instance : DecidablePred plain := fun c => by unfold plain; infer_instance

/-- the UTF-8 bytes of one character, as stream items -/
def charItems (c : Nat) : List Item := (encodeRune c).map Item.byte

/-- a text arriving without pauses -/
def textItems (cs : List Nat) : List Item := cs.flatMap charItems

/-- a text arriving with `g` pauses (each longer than the per-byte timeout)
before each character `c` -/
def gapTextItems (cs : List (Nat × Nat)) : List Item :=
  cs.flatMap fun gc => List.replicate gc.1 Item.gap ++ charItems gc.2

/-- the outcomes of a decoded stream -/
def outcomes (l : List (Option Call)) : List (Option Outcome) := l.map (Option.map Call.out)

/-- the key event for a plain character -/
def keyOf (c : Nat) : Option Outcome := some (.event (.key (K (c : Int))))

end C31
