import ElvModel.C31.Driver
def main : IO Unit := C31.driver.main
