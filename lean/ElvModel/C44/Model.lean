/-
C44 model, part 1: pkg/lsp/server.go — walkString, lspPositionToIdx,
lspPositionFromIdx, lspRangeFromRange, over byte strings.

`for i, r := range s` is `Go.runes s` (prelude, tied to Go by C00).  A call
`walkString(s, f)` is decomposed as: the list of `(i, p)` pairs the callback
is offered (`visits`), and the callback protocol "call f on each pair, stop at
the first `false`" (`runCb`).  Both the code as it stands in the unchanged
tree (`Variant.orig`) and the code after fixes/C44-crlf-position.patch
(`Variant.fixed`) are modelled; the driver runs `fixed`.
-/
import ElvModel.Go.Utf8
namespace C44
open Go

/-- `lsp.Position` as produced by the walk (both fields only ever grow from 0). -/
structure Pos where
  line : Nat
  char : Nat
  deriving Repr, DecidableEq

/-- One iteration of `for i, r := range s`: the byte offset `i`, the rune `r`,
and what the fixed code's lookahead `i+1 < len(s) && s[i+1] == '\n'` sees. -/
structure Ch where
  off : Nat
  r : Rune
  nextLF : Bool
  deriving Repr, DecidableEq

/-- `for i, r := range s` with the lookahead, in the shape of `Go.runesFrom`:
`s` is `text[off:]`, so `text[off+1]` is the second byte of `s`. -/
def charsFrom : Nat → Nat → Bytes → List Ch
  | 0, _, _ => []
  | _, _, [] => []
  | fuel + 1, off, s@(_ :: t) =>
    let d := decodeRune s
    { off := off, r := d.1, nextLF := t.head? == some 10 } :: charsFrom fuel (off + d.2) (s.drop d.2)

def chars (s : Bytes) : List Ch := charsFrom s.length 0 s

inductive Variant where
  | orig
  | fixed
  deriving Repr, DecidableEq

/-- The `switch` in the loop body of `walkString`: the position after rune `c.r`. -/
def step (v : Variant) (p : Pos) (lastCR : Bool) (c : Ch) : Pos :=
  if c.r = 13 then
    match v with
    | .orig => ⟨p.line + 1, 0⟩
    | .fixed => if c.nextLF then ⟨p.line, p.char + 1⟩ else ⟨p.line + 1, 0⟩
  else if c.r = 10 then
    match v with
    | .orig => if lastCR then p else ⟨p.line + 1, 0⟩
    | .fixed => ⟨p.line + 1, 0⟩
  else if c.r ≤ 0xFFFF then ⟨p.line, p.char + 1⟩
  else ⟨p.line, p.char + 2⟩

/-- The `(i, p)` pairs `walkString` offers to its callback, in order; the last
one is the call `f(len(s), p)` after the loop. -/
def visitsFrom (v : Variant) (n : Nat) : List Ch → Pos → Bool → List (Nat × Pos)
  | [], p, _ => [(n, p)]
  | c :: cs, p, lastCR => (c.off, p) :: visitsFrom v n cs (step v p lastCR c) (c.r == 13)

def visits (v : Variant) (s : Bytes) : List (Nat × Pos) :=
  visitsFrom v s.length (chars s) ⟨0, 0⟩ false

/-- The callback protocol of `walkString`: `f` updates the caller's captured
variable (`σ`) and says whether to go on. -/
def runCb {σ : Type} (f : σ → Nat → Pos → σ × Bool) : List (Nat × Pos) → σ → σ
  | [], st => st
  | (i, p) :: vs, st =>
    let r := f st i p
    if r.2 then runCb f vs r.1 else r.1

/-- `p.Line < pos.Line || (p.Line == pos.Line && p.Character < pos.Character)` -/
def posLt (p : Pos) (line char : Int) : Bool :=
  decide ((p.line : Int) < line) || (decide ((p.line : Int) = line) && decide ((p.char : Int) < char))

/-- The callback of `lspPositionToIdx`, run over the offered pairs. -/
def toIdxOfVisits (vs : List (Nat × Pos)) (line char : Int) : Nat :=
  runCb (fun _ i p => (i, posLt p line char)) vs 0

/-- The callback of `lspPositionFromIdx`, run over the offered pairs. -/
def fromIdxOfVisits (vs : List (Nat × Pos)) (idx : Int) : Pos :=
  runCb (fun _ i p => (p, decide ((i : Int) < idx))) vs ⟨0, 0⟩

/-- `lspPositionToIdx(s, lsp.Position{line, char})` -/
def toIdxV (v : Variant) (s : Bytes) (line char : Int) : Nat :=
  toIdxOfVisits (visits v s) line char

/-- `lspPositionFromIdx(s, idx)` -/
def fromIdxV (v : Variant) (s : Bytes) (idx : Int) : Pos :=
  fromIdxOfVisits (visits v s) idx

def rangeOfVisits (vs : List (Nat × Pos)) (frm to : Int) : Pos × Pos :=
  (fromIdxOfVisits vs frm, fromIdxOfVisits vs to)

/-- `lspRangeFromRange(s, diag.Ranging{from, to})` -/
def rangeV (v : Variant) (s : Bytes) (frm to : Int) : Pos × Pos :=
  rangeOfVisits (visits v s) frm to

abbrev lspPositionToIdx := toIdxV .fixed
abbrev lspPositionFromIdx := fromIdxV .fixed
abbrev lspRangeFromRange := rangeV .fixed

end C44
