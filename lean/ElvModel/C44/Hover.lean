/-
C44 model, part 3: which documentation `(*server).hover` shows for a position.

    p := np.Find(document.parseTree.Root, pos)
    if p.Match(np.Store(&primary)) && primary.Type == parse.Variable {
        markdown, err := doc.Source("$" + primary.Value);  if err == nil { return Hover{markdown} } }
    if p.Match(np.SimpleExpr(&expr, nil), np.Store(&form)) && form.Head == expr.Compound {
        markdown, err := doc.Source(expr.Value);           if err == nil { return Hover{markdown} } }
    return nil

`np.find`, the matchers and `PurelyEvalPartialCompound` are the C43 model's
(`C43.findN p false` = `np.Find`; a path element carries its index among its
parent's children, so the pointer comparison `form.Head == expr.Compound` is
"index 0 and the form's first child is a compound"; the only partial operation
is `in.Head.Type` on an `Indexing` without head: `Res.panic`).  The `*Evaler`
handed to `np.SimpleExpr` is nil: variables are never evaluated.

`doc.Source` (pkg/mods/doc/doc.go) is modelled here over a table of the
documented symbols (`docsMap()`: namespace prefix ↦ functions, variables; each
entry a name and an identifier of its `FullContent()`), a library parameter.
-/
import ElvModel.C43.Model
namespace C44
open Go
open Gen.C01Chars

/-- `elvdoc.Docs` of one module: `Fns` and `Vars`, each entry `(Name, id of FullContent())`. -/
structure DocSet where
  fns : List (Bytes × String)
  vars : List (Bytes × String)
  deriving Repr, DecidableEq

/-- `docsMap()`: namespace prefix (`""`, `"str:"`, …) ↦ docs. -/
abbrev DocTable := List (Bytes × DocSet)

/-- Library parameters of the server model. -/
structure Lib where
  /-- `unicode.IsPrint` (the parser's parameter, see C01). -/
  isPrint : Int → Bool
  /-- `fsutil.GetHome(uname)`; `none` = error. -/
  home : Bytes → Option Bytes
  /-- `docsMap()` -/
  docs : DocTable

/-- `eval.SplitQName`: up to and including the first `:`, and the rest. -/
def splitQName (q : Bytes) : Bytes × Bytes :=
  let pre := q.takeWhile (· != 58)
  if pre.length = q.length then (q, []) else (pre ++ [58], q.drop (pre.length + 1))

def builtinColon : Bytes := strBytes "builtin:"

/-- `doc.Source(qname)`: the id of the documentation text, `none` = error. -/
def docSource (tab : DocTable) (qname : Bytes) : Option String :=
  let isVar := qname.head? == some 36            -- strings.HasPrefix(qname, "$")
  let nq : Bytes × Bytes :=                        -- (ns, qname)
    if qname.contains 58 then                      -- strings.ContainsRune(qname, ':')
      if isVar then
        let (first, rest) := splitQName (qname.drop 1)
        if first == builtinColon then ([], 36 :: rest) else (first, qname)
      else
        let (first, rest) := splitQName qname
        if first == builtinColon then ([], rest) else (first, qname)
    else ([], qname)
  match tab.lookup nq.1 with
  | none => none
  | some ds => ((if isVar then ds.vars else ds.fns).find? fun e => e.1 == nq.2).map (·.2)

/-- The `C43.Env` of `np.SimpleExpr(&expr, nil)`: no Evaler (a `Variable` head
makes the evaluation fail), `getHome` from the library; nothing else is used by
`PurelyEvalPartialCompound`. -/
def nilEvalerEnv (lib : Lib) : C43.Env :=
  { isPrint := lib.isPrint, varVal := fun _ => none, home := lib.home, readDir := fun _ => none,
    argGen := none, names := [] }

/-- `np.Find(root, pos)`; a nil `Path` is the empty list. -/
def npFind (root : C01.Node) (pos : Int) : C43.Path :=
  match C43.findN pos false 0 root with
  | some p => p
  | none => []

/-- "Try variable doc": the name looked up, if the leaf is a variable. -/
def hoverVariable (p : C43.Path) : Option Bytes :=
  match C43.matchKind .primary p with
  | some (primary, _) => if primary.ptype == Variable then some (36 :: primary.value) else none
  | none => none

/-- "Try command doc": the name looked up, if the leaf is part of the head of a
form and the head evaluates statically. -/
def hoverCommand (lib : Lib) (p : C43.Path) : Res (Option Bytes) :=
  match C43.matchSimpleExpr (nilEvalerEnv lib) p with
  | .ok (some (expr, rest)) =>
    match C43.matchKind .form rest with
    | some (form, _) =>
      if (C43.formHead form).isSome && expr.cidx == 0 then .ok (some expr.value) else .ok none
    | none => .ok none
  | .ok none => .ok none
  | .exc e => .exc e
  | .panic w => .panic w

/-- The documentation `hover` returns for offset `pos` of a parsed document
(`none` = the `nil` result). -/
def hoverContent (lib : Lib) (tree : C01.Node) (pos : Int) : Res (Option String) :=
  let p := npFind tree pos
  let v : Option String :=
    match hoverVariable p with
    | some q => docSource lib.docs q
    | none => none
  match v with
  | some md => .ok (some md)
  | none =>
    match hoverCommand lib p with
    | .ok (some q) => .ok (docSource lib.docs q)
    | .ok none => .ok none
    | .exc e => .exc e
    | .panic w => .panic w

end C44
