/-
C44 specification of positions, stated without a running position:

* a character *ends a line* if it is `\n`, or a `\r` that is not followed by
  `\n` (so `\r\n` is ONE line break, completed by its `\n`; a lone `\r` is a
  line break, as in the LSP specification's `EOL: ['\n', '\r\n', '\r']`);
* the position of byte offset `i` is
  (number of line-ending characters that start before `i`,
   UTF-16 code units of the characters after the last of those, up to `i`);
* a character is 2 units if its code point is ≥ 0x10000, else 1 — this includes
  the `\r` of a `\r\n` pair, which therefore gives the offset between `\r` and
  `\n` a position of its own (one past the last visible column of the line).

"Characters" are Go's: what `for i, r := range s` yields (`C44.chars`).
-/
import ElvModel.C44.Model
namespace C44
open Go

def Ch.endsLine (c : Ch) : Bool := c.r == 10 || (c.r == 13 && !c.nextLF)

def Ch.units (c : Ch) : Nat := if c.r ≤ 0xFFFF then 1 else 2

/-- The position just after the characters `pre` (all the characters of the
text that start before the offset in question). -/
def specOfPrefix (pre : List Ch) : Pos where
  line := pre.countP Ch.endsLine
  char := ((pre.reverse.takeWhile fun c => !c.endsLine).map Ch.units).sum

/-- The specified position of byte offset `i` in `s`. -/
def specPos (s : Bytes) (i : Int) : Pos :=
  specOfPrefix ((chars s).filter fun c => decide ((c.off : Int) < i))

/-- The character-boundary offsets of `s`: where each character starts, and `len(s)`. -/
def boundaries (s : Bytes) : List Nat := (chars s).map (·.off) ++ [s.length]

/-- Lexicographic order of positions. -/
def Pos.lt (p q : Pos) : Prop := p.line < q.line ∨ (p.line = q.line ∧ p.char < q.char)

instance (p q : Pos) : Decidable (Pos.lt p q) := by unfold Pos.lt; exact inferInstance

end C44
