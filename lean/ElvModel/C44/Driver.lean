import ElvModel.Go.Driver
import ElvModel.C44.Server
namespace C44
open Go

/-- The tree the driver models: the code after the three fixes/C44-*.patch. -/
def V : Variant := .fixed

def showPos (p : Pos) : String := s!"{p.line}.{p.char}"
def showRng (r : Rng) : String := s!"{showPos r.1}-{showPos r.2}"

def intRange (lo hi : Int) : List Int :=
  (List.range (hi - lo + 1).toNat).map fun (k : Nat) => lo + (k : Int)

/-- `reset-ptab`: `fromIdx` for every idx in `-1 … len+1`, `toIdx` for every
`(line, char)` in `[-1, maxL] × [-1, maxC]`. -/
def ptab (s : Bytes) (maxL maxC : Int) : String :=
  let vs := visits V s   -- `fromIdxV V s i = fromIdxOfVisits (visits V s) i` by definition
  let fs := (intRange (-1) (s.length + 1)).map fun i => showPos (fromIdxOfVisits vs i)
  let ts := (intRange (-1) maxL).flatMap fun l =>
    (intRange (-1) maxC).map fun c => toString (toIdxOfVisits vs l c)
  "F:" ++ ",".intercalate fs ++ " T:" ++ ",".intercalate ts

def parseErrs (s : String) : Option (List (Int × Int)) :=
  if s = "-" then some [] else
  (s.splitOn ",").mapM fun e =>
    match e.splitOn ":" with
    | [a, b] => do pure ((← a.toInt?), (← b.toInt?))
    | _ => none

def parseComp (s : String) : Option (List (Nat × Comp)) :=
  if s = "-" then some [] else
  (s.splitOn ",").mapM fun e =>
    match e.splitOn ":" with
    | [d, "E"] => do pure ((← d.toNat?), Comp.err)
    | [d, n, name, f, t] => do pure ((← d.toNat?), Comp.ok (← n.toNat?) name (← f.toInt?) (← t.toInt?))
    | _ => none

def parseDoc (text errs comp : String) : Option Doc := do
  pure ⟨← hexDecode text, ← parseErrs errs, ← parseComp comp⟩

def parseDocs : List String → Option (List Doc)
  | [] => some []
  | t :: e :: c :: rest => do
    let d ← parseDoc t e c
    let ds ← parseDocs rest
    pure (d :: ds)
  | _ => none

def parsePK : String → Option PK
  | "absent" => some .absent
  | "null" => some .null
  | "obj" => some .obj
  | "num" => some .illTyped
  | "str" => some .illTyped
  | "arr" => some .illTyped
  | _ => none

def parseReq : List String → Option Req
  | ["open", uri, text, errs, comp] => do pure (.didOpen (← hexDecode uri) (← parseDoc text errs comp))
  | "change" :: uri :: n :: rest => do
    let ds ← parseDocs rest
    if ds.length ≠ (← n.toNat?) then none else pure (.didChange (← hexDecode uri) ds)
  | ["hover", uri, l, c] => do pure (.hover (← hexDecode uri) (← l.toInt?) (← c.toInt?))
  | ["completion", uri, l, c] => do pure (.completion (← hexDecode uri) (← l.toInt?) (← c.toInt?))
  | ["raw", m, pk] => do pure (.raw m (← parsePK pk))
  | _ => none

def showHRes : HRes → String
  | .null => "result:null"
  | .caps => "result:caps"
  | .hover => "result:hover"
  | .items0 => "result:items:0"
  | .items n k r => s!"result:items:{n}:{k}:{showRng r}"
  | .error c => s!"error:{c}"

def showReply : Reply → String
  | .none => "none"
  | .res r => showHRes r

def showDiag : Option Diag → String
  | none => "nodiag"
  | some (uri, rs) => s!"diag:{hexEnc uri}:[" ++ ";".intercalate (rs.map showRng) ++ "]"

structure DS where
  srv : Option Server     -- `none`: the process has died
  empty : Doc

def stepLine (st : DS) : List String → DS × String
  | ["reset-ptab", h, l, c] =>
    match hexDecode h, l.toInt?, c.toInt? with
    | some s, some l, some c => (st, ptab s l c)
    | _, _, _ => (st, "bad-op")
  | ["reset-pos", h, f, t, l, c] =>
    match hexDecode h, f.toInt?, t.toInt?, l.toInt?, c.toInt? with
    | some s, some f, some t, some l, some c =>
      (st, s!"R:{showRng (rangeV V s f t)} T:{toIdxV V s l c}")
    | _, _, _, _, _ => (st, "bad-op")
  | ["reset", comp] =>
    match parseComp comp with
    | some c => ({ srv := some Server.new, empty := ⟨[], [], c⟩ }, "ready")
    | none => (st, "bad-op")
  | "burst" :: uri :: n :: rest =>
    -- `n` didChange notifications sent back to back: served one after the other
    match hexDecode uri, n.toNat?, parseDocs rest, st.srv with
    | some uri, some n, some ds, some s =>
      if ds.length ≠ n then (st, "bad-op") else
      match burst V st.empty s uri ds with
      | .ok (s', dgs) =>
        ({ st with srv := some s' },
         "burst " ++ (if dgs.isEmpty then "nodiag" else "+".intercalate (dgs.map fun d => showDiag (some d))))
      | .exc e => (st, "EXC " ++ e)
      | .panic _ => ({ st with srv := none }, "PANIC")
    | some _, some _, some _, none => (st, "DEAD")
    | _, _, _, _ => (st, "bad-op")
  | kind :: id :: rest =>
    match parseReq (kind :: rest) with
    | none => (st, "bad-op")
    | some req =>
      match st.srv with
      | none => (st, "DEAD")
      | some s =>
        match serve V st.empty s (id != "-") req with
        | .ok o => ({ st with srv := some o.srv }, showReply o.reply ++ " " ++ showDiag o.diag)
        | .exc e => (st, "EXC " ++ e)
        | .panic _ => ({ st with srv := none }, "PANIC")
  | _ => (st, "bad-op")

def driver : Driver := { σ := DS, init := ⟨none, ⟨[], [], []⟩⟩, step := stepLine }
end C44
