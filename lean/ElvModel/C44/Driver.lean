import ElvModel.Go.Driver
import ElvModel.C01.Driver
import ElvModel.C44.Server
namespace C44
open Go

/-- The tree the driver models: the code after the four fixes/C44-*.patch. -/
def V : Variant := .fixed

def showPos (p : Pos) : String := s!"{p.line}.{p.char}"
def showRng (r : Rng) : String := s!"{showPos r.1}-{showPos r.2}"

def intRange (lo hi : Int) : List Int :=
  (List.range (hi - lo + 1).toNat).map fun (k : Nat) => lo + (k : Int)

/-- `reset-ptab`: `fromIdx` for every idx in `-1 … len+1`, `toIdx` for every
`(line, char)` in `[-1, maxL] × [-1, maxC]`. -/
def ptab (s : Bytes) (maxL maxC : Int) : String :=
  let vs := visits V s   -- `fromIdxV V s i = fromIdxOfVisits (visits V s) i` by definition
  let fs := (intRange (-1) (s.length + 1)).map fun i => showPos (fromIdxOfVisits vs i)
  let ts := (intRange (-1) maxL).flatMap fun l =>
    (intRange (-1) maxC).map fun c => toString (toIdxOfVisits vs l c)
  "F:" ++ ",".intercalate fs ++ " T:" ++ ",".intercalate ts

/-- the `<printable>` field of a text (as in the C01 ops): the non-ASCII code
points decodable somewhere in the text for which `unicode.IsPrint` holds. -/
def parsePrintable (s : String) : Option (List Int) := C01.parseIntList s

def parseComp (s : String) : Option (List (Nat × Comp)) :=
  if s = "-" then some [] else
  (s.splitOn ",").mapM fun e =>
    match e.splitOn ":" with
    | [d, "E"] => do pure ((← d.toNat?), Comp.err)
    | [d, n, name, f, t] => do pure ((← d.toNat?), Comp.ok (← n.toNat?) name (← f.toInt?) (← t.toInt?))
    | _ => none

/-- a text on an op line: `<hex text> <printable> <completer table>`; gives the
text and its printable code points. -/
def parseDoc (text pr comp : String) : Option (Text × List Int) := do
  pure (⟨← hexDecode text, ← parseComp comp⟩, ← parsePrintable pr)

def parseDocs : List String → Option (List Text × List Int)
  | [] => some ([], [])
  | t :: e :: c :: rest => do
    let (d, p) ← parseDoc t e c
    let (ds, ps) ← parseDocs rest
    pure (d :: ds, p ++ ps)
  | _ => none

/-- `reset`'s home table: `<hex uname>:<hex home | !>` comma separated. -/
def parseHomes (s : String) : Option (List (Bytes × Option Bytes)) :=
  if s = "-" then some [] else
  (s.splitOn ",").mapM fun e =>
    match e.splitOn ":" with
    | [u, "!"] => do pure ((← hexDecode u), none)
    | [u, h] => do pure ((← hexDecode u), some (← hexDecode h))
    | _ => none

def addDocEntry (tab : DocTable) (ns : Bytes) (isVar : Bool) (name : Bytes) (id : String) : DocTable :=
  match tab with
  | [] => [(ns, if isVar then ⟨[], [(name, id)]⟩ else ⟨[(name, id)], []⟩)]
  | (k, ds) :: rest =>
    if k == ns then
      (k, if isVar then { ds with vars := ds.vars ++ [(name, id)] } else { ds with fns := ds.fns ++ [(name, id)] }) :: rest
    else (k, ds) :: addDocEntry rest ns isVar name id

/-- `reset`'s documentation table: `<hex ns>:<F|V>:<hex name>:<id>` comma
separated, in the order of `docsMap()[ns].Fns` / `.Vars`. -/
def parseDocTable (s : String) : Option DocTable :=
  if s = "-" then some [] else
  (s.splitOn ",").foldlM (init := ([] : DocTable)) fun tab e =>
    match e.splitOn ":" with
    | [ns, k, name, id] => do
      if k ≠ "F" ∧ k ≠ "V" then none
      pure (addDocEntry tab (← hexDecode ns) (k == "V") (← hexDecode name) id)
    | _ => none

def parsePK : String → Option PK
  | "absent" => some .absent
  | "null" => some .null
  | "obj" => some .obj
  | "num" => some .illTyped
  | "str" => some .illTyped
  | "arr" => some .illTyped
  | _ => none

/-- a request and the printable code points of the texts it carries -/
def parseReq : List String → Option (Req × List Int)
  | ["open", uri, text, pr, comp] => do
    let (t, p) ← parseDoc text pr comp
    pure (.didOpen (← hexDecode uri) t, p)
  | "change" :: uri :: n :: rest => do
    let (ds, p) ← parseDocs rest
    if ds.length ≠ (← n.toNat?) then none else pure (.didChange (← hexDecode uri) ds, p)
  | ["hover", uri, l, c] => do pure (.hover (← hexDecode uri) (← l.toInt?) (← c.toInt?), [])
  | ["completion", uri, l, c] => do pure (.completion (← hexDecode uri) (← l.toInt?) (← c.toInt?), [])
  | ["raw", m, pk] => do pure (.raw m (← parsePK pk), [])
  | _ => none

def showHRes : HRes → String
  | .null => "result:null"
  | .caps => "result:caps"
  | .hover none => "result:hover:null"
  | .hover (some id) => s!"result:hover:{id}"
  | .items0 => "result:items:0"
  | .items n k r => s!"result:items:{n}:{k}:{showRng r}"
  | .error c => s!"error:{c}"

def showReply : Reply → String
  | .none => "none"
  | .res r => showHRes r

def showDiag : Option Diag → String
  | none => "nodiag"
  | some (uri, rs) => s!"diag:{hexEnc uri}:[" ++
      ";".intercalate (rs.map fun d => showRng d.1 ++ "/" ++ C01.dumpMsg d.2) ++ "]"

structure DS where
  srv : Option Server     -- `none`: the process has died
  empty : Text
  homes : List (Bytes × Option Bytes)
  docs : DocTable

/-- The library parameters for one op: `unicode.IsPrint` restricted to what the
op's texts can ask about (their `<printable>` fields), `getHome` and the
documentation table from `reset`. -/
def DS.lib (st : DS) (printable : List Int) : Lib :=
  { isPrint := fun r => printable.contains r
    home := fun u => match st.homes.lookup u with | some h => h | none => none
    docs := st.docs }

def showExc (e : String) : String := if e = "FUEL" then "FUEL" else "EXC " ++ e

def stepLine (st : DS) : List String → DS × String
  | ["reset-ptab", h, l, c] =>
    match hexDecode h, l.toInt?, c.toInt? with
    | some s, some l, some c => (st, ptab s l c)
    | _, _, _ => (st, "bad-op")
  | ["reset-pos", h, f, t, l, c] =>
    match hexDecode h, f.toInt?, t.toInt?, l.toInt?, c.toInt? with
    | some s, some f, some t, some l, some c =>
      (st, s!"R:{showRng (rangeV V s f t)} T:{toIdxV V s l c}")
    | _, _, _, _, _ => (st, "bad-op")
  | ["reset", comp, homes, docs] =>
    match parseComp comp, parseHomes homes, parseDocTable docs with
    | some c, some h, some d => ({ srv := some Server.new, empty := ⟨[], c⟩, homes := h, docs := d }, "ready")
    | _, _, _ => (st, "bad-op")
  | "burst" :: uri :: n :: rest =>
    -- `n` didChange notifications sent back to back: served one after the other
    match hexDecode uri, n.toNat?, parseDocs rest, st.srv with
    | some uri, some n, some (ds, pr), some s =>
      if ds.length ≠ n then (st, "bad-op") else
      match burst V (st.lib pr) st.empty s uri ds with
      | .ok (s', dgs) =>
        ({ st with srv := some s' },
         "burst " ++ (if dgs.isEmpty then "nodiag" else "+".intercalate (dgs.map fun d => showDiag (some d))))
      | .exc e => (st, showExc e)
      | .panic _ => ({ st with srv := none }, "PANIC")
    | some _, some _, some _, none => (st, "DEAD")
    | _, _, _, _ => (st, "bad-op")
  | kind :: id :: rest =>
    match parseReq (kind :: rest) with
    | none => (st, "bad-op")
    | some (req, pr) =>
      match st.srv with
      | none => (st, "DEAD")
      | some s =>
        match serve V (st.lib pr) st.empty s (id != "-") req with
        | .ok o => ({ st with srv := some o.srv }, showReply o.reply ++ " " ++ showDiag o.diag)
        | .exc e => (st, showExc e)
        | .panic _ => ({ st with srv := none }, "PANIC")
  | _ => (st, "bad-op")

def driver : Driver := { σ := DS, init := ⟨none, ⟨[], []⟩, [], []⟩, step := stepLine }
end C44
