/-
C44 model, part 2: pkg/lsp/server.go — the document table, request routing
(`routingHandler`, `convertMethod`), the handlers and `updateDocument`, and
jsonrpc2's `HandlerWithError` reply rule, as a state machine.

Partial operations are explicit: `*req.Params` on a message without `params`
and `params.ContentChanges[0]` on an empty list are `Res.panic` in
`Variant.orig`; an unrecovered panic in the handler goroutine kills the
process (the driver then answers `DEAD` until the next `reset`).

The parser is the real one: `updateDocument` runs the C01 model of
`parse.Parse` on the text (round 2; it used to be a parameter).  `np.Find`,
the `np` matchers and `PurelyEvalPartialCompound` that `hover` uses are the
C43 model's (`C43.findN … false`, `matchKind`, `matchSimpleExpr`), `doc.Source`
is modelled in `ElvModel/C44/Hover.lean`.

Library results that remain parameters (DESIGN §5), bundled in `Lib`:
`unicode.IsPrint` (the parser's parameter), `getHome`, the table of documented
symbols (`docsMap()`), and — carried by each text — the result of
`complete.Complete` for each dot.
-/
import ElvModel.C44.Model
import ElvModel.C44.Hover
namespace C44
open Go

/-- Result of `complete.Complete(CodeBuffer{code, dot}, …)` for one `dot`. -/
inductive Comp where
  | err
  | ok (n : Nat) (name : String) (frm to : Int)
  deriving Repr, DecidableEq

/-- A text as a client sends it, together with the completer's results about it. -/
structure Text where
  code : Bytes
  comp : List (Nat × Comp)
  deriving Repr, DecidableEq

/-- `document{code, parseTree, parseErr}` (plus the completer table of the text);
`errs` is `parse.UnpackErrors(parseErr)`. -/
structure Doc where
  code : Bytes
  tree : C01.Node
  errs : List C01.PErr
  comp : List (Nat × Comp)
  deriving Repr

/-- `parse.Parse(parse.Source{Name: uri, Code: code}, parse.Config{})` and the
construction of the `document` value.  The C01 model's outcomes `panic` / out
of fuel are kept (`C01_total_lossless` proves they do not occur). -/
def parseText (lib : Lib) (t : Text) : Res Doc :=
  match C01.parse lib.isPrint t.code with
  | .ok tree errs => .ok ⟨t.code, tree, errs, t.comp⟩
  | .panic w => .panic w
  | .fuel => .exc "FUEL"

/-- `server.documents`: URI ↦ document (at most one binding per URI). -/
structure Server where
  docs : List (Bytes × Doc)
  deriving Repr

def Server.new : Server := ⟨[]⟩

def Server.find (s : Server) (uri : Bytes) : Option Doc := s.docs.lookup uri

/-- The `params` member of a message as `routingHandler`/`json.Unmarshal` see it. -/
inductive PK where
  | absent     -- no `params` member: `req.Params == nil`
  | null       -- `"params": null`
  | obj        -- `"params": {}` (every field zero)
  | illTyped   -- a number, string or array: does not unmarshal into a params struct
  deriving Repr, DecidableEq

inductive Req where
  | didOpen (uri : Bytes) (t : Text)
  | didChange (uri : Bytes) (changes : List Text)
  | hover (uri : Bytes) (line char : Int)
  | completion (uri : Bytes) (line char : Int)
  | raw (method : String) (pk : PK)
  deriving Repr, DecidableEq

abbrev Rng := Pos × Pos

/-- What a handler returns: `(result, nil)` or `(nil, *jsonrpc2.Error)`. -/
inductive HRes where
  | null
  | caps                         -- `*lsp.InitializeResult`
  | hover (content : Option String) -- `lsp.Hover{Contents: …}` (which documentation text) or nil
  | items0                       -- `[]lsp.CompletionItem{}`
  | items (n kind : Nat) (r : Rng)
  | error (code : Int)
  deriving Repr, DecidableEq

/-- One `lsp.Diagnostic`: range and message (severity and source are constants). -/
abbrev DiagItem := Rng × C01.Msg

/-- One `textDocument/publishDiagnostics` notification: URI and diagnostics. -/
abbrev Diag := Bytes × List DiagItem

structure HOut where
  srv : Server
  res : HRes
  diag : Option Diag
  deriving Repr

def codeMethodNotFound : Int := -32601
def codeInvalidParams : Int := -32602

/-- The second half of `(*server).updateDocument`: store the parsed document,
publish its diagnostics — the `i`-th diagnostic is made from the `i`-th entry of
`parse.UnpackErrors(err)`: its range converted, its message. -/
def updateDocument (v : Variant) (s : Server) (uri : Bytes) (d : Doc) : Server × Diag :=
  -- (the walk of `d.code` is shared between the errors: `rangeV v d.code f t`
  -- is `rangeOfVisits (visits v d.code) f t` by definition)
  let vs := visits v d.code
  ({ docs := (uri, d) :: s.docs.filter (fun e => e.1 != uri) },
   (uri, d.errs.map fun e => (rangeOfVisits vs e.frm e.to, e.msg)))

/-- `(*server).updateDocument`: parse, then the above. -/
def updateText (v : Variant) (lib : Lib) (s : Server) (uri : Bytes) (t : Text) : Res HOut := do
  let d ← parseText lib t
  let (s', dg) := updateDocument v s uri d
  pure ⟨s', .null, some dg⟩

def didOpen (v : Variant) (lib : Lib) (s : Server) (uri : Bytes) (t : Text) : Res HOut :=
  updateText v lib s uri t

def didChange (v : Variant) (lib : Lib) (s : Server) (uri : Bytes) (changes : List Text) : Res HOut :=
  match v with
  | .orig => do
    let t ← index changes 0            -- params.ContentChanges[0]
    updateText v lib s uri t
  | .fixed =>
    match changes.getLast? with
    | none => pure ⟨s, .error codeInvalidParams, none⟩
    | some t => updateText v lib s uri t

def hover (v : Variant) (lib : Lib) (s : Server) (uri : Bytes) (line char : Int) : Res HOut :=
  match s.find uri with
  | none => pure ⟨s, .error codeInvalidParams, none⟩
  | some d => do
    let pos := toIdxV v d.code line char
    let c ← hoverContent lib d.tree pos
    pure ⟨s, .hover c, none⟩

/-- `switch result.Name` -/
def kindOf (name : String) : Nat :=
  if name = "command" then 3 else if name = "variable" then 6 else 0

def completion (v : Variant) (s : Server) (uri : Bytes) (line char : Int) : Res HOut :=
  match s.find uri with
  | none => pure ⟨s, .error codeInvalidParams, none⟩
  | some d =>
    let dot := toIdxV v d.code line char
    match d.comp.lookup dot with
    | none => .exc s!"no completer entry for dot {dot}"
    | some .err => pure ⟨s, .items0, none⟩
    | some (.ok n name frm to) =>
      if n = 0 then pure ⟨s, .items0, none⟩
      else pure ⟨s, .items n (kindOf name) (rangeV v d.code frm to), none⟩

def methodTable : List String :=
  ["initialize", "textDocument/didOpen", "textDocument/didChange", "textDocument/hover",
   "textDocument/completion", "textDocument/didClose", "initialized",
   "workspace/didChangeWatchedFiles"]

/-- `convertMethod`: does `json.Unmarshal(rawParams, &params)` succeed (giving
the zero value for `null`/`{}`)? -/
def unmarshalsToZero : PK → Bool
  | .null => true
  | .obj => true
  | .absent => false     -- nil RawMessage: "unexpected end of JSON input" (fixed tree only)
  | .illTyped => false

/-- `routingHandler` + the method: the handler's return value.  `empty` is the
text `""` with its completer table (what a zero-valued `didOpen` stores). -/
def handle (v : Variant) (lib : Lib) (empty : Text) (s : Server) : Req → Res HOut
  | .didOpen uri t => didOpen v lib s uri t
  | .didChange uri cs => didChange v lib s uri cs
  | .hover uri l c => hover v lib s uri l c
  | .completion uri l c => completion v s uri l c
  | .raw m pk =>
    if !(methodTable.contains m) then pure ⟨s, .error codeMethodNotFound, none⟩
    else if pk = .absent && v = .orig then .panic "nil pointer dereference: *req.Params"
    else if m = "initialize" then pure ⟨s, .caps, none⟩
    else if m = "textDocument/didClose" || m = "initialized" || m = "workspace/didChangeWatchedFiles" then
      pure ⟨s, .null, none⟩
    else if !(unmarshalsToZero pk) then pure ⟨s, .error codeInvalidParams, none⟩
    else if m = "textDocument/didOpen" then didOpen v lib s [] empty
    else if m = "textDocument/didChange" then didChange v lib s [] []
    else if m = "textDocument/hover" then hover v lib s [] 0 0
    else completion v s [] 0 0

/-- What the client sees for one message. -/
inductive Reply where
  | none                 -- notifications are never answered
  | res (r : HRes)
  deriving Repr, DecidableEq

structure Out where
  srv : Server
  reply : Reply
  diag : Option Diag
  deriving Repr

/-- `HandlerWithError.Handle`: call the handler; answer iff the message has an id. -/
def serve (v : Variant) (lib : Lib) (empty : Text) (s : Server) (hasId : Bool) (r : Req) : Res Out := do
  let o ← handle v lib empty s r
  pure ⟨o.srv, if hasId then .res o.res else .none, o.diag⟩

/-- A client that sends messages back to back: the handler is synchronous, so
they are served in order; the notifications reach the wire in the order
`updateDocument` is called (fixed tree: `conn.Notify` is called from the
handler itself). -/
def serveAll (v : Variant) (lib : Lib) (empty : Text) : Server → List (Bool × Req) → Res (Server × List Out)
  | s, [] => pure (s, [])
  | s, (hasId, r) :: rest => do
    let o ← serve v lib empty s hasId r
    let (s', os) ← serveAll v lib empty o.srv rest
    pure (s', o :: os)

/-- The `publishDiagnostics` notifications of a run, in wire order (fixed tree). -/
def published (os : List Out) : List Diag := os.filterMap (·.diag)

def burst (v : Variant) (lib : Lib) (empty : Text) (s : Server) (uri : Bytes) (ds : List Text) : Res (Server × List Diag) := do
  let (s', os) ← serveAll v lib empty s (ds.map fun d => (false, Req.didChange uri [d]))
  pure (s', published os)

end C44
