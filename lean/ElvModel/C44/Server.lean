/-
C44 model, part 2: pkg/lsp/server.go — the document table, request routing
(`routingHandler`, `convertMethod`), the handlers and `updateDocument`, and
jsonrpc2's `HandlerWithError` reply rule, as a state machine.

Partial operations are explicit: `*req.Params` on a message without `params`
and `params.ContentChanges[0]` on an empty list are `Res.panic` in
`Variant.orig`; an unrecovered panic in the handler goroutine kills the
process (the driver then answers `DEAD` until the next `reset`).

Library results are parameters carried by the request (DESIGN §5): the parse
errors of a text (`parse.Parse` + `parse.UnpackErrors`) and the result of
`complete.Complete` for each dot.
-/
import ElvModel.C44.Model
namespace C44
open Go

/-- Result of `complete.Complete(CodeBuffer{code, dot}, …)` for one `dot`. -/
inductive Comp where
  | err
  | ok (n : Nat) (name : String) (frm to : Int)
  deriving Repr, DecidableEq

/-- A text together with the library results about it. -/
structure Doc where
  code : Bytes
  errs : List (Int × Int)
  comp : List (Nat × Comp)
  deriving Repr, DecidableEq

/-- `server.documents`: URI ↦ document (at most one binding per URI). -/
structure Server where
  docs : List (Bytes × Doc)
  deriving Repr, DecidableEq

def Server.new : Server := ⟨[]⟩

def Server.find (s : Server) (uri : Bytes) : Option Doc := s.docs.lookup uri

/-- The `params` member of a message as `routingHandler`/`json.Unmarshal` see it. -/
inductive PK where
  | absent     -- no `params` member: `req.Params == nil`
  | null       -- `"params": null`
  | obj        -- `"params": {}` (every field zero)
  | illTyped   -- a number, string or array: does not unmarshal into a params struct
  deriving Repr, DecidableEq

inductive Req where
  | didOpen (uri : Bytes) (d : Doc)
  | didChange (uri : Bytes) (changes : List Doc)
  | hover (uri : Bytes) (line char : Int)
  | completion (uri : Bytes) (line char : Int)
  | raw (method : String) (pk : PK)
  deriving Repr, DecidableEq

abbrev Rng := Pos × Pos

/-- What a handler returns: `(result, nil)` or `(nil, *jsonrpc2.Error)`. -/
inductive HRes where
  | null
  | caps                         -- `*lsp.InitializeResult`
  | hover                        -- `lsp.Hover{…}` or nil (content is the doc library's)
  | items0                       -- `[]lsp.CompletionItem{}`
  | items (n kind : Nat) (r : Rng)
  | error (code : Int)
  deriving Repr, DecidableEq

/-- One `textDocument/publishDiagnostics` notification: URI and ranges. -/
abbrev Diag := Bytes × List Rng

structure HOut where
  srv : Server
  res : HRes
  diag : Option Diag
  deriving Repr, DecidableEq

def codeMethodNotFound : Int := -32601
def codeInvalidParams : Int := -32602

/-- `(*server).updateDocument`: store the document, publish its diagnostics. -/
def updateDocument (v : Variant) (s : Server) (uri : Bytes) (d : Doc) : Server × Diag :=
  -- (the walk of `d.code` is shared between the errors: `rangeV v d.code f t`
  -- is `rangeOfVisits (visits v d.code) f t` by definition)
  let vs := visits v d.code
  ({ docs := (uri, d) :: s.docs.filter (fun e => e.1 != uri) },
   (uri, d.errs.map fun e => rangeOfVisits vs e.1 e.2))

def didOpen (v : Variant) (s : Server) (uri : Bytes) (d : Doc) : Res HOut :=
  let (s', dg) := updateDocument v s uri d
  pure ⟨s', .null, some dg⟩

def didChange (v : Variant) (s : Server) (uri : Bytes) (changes : List Doc) : Res HOut :=
  match v with
  | .orig => do
    let d ← index changes 0            -- params.ContentChanges[0]
    let (s', dg) := updateDocument v s uri d
    pure ⟨s', .null, some dg⟩
  | .fixed =>
    match changes.getLast? with
    | none => pure ⟨s, .error codeInvalidParams, none⟩
    | some d =>
      let (s', dg) := updateDocument v s uri d
      pure ⟨s', .null, some dg⟩

def hover (v : Variant) (s : Server) (uri : Bytes) (line char : Int) : Res HOut :=
  match s.find uri with
  | none => pure ⟨s, .error codeInvalidParams, none⟩
  | some d =>
    -- `np.Find(tree.Root, pos)` and `doc.Source` are total for any `pos`
    let _pos := toIdxV v d.code line char
    pure ⟨s, .hover, none⟩

/-- `switch result.Name` -/
def kindOf (name : String) : Nat :=
  if name = "command" then 3 else if name = "variable" then 6 else 0

def completion (v : Variant) (s : Server) (uri : Bytes) (line char : Int) : Res HOut :=
  match s.find uri with
  | none => pure ⟨s, .error codeInvalidParams, none⟩
  | some d =>
    let dot := toIdxV v d.code line char
    match d.comp.lookup dot with
    | none => .exc s!"no completer entry for dot {dot}"
    | some .err => pure ⟨s, .items0, none⟩
    | some (.ok n name frm to) =>
      if n = 0 then pure ⟨s, .items0, none⟩
      else pure ⟨s, .items n (kindOf name) (rangeV v d.code frm to), none⟩

def methodTable : List String :=
  ["initialize", "textDocument/didOpen", "textDocument/didChange", "textDocument/hover",
   "textDocument/completion", "textDocument/didClose", "initialized",
   "workspace/didChangeWatchedFiles"]

/-- `convertMethod`: does `json.Unmarshal(rawParams, &params)` succeed (giving
the zero value for `null`/`{}`)? -/
def unmarshalsToZero : PK → Bool
  | .null => true
  | .obj => true
  | .absent => false     -- nil RawMessage: "unexpected end of JSON input" (fixed tree only)
  | .illTyped => false

/-- `routingHandler` + the method: the handler's return value.  `empty` is the
document for the text `""` (what a zero-valued `didOpen` stores). -/
def handle (v : Variant) (empty : Doc) (s : Server) : Req → Res HOut
  | .didOpen uri d => didOpen v s uri d
  | .didChange uri cs => didChange v s uri cs
  | .hover uri l c => hover v s uri l c
  | .completion uri l c => completion v s uri l c
  | .raw m pk =>
    if !(methodTable.contains m) then pure ⟨s, .error codeMethodNotFound, none⟩
    else if pk = .absent && v = .orig then .panic "nil pointer dereference: *req.Params"
    else if m = "initialize" then pure ⟨s, .caps, none⟩
    else if m = "textDocument/didClose" || m = "initialized" || m = "workspace/didChangeWatchedFiles" then
      pure ⟨s, .null, none⟩
    else if !(unmarshalsToZero pk) then pure ⟨s, .error codeInvalidParams, none⟩
    else if m = "textDocument/didOpen" then didOpen v s [] empty
    else if m = "textDocument/didChange" then didChange v s [] []
    else if m = "textDocument/hover" then hover v s [] 0 0
    else completion v s [] 0 0

/-- What the client sees for one message. -/
inductive Reply where
  | none                 -- notifications are never answered
  | res (r : HRes)
  deriving Repr, DecidableEq

structure Out where
  srv : Server
  reply : Reply
  diag : Option Diag
  deriving Repr, DecidableEq

/-- `HandlerWithError.Handle`: call the handler; answer iff the message has an id. -/
def serve (v : Variant) (empty : Doc) (s : Server) (hasId : Bool) (r : Req) : Res Out := do
  let o ← handle v empty s r
  pure ⟨o.srv, if hasId then .res o.res else .none, o.diag⟩

/-- A client that sends messages back to back: the handler is synchronous, so
they are served in order; the notifications reach the wire in the order
`updateDocument` is called (fixed tree: `conn.Notify` is called from the
handler itself). -/
def serveAll (v : Variant) (empty : Doc) : Server → List (Bool × Req) → Res (Server × List Out)
  | s, [] => pure (s, [])
  | s, (hasId, r) :: rest => do
    let o ← serve v empty s hasId r
    let (s', os) ← serveAll v empty o.srv rest
    pure (s', o :: os)

/-- The `publishDiagnostics` notifications of a run, in wire order (fixed tree). -/
def published (os : List Out) : List Diag := os.filterMap (·.diag)

def burst (v : Variant) (empty : Doc) (s : Server) (uri : Bytes) (ds : List Doc) : Res (Server × List Diag) := do
  let (s', os) ← serveAll v empty s (ds.map fun d => (false, Req.didChange uri [d]))
  pure (s', published os)

end C44
