import ElvModel.C44.Driver
def main : IO Unit := C44.driver.main
