import ElvModel.C10.Driver
def main : IO Unit := C10.driver.main
