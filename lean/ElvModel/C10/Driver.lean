import ElvModel.Go.Driver
import ElvModel.C10.Model
namespace C10
open Go

/-- Values travel in prefix notation, space separated:
`I <int>` | `F <int>` (the float n.0) | `S <hex>` | `B T|F` | `M <id>` | `L <n> v₁ … vₙ`. -/
partial def parseVal : List String → Option (Val × List String)
  | "I" :: n :: rest => n.toInt?.map fun i => (.int i, rest)
  | "F" :: n :: rest => n.toInt?.map fun i => (.flt i, rest)
  | "S" :: h :: rest => (hexDecode h).map fun b => (.str b, rest)
  | "B" :: b :: rest => some (.bool (b == "T"), rest)
  | "M" :: n :: rest => n.toNat?.map fun i => (.map i, rest)
  | "L" :: n :: rest => do
    let k ← n.toNat?
    let rec go (k : Nat) (toks : List String) (acc : List Val) : Option (List Val × List String) :=
      match k with
      | 0 => some (acc.reverse, toks)
      | k + 1 => do
        let (v, toks') ← parseVal toks
        go k toks' (v :: acc)
    let (vs, rest') ← go k rest []
    pure (.list vs, rest')
  | _ => none

partial def showVal : Val → String
  | .int i => s!"I {i}"
  | .flt i => s!"F {i}"
  | .str b => s!"S {hexEnc b}"
  | .bool b => if b then "B T" else "B F"
  | .map i => s!"M {i}"
  | .list l => s!"L {l.length}" ++ String.join (l.map fun v => " " ++ showVal v)

def parseVals (s : String) : Option (List Val) :=
  match parseVal (s.splitOn " ") with
  | some (.list l, []) => some l
  | _ => none

def parseRank (s : String) : Option TypeRank :=
  match (s.splitOn ",").map String.toNat? with
  | [some b, some n, some st, some l, some m] => some ⟨b, n, st, l, m⟩
  | _ => none

/-- key callback: `nokey` (identity) | `idxK` (`{|x| put $x[K]}` on lists). -/
def keyFn (spec : String) (fail : Option Val) : Option (Val → Res Val) :=
  let guard (f : Val → Res Val) : Val → Res Val := fun v =>
    if some v == fail then .exc "callback-failed" else f v
  if spec == "nokey" then some (fun v => .ok v)
  else if spec.startsWith "idx" then
    match (spec.drop 3).toNat? with
    | some k => some (guard fun v =>
        match v with
        | .list l => match l[k]? with
          | some x => .ok x
          | none => .exc "index"
        | _ => .exc "index")
    | none => none
  else none

/-- comparator: `default` | `total` | `cb-cmp` (a `&less-than` callback equal to the default) |
`cb-total` (callback equal to &total); with `fail`, a callback throws whenever an argument equals it. -/
def lessFn (mode : String) (t : TypeRank) (fail : Option Val) : Option (LessR Val) :=
  let guard (f : LessR Val) : LessR Val := fun a b =>
    if some a == fail || some b == fail then .exc "callback-failed" else f a b
  match mode with
  | "default" => some lessDefault
  | "total" => some (lessTotal t)
  | "cb-cmp" => some (guard lessDefault)
  | "cb-total" => some (guard (lessTotal t))
  | _ => none

/-- op: `order <flags r?t?l?|-> <mode> <keyspec> <rank> <failval|-> <vals>` → `OK <vals>` | `EXC` -/
def stepLine : List String → String
  | ["order", flags, mode, keyspec, rank, fail, vals] =>
    let failV : Option (Option Val) :=
      if fail == "-" then some none
      else match parseVal (fail.splitOn " ") with
        | some (v, []) => some (some v)
        | _ => none
    match parseRank rank, failV, parseVals vals with
    | some t, some fv, some vs =>
      -- when the key callback is the one that fails, the comparator does not
      let keyFail := if keyspec == "nokey" then none else fv
      let lessFail := if keyspec == "nokey" then fv else none
      match keyFn keyspec keyFail, lessFn mode t lessFail with
      | some kf, some lf =>
        let opts : Opts := { reverse := flags.contains 'r', total := flags.contains 't',
                             hasLessThan := flags.contains 'l' }
        match order opts kf lf vs with
        | .ok out => "OK " ++ showVal (.list out)
        | .exc _ => "EXC"
        | .panic _ => "PANIC"
      | _, _ => "bad-op"
    | _, _, _ => "bad-op"
  | ["atomic", _] => "atomic-ok"
  | _ => "bad-op"

def driver : Driver := Driver.pure stepLine
end C10
