/-
C10 model: the `order` builtin (pkg/eval/builtin_fn_stream.go: order, slice.Less/Swap).

Structure of the Go code, kept here:
  1. reject &total together with &less-than;
  2. collect inputs; with &key, call the key callback once per value, in
     order, stopping at the first failure (exactly one output required);
  3. sort.Stable(s) or sort.Stable(sort.Reverse(s)) with `slice.Less`, whose
     error latch records the first comparison error;
  4. if the latch is set return that error; only THEN output the values.

`sort.Stable` is a library routine (trusted): its contract is `IsStableSort`
below.  `List.mergeSort` is used as the executable instance of that contract;
`C10_stable_sorted_unique` shows every conforming routine gives the same list.
-/
import ElvModel.Go.Basic
namespace C10
open Go

/-- Outcome of one comparison: `slice.Less` either answers or latches an error. -/
abbrev LessR (κ : Type) := κ → κ → Res Bool

/-- Go's `sort.Reverse`: `Less(i, j)` becomes `Less(j, i)`. -/
def revLess {κ} (less : κ → κ → Bool) : κ → κ → Bool := fun a b => less b a

/-- The `le` handed to merge sort for a strict `less`: `a ≤ b` iff `¬ b < a`. -/
def leOf {κ} (less : κ → κ → Bool) : κ → κ → Bool := fun a b => !(less b a)

/-- Executable instance of the `sort.Stable` contract. -/
def stableSort {α} (less : α → α → Bool) (l : List α) : List α :=
  l.mergeSort (leOf less)

/-- Step 2: `&key` decoration, sequential, first failure wins. -/
def decorate {ν κ} (key : ν → Res κ) : List ν → Res (List (κ × ν))
  | [] => .ok []
  | v :: vs =>
    match key v with
    | .ok k =>
      match decorate key vs with
      | .ok r => .ok ((k, v) :: r)
      | .exc e => .exc e
      | .panic w => .panic w
    | .exc e => .exc e
    | .panic w => .panic w

/-- All ordered pairs of distinct positions. -/
def pairs {α} : List α → List (α × α)
  | [] => []
  | a :: l => (l.flatMap fun b => [(a, b), (b, a)]) ++ pairs l

/-- First comparison error among all pairs of distinct positions, if any.
(Which comparisons the library performs is not specified; the generators
only use comparators whose failure any sort must hit — see harness.) -/
def firstErr {κ} (less : LessR κ) (l : List κ) : Option String :=
  (pairs l).findSome? fun (a, b) =>
    match less a b with
    | .ok _ => none
    | .exc e => some e
    | .panic w => some ("panic: " ++ w)

/-- The pure comparator underlying an error-free `LessR` (errors read as
`true`, exactly what the latch returns; irrelevant when `firstErr = none`). -/
def pureLess {κ} (less : LessR κ) : κ → κ → Bool := fun a b =>
  match less a b with
  | .ok r => r
  | _ => true

structure Opts where
  reverse : Bool := false
  total : Bool := false
  hasLessThan : Bool := false
  deriving Repr

/-- `order` after option resolution: `less` is the comparator selected by
`&total` / `&less-than` / default, `key` the optional decoration. -/
def order {ν κ} (opts : Opts) (key : ν → Res κ) (less : LessR κ) (inputs : List ν) : Res (List ν) :=
  if opts.total && opts.hasLessThan then .exc "both &total and &less-than specified"
  else
    match decorate key inputs with
    | .exc e => .exc e
    | .panic w => .panic w
    | .ok dec =>
      match firstErr less (dec.map (·.1)) with
      | some e => .exc e
      | none =>
        let lt : (κ × ν) → (κ × ν) → Bool := fun a b => pureLess less a.1 b.1
        let sorted := stableSort (if opts.reverse then revLess lt else lt) dec
        .ok (sorted.map (·.2))

/-! ### The contract of a stable sort -/

/-- `r` is a stable sort of `l` w.r.t. `le`: tagging every element with its
input position, `r` is a permutation of `l` sorted by (`le`, then position). -/
def IsStableSort {α} (le : α → α → Bool) (l r : List α) : Prop :=
  ∃ r' : List (α × Nat), r'.map (·.1) = r ∧ r'.Perm l.zipIdx ∧ r'.Pairwise (fun a b => List.zipIdxLE le a b)

/-! ### A small value universe for the executable tie (the comparison of
arbitrary elvish values is property C09's model). -/

inductive Val where
  | bool (b : Bool)
  | int (i : Int)
  | flt (i : Int)         -- the inexact number i.0 (small integral floats: eq-distinct from `int i`, but compare equal)
  | str (s : Bytes)
  | list (l : List Val)
  | map (id : Nat)        -- maps are unordered: comparable only when equal (identity here)
  deriving Repr, BEq, Inhabited

inductive Ordering4 where
  | less | equal | more | uncomparable
  deriving Repr, DecidableEq

def cmpBytes : Bytes → Bytes → Ordering4
  | [], [] => .equal
  | [], _ :: _ => .less
  | _ :: _, [] => .more
  | a :: as, b :: bs => if a < b then .less else if a > b then .more else cmpBytes as bs

mutual
/-- `vals.Cmp` restricted to the universe. -/
def cmp : Val → Val → Ordering4
  | .bool a, .bool b => if a == b then .equal else if a == false then .less else .more
  | .int a, .int b => if a < b then .less else if a > b then .more else .equal
  | .int a, .flt b => if a < b then .less else if a > b then .more else .equal
  | .flt a, .int b => if a < b then .less else if a > b then .more else .equal
  | .flt a, .flt b => if a < b then .less else if a > b then .more else .equal
  | .str a, .str b => cmpBytes a b
  | .list a, .list b => cmpList a b
  | .map a, .map b => if a == b then .equal else .uncomparable
  | _, _ => .uncomparable
def cmpList : List Val → List Val → Ordering4
  | [], [] => .equal
  | [], _ :: _ => .less
  | _ :: _, [] => .more
  | a :: as, b :: bs =>
    match cmp a b with
    | .equal => cmpList as bs
    | o => o
end

/-- Type rank used by `CmpTotal` (session-dependent in Go: passed in by the harness). -/
structure TypeRank where
  bool : Nat
  num : Nat
  str : Nat
  list : Nat
  map : Nat

def TypeRank.of (t : TypeRank) : Val → Nat
  | .bool _ => t.bool | .int _ => t.num | .flt _ => t.num | .str _ => t.str | .list _ => t.list | .map _ => t.map

mutual
/-- `vals.CmpTotal` restricted to the universe. -/
def cmpTotal (t : TypeRank) : Val → Val → Ordering4
  | a, b =>
    if t.of a < t.of b then .less else if t.of a > t.of b then .more
    else match a, b with
      | .bool a, .bool b => if a == b then .equal else if a == false then .less else .more
      | .int a, .int b => if a < b then .less else if a > b then .more else .equal
      | .int a, .flt b => if a < b then .less else if a > b then .more else .equal
      | .flt a, .int b => if a < b then .less else if a > b then .more else .equal
      | .flt a, .flt b => if a < b then .less else if a > b then .more else .equal
      | .str a, .str b => cmpBytes a b
      | .list a, .list b => cmpTotalList t a b
      | _, _ => .equal
def cmpTotalList (t : TypeRank) : List Val → List Val → Ordering4
  | [], [] => .equal
  | [], _ :: _ => .less
  | _ :: _, [] => .more
  | a :: as, b :: bs =>
    match cmpTotal t a b with
    | .equal => cmpTotalList t as bs
    | o => o
end

/-- default comparator of `slice.Less` -/
def lessDefault : LessR Val := fun a b =>
  match cmp a b with
  | .uncomparable => .exc "uncomparable"
  | o => .ok (o == .less)

/-- `&total` comparator -/
def lessTotal (t : TypeRank) : LessR Val := fun a b => .ok (cmpTotal t a b == .less)

end C10
