/-
C21 model: temporary assignment (`tmp`, `with`) and `defer` in pkg/eval.

Two layers.

* Generic combinators that follow the Go code statement by statement and are
  parametric in what a function body / a deferred callback does:
    `varSet`/`varUnset`      vars.Var.Set / UnsettableVar.Unset (failures by an arbitrary schedule)
    `save`, `refSet`, `assignLoop`, `doAssign`
                             compile_lvalue.go: save, set, doAssign (restoreCollector = `collect`)
    `runItem`                the closures pushed by `save` (restore / unset) and by `deferFn`
    `deferLoop`, `runDefers` frame.go Frame.runDefers  and the deferred func of withOp.exec
                             (`for i := len-1; i >= 0; i--`, first exception kept)
    `closureCall`            closure.go Closure.Call: `exc := c.op.exec(fm); excDefer := fm.runDefers()`
                             (+ fnWrap.exec for closures made by `fn`)
    `withExec`               builtin_special.go withOp.exec
  The theorems of ElvProofs/C21.lean are about these, for every body, every
  callback and every failure schedule.

* A small interpreter (`callBlock`) for programs nesting tmp / with / defer /
  call / for / try with every exit path, built from the combinators; it is
  what the driver runs against the real interpreter.  Recursion is by fuel on
  the nesting depth; running out sets `St.oof`, printed as `FUEL`.

`deferFn` is modelled AFTER fixes/C21-defer-ok-exception.patch (c66e461: a
callback that succeeds contributes no exception) and `elem.Set` AFTER
fixes/C14-element-set-stale-containers.patch (798ebe2: the container is read
when the element is set, not when the lvalue was dereferenced).

Round 2: values are the values of the C14 model (`C14.Val`: strings, nested
lists, maps); an element lvalue carries a whole index path and is assigned
with `C14.setElem` (= `elem.Set`: `elemAssocers` + `vals.Assoc` inside-out,
list/string indices by the C13 model); `MakeElement`'s early walk of the index
chain (`C14.assocers`) is part of `derefLValue`, so a bad index in ANY lvalue
is reported before the first Set; one lvalue of an assignment may be a rest
lvalue (`@x`); `if` and `while` call their body closures like `for` does.

Everything is an event writer: results carry the events they emitted, the
log is their concatenation (a monotone history by construction).
-/
import ElvModel.Go.Basic
import ElvModel.C13.Model
import ElvModel.C14.Model
namespace C21
open Go

abbrev VarId := Nat

/-- Elvish values: those of the C14 model (strings, `$nil`, typed ints, nested
lists, maps as association lists). -/
abbrev Val := C14.Val
/-- An index / map key (always a string in source programs). -/
abbrev Key := C14.Key

/-- Decimal digits of n, most significant first. -/
def digitsAux : Nat → Nat → Bytes → Bytes
  | 0, _, acc => acc
  | f + 1, n, acc =>
    let acc' := UInt8.ofNat (48 + n % 10) :: acc
    if n / 10 = 0 then acc' else digitsAux f (n / 10) acc'

def natBytes (n : Nat) : Bytes := digitsAux (n + 1) n []

/-- The string `n` in decimal (what `5` in a program is). -/
def numV (n : Nat) : Val := C14.Val.str (natBytes n)
/-- A list of decimal strings. -/
def numsV (xs : List Nat) : Val := C14.Val.list (xs.map numV)
/-- The index `[n]`. -/
def numK (n : Nat) : Key := C14.Key.str (natBytes n)

/-- Reason of an exception, as far as the property distinguishes them. -/
inductive Cause where
  | fail (n : Nat)
  | brk
  | cont
  | ret
  | setFail (x : VarId)      -- error returned by Var.Set of variable x
  | restoreFail (x : VarId)  -- "restore variable: %w"
  | unsetFail (x : VarId)    -- "unset variable: %w"
  | elemErr                  -- vals.Index / vals.Assoc failed (bad index, no such key, not indexable …)
  | arity                    -- errs.ArityMismatch
  | fuel                     -- model only: nesting deeper than the fuel
  | panic                    -- model only: Go index out of range (proved unreachable)
  deriving DecidableEq, Repr

/-- Go `Exception` that may be nil. -/
abbrev Outcome := Option Cause

/-- Kinds of variables: harness variables whose Set is logged and may fail
(`logged`), the same implementing `vars.UnsettableVar` (`ulogged`), real
environment variables (`env`), ordinary `var` variables (`ord`). -/
inductive Kind where
  | logged | ulogged | env | ord
  deriving DecidableEq, Repr

def Kind.isLogged : Kind → Bool
  | .logged | .ulogged => true
  | _ => false

inductive Event where
  | enter (g k : Nat)                     -- frame g starts running block k
  | at (g k : Nat)                        -- frame g reaches statement k
  | val (x : VarId) (s : Option Val)      -- peek
  | set (x : VarId) (v : Val) (ok : Bool) -- Var.Set called on a logged variable
  | unset (x : VarId) (ok : Bool)         -- UnsettableVar.Unset called on a logged variable
  | caught (g k : Nat) (o : Outcome)      -- what a `try` saw

/-- Static configuration: variable kinds and the failure schedule (`fails x i`
= the i-th Set/Unset call on x fails).  Theorems quantify over all of it. -/
structure Cfg where
  kind : VarId → Kind
  fails : VarId → Nat → Bool

structure St where
  store : VarId → Option Val   -- `none` = unset (only unsettable variables)
  cnt : VarId → Nat            -- Set/Unset calls so far, per logged variable
  next : Nat                   -- next dynamic frame id
  oof : Bool                   -- the interpreter ran out of fuel somewhere

def upd {α : Type} (f : Nat → α) (x : Nat) (a : α) : Nat → α :=
  fun y => if y = x then a else f y

/-- Result of something that may throw. -/
structure R where
  st : St
  ev : List Event
  out : Outcome

/-- Result of `Var.Set` / `Unset`: the Go error is nil iff `ok`. -/
structure SR where
  st : St
  ev : List Event
  ok : Bool

/-- `variable.Set(v)` on the head variable x. -/
def varSet (c : Cfg) (x : VarId) (v : Val) (s : St) : SR :=
  if (c.kind x).isLogged then
    let i := s.cnt x
    let s1 : St := { s with cnt := upd s.cnt x (i + 1) }
    if c.fails x i then ⟨s1, [.set x v false], false⟩
    else ⟨{ s1 with store := upd s1.store x (some v) }, [.set x v true], true⟩
  else ⟨{ s with store := upd s.store x (some v) }, [], true⟩

/-- `unsettable.Unset()`. -/
def varUnset (c : Cfg) (x : VarId) (s : St) : SR :=
  if (c.kind x).isLogged then
    let i := s.cnt x
    let s1 : St := { s with cnt := upd s.cnt x (i + 1) }
    if c.fails x i then ⟨s1, [.unset x false], false⟩
    else ⟨{ s1 with store := upd s1.store x none }, [.unset x true], true⟩
  else ⟨{ s with store := upd s.store x none }, [], true⟩

/-! ### lvalues -/

/-- `x` or `x[k]…[kₙ]` (at least one index). -/
inductive LV where
  | var (x : VarId)
  | elem (x : VarId) (k : Key) (ks : List Key)

def LV.head : LV → VarId
  | .var x => x
  | .elem x _ _ => x

/-- `variable.Get()` as `elemAssocers` sees it: an unset unsettable variable
(harness kind U, environment variable) reads as the empty string. -/
def curVal : Option Val → Val
  | some v => v
  | none => .str []

/-- `derefLValue`: the variable itself, or `vars.MakeElement(variable, indices)`.
Since 798ebe2 the element variable holds only the head variable and the
indices (so the lvalue itself stands for it), but `MakeElement` still walks the
index chain once (`elemAssocers`) to report a bad index early.  `none` = nil error. -/
def deref (s : St) : LV → Option Cause
  | .var _ => none
  | .elem x k ks =>
    match C14.assocers (curVal (s.store x)) (k :: ks) with
    | .ok _ => none
    | .exc _ => some .elemErr
    | .panic _ => some .panic

/-- The first loop of `doAssign`: every lvalue is dereferenced, left to right,
before anything is set; the first error is returned. -/
def derefAll (s : St) : List LV → Option Cause
  | [] => none
  | l :: rest =>
    match deref s l with
    | some e => some e
    | none => derefAll s rest

/-- What a function does later: undo an assignment, or call a callback. -/
inductive Item (β : Type) where
  | restore (x : VarId) (v : Val)   -- `variable.Set(saved)`
  | unset (x : VarId)               -- `unsettable.Unset()`
  | cb (b : β)                      -- the closure `deferFn` pushes

/-- `save(r, variable)`: taken on the HEAD variable for elements; an unset
unsettable variable is restored by unsetting.  (Only unsettable variables are
ever unset, so `none` is exactly `unsettable && !IsSet()`.) -/
def save {β : Type} (s : St) (x : VarId) : Item β :=
  match s.store x with
  | some v => .restore x v
  | none => .unset x

/-- `variable.Set(value)` through a (possibly element) variable; the error is
wrapped by `fm.errorp`. -/
def refSet (c : Cfg) (r : LV) (v : Val) (s : St) : R :=
  match r with
  | .var x =>
    let q := varSet c x v s
    ⟨q.st, q.ev, if q.ok then none else some (.setFail x)⟩
  | .elem x k ks =>
    -- `elem.Set`: containers from `ev.variable.Get()` NOW, `vals.Assoc` inside-out, then `variable.Set`
    match C14.setElem (curVal (s.store x)) (k :: ks) v with
    | .exc _ => ⟨s, [], some .elemErr⟩
    | .panic _ => ⟨s, [], some .panic⟩
    | .ok v' =>
      let q := varSet c x v' s
      ⟨q.st, q.ev, if q.ok then none else some (.setFail x)⟩

/-- Result of an assignment: the restore closures it handed to its collector. -/
structure AR (β : Type) where
  st : St
  ev : List Event
  items : List (Item β)
  out : Outcome

/-- The loop of `doAssign` over the lvalues, `set(fm, lv, variable, value, rc)`:
save, Set, and only if Set succeeded hand the restore function to `rc` —
ONE restore per lvalue. -/
def assignLoop {β : Type} (c : Cfg) (collect : Bool) : List (LV × Val) → St → AR β
  | [], s => ⟨s, [], [], none⟩
  | (r, v) :: rest, s =>
    let it : Item β := save s r.head
    let r1 := refSet c r v s
    match r1.out with
    | some e => ⟨r1.st, r1.ev, [], some e⟩
    | none =>
      let r2 := assignLoop c collect rest r1.st
      ⟨r2.st, r1.ev ++ r2.ev, (if collect then [it] else []) ++ r2.items, r2.out⟩

/-- One `lhs… = rhs…`: the lvalues, the position of the rest lvalue
(`lvaluesGroup.rest`, `none` = -1) and the (literal) right-hand-side values. -/
structure Group where
  lvs : List LV
  rest : Option Nat
  vs : List Val

/-- Which value each of the `nv` variables gets (`none` = `errs.ArityMismatch`).
Without a rest variable the counts must agree; with one at position r it gets
`vals.MakeList(values[r : r+restOff+1]…)`, `restOff = len(values) - len(variables)`. -/
def restValues (nv : Nat) (rest : Option Nat) (vs : List Val) : Option (List Val) :=
  match rest with
  | none => if nv ≠ vs.length then none else some vs
  | some r =>
    if vs.length + 1 < nv then none
    else
      let m := vs.length + 1 - nv
      some (vs.take r ++ [C14.Val.list ((vs.drop r).take m)] ++ vs.drop (r + m))

/-- `doAssign`: all lvalues are dereferenced first, then (the right-hand side
is evaluated — literals here —) the arity is checked, then the sets happen
left to right. -/
def doAssign {β : Type} (c : Cfg) (collect : Bool) (g : Group) (s : St) : AR β :=
  match derefAll s g.lvs with
  | some e => ⟨s, [], [], some e⟩
  | none =>
    match restValues g.lvs.length g.rest g.vs with
    | none => ⟨s, [], [], some .arity⟩
    | some vs => assignLoop c collect (g.lvs.zip vs) s

/-! ### running what was collected -/

def runItem {β : Type} (c : Cfg) (runCb : β → St → R) : Item β → St → R
  | .restore x v, s =>
    let q := varSet c x v s
    ⟨q.st, q.ev, if q.ok then none else some (.restoreFail x)⟩
  | .unset x, s =>
    let q := varUnset c x s
    ⟨q.st, q.ev, if q.ok then none else some (.unsetFail x)⟩
  | .cb b, s => runCb b s

/-- `if exc2 != nil && exc == nil { exc = exc2 }` -/
def keepFirst (exc exc2 : Outcome) : Outcome :=
  match exc with
  | some e => some e
  | none => exc2

/-- The loop shared by `Frame.runDefers` and the deferred function of
`withOp.exec`: `for i := n-1; i >= 0; i-- { exc2 := fs[i](fm); … }`, entered
with `exc`.  The second component is ghost: the indices called, in call order. -/
def deferLoop {β : Type} (c : Cfg) (runCb : β → St → R) (fs : List (Item β)) :
    Nat → St → Outcome → R × List Nat
  | 0, s, exc => (⟨s, [], exc⟩, [])
  | i + 1, s, exc =>
    match fs[i]? with
    | none => (⟨s, [], some .panic⟩, [])
    | some f =>
      let r := runItem c runCb f s
      let (r2, tr) := deferLoop c runCb fs i r.st (keepFirst exc r.out)
      (⟨r2.st, r.ev ++ r2.ev, r2.out⟩, i :: tr)

/-- `fm.runDefers()` -/
def runDefers {β : Type} (c : Cfg) (runCb : β → St → R) (fs : List (Item β)) (s : St) : R :=
  (deferLoop c runCb fs fs.length s none).1

/-- What `c.op.exec(fm)` gives back besides the exception: `*fm.defers`. -/
structure BodyR (β : Type) where
  st : St
  ev : List Event
  items : List (Item β)
  out : Outcome

/-- `fnWrap.exec`: a closure made by `fn` swallows `return`. -/
def fnWrap (isFn : Bool) (o : Outcome) : Outcome :=
  if isFn && o == some .ret then none else o

/-- `Closure.Call` from `fm.defers = new(…)` on. -/
def closureCall {β : Type} (c : Cfg) (runCb : β → St → R) (isFn : Bool)
    (body : St → BodyR β) (s : St) : R :=
  let b := body s
  let exc := fnWrap isFn b.out
  let d := runDefers c runCb b.items b.st
  ⟨d.st, b.ev ++ d.ev, keepFirst exc d.out⟩

/-- The assignments of `with`, in order; stops at the first failing one. -/
def assignGroups {β : Type} (c : Cfg) : List Group → St → AR β
  | [], s => ⟨s, [], [], none⟩
  | g :: rest, s =>
    let a : AR β := doAssign c true g s
    match a.out with
    | some _ => a
    | none =>
      let a2 := assignGroups c rest a.st
      ⟨a2.st, a.ev ++ a2.ev, a.items ++ a2.items, a2.out⟩

/-- `withOp.exec`: the restore functions run in a Go `defer`, whatever happened. -/
def withExec (c : Cfg) (groups : List Group) (body : St → R) (s : St) : R :=
  let a : AR Empty := assignGroups c groups s
  match a.out with
  | some e =>
    let d := (deferLoop c (fun b _ => b.elim) a.items a.items.length a.st (some e)).1
    ⟨d.st, a.ev ++ d.ev, d.out⟩
  | none =>
    let b := body a.st
    let d := (deferLoop c (fun b _ => b.elim) a.items a.items.length b.st b.out).1
    ⟨d.st, a.ev ++ b.ev ++ d.ev, d.out⟩

/-! ### the interpreter the driver runs -/

inductive Stmt where
  | mark (k : Nat)
  | peek (k : Nat) (x : VarId)
  | asg (k : Nat) (tmp : Bool) (grp : Group)
  | withS (k : Nat) (groups : List Group) (body : List Stmt)
  | deferS (k : Nat) (body : List Stmt)
  | fail (k n : Nat)
  | brk (k : Nat)
  | cont (k : Nat)
  | ret (k : Nat)
  | call (k : Nat) (isFn : Bool) (body : List Stmt)
  | forS (k n : Nat) (body : List Stmt)
  | tryS (k : Nat) (body : List Stmt)
  /-- `if`: sel 0 `if $true { body }`, 1 `if $false { } else { body }`,
  2 `if $false { } elif $true { body } else { }`, anything else `if $false { body }` (body not run) -/
  | ifS (k sel : Nat) (body : List Stmt)
  /-- `while` whose condition holds n times -/
  | whileS (k n : Nat) (body : List Stmt)

/-- A lambda: its static id and statements. -/
structure Block where
  k : Nat
  body : List Stmt

/-- `forOp.exec` / `whileOp.exec`: continue / break are consumed, anything else ends the loop. -/
def forLoop (call : St → R) : Nat → St → R
  | 0, s => ⟨s, [], none⟩
  | n + 1, s =>
    let r := call s
    match r.out with
    | some .brk => ⟨r.st, r.ev, none⟩
    | none | some .cont =>
      let r2 := forLoop call n r.st
      ⟨r2.st, r.ev ++ r2.ev, r2.out⟩
    | some _ => r

def BodyR.ofR {β : Type} (r : R) (pre : List Event) : BodyR β := ⟨r.st, pre ++ r.ev, [], r.out⟩

/-- One statement of frame g.  `call b isFn` calls a lambda. -/
def execStmt (c : Cfg) (call : Block → Bool → St → R) (g : Nat) : Stmt → St → BodyR Block
  | .mark k, s => ⟨s, [.at g k], [], none⟩
  | .peek k x, s => ⟨s, [.at g k, .val x (s.store x)], [], none⟩
  | .asg k tmp grp, s =>
    let a : AR Block := doAssign c tmp grp s
    ⟨a.st, .at g k :: a.ev, a.items, a.out⟩
  | .withS k groups body, s =>
    .ofR (withExec c groups (call ⟨k, body⟩ false) s) [.at g k]
  | .deferS k body, s => ⟨s, [.at g k], [.cb ⟨k, body⟩], none⟩
  | .fail k n, s => ⟨s, [.at g k], [], some (.fail n)⟩
  | .brk k, s => ⟨s, [.at g k], [], some .brk⟩
  | .cont k, s => ⟨s, [.at g k], [], some .cont⟩
  | .ret k, s => ⟨s, [.at g k], [], some .ret⟩
  | .call k isFn body, s => .ofR (call ⟨k, body⟩ isFn s) [.at g k]
  | .forS k n body, s => .ofR (forLoop (call ⟨k, body⟩ false) n s) [.at g k]
  | .tryS k body, s =>
    let r := call ⟨k, body⟩ false s
    ⟨r.st, .at g k :: r.ev ++ [.caught g k r.out], [], none⟩
  | .ifS k sel body, s =>
    -- `ifOp.exec`: the first branch whose condition holds (or `else`) is called; its exception is the result
    if sel ≤ 2 then .ofR (call ⟨k, body⟩ false s) [.at g k] else ⟨s, [.at g k], [], none⟩
  | .whileS k n body, s => .ofR (forLoop (call ⟨k, body⟩ false) n s) [.at g k]

/-- A statement sequence; an exception ends it, what was deferred so far stays. -/
def execStmts (c : Cfg) (call : Block → Bool → St → R) (g : Nat) : List Stmt → St → BodyR Block
  | [], s => ⟨s, [], [], none⟩
  | st :: rest, s =>
    let r := execStmt c call g st s
    match r.out with
    | some _ => r
    | none =>
      let r2 := execStmts c call g rest r.st
      ⟨r2.st, r.ev ++ r2.ev, r.items ++ r2.items, r2.out⟩

/-- The body of a generated lambda: announce the frame, run the statements. -/
def blockBody (c : Cfg) (call : Block → Bool → St → R) (b : Block) (s : St) : BodyR Block :=
  let g := s.next
  let r := execStmts c call g b.body { s with next := g + 1 }
  ⟨r.st, .enter g b.k :: r.ev, r.items, r.out⟩

mutual
/-- Nesting depth of lambdas below a statement. -/
def Stmt.depth : Stmt → Nat
  | .withS _ _ b => depthL b + 1
  | .deferS _ b => depthL b + 1
  | .call _ _ b => depthL b + 1
  | .forS _ _ b => depthL b + 1
  | .tryS _ b => depthL b + 1
  | .ifS _ _ b => depthL b + 1
  | .whileS _ _ b => depthL b + 1
  | .mark _ => 0
  | .peek _ _ => 0
  | .asg _ _ _ => 0
  | .fail _ _ => 0
  | .brk _ => 0
  | .cont _ => 0
  | .ret _ => 0
def depthL : List Stmt → Nat
  | [] => 0
  | s :: rest => max s.depth (depthL rest)
end

/-- Calling a lambda (fuel = remaining nesting depth). -/
def callBlock (c : Cfg) : Nat → Block → Bool → St → R
  | 0, _, _, s => ⟨{ s with oof := true }, [], some .fuel⟩
  | f + 1, b, isFn, s =>
    closureCall c (fun cb s => callBlock c f cb false s) isFn (blockBody c (callBlock c f) b) s

end C21
