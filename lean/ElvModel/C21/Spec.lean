/-
C21 specification: the acceptor of event logs.

This is the Lean port of the oracle of harness/c21/oracle.go, which is written
from the property statement, not from the interpreter: it walks the PROGRAM
and a LOG together, keeps its own idea of the store, takes the results of the
scheduled Set/Unset failures from the log, and rejects at the first entry the
claims of C21 do not allow:

  * with: when its body has finished (however it exited, or when one of its
    assignments failed) every assignment that succeeded is undone — one
    restore per assigned lvalue — last first, each exactly once, with the
    content the head variable had before (Unset for a previously unset one);
  * tmp: the same when the enclosing function finishes;
  * defer: every registered callback starts exactly once, last registered
    first, interleaved with the tmp restores of the same function, when the
    function finishes and before its caller goes on;
  * reporting: a function / with reports its body's exception if the body
    failed (a failed assignment's for with), else the first failing restore /
    callback in execution order, else nothing; `fn` absorbs `return`;
  * nothing else is logged (a restore of a variable whose assignment failed
    is a stray entry), peeks see the acceptor's store, the final store and
    the reported exception are the acceptor's.

It knows nothing of Frame.runDefers' index loop, defer lists shared through
pointers, restore collectors or fuel in the interpreter: an assignment simply
yields "what has to be undone", and undoing is "all of it, last first".
Element assignment is the nested assoc of the property C14 (`C14.assocIn`),
the index chain must be walkable (`C14.indexPath`) for every lvalue before the
first Set.

`none` = rejected (or the acceptor's own recursion budget `fuel`, the nesting
depth of lambdas, was too small).  The harness runs this acceptor (driver op
`acc`) against the Go oracle on real and on damaged logs.
-/
import ElvModel.C21.Model
import ElvModel.C21.Show
import ElvModel.C14.Spec
namespace C21
open Go

/-- Acceptor state: the rest of the log, the acceptor's store, the next frame id. -/
structure AS where
  log : List SEv
  store : VarId → Option Val
  next : Nat

/-- The next log entry must be `e`. -/
def expect (e : SEv) (a : AS) : Option AS :=
  match a.log with
  | e' :: rest => if e' = e then some { a with log := rest } else none
  | [] => none

/-- The head variable x must now be Set to v: for a logged variable the next
entry is that call, and says whether the scheduled failure hit. -/
def sVarSet (kind : VarId → Kind) (x : VarId) (v : Val) (a : AS) : Option (Bool × AS) :=
  if (kind x).isLogged then
    match a.log with
    | e :: rest =>
      match e with
      | .set x' t ok =>
        if x' = x ∧ t = showVal v then
          some (ok, { a with log := rest, store := if ok then upd a.store x (some v) else a.store })
        else none
      | _ => none
    | [] => none
  else some (true, { a with store := upd a.store x (some v) })

def sVarUnset (kind : VarId → Kind) (x : VarId) (a : AS) : Option (Bool × AS) :=
  if (kind x).isLogged then
    match a.log with
    | e :: rest =>
      match e with
      | .unset x' ok =>
        if x' = x then
          some (ok, { a with log := rest, store := if ok then upd a.store x none else a.store })
        else none
      | _ => none
    | [] => none
  else some (true, { a with store := upd a.store x none })

/-- What undoes an assignment to x: put back what the acceptor's store holds now. -/
def undoOf {β : Type} (st : VarId → Option Val) (x : VarId) : Item β :=
  match st x with
  | some v => .restore x v
  | none => .unset x

/-- The head variable's new content: the value, or the nested assoc of its
CURRENT content (`none`: a bad index / key / container). -/
def newContent (cur : Option Val) : LV → Val → Option Val
  | .var _, v => some v
  | .elem _ k ks, v =>
    match C14.assocIn (curVal cur) (k :: ks) v with
    | .ok nv => some nv
    | _ => none

/-- The index chain of an lvalue can be walked (all but the last index). -/
def pathOk (st : VarId → Option Val) : LV → Bool
  | .var _ => true
  | .elem x k ks =>
    match C14.indexPath (curVal (st x)) (k :: ks).dropLast with
    | .ok _ => true
    | _ => false

/-- One `lhs… = rhs…`, lvalue by lvalue; yields the outcome and what has to be
undone later (one entry per lvalue that was assigned). -/
def sAssignLoop {β : Type} (kind : VarId → Kind) (collect : Bool) :
    List (LV × Val) → AS → Option ((Outcome × List (Item β)) × AS)
  | [], a => some ((none, []), a)
  | (l, v) :: rest, a =>
    let it : Item β := undoOf a.store l.head
    match newContent (a.store l.head) l v with
    | none => some ((some .elemErr, []), a)
    | some nv =>
      match sVarSet kind l.head nv a with
      | none => none
      | some (false, a1) => some ((some (.setFail l.head), []), a1)
      | some (true, a1) =>
        match sAssignLoop kind collect rest a1 with
        | none => none
        | some ((o, its), a2) => some ((o, (if collect then [it] else []) ++ its), a2)

def sDoAssign {β : Type} (kind : VarId → Kind) (collect : Bool) (g : Group) (a : AS) :
    Option ((Outcome × List (Item β)) × AS) :=
  if g.lvs.all (pathOk a.store) then
    match restValues g.lvs.length g.rest g.vs with
    | none => some ((some .arity, []), a)
    | some vs => sAssignLoop kind collect (g.lvs.zip vs) a
  else some ((some .elemErr, []), a)

/-- The assignments of `with`, in order, up to the first that fails. -/
def sAssignGroups {β : Type} (kind : VarId → Kind) :
    List Group → AS → Option ((Outcome × List (Item β)) × AS)
  | [], a => some ((none, []), a)
  | g :: rest, a =>
    match sDoAssign kind true g a with
    | none => none
    | some ((some e, its), a1) => some ((some e, its), a1)
    | some ((none, its), a1) =>
      match sAssignGroups kind rest a1 with
      | none => none
      | some ((o, its2), a2) => some ((o, its ++ its2), a2)

/-- The first failure in execution order. -/
def firstFail (a b : Outcome) : Outcome :=
  match a with
  | some e => some e
  | none => b

/-- One entry of what has to be undone / run: the restore (a Set of the saved
content, or an Unset) or the deferred callback happens now. -/
def sUndoItem {β : Type} (kind : VarId → Kind) (scb : β → AS → Option (Outcome × AS)) :
    Item β → AS → Option (Outcome × AS)
  | .restore x v, a =>
    (sVarSet kind x v a).map fun p => (if p.1 then none else some (Cause.restoreFail x), p.2)
  | .unset x, a =>
    (sVarUnset kind x a).map fun p => (if p.1 then none else some (Cause.unsetFail x), p.2)
  | .cb b, a => scb b a

/-- Everything on the list must happen now, in list order, each once; the
first failure is the result. -/
def sUndoSeq {β : Type} (kind : VarId → Kind) (scb : β → AS → Option (Outcome × AS)) :
    List (Item β) → AS → Option (Outcome × AS)
  | [], a => some (none, a)
  | it :: rest, a =>
    match sUndoItem kind scb it a with
    | none => none
    | some (o, a1) =>
      match sUndoSeq kind scb rest a1 with
      | none => none
      | some (o2, a2) => some (firstFail o o2, a2)

/-- …last first. -/
def sUndoAll {β : Type} (kind : VarId → Kind) (scb : β → AS → Option (Outcome × AS))
    (items : List (Item β)) (a : AS) : Option (Outcome × AS) :=
  sUndoSeq kind scb items.reverse a

/-- A loop whose body is a function: `continue` and a normal end go on,
`break` ends the loop quietly, anything else ends it and is the result. -/
def sLoop (call : AS → Option (Outcome × AS)) : Nat → AS → Option (Outcome × AS)
  | 0, a => some (none, a)
  | n + 1, a =>
    match call a with
    | none => none
    | some (o, a1) =>
      match o with
      | none => sLoop call n a1
      | some .cont => sLoop call n a1
      | some .brk => some (none, a1)
      | some e => some (some e, a1)

def noScb : Empty → AS → Option (Outcome × AS) := fun b _ => b.elim

/-- One statement of frame g.  `scall k body isFn` accepts a whole function call. -/
def sStmt (kind : VarId → Kind) (scall : Nat → List Stmt → Bool → AS → Option (Outcome × AS))
    (g : Nat) : Stmt → AS → Option ((Outcome × List (Item Block)) × AS)
  | .mark k, a => (expect (.at g k) a).bind fun a1 => some ((none, []), a1)
  | .peek k x, a =>
    (expect (.at g k) a).bind fun a1 =>
    (expect (.val x (showSlot (a1.store x))) a1).bind fun a2 => some ((none, []), a2)
  | .asg k tmp grp, a => (expect (.at g k) a).bind fun a1 => sDoAssign kind tmp grp a1
  | .withS k groups body, a =>
    (expect (.at g k) a).bind fun a1 =>
    (sAssignGroups (β := Empty) kind groups a1).bind fun r =>
      match r.1.1 with
      | some e =>
        -- a failed assignment: what was assigned so far is undone, the body does not run
        (sUndoAll kind noScb r.1.2 r.2).bind fun u => some ((some e, []), u.2)
      | none =>
        (scall k body false r.2).bind fun b =>
        (sUndoAll kind noScb r.1.2 b.2).bind fun u => some ((firstFail b.1 u.1, []), u.2)
  | .deferS k body, a => (expect (.at g k) a).bind fun a1 => some ((none, [.cb ⟨k, body⟩]), a1)
  | .fail k n, a => (expect (.at g k) a).bind fun a1 => some ((some (.fail n), []), a1)
  | .brk k, a => (expect (.at g k) a).bind fun a1 => some ((some .brk, []), a1)
  | .cont k, a => (expect (.at g k) a).bind fun a1 => some ((some .cont, []), a1)
  | .ret k, a => (expect (.at g k) a).bind fun a1 => some ((some .ret, []), a1)
  | .call k isFn body, a =>
    (expect (.at g k) a).bind fun a1 => (scall k body isFn a1).bind fun b => some ((b.1, []), b.2)
  | .forS k n body, a =>
    (expect (.at g k) a).bind fun a1 => (sLoop (scall k body false) n a1).bind fun b => some ((b.1, []), b.2)
  | .tryS k body, a =>
    (expect (.at g k) a).bind fun a1 =>
    (scall k body false a1).bind fun b =>
    (expect (.caught g k b.1) b.2).bind fun a2 => some ((none, []), a2)
  | .ifS k sel body, a =>
    (expect (.at g k) a).bind fun a1 =>
      if sel ≤ 2 then (scall k body false a1).bind fun b => some ((b.1, []), b.2)
      else some ((none, []), a1)
  | .whileS k n body, a =>
    (expect (.at g k) a).bind fun a1 => (sLoop (scall k body false) n a1).bind fun b => some ((b.1, []), b.2)

/-- A statement sequence: an exception ends it; what was registered so far stays. -/
def sStmts (kind : VarId → Kind) (scall : Nat → List Stmt → Bool → AS → Option (Outcome × AS))
    (g : Nat) : List Stmt → AS → Option ((Outcome × List (Item Block)) × AS)
  | [], a => some ((none, []), a)
  | st :: rest, a =>
    match sStmt kind scall g st a with
    | none => none
    | some ((some e, its), a1) => some ((some e, its), a1)
    | some ((none, its), a1) =>
      match sStmts kind scall g rest a1 with
      | none => none
      | some ((o, its2), a2) => some ((o, its ++ its2), a2)

/-- A function call: the frame announces itself, the body runs, then everything
the body registered (tmp restores and deferred callbacks, in one list) happens
last first; the body's exception wins, `fn` absorbs `return`. -/
def sCall (kind : VarId → Kind) : Nat → Nat → List Stmt → Bool → AS → Option (Outcome × AS)
  | 0, _, _, _, _ => none
  | f + 1, k, body, isFn, a =>
    let g := a.next
    (expect (.enter g k) a).bind fun a1 =>
    (sStmts kind (sCall kind f) g body { a1 with next := g + 1 }).bind fun r =>
      let out : Outcome := if isFn && r.1.1 == some .ret then none else r.1.1
      (sUndoAll kind (fun (b : Block) => sCall kind f b.k b.body false) r.1.2 r.2).bind fun u =>
        some (firstFail out u.1, u.2)

/-- The verdict on a run: the whole log is consumed by the call of `main`
(frame 0 of block 0, made by `fn`), the reported exception and the final
content of the variables 0 … nvars-1 are the acceptor's. -/
def accepts (kind : VarId → Kind) (fuel : Nat) (prog : List Stmt) (init : VarId → Option Val)
    (nvars : Nat) (out : Outcome) (fin : List Bytes) (log : List SEv) : Bool :=
  match sCall kind fuel 0 prog true ⟨log, init, 0⟩ with
  | none => false
  | some (want, a) =>
    a.log.isEmpty && decide (want = out) &&
      decide ((List.range nvars).map (fun x => showSlot (a.store x)) = fin)

end C21
