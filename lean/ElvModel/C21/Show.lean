/-
C21: canonical text of values and the event log as the harness prints it.

Values are rendered to bytes (`Go.Bytes`, decidable equality that the kernel
evaluates): a string as itself (`''` if empty), a list `[a;b]`, a map
`{k=v;…}` with the entries ordered by rendered key.  `SEv` is a log entry as
text: what the acceptor of ElvModel/C21/Spec.lean reads (from the model's log
through `Event.toS`, from a real log through the driver's parser).
-/
import ElvModel.C21.Model
namespace C21
open Go

/-- Lexicographic order on byte strings (Go's `<` on strings). -/
def bytesLt : Bytes → Bytes → Bool
  | [], [] => false
  | [], _ :: _ => true
  | _ :: _, [] => false
  | a :: as, b :: bs => if a < b then true else if b < a then false else bytesLt as bs

def insertKV (e : Bytes × Bytes) : List (Bytes × Bytes) → List (Bytes × Bytes)
  | [] => [e]
  | f :: rest => if bytesLt e.1 f.1 then e :: f :: rest else f :: insertKV e rest

def sortKVs : List (Bytes × Bytes) → List (Bytes × Bytes)
  | [] => []
  | e :: rest => insertKV e (sortKVs rest)

def joinWith (sep : UInt8) : List Bytes → Bytes
  | [] => []
  | [a] => a
  | a :: b :: rest => a ++ sep :: joinWith sep (b :: rest)

def showStr (s : Bytes) : Bytes := if s.isEmpty then [39, 39] else s

def showKey : Key → Bytes
  | .str s => showStr s
  | .num i => 35 :: natBytes i.natAbs
  | .strs l => 63 :: joinWith 47 l
  | .nil => [36]

mutual
def showVal : Val → Bytes
  | .str s => showStr s
  | .num i => 35 :: natBytes i.natAbs
  | .nil => [36]
  | .list xs => 91 :: joinWith 59 (showVals xs) ++ [93]
  | .map kvs => 123 :: joinWith 59 ((sortKVs (showKVs kvs)).map fun e => e.1 ++ 61 :: e.2) ++ [125]
def showVals : List Val → List Bytes
  | [] => []
  | v :: vs => showVal v :: showVals vs
def showKVs : List (Key × Val) → List (Bytes × Bytes)
  | [] => []
  | (k, v) :: rest => (showKey k, showVal v) :: showKVs rest
end

/-- A variable's content; `-` = unset. -/
def showSlot : Option Val → Bytes
  | none => [45]
  | some v => showVal v

/-- A log entry as text (values rendered). -/
inductive SEv where
  | enter (g k : Nat)
  | at (g k : Nat)
  | val (x : VarId) (t : Bytes)
  | set (x : VarId) (t : Bytes) (ok : Bool)
  | unset (x : VarId) (ok : Bool)
  | caught (g k : Nat) (o : Outcome)
  deriving DecidableEq, Repr

def Event.toS : Event → SEv
  | .enter g k => .enter g k
  | .at g k => .at g k
  | .val x s => .val x (showSlot s)
  | .set x v ok => .set x (showVal v) ok
  | .unset x ok => .unset x ok
  | .caught g k o => .caught g k o

end C21
