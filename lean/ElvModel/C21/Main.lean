import ElvModel.C21.Driver
def main : IO Unit := C21.driver.main
