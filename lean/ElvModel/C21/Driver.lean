import ElvModel.Go.Driver
import ElvModel.C21.Model
namespace C21
open Go

/-! Line protocol: `run <decls> <tokens>` → `<outcome>|<final values>|<log>`.
See harness/c21/prog.go for the token grammar. -/

structure Decl where
  kind : Kind
  isList : Bool
  init : Option Val
  mask : Nat

def parseVal (isList : Bool) (s : String) : Option Val :=
  if isList then
    if s = "e" then some (.list [])
    else ((s.splitOn ".").mapM String.toNat?).map Val.list
  else s.toNat?.map .num

def parseDecl (s : String) : Option Decl :=
  match s.splitOn ":" with
  | [k, t, i, m] => do
    let kind ← match k with
      | "L" => some Kind.logged | "U" => some Kind.ulogged
      | "E" => some Kind.env | "O" => some Kind.ord | _ => none
    let isList := t = "l"
    let init ← if i = "-" then some none else (parseVal isList i).map some
    let mask ← m.toNat?
    -- only unsettable variables can start unset; environment variables hold strings
    if init.isNone && (kind == .logged || kind == .ord) then none
    else if isList && kind == .env then none
    else some ⟨kind, isList, init, mask⟩
  | _ => none

def takeNat : List String → Option (Nat × List String)
  | t :: ts => t.toNat?.map (·, ts)
  | [] => none

def parseLVs : Nat → List String → Option (List LV × List String)
  | 0, ts => some ([], ts)
  | n + 1, "v" :: ts => do
    let (x, ts) ← takeNat ts
    let (r, ts) ← parseLVs n ts
    pure (.var x :: r, ts)
  | n + 1, "e" :: ts => do
    let (x, ts) ← takeNat ts
    let (i, ts) ← takeNat ts
    let (r, ts) ← parseLVs n ts
    pure (.elem x i :: r, ts)
  | _, _ => none

def parseNats : Nat → List String → Option (List Nat × List String)
  | 0, ts => some ([], ts)
  | n + 1, ts => do
    let (x, ts) ← takeNat ts
    let (r, ts) ← parseNats n ts
    pure (x :: r, ts)

def parseVals : Nat → List String → Option (List Val × List String)
  | 0, ts => some ([], ts)
  | n + 1, "n" :: ts => do
    let (x, ts) ← takeNat ts
    let (r, ts) ← parseVals n ts
    pure (.num x :: r, ts)
  | n + 1, "l" :: ts => do
    let (m, ts) ← takeNat ts
    let (xs, ts) ← parseNats m ts
    let (r, ts) ← parseVals n ts
    pure (.list xs :: r, ts)
  | _, _ => none

def parseGroup (ts : List String) : Option ((List LV × List Val) × List String) := do
  let (n, ts) ← takeNat ts
  let (lvs, ts) ← parseLVs n ts
  let (m, ts) ← takeNat ts
  let (vs, ts) ← parseVals m ts
  pure ((lvs, vs), ts)

def parseGroups : Nat → List String → Option (List (List LV × List Val) × List String)
  | 0, ts => some ([], ts)
  | n + 1, ts => do
    let (g, ts) ← parseGroup ts
    let (r, ts) ← parseGroups n ts
    pure (g :: r, ts)

/-- `n` statements (fuel bounds the nesting + length; tokens + 1 is enough). -/
def parseStmts : Nat → Nat → List String → Option (List Stmt × List String)
  | 0, _, _ => none
  | _ + 1, 0, ts => some ([], ts)
  | f + 1, n + 1, op :: ts => do
    let (k, ts) ← takeNat ts
    let (st, ts) ← (match op with
      | "M" => some (Stmt.mark k, ts)
      | "B" => some (Stmt.brk k, ts)
      | "C" => some (Stmt.cont k, ts)
      | "R" => some (Stmt.ret k, ts)
      | "P" => do
        let (x, ts) ← takeNat ts
        pure (Stmt.peek k x, ts)
      | "F" => do
        let (x, ts) ← takeNat ts
        pure (Stmt.fail k x, ts)
      | "A" =>
        match ts with
        | m :: ts => do
          let ((lvs, vs), ts) ← parseGroup ts
          if m = "t" then pure (Stmt.asg k true lvs vs, ts)
          else if m = "s" then pure (Stmt.asg k false lvs vs, ts) else none
        | [] => none
      | "W" => do
        let (ng, ts) ← takeNat ts
        let (gs, ts) ← parseGroups ng ts
        let (nb, ts) ← takeNat ts
        let (body, ts) ← parseStmts f nb ts
        pure (Stmt.withS k gs body, ts)
      | "D" => do
        let (nb, ts) ← takeNat ts
        let (body, ts) ← parseStmts f nb ts
        pure (Stmt.deferS k body, ts)
      | "T" => do
        let (nb, ts) ← takeNat ts
        let (body, ts) ← parseStmts f nb ts
        pure (Stmt.tryS k body, ts)
      | "K" => do
        let (x, ts) ← takeNat ts
        let (nb, ts) ← takeNat ts
        let (body, ts) ← parseStmts f nb ts
        pure (Stmt.call k (x == 1) body, ts)
      | "L" => do
        let (x, ts) ← takeNat ts
        let (nb, ts) ← takeNat ts
        let (body, ts) ← parseStmts f nb ts
        pure (Stmt.forS k x body, ts)
      | _ => none)
    let (rest, ts) ← parseStmts f n ts
    pure (st :: rest, ts)
  | _, _, [] => none

/-! Typing of programs (mirrors `wellTyped` of the harness): scalars to scalar
variables, lists to list variables, element assignment only on list variables
with scalar values.  Keeps string-splicing `vals.Assoc` out of the model. -/

def declAt (ds : List Decl) (x : Nat) : Option Decl := ds[x]?

def groupOk (ds : List Decl) (g : List LV × List Val) : Bool :=
  g.1.all (fun l => match l, declAt ds l.head with
    | .var _, some _ => true
    | .elem _ _, some d => d.isList
    | _, none => false) &&
  (g.1.length != g.2.length ||
    (g.1.zip g.2).all (fun (l, v) => match l, v, declAt ds l.head with
      | .elem _ _, .num _, _ => true
      | .elem _ _, .list _, _ => false
      | .var _, .num _, some d => !d.isList
      | .var _, .list _, some d => d.isList
      | _, _, none => false))

def stmtsOk (ds : List Decl) : Nat → List Stmt → Bool
  | 0, _ => false
  | f + 1, ss => ss.all fun
    | .peek _ x => (declAt ds x).isSome
    | .asg _ _ lvs vs => groupOk ds (lvs, vs)
    | .withS _ gs body => gs.all (groupOk ds) && stmtsOk ds f body
    | .deferS _ body | .call _ _ body | .forS _ _ body | .tryS _ body => stmtsOk ds f body
    | _ => true

/-! Rendering -/

def showVal : Val → String
  | .num n => toString n
  | .list [] => "e"
  | .list xs => ".".intercalate (xs.map toString)

def showSlot : Option Val → String
  | none => "-"
  | some v => showVal v

def showOutcome : Outcome → String
  | none => "ok"
  | some (.fail n) => s!"fail:{n}"
  | some .brk => "break"
  | some .cont => "continue"
  | some .ret => "return"
  | some (.setFail x) => s!"setfail:{x}"
  | some (.restoreFail x) => s!"restorefail:{x}"
  | some (.unsetFail x) => s!"unsetfail:{x}"
  | some .elemErr => "elemerr"
  | some .arity => "arity"
  | some .fuel => "FUEL"
  | some .panic => "PANIC"

def showEvent : Event → String
  | .enter g k => s!"E{g}.{k}"
  | .at g k => s!"@{g}.{k}"
  | .val x s => s!"V{x}={showSlot s}"
  | .set x v ok => s!"S{x}={showVal v}{if ok then "+" else "!"}"
  | .unset x ok => s!"X{x}{if ok then "+" else "!"}"
  | .caught g k o => s!"C{g}.{k}:{showOutcome o}"

def mkCfg (ds : List Decl) : Cfg :=
  { kind := fun x => match ds[x]? with
      | some d => d.kind
      | none => .ord
    fails := fun x i => match ds[x]? with
      | some d => i < 32 && (d.mask >>> i) % 2 == 1
      | none => false }

def mkSt (ds : List Decl) : St :=
  { store := fun x => match ds[x]? with
      | some d => d.init
      | none => none
    cnt := fun _ => 0, next := 0, oof := false }

def stepLine : List String → String
  | ["run", decls, toks] =>
    match (decls.splitOn ",").mapM parseDecl with
    | none => "bad-op"
    | some ds =>
      let ts := (toks.splitOn " ").filter (· ≠ "")
      let fuel := ts.length + 2
      match takeNat ts with
      | none => "bad-op"
      | some (n, ts') =>
        match parseStmts fuel n ts' with
        | some (body, []) =>
          if !stmtsOk ds fuel body then "bad-op"
          else
            let r := callBlock (mkCfg ds) fuel ⟨0, body⟩ true (mkSt ds)
            if r.st.oof then "FUEL"
            else
              let fin := ",".intercalate ((List.range ds.length).map fun x => showSlot (r.st.store x))
              let lg := if r.ev.isEmpty then "-" else " ".intercalate (r.ev.map showEvent)
              s!"{showOutcome r.out}|{fin}|{lg}"
        | _ => "bad-op"
  | _ => "bad-op"

def driver : Driver := Driver.pure stepLine
end C21
