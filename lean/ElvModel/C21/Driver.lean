import ElvModel.Go.Driver
import ElvModel.C21.Model
import ElvModel.C21.Show
import ElvModel.C21.Spec
namespace C21
open Go

/-! Line protocol:

  `run <decls> <tokens>`               → `<outcome>|<final values>|<log>` (the model's run)
  `acc <decls> <tokens> <that text>`   → `accept` / `reject` (the acceptor of Spec.lean on a given log)

See harness/c21/prog.go for the token grammar. -/

structure Decl where
  kind : Kind
  init : Option Val
  mask : Nat

def strV (s : String) : Val := .str (strBytes s)

def takeNat : List String → Option (Nat × List String)
  | t :: ts => t.toNat?.map (·, ts)
  | [] => none

def takeN {α : Type} (p : List String → Option (α × List String)) :
    Nat → List String → Option (List α × List String)
  | 0, ts => some ([], ts)
  | n + 1, ts => do
    let (x, ts) ← p ts
    let (r, ts) ← takeN p n ts
    pure (x :: r, ts)

def takeStr : List String → Option (String × List String)
  | t :: ts => some (t, ts)
  | [] => none

/-- A value: `n <str>` | `l <m> <str>…` | `L <m> <val>…` | `m <m> (<key> <val>)…` (fuel = nesting). -/
def parseVal : Nat → List String → Option (Val × List String)
  | 0, _ => none
  | _ + 1, "n" :: t :: ts => some (strV t, ts)
  | _ + 1, "l" :: ts => do
    let (m, ts) ← takeNat ts
    let (xs, ts) ← takeN takeStr m ts
    pure (.list (xs.map strV), ts)
  | f + 1, "L" :: ts => do
    let (m, ts) ← takeNat ts
    let (xs, ts) ← takeN (parseVal f) m ts
    pure (.list xs, ts)
  | f + 1, "m" :: ts => do
    let (m, ts) ← takeNat ts
    let (kvs, ts) ← takeN (fun ts => do
      let (k, ts) ← takeStr ts
      let (v, ts) ← parseVal f ts
      pure ((C14.Key.str (strBytes k), v), ts)) m ts
    -- later entries win, as in a map literal
    pure (.map (kvs.foldl (fun acc e => C14.mapAssoc acc e.1 e.2) []), ts)
  | _, _ => none

def parseOldList (s : String) : Val :=
  if s = "e" then .list [] else .list ((s.splitOn ".").map strV)

def parseDecl (s : String) : Option Decl :=
  match s.splitOn ":" with
  | [k, t, i, m] => do
    let kind ← match k with
      | "L" => some Kind.logged | "U" => some Kind.ulogged
      | "E" => some Kind.env | "O" => some Kind.ord | _ => none
    let init ← if i = "-" then some none else
      match t with
      | "s" => some (some (strV i))
      | "l" => some (some (parseOldList i))
      | "x" =>
        let ts := i.splitOn "/"
        match parseVal (ts.length + 1) ts with
        | some (v, []) => some (some v)
        | _ => none
      | _ => none
    let mask ← m.toNat?
    -- only unsettable variables can start unset; environment variables hold strings
    if init.isNone && (kind == .logged || kind == .ord) then none
    else if kind == .env && (match init with | some (.str _) => false | none => false | _ => true) then none
    else some ⟨kind, init, mask⟩
  | _ => none

def keyOf (s : String) : Key := .str (strBytes s)

/-- One lvalue: `v x` | `e x i` | `i x n k…` (n ≥ 1). -/
def parseLV : List String → Option (LV × List String)
  | "v" :: ts => do
    let (x, ts) ← takeNat ts
    pure (.var x, ts)
  | "e" :: ts => do
    let (x, ts) ← takeNat ts
    let (i, ts) ← takeStr ts
    pure (.elem x (keyOf i) [], ts)
  | "i" :: ts => do
    let (x, ts) ← takeNat ts
    let (n, ts) ← takeNat ts
    let (ks, ts) ← takeN takeStr n ts
    match ks with
    | k :: rest => pure (.elem x (keyOf k) (rest.map keyOf), ts)
    | [] => none
  | _ => none

/-- n lvalues, at most one of them marked `@` (the rest lvalue); `pos` = index of the next one. -/
def parseLVs : Nat → Nat → List String → Option ((List LV × Option Nat) × List String)
  | 0, _, ts => some (([], none), ts)
  | n + 1, pos, "@" :: ts => do
    let (l, ts) ← parseLV ts
    let ((r, rest), ts) ← parseLVs n (pos + 1) ts
    if rest.isSome then none else pure ((l :: r, some pos), ts)
  | n + 1, pos, ts => do
    let (l, ts) ← parseLV ts
    let ((r, rest), ts) ← parseLVs n (pos + 1) ts
    pure ((l :: r, rest), ts)

def parseGroup (f : Nat) (ts : List String) : Option (Group × List String) := do
  let (n, ts) ← takeNat ts
  let ((lvs, rest), ts) ← parseLVs n 0 ts
  let (m, ts) ← takeNat ts
  let (vs, ts) ← takeN (parseVal f) m ts
  pure (⟨lvs, rest, vs⟩, ts)

/-- `n` statements (fuel bounds the nesting + length; tokens + 1 is enough). -/
def parseStmts : Nat → Nat → List String → Option (List Stmt × List String)
  | 0, _, _ => none
  | _ + 1, 0, ts => some ([], ts)
  | f + 1, n + 1, op :: ts => do
    let (k, ts) ← takeNat ts
    let (st, ts) ← (match op with
      | "M" => some (Stmt.mark k, ts)
      | "B" => some (Stmt.brk k, ts)
      | "C" => some (Stmt.cont k, ts)
      | "R" => some (Stmt.ret k, ts)
      | "P" => do
        let (x, ts) ← takeNat ts
        pure (Stmt.peek k x, ts)
      | "F" => do
        let (x, ts) ← takeNat ts
        pure (Stmt.fail k x, ts)
      | "A" =>
        match ts with
        | m :: ts => do
          let (g, ts) ← parseGroup f ts
          if m = "t" then pure (Stmt.asg k true g, ts)
          else if m = "s" then pure (Stmt.asg k false g, ts) else none
        | [] => none
      | "W" => do
        let (ng, ts) ← takeNat ts
        let (gs, ts) ← takeN (parseGroup f) ng ts
        let (nb, ts) ← takeNat ts
        let (body, ts) ← parseStmts f nb ts
        pure (Stmt.withS k gs body, ts)
      | "D" => do
        let (nb, ts) ← takeNat ts
        let (body, ts) ← parseStmts f nb ts
        pure (Stmt.deferS k body, ts)
      | "T" => do
        let (nb, ts) ← takeNat ts
        let (body, ts) ← parseStmts f nb ts
        pure (Stmt.tryS k body, ts)
      | "K" => do
        let (x, ts) ← takeNat ts
        let (nb, ts) ← takeNat ts
        let (body, ts) ← parseStmts f nb ts
        pure (Stmt.call k (x == 1) body, ts)
      | "L" => do
        let (x, ts) ← takeNat ts
        let (nb, ts) ← takeNat ts
        let (body, ts) ← parseStmts f nb ts
        pure (Stmt.forS k x body, ts)
      | "I" => do
        let (x, ts) ← takeNat ts
        let (nb, ts) ← takeNat ts
        let (body, ts) ← parseStmts f nb ts
        pure (Stmt.ifS k x body, ts)
      | "H" => do
        let (x, ts) ← takeNat ts
        let (nb, ts) ← takeNat ts
        let (body, ts) ← parseStmts f nb ts
        pure (Stmt.whileS k x body, ts)
      | _ => none)
    let (rest, ts) ← parseStmts f n ts
    pure (st :: rest, ts)
  | _, _, [] => none

/-! Well-formedness of programs (mirrors `wellTyped` of the harness): variables
are declared; an environment variable is only assigned as a whole, with a
string, and is not a rest lvalue (`envVariable.Set` refuses other values —
not modelled); a rest position is one of the lvalues. -/

def declAt (ds : List Decl) (x : Nat) : Option Decl := ds[x]?

def isEnv (ds : List Decl) (x : Nat) : Bool :=
  match declAt ds x with
  | some d => d.kind == .env
  | none => false

def groupOk (ds : List Decl) (g : Group) : Bool :=
  g.lvs.all (fun l => (declAt ds l.head).isSome) &&
  (match g.rest with
    | some r => r < g.lvs.length
    | none => true) &&
  g.lvs.all (fun l => !isEnv ds l.head ||
    (match l with
      | .var _ => true
      | .elem _ _ _ => false)) &&
  (match g.rest with
    | some r => (g.lvs.drop r).head?.all (fun l => !isEnv ds l.head)
    | none => true) &&
  (match restValues g.lvs.length g.rest g.vs with
    | none => true
    | some vs => (g.lvs.zip vs).all (fun p => !isEnv ds p.1.head ||
        (match p.2 with
          | .str _ => true
          | _ => false)))

def stmtsOk (ds : List Decl) : Nat → List Stmt → Bool
  | 0, _ => false
  | f + 1, ss => ss.all fun
    | .peek _ x => (declAt ds x).isSome
    | .asg _ _ g => groupOk ds g
    | .withS _ gs body => gs.all (groupOk ds) && stmtsOk ds f body
    | .deferS _ body | .call _ _ body | .forS _ _ body | .tryS _ body
    | .ifS _ _ body | .whileS _ _ body => stmtsOk ds f body
    | _ => true

/-! Rendering -/

def bytesStr (b : Bytes) : String := String.ofList (b.map fun u => Char.ofNat u.toNat)

def showOutcome : Outcome → String
  | none => "ok"
  | some (.fail n) => s!"fail:{n}"
  | some .brk => "break"
  | some .cont => "continue"
  | some .ret => "return"
  | some (.setFail x) => s!"setfail:{x}"
  | some (.restoreFail x) => s!"restorefail:{x}"
  | some (.unsetFail x) => s!"unsetfail:{x}"
  | some .elemErr => "elemerr"
  | some .arity => "arity"
  | some .fuel => "FUEL"
  | some .panic => "PANIC"

def showSEv : SEv → String
  | .enter g k => s!"E{g}.{k}"
  | .at g k => s!"@{g}.{k}"
  | .val x t => s!"V{x}={bytesStr t}"
  | .set x t ok => s!"S{x}={bytesStr t}{if ok then "+" else "!"}"
  | .unset x ok => s!"X{x}{if ok then "+" else "!"}"
  | .caught g k o => s!"C{g}.{k}:{showOutcome o}"

def mkCfg (ds : List Decl) : Cfg :=
  { kind := fun x => match ds[x]? with
      | some d => d.kind
      | none => .ord
    fails := fun x i => match ds[x]? with
      | some d => i < 32 && (d.mask >>> i) % 2 == 1
      | none => false }

def mkSt (ds : List Decl) : St :=
  { store := fun x => match ds[x]? with
      | some d => d.init
      | none => none
    cnt := fun _ => 0, next := 0, oof := false }

/-- The model's run of a program: `main` is block 0, made by `fn`; the fuel is
the nesting depth of the program + 1 (sufficient: `C21_driver_fuel_sufficient`). -/
def runModel (ds : List Decl) (body : List Stmt) : R :=
  callBlock (mkCfg ds) (depthL body + 1) ⟨0, body⟩ true (mkSt ds)

/-! Reading a log back (for `acc`) -/

def parseOutcome (s : String) : Option Outcome :=
  match s.splitOn ":" with
  | ["ok"] => some none
  | ["break"] => some (some .brk)
  | ["continue"] => some (some .cont)
  | ["return"] => some (some .ret)
  | ["elemerr"] => some (some .elemErr)
  | ["arity"] => some (some .arity)
  | ["fail", n] => n.toNat?.map fun n => some (.fail n)
  | ["setfail", n] => n.toNat?.map fun n => some (.setFail n)
  | ["restorefail", n] => n.toNat?.map fun n => some (.restoreFail n)
  | ["unsetfail", n] => n.toNat?.map fun n => some (.unsetFail n)
  | _ => none

def ofChars (cs : List Char) : String := String.ofList cs

def parseTwo (cs : List Char) : Option (Nat × Nat) :=
  match (ofChars cs).splitOn "." with
  | [g, k] => do
    let g ← g.toNat?
    let k ← k.toNat?
    pure (g, k)
  | _ => none

/-- `<x>=<text>` -/
def parseEq (cs : List Char) : Option (Nat × List Char) :=
  let x := cs.takeWhile (· ≠ '=')
  match cs.dropWhile (· ≠ '=') with
  | _ :: t => (ofChars x).toNat?.map (·, t)
  | [] => none

def parseOk : Char → Option Bool
  | '+' => some true
  | '!' => some false
  | _ => none

def parseSEv (t : String) : Option SEv :=
  match t.toList with
  | 'E' :: cs => (parseTwo cs).map fun p => .enter p.1 p.2
  | '@' :: cs => (parseTwo cs).map fun p => .at p.1 p.2
  | 'V' :: cs => (parseEq cs).map fun p => .val p.1 (strBytes (ofChars p.2))
  | 'S' :: cs => do
    let (x, t) ← parseEq cs
    let last ← t.getLast?
    let ok ← parseOk last
    pure (.set x (strBytes (ofChars t.dropLast)) ok)
  | 'X' :: cs => do
    let last ← cs.getLast?
    let ok ← parseOk last
    let x ← (ofChars cs.dropLast).toNat?
    pure (.unset x ok)
  | 'C' :: cs =>
    let gk := cs.takeWhile (· ≠ ':')
    match cs.dropWhile (· ≠ ':') with
    | _ :: o => do
      let (g, k) ← parseTwo gk
      let o ← parseOutcome (ofChars o)
      pure (.caught g k o)
    | [] => none
  | _ => none

def parseProg (decls toks : String) : Option (List Decl × List Stmt) :=
  match (decls.splitOn ",").mapM parseDecl with
  | none => none
  | some ds =>
    let ts := (toks.splitOn " ").filter (· ≠ "")
    let fuel := ts.length + 2
    match takeNat ts with
    | none => none
    | some (n, ts') =>
      match parseStmts fuel n ts' with
      | some (body, []) => if stmtsOk ds fuel body then some (ds, body) else none
      | _ => none

def stepLine : List String → String
  | ["run", decls, toks] =>
    match parseProg decls toks with
    | none => "bad-op"
    | some (ds, body) =>
      let r := runModel ds body
      if r.st.oof then "FUEL"
      else
        let fin := ",".intercalate ((List.range ds.length).map fun x => bytesStr (showSlot (r.st.store x)))
        let lg := if r.ev.isEmpty then "-" else " ".intercalate (r.ev.map fun e => showSEv e.toS)
        s!"{showOutcome r.out}|{fin}|{lg}"
  | ["acc", decls, toks, text] =>
    match parseProg decls toks with
    | none => "bad-op"
    | some (ds, body) =>
      match text.splitOn "|" with
      | [o, fin, lg] =>
        let evs := if lg = "-" then some [] else ((lg.splitOn " ").filter (· ≠ "")).mapM parseSEv
        match parseOutcome o, evs with
        | some out, some evs =>
          if accepts (mkCfg ds).kind (depthL body + 1) body (mkSt ds).store ds.length out
              ((fin.splitOn ",").map strBytes) evs then "accept" else "reject"
        | _, _ => "reject"
      | _ => "reject"
  | _ => "bad-op"

def driver : Driver := Driver.pure stepLine
end C21
