/-
C04: vocabulary of the theorems that the driver also evaluates — the library
hypothesis about strconv for the floats of a value (C05's `strconvOKAt` plus
"elvish's formatFloat64 of the two formats is made of number bytes"), checked
on every op with Go's actual outputs.
-/
import ElvModel.C04.Model
import ElvModel.C05.Spec

namespace C04
open Go C08

/-- bytes of number texts: digits, letters, `+ - . / _` (C05's number alphabet `isNumByte`) -/
def numByteOK (c : UInt8) : Bool :=
  (48 ≤ c && c ≤ 57) || (65 ≤ c && c ≤ 90) || (97 ≤ c && c ≤ 122) || c == 43 || c == 45 || c == 46 || c == 47 ||
    c == 95

/-- a non-empty text made of number bytes -/
def numTextOK (t : Bytes) : Bool := !t.isEmpty && t.all numByteOK

/-- the strconv hypothesis for one float, as a Boolean.  The second conjunct
follows from the first (`C04.floatHypOK_eq_strconv` in ElvProofs/C04/Num.lean:
whatever `ParseNum` accepts is written in the number alphabet), so this IS
C05's `strconvOKAt`; the driver still evaluates both. -/
def floatHypOK (L : Lib) (b : UInt64) : Bool :=
  C05.strconvOKAt L.fmt b.toNat && numTextOK (C05.formatFloat64 L.fmt b.toNat)

mutual
/-- the strconv hypothesis for every float inside a value -/
def floatsOK (L : Lib) : Val → Bool
  | .float b => floatHypOK L b
  | .list xs => floatsOKList L xs
  | .map _ kvs => floatsOKEntries L kvs
  | _ => true
def floatsOKList (L : Lib) : List Val → Bool
  | [] => true
  | x :: xs => floatsOK L x && floatsOKList L xs
def floatsOKEntries (L : Lib) : List (Val × Val) → Bool
  | [] => true
  | (k, v) :: kvs => floatsOK L k && floatsOK L v && floatsOKEntries L kvs
end

end C04
