import ElvModel.Go.Driver
import ElvModel.C08.Codec
import ElvModel.C09.Driver
import ElvModel.C04.Model
import ElvModel.C04.Spec
namespace C04
open Go C08 C09

def hex16 (n : Nat) : String :=
  String.ofList ((List.range 16).reverse.map fun i => hexDigit ((n / 16 ^ i) % 16))

mutual
/-- canonical text of a value: the op-line encoding of C08 with the entries of
every map sorted by the text of their keys (independent of any order). -/
def encVal : Val → String
  | .nil => "n"
  | .bool b => if b then "t" else "f"
  | .int i => s!"i{i}"
  | .bigint i => s!"I{i}"
  | .rat q => s!"r{q.num}/{q.den}"
  | .float b => "F" ++ hex16 b.toNat
  | .str s => "s" ++ hexEnc s
  | .list xs => String.intercalate "," (s!"L{xs.length}" :: encList xs)
  | .map fm kvs =>
    let es := ((encEntries kvs).map fun e => e.1 ++ "," ++ e.2).mergeSort fun a b => !(b < a)
    String.intercalate "," ((if fm then s!"S{kvs.length}" else s!"M{kvs.length}") :: es)
  | .ref k i => s!"P{k}.{i}"
def encList : List Val → List String
  | [] => []
  | x :: xs => encVal x :: encList xs
def encEntries : List (Val × Val) → List (String × String)
  | [] => []
  | (k, v) :: kvs => (encVal k, encVal v) :: encEntries kvs
end

/-- float table `bits:hexF:hexE;…` → the two strconv outputs by bit pattern -/
def parseFloats (s : String) : Option (List (Nat × Bytes × Bytes)) :=
  if s = "-" then some []
  else (s.splitOn ";").mapM fun item =>
    match item.splitOn ":" with
    | [b, f, e] => do
      let bits ← hexNat b.toList
      let sf ← hexDecode f
      let se ← hexDecode e
      pure (bits, sf, se)
    | _ => none

def lookupF (tbl : List (Nat × Bytes × Bytes)) (pick : Bytes × Bytes → Bytes) (bits : Nat) : Bytes :=
  match tbl.find? fun x => x.1 == bits with
  | some x => pick x.2
  | none => []

def parsePrints (s : String) : Option (List Int) :=
  if s = "-" then some []
  else (s.splitOn ",").mapM fun t => t.toNat?.map Int.ofNat

/-- `unicode.IsPrint` from the op line: ASCII by range, the rest from the list. -/
def isPrintOf (prints : List Int) (r : Int) : Bool :=
  if r < 128 then decide (32 ≤ r ∧ r ≤ 126) else prints.contains r

def parseIndent (s : String) : Option Int :=
  if s = "-" then some minInt else s.toInt?

/-- op `repr <ranks> <indent|-> <value> <floats> <prints>` →
`<hex Repr(v, indent)> <value of "put "+text, canonical | none>` -/
def stepLine : List String → String
  | ["repr", sr, si, sv, sf, sp] =>
    match parseRanks sr, parseIndent si, decodeVal sv, parseFloats sf, parsePrints sp with
    | some tbl, some indent, some v, some fl, some pr =>
      let L : Lib := { isPrint := isPrintOf pr,
                       fmt := ⟨lookupF fl (·.1), lookupF fl (·.2)⟩,
                       rank := rankOf tbl }
      let text := repr L true v indent
      let back := match evalLit L.isPrint text with
        | some w => encVal w
        | none => "none"
      -- the library hypothesis of the round-trip theorem, evaluated on Go's actual strconv outputs
      let hyp := if floatsOK L v then "h=ok" else "h=BAD"
      s!"{hexEnc text} {back} {hyp}"
    | _, _, _, _, _ => "bad-op"
  | _ => "bad-op"

def driver : Driver := Driver.pure stepLine
end C04
