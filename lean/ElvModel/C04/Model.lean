/-
C04 model: `vals.Repr` / `vals.ReprPlain` (pkg/eval/vals/repr.go), the list and
map builders (pkg/eval/vals/repr_helpers.go), `parse.Quote`
(pkg/parse/quote.go) and the evaluation of the printed text for the literal
fragment `$nil $true $false  string  (num LIT)  [list]  [&map]`.

Imported, not copied: the parser (C01), `ParseNum`/`ToString`/`formatFloat64`
(C05), values and `Equal` (C08), `CmpTotal` (C09).

Modelled code = the tree WITH fixes/C04-repr-map-tiebreak.patch: `reprMap`
sorts the entries by `CmpTotal` on the keys and breaks ties (keys that
`CmpTotal` calls equal: `(num 0)`/`(num 0.0)`, two different maps, …) by the
plain representation of the keys.  `fixed := false` is the unchanged tree
(ties stay in the iteration order of the hash map), kept for
`C04_counterexample`.

Go's `sort.Slice` is an insertion sort up to 12 elements (`isort` below, the
model's sort — stable); the theorems never use that: they are stated for ANY
permutation of the entries that is sorted by the comparator.

Library parameters (`Lib`): `unicode.IsPrint`, strconv's two shortest float
formats (by bit pattern, as in C05) and the address order of the Go type
descriptors (as in C09).
-/
import ElvModel.Go.Utf8
import ElvModel.C01.Model
import ElvModel.C05.Model
import ElvModel.C08.Model
import ElvModel.C09.Model

namespace C04
open Go C08 C09
open Gen.C01Chars

/-- The library functions the model is parameterised by. -/
structure Lib where
  /-- `unicode.IsPrint` (runes as in C01: `Int`). -/
  isPrint : Int → Bool
  /-- `strconv.FormatFloat(f, 'f', -1, 64)` / `(f, 'e', -1, 64)` by bit pattern. -/
  fmt : C05.Strconv
  /-- address order of the Go type descriptors (`typeOf` in cmp.go), by C09's type tag. -/
  rank : Nat → Nat

/-! ## parse.Quote -/

/-- `for _, r := range s`: `(rune, width, first byte)`; an invalid byte is
`(RuneError, 1, b)`.  Structural: `skip` counts the continuation bytes of the
rune just decoded. -/
def runeItems : Nat → Bytes → List (Rune × Nat × UInt8)
  | _, [] => []
  | 0, b :: rest =>
    let rn := decodeRune (b :: rest)
    (rn.1, rn.2, b) :: runeItems (rn.2 - 1) rest
  | k + 1, _ :: rest => runeItems k rest

/-- the `for` loop of `quoteAs`: `none` = "return quoteDouble(s)", `some bare`
= the loop ran to its end. -/
def quoteScan (isPrint : Int → Bool) : List (Rune × Nat × UInt8) → Bool → Option Bool
  | [], bare => some bare
  | (r, _, _) :: rest, bare =>
    if r == RuneError || !isPrint (r : Int) then none
    else quoteScan isPrint rest (bare && allowedInBareword isPrint (r : Int) strictExpr)

/-- `quoteSingle` -/
def quoteSingleBody : List (Rune × Nat × UInt8) → Bytes
  | [] => []
  | (r, _, _) :: rest =>
    (if r == 39 then encodeRune r ++ [39] else encodeRune r) ++ quoteSingleBody rest

def quoteSingle (s : Bytes) : Bytes := 39 :: (quoteSingleBody (runeItems 0 s) ++ [39])

/-- one hex digit of `rtohex` -/
def hexDigitByte (d : Nat) : UInt8 := if d ≤ 9 then UInt8.ofNat (48 + d) else UInt8.ofNat (97 + d - 10)

/-- `rtohex(r, w)` -/
def rtohex (r : Nat) : Nat → Bytes
  | 0 => []
  | w + 1 => rtohex (r / 16) w ++ [hexDigitByte (r % 16)]

/-- `doubleUnescape`: the inverse of `doubleEscape` (generated table of C01). -/
def doubleUnescape (r : Int) : Option Int :=
  (doubleEscape.find? fun kv => kv.2 == r).map (·.1)

/-- what `quoteDouble` writes for one rune -/
def quoteDoubleItem (isPrint : Int → Bool) (it : Rune × Nat × UInt8) : Bytes :=
  let r := it.1
  if r == RuneError && it.2.1 == 1 then [92, 120] ++ rtohex it.2.2.toNat 2
  else
    match doubleUnescape (r : Int) with
    | some e => 92 :: C01.writeRune e
    | none =>
      if isPrint (r : Int) && r != RuneError then encodeRune r
      else if r ≤ 0x7f then [92, 120] ++ rtohex r 2
      else if r ≤ 0xffff then [92, 117] ++ rtohex r 4
      else [92, 85] ++ rtohex r 8

/-- `quoteDouble` -/
def quoteDouble (isPrint : Int → Bool) (s : Bytes) : Bytes :=
  34 :: ((runeItems 0 s).flatMap (quoteDoubleItem isPrint) ++ [34])

/-- `parse.Quote(s)` = `QuoteAs(s, Bareword)` = `quoteAs(s, Bareword, strictExpr)`. -/
def quote (isPrint : Int → Bool) (s : Bytes) : Bytes :=
  match s with
  | [] => [39, 39]
  | b :: _ =>
    match quoteScan isPrint (runeItems 0 s) (b != 126) with
    | none => quoteDouble isPrint s
    | some true => s
    | some false => quoteSingle s

/-! ## Builders (repr_helpers.go) -/

/-- `strings.Repeat(" ", n)`; only called with `n ≥ 0`. -/
def spaces (n : Int) : Bytes := List.replicate n.toNat 32

/-- `ListReprBuilder.WriteElem` on the buffer. -/
def writeElem (indent : Int) (buf v : Bytes) : Bytes :=
  let buf := if buf.length = 0 then buf ++ [91] else buf
  let buf :=
    if indent ≥ 0 then buf ++ (10 :: spaces (indent + 1))
    else if buf.length > 1 then buf ++ [32] else buf
  buf ++ v

/-- `ListReprBuilder.String` -/
def builderString (indent : Int) (buf : Bytes) : Bytes :=
  if buf.length = 0 then [91, 93]
  else (if indent ≥ 0 then buf ++ (10 :: spaces indent) else buf) ++ [93]

/-- `NewListReprBuilder(indent)`, `WriteElem` for each element, `String()`. -/
def listString (indent : Int) (elems : List Bytes) : Bytes :=
  builderString indent (elems.foldl (writeElem indent) [])

/-- the string `MapReprBuilder.WritePair(k, indent, v)` hands to `WriteElem` -/
def pairString (k : Bytes) (pindent : Int) (v : Bytes) : Bytes :=
  if pindent > 0 then [38] ++ k ++ [61, 9] ++ v else [38] ++ k ++ [61] ++ v

/-- `MapReprBuilder.String` -/
def mapBuilderString (indent : Int) (buf : Bytes) : Bytes :=
  let s := builderString indent buf
  if s == [91, 93] then [91, 38, 93] else s

/-! ## Sorting the entries (reprMap) -/

/-- One collected pair of `reprMap`: the key, its plain representation (the
tie-break), and the representations of key and value at their indents. -/
structure Entry where
  key : Val
  plain : Bytes
  k : Bytes
  v : Bytes

/-- The `less` function given to `sort.Slice`.  Fixed tree: `CmpTotal`, ties
by `ReprPlain` of the keys (Go string `<`); unchanged tree: `CmpTotal == CmpLess`. -/
def entryLess (rank : Nat → Nat) (fixed : Bool) (a b : Entry) : Bool :=
  match CmpTotal rank a.key b.key with
  | .less => true
  | .equal => fixed && bytesLt a.plain b.plain
  | _ => false

/-- inner loop of `insertionSortLessFunc`: the element moves left while it is
less than its left neighbour (`acc` is the sorted prefix, reversed). -/
def insRev {α} (lt : α → α → Bool) (x : α) : List α → List α
  | [] => [x]
  | y :: ys => if lt x y then y :: insRev lt x ys else x :: y :: ys

/-- `insertionSortLessFunc` (what `sort.Slice` runs for ≤ 12 elements). -/
def isort {α} (lt : α → α → Bool) (xs : List α) : List α :=
  (xs.foldl (fun acc x => insRev lt x acc) []).reverse

/-! ## Repr -/

/-- `math.MinInt` (64-bit): the indent of `ReprPlain`. -/
def minInt : Int := -9223372036854775808

def nameNil : Bytes := [110, 105, 108]            -- "nil"
def nameTrue : Bytes := [116, 114, 117, 101]      -- "true"
def nameFalse : Bytes := [102, 97, 108, 115, 101] -- "false"
/-- `$name` -/
def dollar (name : Bytes) : Bytes := 36 :: name

def cmdNum : Bytes := [110, 117, 109]   -- "num"
def cmdPut : Bytes := [112, 117, 116]   -- "put"

/-- `"(num " + s + ")"` -/
def numLit (s : Bytes) : Bytes := 40 :: (cmdNum ++ 32 :: (s ++ [41]))

mutual
/-- `vals.Repr(v, indent)`.  Entries of a map come in the iteration order of
the hash map.  Values outside the fragment (field maps, identity kinds) print
a placeholder. -/
def repr (L : Lib) (fixed : Bool) : Val → Int → Bytes
  | .nil, _ => dollar nameNil
  | .bool b, _ => if b then dollar nameTrue else dollar nameFalse
  | .str s, _ => quote L.isPrint s
  | .int i, _ => numLit (C05.intToDec i)                    -- strconv.Itoa
  | .bigint i, _ => numLit (C05.intToDec i)                 -- (*big.Int).String
  | .rat q, _ => numLit (C05.ratToString q)                 -- (*big.Rat).String
  | .float b, _ => numLit (C05.formatFloat64 L.fmt b.toNat)
  | .list xs, indent => listString indent (reprList L fixed xs (indent + 1))
  | .map false kvs, indent =>
    let es := isort (entryLess L.rank fixed) (reprEntries L fixed kvs indent)
    mapBuilderString indent
      ((es.map fun e => pairString e.k (indent + 2) e.v).foldl (writeElem indent) [])
  | .map true _, _ => [60, 102, 109, 62]   -- "<fm>"
  | .ref _ _, _ => [60, 114, 101, 102, 62]    -- "<ref>"
/-- `Repr(it.Elem(), indent+1)` for each element (the argument is already `indent+1`). -/
def reprList (L : Lib) (fixed : Bool) : List Val → Int → List Bytes
  | [], _ => []
  | x :: xs, i => repr L fixed x i :: reprList L fixed xs i
/-- the collected pairs of `reprMap(it, n, indent)` with everything the sort
and the printing loop compute from them. -/
def reprEntries (L : Lib) (fixed : Bool) : List (Val × Val) → Int → List Entry
  | [], _ => []
  | (k, v) :: kvs, indent =>
    { key := k, plain := repr L fixed k minInt, k := repr L fixed k (indent + 1),
      v := repr L fixed v (indent + 2) } :: reprEntries L fixed kvs indent
end

/-- `vals.ReprPlain` -/
def reprPlain (L : Lib) (fixed : Bool) (v : Val) : Bytes := repr L fixed v minInt

/-! ## Evaluating the printed text -/

/-- a number result of the `num` builtin as a value (`vals.FromGo` applied). -/
def numToVal (n : C05.Num) : Val :=
  match C05.fromGo n with
  | .int i => .int i
  | .big i => .bigint i
  | .rat q => .rat q
  | .float b => .float (UInt64.ofNat b)

/-- the map literal: `m = m.Assoc(k, v)` pair by pair. -/
def assocAll : List (Val × Val) → List (Val × Val) → List (Val × Val)
  | [], acc => acc
  | (k, v) :: rest, acc => assocAll rest (mapAssoc k v acc)

def allSep : List C01.Node → Bool
  | [] => true
  | n :: rest => (n.kind == .sep) && allSep rest


mutual
/-- The value of a node of the literal fragment (`none`: outside the fragment).
`Chunk`/`Pipeline`/`Form` nodes have a value when they are a single
`num LIT` or `put VALUE` command (what an output capture / the harness runs). -/
def evalNode : C01.Node → Option Val
  | .mk .compound _ _ _ _ cs => evalSingle cs        -- one Indexing, no tilde
  | .mk .indexing _ _ _ _ cs => evalSingle cs        -- head only, no indices
  | .mk .chunk _ _ _ _ cs => evalSingle cs           -- one pipeline
  | .mk .pipeline _ _ _ f cs => if f.flag then none else evalSingle cs   -- one form, not background
  | .mk .form _ _ _ _ cs =>
    match evalAll cs with
    | some [.str c, v] =>
      if c == cmdPut then some v
      else if c == cmdNum then
        match v with
        | .str s => (C05.parseNum s).map numToVal
        | _ => none
      else none
    | _ => none
  | .mk .primary _ _ _ f cs =>
    if f.ptype == Bareword || f.ptype == SingleQuoted || f.ptype == DoubleQuoted then some (.str f.value)
    else if f.ptype == Variable then
      if f.value == nameNil then some .nil
      else if f.value == nameTrue then some (.bool true)
      else if f.value == nameFalse then some (.bool false)
      else none
    else if f.ptype == OutputCapture then evalSingle cs
    else if f.ptype == ListPrimary then (evalAll cs).map .list
    else if f.ptype == MapPrimary then (evalPairs cs).map fun ps => .map false (assocAll ps [])
    else none
  | _ => none
/-- exactly one non-`Sep` child, evaluated -/
def evalSingle : List C01.Node → Option Val
  | [] => none
  | n :: rest =>
    if n.kind == .sep then evalSingle rest
    else if allSep rest then evalNode n else none
/-- every non-`Sep` child, evaluated -/
def evalAll : List C01.Node → Option (List Val)
  | [] => some []
  | n :: rest =>
    if n.kind == .sep then evalAll rest
    else
      match evalNode n, evalAll rest with
      | some v, some vs => some (v :: vs)
      | _, _ => none
/-- every non-`Sep` child is a `MapPair` with a key and a value -/
def evalPairs : List C01.Node → Option (List (Val × Val))
  | [] => some []
  | .mk kind _ _ _ _ cs :: rest =>
    if kind == .sep then evalPairs rest
    else if kind == .mapPair then
      match evalAll cs, evalPairs rest with
      | some [k, v], some ps => some ((k, v) :: ps)
      | _, _ => none
    else none
end

/-- the text the harness evaluates: `put <repr>` -/
def putSrc (s : Bytes) : Bytes := cmdPut ++ 32 :: s

/-- Evaluate `put <text>` with the parser of C01: the value it outputs
(`none`: parse error, or the tree is outside the literal fragment). -/
def evalLit (isPrint : Int → Bool) (text : Bytes) : Option Val :=
  match C01.parse isPrint (putSrc text) with
  | .ok tree [] => evalNode tree
  | _ => none

/-! ## What the round trip returns -/

/-- float read back: a NaN comes back as the NaN of `strconv.ParseFloat`. -/
def canonFloat (b : UInt64) : UInt64 := if F64.isNaN b then UInt64.ofNat C05.nanBits else b

mutual
/-- The value `evalLit (repr v)` is proved to return: `v` with NaN payloads
normalised and the entries of every map in printed order (re-`Assoc`ed). -/
def canon (L : Lib) : Val → Val
  | .float b => .float (canonFloat b)
  | .list xs => .list (canonList L xs)
  | .map false kvs =>
    .map false (assocAll ((isort (fun a b => entryLess L.rank true a.1 b.1) (canonEntries L kvs)).map (·.2)) [])
  | v => v
def canonList (L : Lib) : List Val → List Val
  | [] => []
  | x :: xs => canon L x :: canonList L xs
/-- each entry with the `Entry` the sort looks at, and its canonical pair -/
def canonEntries (L : Lib) : List (Val × Val) → List (Entry × (Val × Val))
  | [] => []
  | (k, v) :: kvs =>
    ({ key := k, plain := repr L true k minInt, k := [], v := [] }, (canon L k, canon L v)) :: canonEntries L kvs
end

end C04
