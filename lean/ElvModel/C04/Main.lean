import ElvModel.C04.Driver
def main : IO Unit := C04.driver.main
