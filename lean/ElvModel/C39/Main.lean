import ElvModel.C39.Driver
def main : IO Unit := C39.driver.main
