import ElvModel.C39.Programs
/-
C39 — a CONCURRENT small-step semantics of the programs of Programs.lean
(round 2).

Programs.lean says what an evaluation does when it runs alone.  This file says
what happens when the goroutines of an op run at the same time on one Evaler:
every statement of the DSL is one or more atomic steps, the steps of different
goroutines — and of the branches of `peach` / `run-parallel` inside one
evaluation — interleave in any order.

Shared state.  Everything the programs share is additive: `Acc = Key → Nat`
counts, per key, what has happened so far:

  cnt c    the value of atomic counter c          (c39inc c k adds k)
  flg n    how often flag n has been set           (the flag is "set" iff ≠ 0)
  use i    how many `use` statements of module i have completed
  load i   how often the body of module i has been started
  fin i    how often the body of module i has finished
  out o    how many times value o has been output (by anybody; not observed)

and the module table is read off the counts: module i is INSTALLED iff it was
installed before the goroutines started (`World.pre`) or `load i ≠ 0`; it is
READY (`$m:x` has its value) iff `pre i` or `fin i ≠ 0`.

`use m` is the protocol of the code WITH fixes/C39-modules-map-lock.patch
(cf. UseProtocol.lean, here for all modules at once, with module bodies that
import other modules, also circularly):

  code (use m :: ss)   loadedModule(m)   hit  → continue with ss
                                          miss → `inst m ss`   (PrepareEval done)
  inst m ss            installModule(m)  = test-and-set under the lock:
                                          present → continue with ss   (lost)
                                          absent  → load m += 1, run the body,
                                                    then fin m += 1, then ss

`put $m:x` outputs `$nil` (`none`) when the module is installed but not ready
— the finding `module-partial-visible` is part of the model.
-/
namespace C39.Conc
open C39

/-- An output value; `none` is `$nil` (a module variable read too early). -/
abbrev Out := Option Nat

inductive Key where
  | cnt (c : Nat)
  | flg (n : Nat)
  | use (i : Nat)
  | load (i : Nat)
  | fin (i : Nat)
  | out (o : Out)
  deriving DecidableEq, Repr

abbrev Acc := Key → Nat

def single (k : Key) (v : Nat) : Acc := fun k' => if k' = k then v else 0
def zero : Acc := fun _ => 0

/-- The value of `$x` in module `i` (file modules 0..4 have 100+i, bundled 200+j). -/
def modX (i : Nat) : Nat := if i < nFileMods then 100 + i else 200 + (i - nFileMods)

/-- The world the goroutines run in: the module universe `0..N-1`, what a
module's code does (besides defining `$x`), and which modules were installed
(and ready) before the goroutines started. -/
structure World where
  N : Nat
  body : Nat → List Stmt
  pre : Nat → Bool

/-- The module a `use` statement imports. -/
def stmtUse : Stmt → Option Nat
  | .useF m => some m
  | .useB m => some (nFileMods + m)
  | _ => none

/-- The module whose `$x` a statement reads. -/
def stmtGet : Stmt → Option Nat
  | .getF m => some m
  | .getB m => some (nFileMods + m)
  | _ => none

/-- Effect of a statement on the goroutine's own variables (top level of a chunk). -/
def envS : Stmt → Env → Env
  | .var n k, e => e.set n k
  | .del n, e => e.del n
  | _, e => e

mutual
/-- STATIC effect of a statement: what it adds to the counts when it runs to the
end (module bodies not included: they are accounted where they are loaded). -/
def effS : Stmt → Env → Acc
  | .inc c k, _ => single (.cnt c) k
  | .flag n, _ => single (.flg n) 1
  | .out v, _ => single (.out (some v)) 1
  | .useF m, _ => single (.use m) 1
  | .useB m, _ => single (.use (nFileMods + m)) 1
  | .useStr, _ => zero
  | .getF m, _ => single (.out (some (modX m))) 1
  | .getB m, _ => single (.out (some (modX (nFileMods + m)))) 1
  | .var _ _, _ => zero
  | .ref n, e =>
    match e.get n with
    | some v => single (.out (some v)) 1
    | none => zero
  | .del _, _ => zero
  | .peach n body, e => fun k => n * effL body e k
  | .each n body, e => fun k => n * effL body e k
  | .par b1 b2, e => fun k => effL b1 e k + effL b2 e k
def effL : List Stmt → Env → Acc
  | [], _ => zero
  | s :: ss, e => fun k => effS s e k + effL ss (envS s e) k
end

/-- What loading module `i` adds in total: one load, one finish, its body. -/
def loadEff (w : World) (i : Nat) : Acc :=
  fun k => single (.load i) 1 k + single (.fin i) 1 k + effL (w.body i) [] k

def installed (w : World) (acc : Acc) (i : Nat) : Bool := w.pre i || acc (.load i) != 0
def ready (w : World) (acc : Acc) (i : Nat) : Bool := w.pre i || acc (.fin i) != 0

/-- What remains to be done by one evaluation (a tree: `peach` and
`run-parallel` fork, module bodies nest). -/
inductive Proc where
  /-- remaining statements and the variables in scope -/
  | code (ss : List Stmt) (e : Env)
  /-- `use i` missed the cache; about to call installModule, then `ss` -/
  | inst (i : Nat) (ss : List Stmt) (e : Env)
  /-- run `p` (children of a fork, a loop body, or the body of module `fin`), then `ss` -/
  | seq (p : Proc) (fin : Option Nat) (ss : List Stmt) (e : Env)
  /-- two branches running at the same time -/
  | par (a b : Proc)

def Proc.isDone : Proc → Bool
  | .code [] _ => true
  | .par a b => a.isDone && b.isDone
  | _ => false

/-- `n` copies of a body, in parallel. -/
def parN : Nat → List Stmt → Env → Proc
  | 0, _, e => .code [] e
  | n + 1, body, e => .par (.code body e) (parN n body e)

def finKey : Option Nat → Acc
  | some i => single (.fin i) 1
  | none => zero

/-- Static effect of what remains. -/
def rem : Proc → Acc
  | .code ss e => effL ss e
  | .inst i ss e => fun k => single (.use i) 1 k + effL ss e k
  | .seq p fin ss e => fun k => rem p k + finKey fin k + effL ss e k
  | .par a b => fun k => rem a k + rem b k

/-- The module installed by a step, if any. -/
def winEff (w : World) : Option Nat → Acc
  | some i => loadEff w i
  | none => zero

/-- One atomic step of an evaluation: `PStep w acc p d em win p'` — in shared
state `acc`, `p` becomes `p'`, adds `d` to the counts, outputs `em`, and
(`win = some i`) has installed module `i`. -/
inductive PStep (w : World) (acc : Acc) : Proc → Acc → List Out → Option Nat → Proc → Prop
  | inc (c k ss e) : PStep w acc (.code (.inc c k :: ss) e) (single (.cnt c) k) [] none (.code ss e)
  | flag (n ss e) : PStep w acc (.code (.flag n :: ss) e) (single (.flg n) 1) [] none (.code ss e)
  | out (v ss e) : PStep w acc (.code (.out v :: ss) e) (single (.out (some v)) 1) [some v] none (.code ss e)
  | useStr (ss e) : PStep w acc (.code (.useStr :: ss) e) zero [] none (.code ss e)
  | useHit (s i ss e) : stmtUse s = some i → installed w acc i = true →
      PStep w acc (.code (s :: ss) e) (single (.use i) 1) [] none (.code ss e)
  | useMiss (s i ss e) : stmtUse s = some i → installed w acc i = false →
      PStep w acc (.code (s :: ss) e) zero [] none (.inst i ss e)
  | instLost (i ss e) : installed w acc i = true →
      PStep w acc (.inst i ss e) (single (.use i) 1) [] none (.code ss e)
  | instWin (i ss e) : installed w acc i = false →
      PStep w acc (.inst i ss e) (fun k => single (.use i) 1 k + single (.load i) 1 k) [] (some i)
        (.seq (.code (w.body i) []) (some i) ss e)
  | get (s i ss e) : stmtGet s = some i →
      PStep w acc (.code (s :: ss) e)
        (single (.out (if ready w acc i then some (modX i) else none)) 1)
        [if ready w acc i then some (modX i) else none] none (.code ss e)
  | var (n k ss e) : PStep w acc (.code (.var n k :: ss) e) zero [] none (.code ss (e.set n k))
  | del (n ss e) : PStep w acc (.code (.del n :: ss) e) zero [] none (.code ss (e.del n))
  | refSome (n v ss e) : e.get n = some v →
      PStep w acc (.code (.ref n :: ss) e) (single (.out (some v)) 1) [some v] none (.code ss e)
  | refNone (n ss e) : e.get n = none → PStep w acc (.code (.ref n :: ss) e) zero [] none (.code ss e)
  | peach (n body ss e) : PStep w acc (.code (.peach n body :: ss) e) zero [] none (.seq (parN n body e) none ss e)
  | eachZero (body ss e) : PStep w acc (.code (.each 0 body :: ss) e) zero [] none (.code ss e)
  | eachSucc (n body ss e) : PStep w acc (.code (.each (n + 1) body :: ss) e) zero [] none
      (.seq (.code body e) none (.each n body :: ss) e)
  | parS (b1 b2 ss e) : PStep w acc (.code (.par b1 b2 :: ss) e) zero [] none
      (.seq (.par (.code b1 e) (.code b2 e)) none ss e)
  | seqIn (p d em win p' fin ss e) : PStep w acc p d em win p' →
      PStep w acc (.seq p fin ss e) d em win (.seq p' fin ss e)
  | seqOut (p fin ss e) : p.isDone = true → PStep w acc (.seq p fin ss e) (finKey fin) [] none (.code ss e)
  | parL (a d em win a' b) : PStep w acc a d em win a' → PStep w acc (.par a b) d em win (.par a' b)
  | parR (a b d em win b') : PStep w acc b d em win b' → PStep w acc (.par a b) d em win (.par a b')

/-! ### Goroutines: a list of API actions run one after the other -/

/-- The goroutine's variables after a chunk (only the top level declares). -/
def finalEnv : Proc → Env
  | .code ss e => ss.foldl (fun e s => envS s e) e
  | .inst _ ss e => ss.foldl (fun e s => envS s e) e
  | .seq _ _ ss e => ss.foldl (fun e s => envS s e) e
  | .par _ _ => []

/-- An evaluation in progress. -/
structure Cur where
  proc : Proc
  /-- `some e`: the goroutine's variables are `e` again afterwards (private namespace) -/
  restore : Option Env
  /-- `false`: compilation error, nothing runs -/
  ok : Bool

def Cur.nextEnv (c : Cur) : Env :=
  match c.restore with
  | some e => e
  | none => finalEnv c.proc

/-- How an API action starts, given the goroutine's variables. -/
def startOf (a : Action) (env : Env) : Cur :=
  match a with
  | .eval ss => if (runStmts ss env).valid then ⟨.code ss env, none, true⟩ else ⟨.code [] env, none, false⟩
  | .evalPriv ss => if (runStmts ss []).valid then ⟨.code ss [], some env, true⟩ else ⟨.code [] [], some env, false⟩
  | .call c k => ⟨.code [.inc c k] env, none, true⟩
  | .check _ => ⟨.code [] env, none, true⟩

/-- What an evaluation returned. -/
structure Result where
  ok : Bool
  outs : List Out
  deriving Repr

structure GState where
  env : Env
  cur : Option Cur
  outs : List Out
  results : List Result
  todo : List Action

def GState.init (as : List Action) : GState := ⟨[], none, [], [], as⟩

/-- One step of one goroutine: start the next action, one atomic step of the
evaluation in progress, or return from it. -/
inductive GStep (w : World) : Acc → GState → Acc → GState → Prop
  | start (acc : Acc) (g : GState) (a : Action) (as : List Action) :
      g.cur = none → g.todo = a :: as →
      GStep w acc g acc { g with cur := some (startOf a g.env), outs := [], todo := as }
  | run (acc : Acc) (g : GState) (c : Cur) (d : Acc) (em : List Out) (win : Option Nat) (p' : Proc) :
      g.cur = some c → PStep w acc c.proc d em win p' →
      GStep w acc g (fun k => acc k + d k) { g with cur := some { c with proc := p' }, outs := g.outs ++ em }
  | finish (acc : Acc) (g : GState) (c : Cur) :
      g.cur = some c → c.proc.isDone = true →
      GStep w acc g acc { env := c.nextEnv, cur := none, outs := [], results := g.results ++ [⟨c.ok, g.outs⟩], todo := g.todo }

structure Cfg where
  acc : Acc
  gs : List GState

/-- One step of the whole system: any goroutine moves. -/
inductive CStep (w : World) : Cfg → Cfg → Prop
  | mk (acc acc' : Acc) (l1 : List GState) (g g' : GState) (l2 : List GState) :
      GStep w acc g acc' g' → CStep w ⟨acc, l1 ++ g :: l2⟩ ⟨acc', l1 ++ g' :: l2⟩

/-- Any number of steps, any interleaving. -/
inductive Exec (w : World) : Cfg → Cfg → Prop
  | refl (c : Cfg) : Exec w c c
  | step (c c' c'' : Cfg) : Exec w c c' → CStep w c' c'' → Exec w c c''

def Cfg.init (acc : Acc) (prog : List (List Action)) : Cfg := ⟨acc, prog.map GState.init⟩

/-- Every goroutine has returned from its last action. -/
def Cfg.terminal (c : Cfg) : Prop := ∀ g ∈ c.gs, g.cur = none ∧ g.todo = []

/-- No evaluation is in progress. -/
def Cfg.quiet (c : Cfg) : Prop := ∀ g ∈ c.gs, g.cur = none

/-- SEQUENTIAL execution of one action: one goroutine starts its next action,
runs it to the end and returns, while nobody else does anything. -/
inductive RunTo (w : World) : Acc → GState → Acc → GState → Prop
  | one (acc g acc' g') : GStep w acc g acc' g' → RunTo w acc g acc' g'
  | more (acc g acc' g' acc'' g'') : RunTo w acc g acc' g' → GStep w acc' g' acc'' g'' → RunTo w acc g acc'' g''

inductive SeqStep (w : World) : Cfg → Cfg → Prop
  | mk (acc acc' : Acc) (l1 : List GState) (g g' : GState) (l2 : List GState) :
      (∀ h ∈ l1 ++ l2, h.cur = none) → g.cur = none → g'.cur = none →
      g'.results.length = g.results.length + 1 →
      RunTo w acc g acc' g' → SeqStep w ⟨acc, l1 ++ g :: l2⟩ ⟨acc', l1 ++ g' :: l2⟩

/-- The evaluations one after the other, in some order. -/
inductive SeqExec (w : World) : Cfg → Cfg → Prop
  | refl (c : Cfg) : SeqExec w c c
  | step (c c' c'' : Cfg) : SeqExec w c c' → SeqStep w c' c'' → SeqExec w c c''


/-! ### Comparing results -/

inductive Forall2 {α β : Type} (R : α → β → Prop) : List α → List β → Prop
  | nil : Forall2 R [] []
  | cons {a b l1 l2} : R a b → Forall2 R l1 l2 → Forall2 R (a :: l1) (b :: l2)

/-- Two configurations gave every evaluation of every goroutine the same
result: the same compilation verdict and the same outputs as multisets. -/
def SameResults (cA cB : Cfg) : Prop :=
  Forall2 (fun gA gB : GState =>
    Forall2 (fun rA rB : Result => rA.ok = rB.ok ∧ rA.outs.Perm rB.outs) gA.results gB.results) cA.gs cB.gs

/-! ### A deterministic scheduler and the sequential run (executable) -/

/-- The leftmost enabled step of an evaluation (`none`: it has finished). -/
def pnext (w : World) (acc : Acc) : Proc → Option (Acc × List Out × Option Nat × Proc)
  | .code [] _ => none
  | .code (s :: ss) e =>
    match s with
    | .inc c k => some (single (.cnt c) k, [], none, .code ss e)
    | .flag n => some (single (.flg n) 1, [], none, .code ss e)
    | .out v => some (single (.out (some v)) 1, [some v], none, .code ss e)
    | .useStr => some (zero, [], none, .code ss e)
    | .useF m =>
      if installed w acc m then some (single (.use m) 1, [], none, .code ss e)
      else some (zero, [], none, .inst m ss e)
    | .useB m =>
      if installed w acc (nFileMods + m) then some (single (.use (nFileMods + m)) 1, [], none, .code ss e)
      else some (zero, [], none, .inst (nFileMods + m) ss e)
    | .getF m =>
      some (single (.out (if ready w acc m then some (modX m) else none)) 1,
        [if ready w acc m then some (modX m) else none], none, .code ss e)
    | .getB m =>
      some (single (.out (if ready w acc (nFileMods + m) then some (modX (nFileMods + m)) else none)) 1,
        [if ready w acc (nFileMods + m) then some (modX (nFileMods + m)) else none], none, .code ss e)
    | .var n k => some (zero, [], none, .code ss (e.set n k))
    | .del n => some (zero, [], none, .code ss (e.del n))
    | .ref n =>
      match e.get n with
      | some v => some (single (.out (some v)) 1, [some v], none, .code ss e)
      | none => some (zero, [], none, .code ss e)
    | .peach n body => some (zero, [], none, .seq (parN n body e) none ss e)
    | .each 0 _ => some (zero, [], none, .code ss e)
    | .each (n + 1) body => some (zero, [], none, .seq (.code body e) none (.each n body :: ss) e)
    | .par b1 b2 => some (zero, [], none, .seq (.par (.code b1 e) (.code b2 e)) none ss e)
  | .inst i ss e =>
    if installed w acc i then some (single (.use i) 1, [], none, .code ss e)
    else some (fun k => single (.use i) 1 k + single (.load i) 1 k, [], some i,
      .seq (.code (w.body i) []) (some i) ss e)
  | .seq p fin ss e =>
    match pnext w acc p with
    | some (d, em, win, p') => some (d, em, win, .seq p' fin ss e)
    | none => some (finKey fin, [], none, .code ss e)
  | .par a b =>
    match pnext w acc a with
    | some (d, em, win, a') => some (d, em, win, .par a' b)
    | none =>
      match pnext w acc b with
      | some (d, em, win, b') => some (d, em, win, .par a b')
      | none => none

/-- Run an evaluation alone until it has finished (`none`: out of fuel). -/
def runProc (w : World) : Nat → Acc → Proc → List Out → Option (Acc × Proc × List Out)
  | 0, _, _, _ => none
  | f + 1, acc, p, outs =>
    match pnext w acc p with
    | none => some (acc, p, outs)
    | some (d, em, _, p') => runProc w f (fun k => acc k + d k) p' (outs ++ em)

/-- The goroutine's remaining actions, one after the other, alone. -/
def runActions (w : World) (fuel : Nat) : List Action → Acc → GState → Option (Acc × GState)
  | [], acc, g => some (acc, g)
  | a :: as, acc, g =>
    let c := startOf a g.env
    match runProc w fuel acc c.proc [] with
    | none => none
    | some (acc', p', outs) =>
      runActions w fuel as acc'
        { env := ({ c with proc := p' } : Cur).nextEnv, cur := none, outs := [],
          results := g.results ++ [⟨c.ok, outs⟩], todo := as }

/-- The goroutines one after the other: goroutine 0's actions, then goroutine 1's, … -/
def runGoroutines (w : World) (fuel : Nat) : List GState → Acc → List GState → Option Cfg
  | [], acc, done => some ⟨acc, done⟩
  | g :: rest, acc, done =>
    match runActions w fuel g.todo acc g with
    | none => none
    | some (acc', g') => runGoroutines w fuel rest acc' (done ++ [g'])

def serialRun (w : World) (fuel : Nat) (acc : Acc) (prog : List (List Action)) : Option Cfg :=
  runGoroutines w fuel (prog.map GState.init) acc []

/-! ### An executable scheduler for whole configurations -/

/-- The next step of one goroutine (leftmost enabled step of its evaluation). -/
def gnext (w : World) (acc : Acc) (g : GState) : Option (Acc × GState) :=
  match g.cur with
  | none =>
    match g.todo with
    | [] => none
    | a :: as => some (acc, { g with cur := some (startOf a g.env), outs := [], todo := as })
  | some c =>
    match pnext w acc c.proc with
    | some (d, em, _, p') =>
      some (fun k => acc k + d k, { g with cur := some { c with proc := p' }, outs := g.outs ++ em })
    | none =>
      some (acc, { env := c.nextEnv, cur := none, outs := [], results := g.results ++ [⟨c.ok, g.outs⟩], todo := g.todo })

/-- Goroutine `j` takes its next step (`none`: it has nothing to do). -/
def stepAt (w : World) (c : Cfg) (j : Nat) : Option Cfg :=
  match c.gs.drop j with
  | [] => none
  | g :: l2 =>
    match gnext w c.acc g with
    | none => none
    | some (acc', g') => some ⟨acc', c.gs.take j ++ g' :: l2⟩

/-- Run a schedule: which goroutine moves next (entries that cannot move are skipped). -/
def runSched (w : World) : List Nat → Cfg → Cfg
  | [], c => c
  | j :: js, c =>
    match stepAt w c j with
    | some c' => runSched w js c'
    | none => runSched w js c

/-- What was observed of a configuration: counters, flags (set or not), load
counts, and the results of every goroutine's evaluations. -/
def observe (c : Cfg) : List Nat × List Bool × List Nat × List (List (Bool × List Out)) :=
  ((List.range nCounters).map (fun i => c.acc (.cnt i)),
   (List.range nFlags).map (fun i => c.acc (.flg i) != 0),
   (List.range nMods).map (fun i => c.acc (.load i)),
   c.gs.map (fun g => g.results.map (fun r => (r.ok, r.outs))))

def Cfg.isTerminal (c : Cfg) : Bool := c.gs.all (fun g => g.cur.isNone && g.todo.isEmpty)

/-! ### The program class (a decidable syntactic predicate) -/

mutual
/-- `okS w b s`: the statement is in the class.  `b` = inside a module body.
Imports name modules of the universe; `$m:x` is only read from modules that
were loaded before the goroutines started (otherwise: finding
module-partial-visible); module bodies produce no output. -/
def okS (w : World) (b : Bool) : Stmt → Bool
  | .out _ => !b
  | .ref _ => !b
  | .useF m => decide (m < w.N)
  | .useB m => decide (nFileMods + m < w.N)
  | .getF m => !b && w.pre m
  | .getB m => !b && w.pre (nFileMods + m)
  | .peach _ body => okL w b body
  | .each _ body => okL w b body
  | .par b1 b2 => okL w b b1 && okL w b b2
  | .inc _ _ => true
  | .flag _ => true
  | .useStr => true
  | .var _ _ => true
  | .del _ => true
def okL (w : World) (b : Bool) : List Stmt → Bool
  | [] => true
  | s :: ss => okS w b s && okL w b ss
end

def okAction (w : World) : Action → Bool
  | .eval ss => okL w false ss
  | .evalPriv ss => okL w false ss
  | .call _ _ => true
  | .check _ => true

/-- The class: every module body and every action of every goroutine is in it. -/
def inClass (w : World) (prog : List (List Action)) : Bool :=
  (List.range w.N).all (fun i => okL w true (w.body i)) &&
  prog.all (fun g => g.all (okAction w))

/-- The counts of the module table start at zero (what was loaded before is `pre`). -/
def Fresh (acc : Acc) : Prop := ∀ i, acc (.use i) = 0 ∧ acc (.load i) = 0 ∧ acc (.fin i) = 0

/-! ### The world of the harness (harness/c39/dsl.go) -/

/-- Module bodies: m1 imports m0; m2 and m3 import each other; m4 imports bm0;
bm1 imports m0 (indices: file modules 0..4, bundled 5..6). -/
def harnessBody : Nat → List Stmt
  | 1 => [.useF 0]
  | 2 => [.useF 3]
  | 3 => [.useF 2]
  | 4 => [.useB 0]
  | 6 => [.useF 0]
  | _ => []

def harnessWorld : World := ⟨nMods, harnessBody, fun _ => false⟩

end C39.Conc
