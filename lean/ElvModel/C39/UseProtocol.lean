/-
C39 — the protocol of `use` for ONE module key, as the code runs it WITH
fixes/C39-modules-map-lock.patch (pkg/eval/builtin_special.go use / useFromFile
/ evalModule, pkg/eval/eval.go loadedModule / installModule), for any number of
goroutines and any interleaving of their atomic steps:

  start     ns, ok := ev.loadedModule(key)        (under RLock)  hit → return ns
  prepared  fm.PrepareEval(…) made the goroutine's own fresh namespace;
            installed, fresh := ev.installModule(key, ns)   (under Lock)
            fresh → run the module body;  not fresh → return installed
  running   the body finished → return ns

`recheck = false` is the unchanged code (and mutation "installModule stores
blindly"): the second step stores without looking.  The module body is assumed
to succeed (no uninstall).
-/
namespace C39.Use

inductive Pc where
  | start
  | prepared
  | running (ns : Nat)
  | done (ns : Nat)
  deriving DecidableEq, Repr

structure State where
  installed : Option Nat   -- ev.modules[key]; namespaces are named by the goroutine that made them
  pcs : List Pc
  execs : Nat              -- how many times the module body was started
  deriving Repr

def init (n : Nat) : State := ⟨none, List.replicate n .start, 0⟩

/-- One atomic step of goroutine `g`. -/
def step (recheck : Bool) (s : State) (g : Nat) : State :=
  match s.pcs[g]? with
  | some .start =>
    match s.installed with
    | some ns => { s with pcs := s.pcs.set g (.done ns) }
    | none => { s with pcs := s.pcs.set g .prepared }
  | some .prepared =>
    match recheck, s.installed with
    | true, some ns => { s with pcs := s.pcs.set g (.done ns) }
    | _, _ => { installed := some g, pcs := s.pcs.set g (.running g), execs := s.execs + 1 }
  | some (.running ns) => { s with pcs := s.pcs.set g (.done ns) }
  | _ => s

/-- Run a schedule (which goroutine moves next). -/
def run (recheck : Bool) (s : State) (sched : List Nat) : State := sched.foldl (step recheck) s

end C39.Use
