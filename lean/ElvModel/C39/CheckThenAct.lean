/-
C39 — the second static obligation (round 2): CHECK-THEN-ACT on the module
table `Evaler.modules`.

The lockset obligation (Lockset.lean) is about single accesses; it cannot see
an atomicity violation: a lookup and the insertion that depends on it made in
two different critical sections (each correctly locked).  The extractor
(harness/c39/cta.go) lists every place where the table is written by key —
directly, or through a callee that stores without looking — with the lookup
that guards it and the critical sections of both.  `ctaCheck` is the
obligation: every such place in a function reachable from `use` is a
TEST-AND-SET — a direct write inside an exclusive critical section, guarded by
a direct lookup of the same key in the SAME section.

Second half: what the obligation buys.  Abstract executions for one key: any
number of goroutines lock/unlock the mutex, look the key up, insert and delete.
`step` is the semantics (mutual exclusion; a lookup returns what is there) plus
the claim the table makes for a test-and-set site: the write happens while the
goroutine holds the mutex, after a lookup IN THIS CRITICAL SECTION that
answered "absent" (for a delete: "present"), with no write of its own in
between.  Theorem (ElvProofs/C39.lean, `C39_check_then_act_once`): if
`ctaCheck` is good, no execution ever overwrites an installed entry, and there
is at most one insertion more than deletions.
-/
namespace C39

structure CtaSite where
  name : String
  del : Bool
  direct : Bool
  excl : Bool
  sec : Nat
  /-- the guarding lookup: site name, whether it is in the same function, its critical section -/
  guard : Option (String × Bool × Nat)
  reach : Bool
  init : Bool
  deriving Repr

/-- A test-and-set: direct write, exclusive section, direct lookup in the same section. -/
def CtaSite.atomic (s : CtaSite) : Bool :=
  s.direct && s.excl && s.sec != 0 &&
  match s.guard with
  | some (_, gd, gs) => gd && gs == s.sec
  | none => false

/-- The obligation applies to writes that can happen while goroutines share the Evaler. -/
def CtaSite.live (s : CtaSite) : Bool := s.reach && !s.init

inductive CtaVerdict where
  | tas
  | split (site : String)
  | blind (site : String)
  | noInsert
  deriving Repr, DecidableEq

def ctaCheck (tbl : List CtaSite) : CtaVerdict :=
  match tbl.find? (fun e => e.live && !e.atomic) with
  | some e => if e.guard.isSome then .split e.name else .blind e.name
  | none => if tbl.any (fun e => e.live && !e.del) then .tas else .noInsert

def CtaVerdict.show : CtaVerdict → String
  | .tas => "tas"
  | .split s => "split " ++ s
  | .blind s => "blind " ++ s
  | .noInsert => "no-insert"

/-! ### Executions -/

namespace Cta

inductive Ev where
  | lock (g : Nat)
  | unlock (g : Nat)
  /-- goroutine `g` evaluates `modules[k]` at lookup site `site` and finds / does not find an entry -/
  | look (g : Nat) (site : String) (found : Bool)
  /-- `modules[k] = v` at write site `site` -/
  | ins (g : Nat) (site : String)
  /-- `delete(modules, k)` at write site `site` -/
  | del (g : Nat) (site : String)
  deriving Repr, DecidableEq

structure State where
  holder : Option Nat
  present : Bool
  /-- the last lookup of the mutex holder in the current critical section, not yet followed by a write of its own -/
  armed : Option (String × Bool)
  inserts : Nat
  overwrites : Nat
  deletes : Nat
  deriving Repr, DecidableEq

def init : State := ⟨none, false, none, 0, 0, 0⟩

/-- Is the write `(del?, site)` by `g` in state `s` an instance of a table entry,
made the way the entry says? -/
def permitted (tbl : List CtaSite) (s : State) (g : Nat) (site : String) (del : Bool) : Bool :=
  match tbl.find? (fun e => e.name == site && e.del == del && e.direct && e.live) with
  | none => false
  | some e =>
    if e.atomic then
      s.holder == some g &&
      match e.guard, s.armed with
      | some (gn, _, _), some (an, found) => gn == an && found == del
      | _, _ => false
    else true

def step (tbl : List CtaSite) (s : State) : Ev → Option State
  | .lock g => if s.holder.isNone then some { s with holder := some g, armed := none } else none
  | .unlock g => if s.holder == some g then some { s with holder := none, armed := none } else none
  | .look g site found =>
    if found == s.present then
      some (if s.holder == some g then { s with armed := some (site, found) } else s)
    else none
  | .ins g site =>
    if permitted tbl s g site false then
      some { s with present := true, inserts := s.inserts + 1,
                    overwrites := s.overwrites + (if s.present then 1 else 0),
                    armed := if s.holder == some g then none else s.armed }
    else none
  | .del g site =>
    if permitted tbl s g site true then
      some { s with present := false, deletes := s.deletes + (if s.present then 1 else 0),
                    armed := if s.holder == some g then none else s.armed }
    else none

/-- Run a trace; `none` = not a possible execution / not an execution the table describes. -/
def run (tbl : List CtaSite) : State → List Ev → Option State
  | s, [] => some s
  | s, e :: es =>
    match step tbl s e with
    | some s' => run tbl s' es
    | none => none

end Cta
end C39
