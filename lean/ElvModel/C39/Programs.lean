/-
C39 — sequential reference semantics of the programs the dynamic ops run.

The harness (harness/c39/dsl.go) generates, for each of the 2..8 goroutines
that share ONE Evaler, a list of API actions (Eval / Eval with a private
global namespace / Call / Check).  The programs only touch shared state through
commutative updates: atomic counters (`c39inc`), set-only flags, module
imports, and variables whose names are private to the goroutine.  This file
defines what such an action does when it runs ALONE (sequentially): its effect
on the shared state, on the goroutine's own variables, and its outputs.  The
driver prints the result of running all goroutines one after the other; the
theorems (ElvProofs/C39.lean) show that every other sequential order of the
evaluations gives the same result, so that comparing a concurrent run with
this one result compares it with every sequential order.
-/
namespace C39

/-- Statements (see harness/c39/dsl.go for the elvish text of each). -/
inductive Stmt where
  | inc (c k : Nat)        -- c39inc c k
  | flag (n : Nat)         -- set f<n> = $true
  | out (v : Nat)          -- put v
  | useF (m : Nat)         -- use m<m>
  | useB (m : Nat)         -- use bm<m>
  | useStr                 -- use str
  | getF (m : Nat)         -- put $m<m>:x
  | getB (m : Nat)         -- put $bm<m>:x
  | var (n k : Nat)        -- var g<G>_<n> = k
  | ref (n : Nat)          -- put $g<G>_<n>
  | del (n : Nat)          -- del g<G>_<n>
  | peach (n : Nat) (body : List Stmt)   -- range n | peach {|_| body }
  | each (n : Nat) (body : List Stmt)    -- range n | each {|_| body }
  | par (b1 b2 : List Stmt)              -- run-parallel { b1 } { b2 }
  deriving Repr

inductive Action where
  | eval (ss : List Stmt)       -- ev.Eval, shared global namespace
  | evalPriv (ss : List Stmt)   -- ev.Eval with EvalCfg.Global = a fresh namespace
  | call (c k : Nat)            -- ev.Call of $bump~ c k
  | check (n : Nat)             -- ev.Check of source n
  deriving Repr

/-- The shared state (and, equally, an effect on it): counters, flags, loaded modules. -/
structure Shared where
  cnt : Nat → Nat
  flags : Nat → Bool
  mods : Nat → Bool

def Shared.zero : Shared := ⟨fun _ => 0, fun _ => false, fun _ => false⟩

/-- Combine two effects (all three components are commutative monoids). -/
def Shared.add (a b : Shared) : Shared :=
  ⟨fun c => a.cnt c + b.cnt c, fun n => a.flags n || b.flags n, fun n => a.mods n || b.mods n⟩

/-- The effect of running something `n` times. -/
def Shared.scale (n : Nat) (a : Shared) : Shared :=
  ⟨fun c => n * a.cnt c, fun k => n != 0 && a.flags k, fun k => n != 0 && a.mods k⟩

def nFileMods : Nat := 5

/-- Modules (by load-counter index: file modules 0..4, bundled 5..6) that end up
loaded when module `idx` is imported: m1 imports m0, m2 and m3 import each
other, m4 imports bm0, bm1 imports m0. -/
def importClosure : Nat → List Nat
  | 0 => [0]
  | 1 => [1, 0]
  | 2 => [2, 3]
  | 3 => [3, 2]
  | 4 => [4, 5]
  | 5 => [5]
  | 6 => [6, 0]
  | _ => []

def Shared.ofMods (ms : List Nat) : Shared := ⟨fun _ => 0, fun _ => false, fun n => ms.contains n⟩
def Shared.ofInc (c k : Nat) : Shared := ⟨fun c' => if c' = c then k else 0, fun _ => false, fun _ => false⟩
def Shared.ofFlag (n : Nat) : Shared := ⟨fun _ => 0, fun n' => n' == n, fun _ => false⟩

/-- The goroutine's own variables (name number ↦ value). -/
abbrev Env := List (Nat × Nat)

def Env.get (e : Env) (n : Nat) : Option Nat := (e.find? (fun p => p.1 == n)).map (·.2)
def Env.set (e : Env) (n k : Nat) : Env := (n, k) :: e.filter (fun p => p.1 != n)
def Env.del (e : Env) (n : Nat) : Env := e.filter (fun p => p.1 != n)

/-- Result of running statements: effect on the shared state, new private
variables, outputs (as a list; compared as a multiset), and whether the code
is valid (an undefined private variable is a compilation error: nothing runs). -/
structure Res where
  sh : Shared
  env : Env
  outs : List Nat
  valid : Bool

mutual
/-- One statement. -/
def runStmt : Stmt → Env → Res
  | .inc c k, e => ⟨Shared.ofInc c k, e, [], true⟩
  | .flag n, e => ⟨Shared.ofFlag n, e, [], true⟩
  | .out v, e => ⟨Shared.zero, e, [v], true⟩
  | .useF m, e => ⟨Shared.ofMods (importClosure m), e, [], true⟩
  | .useB m, e => ⟨Shared.ofMods (importClosure (nFileMods + m)), e, [], true⟩
  | .useStr, e => ⟨Shared.zero, e, [], true⟩
  | .getF m, e => ⟨Shared.zero, e, [100 + m], true⟩
  | .getB m, e => ⟨Shared.zero, e, [200 + m], true⟩
  | .var n k, e => ⟨Shared.zero, e.set n k, [], true⟩
  | .ref n, e => match e.get n with
    | some v => ⟨Shared.zero, e, [v], true⟩
    | none => ⟨Shared.zero, e, [], false⟩
  | .del n, e => match e.get n with
    | some _ => ⟨Shared.zero, e.del n, [], true⟩
    | none => ⟨Shared.zero, e, [], false⟩
  | .peach n body, e =>
    let r := runStmts body e
    ⟨r.sh.scale n, e, (List.replicate n r.outs).flatten, r.valid⟩
  | .each n body, e =>
    let r := runStmts body e
    ⟨r.sh.scale n, e, (List.replicate n r.outs).flatten, r.valid⟩
  | .par b1 b2, e =>
    let r1 := runStmts b1 e
    let r2 := runStmts b2 e
    ⟨r1.sh.add r2.sh, e, r1.outs ++ r2.outs, r1.valid && r2.valid⟩
/-- A statement list, left to right. -/
def runStmts : List Stmt → Env → Res
  | [], e => ⟨Shared.zero, e, [], true⟩
  | s :: ss, e =>
    let r1 := runStmt s e
    let r2 := runStmts ss r1.env
    ⟨r1.sh.add r2.sh, r2.env, r1.outs ++ r2.outs, r1.valid && r2.valid⟩
end

/-- Insertion sort (outputs are compared as multisets). -/
def insertSorted (x : Nat) : List Nat → List Nat
  | [] => [x]
  | y :: ys => if x ≤ y then x :: y :: ys else y :: insertSorted x ys

def sortNat (l : List Nat) : List Nat := l.foldr insertSorted []

def showOuts (l : List Nat) : String :=
  match sortNat l with
  | [] => "-"
  | xs => " ".intercalate (xs.map toString)

/-- What ev.Check answers for check source `n` (harness/c39/dsl.go CheckSources). -/
def checkAnswer : Nat → String
  | 0 => "check"
  | 1 => "check+compile"
  | 2 => "check+parse"
  | 3 => "check+fix=use_re"
  | 4 => "check"
  | 5 => "check"
  | 6 => "check+fix=use_math"
  | _ => "check?"

/-- One action run alone: effect, new private variables, and the result string. -/
def runAction (a : Action) (e : Env) : Shared × Env × String :=
  match a with
  | .eval ss =>
    let r := runStmts ss e
    if r.valid then (r.sh, r.env, "ok:" ++ showOuts r.outs) else (Shared.zero, e, "compile-error:-")
  | .evalPriv ss =>
    let r := runStmts ss []
    if r.valid then (r.sh, e, "ok:" ++ showOuts r.outs) else (Shared.zero, e, "compile-error:-")
  | .call c k => (Shared.ofInc c k, e, "ok:-")
  | .check n => (Shared.zero, e, checkAnswer n ++ ":-")

/-- The effect of an action on the shared state does not depend on when it runs
relative to other goroutines, only on the goroutine's own earlier actions. -/
def runGoroutine : List Action → Env → Shared × List String
  | [], _ => (Shared.zero, [])
  | a :: as, e =>
    let (sh, e', r) := runAction a e
    let (sh', rs) := runGoroutine as e'
    (sh.add sh', r :: rs)

/-- The effects on the shared state of a goroutine's actions, in program order. -/
def goroutineEffects : List Action → Env → List Shared
  | [], _ => []
  | a :: as, e =>
    let (sh, e', _) := runAction a e
    sh :: goroutineEffects as e'

/-- The effects of all evaluations of an op (goroutine by goroutine). -/
def effects (gs : List (List Action)) : List Shared :=
  (gs.map (fun g => goroutineEffects g [])).flatten

/-- The shared state after applying effects one after the other, in the given order. -/
def applyAll (order : List Shared) : Shared := order.foldl Shared.add Shared.zero

/-- All goroutines, one after the other. -/
def runAll : List (List Action) → Shared × List (List String)
  | [] => (Shared.zero, [])
  | g :: gs =>
    let (sh, rs) := runGoroutine g []
    let (sh', rss) := runAll gs
    (sh.add sh', rs :: rss)

def nCounters : Nat := 4
def nFlags : Nat := 4
def nMods : Nat := 7

/-- The canonical result line of a dynamic op. -/
def showResult (gs : List (List Action)) : String :=
  let (sh, rss) := runAll gs
  "c=" ++ ",".intercalate ((List.range nCounters).map (fun c => toString (sh.cnt c))) ++
  " f=" ++ String.join ((List.range nFlags).map (fun n => if sh.flags n then "1" else "0")) ++
  " m=" ++ String.join ((List.range nMods).map (fun n => if sh.mods n then "1" else "0")) ++
  " e=" ++ "|".intercalate (rss.map (fun rs => ";".intercalate rs))

end C39
