import ElvModel.Go.Driver
import ElvModel.C39.Lockset
import ElvModel.C39.Programs
import ElvModel.C39.Concurrent
import ElvModel.C39.CheckThenAct
/-
C39 driver.  Ops:

  static <var> <cand,cand,…> <site> <site> …
      site = name|r or w|lock:W,lock:R,… or -|0 or 1 (construction site)
      → `immutable` | `lock <m>` | `unprotected <site name>`
      (the lockset obligation `checkVar` on the regenerated table of sites)

  cta <var> <entry> <entry> …
      entry = name|i or d|direct|excl|section|guard or -|guard direct|guard section|reachable from use|construction
      → `tas` | `split <entry name>` | `blind <entry name>` | `no-insert`
      (the check-then-act obligation `ctaCheck` on the regenerated table, CheckThenAct.lean)

  dyn <mode> <procs> <goroutine> <goroutine> …
      → the result of running the goroutines' actions sequentially
      (`showResult`), see Programs.lean for the program language.  The same
      programs are also run, goroutine by goroutine, on the CONCURRENT semantics
      (Concurrent.lean, `serialRun` in the world of the harness); the line is
      `MODEL-MISMATCH …` if the two sequential results differ (or `FUEL`).
-/
namespace C39
open Go

/-! ### static ops -/

def parseHeld (s : String) : List (String × Bool) :=
  if s == "-" then [] else
  (s.splitOn ",").filterMap fun p =>
    match p.splitOn ":" with
    | [l, "W"] => some (l, true)
    | [l, "R"] => some (l, false)
    | _ => none

def parseSite (x : String) (s : String) : Option (Site String String) :=
  match s.splitOn "|" with
  | [name, k, held, ini] =>
    if (k == "r" || k == "w") && (ini == "0" || ini == "1") then
      some { var := x, write := k == "w", held := parseHeld held, init := ini == "1", name := name }
    else none
  | _ => none

def staticLine (x cands : String) (sites : List String) : String :=
  match sites.mapM (parseSite x) with
  | none => "bad-op"
  | some tbl =>
    match checkVar tbl x (if cands == "-" then [] else cands.splitOn ",") with
    | .immutable => "immutable"
    | .lock m => "lock " ++ m
    | .unprotected site => "unprotected " ++ site

/-! ### dyn ops: parser of the program language -/

def pNum : List Char → Option (Nat × List Char)
  | c :: cs =>
    if c.isDigit then
      let rec go (acc : Nat) : List Char → Nat × List Char
        | d :: ds => if d.isDigit then go (acc * 10 + (d.toNat - 48)) ds else (acc, d :: ds)
        | [] => (acc, [])
      some (go (c.toNat - 48) cs)
    else none
  | [] => none

def pExpect (ch : Char) : List Char → Option (List Char)
  | c :: cs => if c == ch then some cs else none
  | [] => none

mutual
/-- One statement; `fuel` bounds the nesting (the input length suffices). -/
def pStmt : Nat → List Char → Option (Stmt × List Char)
  | 0, _ => none
  | fuel + 1, c :: cs =>
    match c with
    | 'i' => do
      let (a, r) ← pNum cs
      let r ← pExpect '.' r
      let (b, r) ← pNum r
      pure (.inc a b, r)
    | 'v' => do
      let (a, r) ← pNum cs
      let r ← pExpect '.' r
      let (b, r) ← pNum r
      pure (.var a b, r)
    | 'f' => do let (a, r) ← pNum cs; pure (.flag a, r)
    | 'o' => do let (a, r) ← pNum cs; pure (.out a, r)
    | 'u' => do let (a, r) ← pNum cs; pure (.useF a, r)
    | 'b' => do let (a, r) ← pNum cs; pure (.useB a, r)
    | 'g' => do let (a, r) ← pNum cs; pure (.getF a, r)
    | 'h' => do let (a, r) ← pNum cs; pure (.getB a, r)
    | 'r' => do let (a, r) ← pNum cs; pure (.ref a, r)
    | 'd' => do let (a, r) ← pNum cs; pure (.del a, r)
    | 's' => some (.useStr, cs)
    | 'P' => do
      let (n, r) ← pNum cs
      let r ← pExpect '[' r
      let (b, r) ← pStmts fuel r
      let r ← pExpect ']' r
      pure (.peach n b, r)
    | 'L' => do
      let (n, r) ← pNum cs
      let r ← pExpect '[' r
      let (b, r) ← pStmts fuel r
      let r ← pExpect ']' r
      pure (.each n b, r)
    | 'R' => do
      let r ← pExpect '[' cs
      let (b1, r) ← pStmts fuel r
      let r ← pExpect '|' r
      let (b2, r) ← pStmts fuel r
      let r ← pExpect ']' r
      pure (.par b1 b2, r)
    | _ => none
  | _ + 1, [] => none
/-- `stmt (',' stmt)*` -/
def pStmts : Nat → List Char → Option (List Stmt × List Char)
  | 0, _ => none
  | fuel + 1, cs => do
    let (s, r) ← pStmt fuel cs
    match r with
    | ',' :: r' => do
      let (ss, r'') ← pStmts fuel r'
      pure (s :: ss, r'')
    | _ => pure ([s], r)
end

def pAction (fuel : Nat) : List Char → Option (Action × List Char)
  | 'E' :: '(' :: cs => do
    let (ss, r) ← pStmts fuel cs
    let r ← pExpect ')' r
    pure (.eval ss, r)
  | 'Q' :: '(' :: cs => do
    let (ss, r) ← pStmts fuel cs
    let r ← pExpect ')' r
    pure (.evalPriv ss, r)
  | 'C' :: '(' :: cs => do
    let (a, r) ← pNum cs
    let r ← pExpect '.' r
    let (b, r) ← pNum r
    let r ← pExpect ')' r
    pure (.call a b, r)
  | 'K' :: '(' :: cs => do
    let (a, r) ← pNum cs
    let r ← pExpect ')' r
    pure (.check a, r)
  | _ => none

def pActions : Nat → List Char → Option (List Action)
  | 0, _ => none
  | fuel + 1, cs => do
    let (a, r) ← pAction (2 * cs.length + 2) cs
    match r with
    | [] => pure [a]
    | ';' :: r' => do
      let as ← pActions fuel r'
      pure (a :: as)
    | _ => none

def parseGoroutine (s : String) : Option (List Action) :=
  pActions (s.length + 1) s.toList

/-! ### cta ops -/

def parseCta (s : String) : Option CtaSite :=
  match s.splitOn "|" with
  | [name, k, direct, excl, sec, guard, gd, gs, reach, ini] =>
    match sec.toNat?, gs.toNat? with
    | some sec, some gs =>
      if k == "i" || k == "d" then
        some { name := name, del := k == "d", direct := direct == "1", excl := excl == "1", sec := sec,
               guard := if guard == "-" then none else some (guard, gd == "1", gs),
               reach := reach == "1", init := ini == "1" }
      else none
    | _, _ => none
  | _ => none

def ctaLine (entries : List String) : String :=
  match entries.mapM parseCta with
  | none => "bad-op"
  | some tbl => (ctaCheck tbl).show

/-! ### dyn ops: the sequential run of the concurrent semantics, in the same format -/

def concResult (a : Action) (r : Conc.Result) : String :=
  match a with
  | .check n => checkAnswer n ++ ":-"
  | _ =>
    if r.ok then
      "ok:" ++ showOuts (r.outs.map fun o => match o with | some v => v | none => 0)
    else "compile-error:-"

def zipResults : List Action → List Conc.Result → List String
  | a :: as, r :: rs => concResult a r :: zipResults as rs
  | _, _ => []

def concLine (progs : List (List Action)) : String :=
  match Conc.serialRun Conc.harnessWorld 100000 Conc.zero progs with
  | none => "FUEL"
  | some c =>
    "c=" ++ ",".intercalate ((List.range nCounters).map (fun i => toString (c.acc (.cnt i)))) ++
    " f=" ++ String.join ((List.range nFlags).map (fun n => if c.acc (.flg n) != 0 then "1" else "0")) ++
    " m=" ++ String.join ((List.range nMods).map (fun n => if c.acc (.load n) != 0 then "1" else "0")) ++
    " e=" ++ "|".intercalate ((List.zipWith (fun as (g : Conc.GState) => ";".intercalate (zipResults as g.results)) progs c.gs))

def dynLine (gs : List String) : String :=
  match gs.mapM parseGoroutine with
  | none => "bad-op"
  | some progs =>
    let a := showResult progs
    let b := concLine progs
    if a == b then a else "MODEL-MISMATCH seq=" ++ a ++ " conc=" ++ b

def stepLine : List String → String
  | "static" :: x :: cands :: sites => staticLine x cands sites
  | "cta" :: _x :: entries => ctaLine entries
  | "dyn" :: _mode :: _procs :: gs => dynLine gs
  | _ => "bad-op"

def driver : Driver := Driver.pure stepLine
end C39
