/-
C39 — lockset model.

Abstract executions of a program that uses mutexes (Go's sync.RWMutex), shared
variables and goroutines: a trace is the global sequence of events, each
labelled with the goroutine that performed it.  Goroutine 0 is the one that
constructs the shared object (the Evaler) and starts everything else.

  acq m / rel m    m.Lock()  / m.Unlock()
  racq m / rrel m  m.RLock() / m.RUnlock()
  rd x / wr x      a read / a write of shared variable x
  fork g / join g  `go` statement creating goroutine g / waiting for g to end

The happens-before order is the one of the Go memory model for these
primitives: program order; an Unlock is synchronised before every later Lock
or RLock of the same mutex; an RUnlock before every later Lock; `go` before
the goroutine's events; a goroutine's events before the join that waits for it.
A data race on x is a pair of accesses to x by different goroutines, at least
one a write, that is not ordered by happens-before.

The second half is the *decidable* lockset obligation evaluated on the table
of access sites that the extractor (harness/c39/extract.go) regenerates from
the Go source, and the notion "a trace conforms to a table".
-/
namespace C39

abbrev Tid := Nat

/-- Events; `L` is the type of mutex names, `V` the type of shared variables. -/
inductive Ev (L V : Type) where
  | acq (m : L) | rel (m : L) | racq (m : L) | rrel (m : L)
  | rd (x : V) | wr (x : V)
  | fork (g : Tid) | join (g : Tid)
  deriving DecidableEq, Repr

structure Step (L V : Type) where
  tid : Tid
  ev : Ev L V
  deriving DecidableEq, Repr

abbrev Trace (L V : Type) := List (Step L V)

section
variable {L V : Type} [DecidableEq L] [DecidableEq V]

def Ev.isFork : Ev L V → Bool
  | .fork _ => true
  | _ => false

/-- `e` reads or writes `x`. -/
def Ev.accesses (e : Ev L V) (x : V) : Prop := e = .rd x ∨ e = .wr x

instance (e : Ev L V) (x : V) : Decidable (e.accesses x) := by
  unfold Ev.accesses; exact inferInstance

def Ev.isWrite : Ev L V → Bool
  | .wr _ => true
  | _ => false

/-! ### Happens-before and races -/

/-- Happens-before between positions of a trace (Go memory model edges). -/
inductive HB (tr : Trace L V) : Nat → Nat → Prop where
  | po {i j : Nat} {s t : Step L V} : i < j → tr[i]? = some s → tr[j]? = some t → s.tid = t.tid → HB tr i j
  | unlockLock {i j : Nat} {m : L} {a b : Tid} : i < j → tr[i]? = some ⟨a, .rel m⟩ →
      tr[j]? = some ⟨b, .acq m⟩ → HB tr i j
  | unlockRLock {i j : Nat} {m : L} {a b : Tid} : i < j → tr[i]? = some ⟨a, .rel m⟩ →
      tr[j]? = some ⟨b, .racq m⟩ → HB tr i j
  | runlockLock {i j : Nat} {m : L} {a b : Tid} : i < j → tr[i]? = some ⟨a, .rrel m⟩ →
      tr[j]? = some ⟨b, .acq m⟩ → HB tr i j
  | forkE {i j : Nat} {a g : Tid} {e : Ev L V} : i < j → tr[i]? = some ⟨a, .fork g⟩ →
      tr[j]? = some ⟨g, e⟩ → HB tr i j
  | joinE {i j : Nat} {a g : Tid} {e : Ev L V} : i < j → tr[i]? = some ⟨g, e⟩ →
      tr[j]? = some ⟨a, .join g⟩ → HB tr i j
  | trans {i k j : Nat} : HB tr i k → HB tr k j → HB tr i j

/-- A data race on `x`: two accesses by different goroutines, at least one a
write, the earlier not happening before the later. -/
def Race (tr : Trace L V) (x : V) : Prop :=
  ∃ (i j : Nat) (s t : Step L V), i < j ∧ tr[i]? = some s ∧ tr[j]? = some t ∧ s.tid ≠ t.tid ∧
    s.ev.accesses x ∧ t.ev.accesses x ∧ (s.ev.isWrite = true ∨ t.ev.isWrite = true) ∧ ¬ HB tr i j

/-! ### Mutex state and well-formed traces -/

/-- State of one RWMutex: the writer holding it, and the goroutines holding it
for reading (a multiset: Go allows the same goroutine to RLock twice). -/
structure LS where
  w : Option Tid := none
  r : List Tid := []
  deriving DecidableEq, Repr

abbrev Locks (L : Type) := L → LS

def Locks.init : Locks L := fun _ => {}

/-- Effect of one step on the mutexes. -/
def stepLocks (σ : Locks L) (s : Step L V) : Locks L :=
  match s.ev with
  | .acq m => fun m' => if m' = m then { σ m with w := some s.tid } else σ m'
  | .rel m => fun m' => if m' = m then { σ m with w := none } else σ m'
  | .racq m => fun m' => if m' = m then { σ m with r := s.tid :: (σ m).r } else σ m'
  | .rrel m => fun m' => if m' = m then { σ m with r := (σ m).r.erase s.tid } else σ m'
  | _ => σ

/-- Mutex state before position `n` of the trace. -/
def stateAt (tr : Trace L V) (n : Nat) : Locks L :=
  (tr.take n).foldl stepLocks Locks.init

/-- A step is possible in a mutex state (Go semantics: Lock blocks while anyone
holds the mutex, RLock blocks while a writer holds it; the locking discipline
of the code releases only what the same goroutine acquired). -/
def enabled (σ : Locks L) (s : Step L V) : Prop :=
  match s.ev with
  | .acq m => (σ m).w = none ∧ (σ m).r = []
  | .racq m => (σ m).w = none
  | .rel m => (σ m).w = some s.tid
  | .rrel m => s.tid ∈ (σ m).r
  | _ => True

instance (σ : Locks L) (s : Step L V) : Decidable (enabled σ s) := by
  unfold enabled; split <;> exact inferInstance

/-- Every step of the trace is possible where it occurs. -/
def WF (tr : Trace L V) : Prop :=
  ∀ (i : Nat) (s : Step L V), tr[i]? = some s → enabled (stateAt tr i) s

/-- Goroutines other than 0 only run after a `go` statement created them. -/
def WFfork (tr : Trace L V) : Prop :=
  ∀ (j : Nat) (t : Step L V), tr[j]? = some t → t.tid ≠ 0 →
    ∃ (f : Nat) (p : Tid), f < j ∧ tr[f]? = some (⟨p, .fork t.tid⟩ : Step L V)

/-- Goroutine `t` holds `m` exclusively (between Lock and Unlock). -/
def holdsEx (σ : Locks L) (t : Tid) (m : L) : Prop := (σ m).w = some t
/-- Goroutine `t` holds `m` in some mode (Lock or RLock). -/
def holdsAny (σ : Locks L) (t : Tid) (m : L) : Prop := (σ m).w = some t ∨ t ∈ (σ m).r

instance (σ : Locks L) (t : Tid) (m : L) : Decidable (holdsEx σ t m) := by
  unfold holdsEx; exact inferInstance
instance (σ : Locks L) (t : Tid) (m : L) : Decidable (holdsAny σ t m) := by
  unfold holdsAny; exact inferInstance

/-- Position `i` lies in the construction phase: executed by goroutine 0 before
any goroutine has been created (the object is not shared yet). -/
def InitPhase (tr : Trace L V) (i : Nat) : Prop :=
  (∃ s : Step L V, tr[i]? = some s ∧ s.tid = 0) ∧
    ∀ (k : Nat) (s : Step L V), k < i → tr[k]? = some s → s.ev.isFork = false

/-! ### The table of access sites and the lockset obligation -/

/-- One access site of the source: which variable, read or write, the mutexes
lexically held there (with `true` = exclusively, by Lock), and whether the site
only runs while the object is being constructed. -/
structure Site (L V : Type) where
  var : V
  write : Bool
  held : List (L × Bool)
  init : Bool
  name : String := ""
  deriving Repr

/-- Does the site hold `m` in the mode its access needs (writes: exclusively;
reads: any mode)? -/
def Site.guardedBy (s : Site L V) (m : L) : Bool :=
  if s.write then s.held.any (fun p => p.1 = m ∧ p.2 = true)
  else s.held.any (fun p => p.1 = m)

/-- Sites of `x`. -/
def sitesOf (tbl : List (Site L V)) (x : V) : List (Site L V) := tbl.filter (fun s => s.var = x)

/-- `x` is consistently protected by `m`: every site that is not part of the
construction phase holds `m` in the right mode. -/
def protectedBy (tbl : List (Site L V)) (x : V) (m : L) : Bool :=
  (sitesOf tbl x).all (fun s => s.init || s.guardedBy m)

/-- `x` is immutable after publication: every write site belongs to the
construction phase. -/
def immutableAfterInit (tbl : List (Site L V)) (x : V) : Bool :=
  (sitesOf tbl x).all (fun s => !s.write || s.init)

/-- Verdict of the obligation for one variable. -/
inductive Verdict (L : Type) where
  | immutable
  | lock (m : L)
  | unprotected (site : String)
  deriving Repr, DecidableEq

/-- First site that `m` does not protect. -/
def firstBad (tbl : List (Site L V)) (x : V) (m : L) : Option (Site L V) :=
  (sitesOf tbl x).find? (fun s => !(s.init || s.guardedBy m))

/-- The lockset obligation `∃ m, every site of x holds m` (or x is immutable
after publication), as an executable function over candidate mutexes. -/
def checkVar (tbl : List (Site L V)) (x : V) (cands : List L) : Verdict L :=
  if immutableAfterInit tbl x then .immutable
  else match cands.find? (fun m => protectedBy tbl x m) with
    | some m => .lock m
    | none =>
      -- report the first site not protected by the best candidate (the first one)
      match cands with
      | [] => .unprotected "no-mutex"
      | m :: _ => match firstBad tbl x m with
        | some s => .unprotected s.name
        | none => .unprotected "?"

def Verdict.good : Verdict L → Bool
  | .unprotected _ => false
  | _ => true

/-- The trace is an execution of code whose accesses are all listed in the
table: every access event is an instance of a site of that variable and kind,
executed in the construction phase if the site is a construction site, and
otherwise with the site's mutexes really held (this is what the lexical
Lock/Unlock regions of the extractor claim). -/
def Conforms (tr : Trace L V) (tbl : List (Site L V)) : Prop :=
  ∀ (i : Nat) (s : Step L V) (x : V), tr[i]? = some s → s.ev.accesses x →
    ∃ site ∈ tbl, site.var = x ∧ site.write = s.ev.isWrite ∧
      (site.init = true → InitPhase tr i) ∧
      (site.init = false → ∀ p ∈ site.held,
        (p.2 = true → holdsEx (stateAt tr i) s.tid p.1) ∧ holdsAny (stateAt tr i) s.tid p.1)

end
end C39
