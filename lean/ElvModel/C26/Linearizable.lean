/-
C26 specification: linearizability (Herlihy & Wing) of a history of
invocation/response events with respect to a sequential specification
`step : σ → Op → σ × Out` started in `init`, and an EXECUTABLE checker
`isLinearization` that validates a proposed linearization order.

A history is the list of events in the order in which they happened (the
harness stamps every invocation and every response with a global atomic
counter and emits the events in stamp order).  Operations are named by a
number (`id`).  An operation that was invoked but has no response event is
*pending* (its caller crashed, is still waiting, or got a connection error and
does not know whether the operation took effect): a linearization may contain
it (with whatever result the specification gives) or leave it out.

`Linearizable step init h`: `h` is well formed and there is a sequential
witness `S : List (id × op × out)` that
  * names every operation at most once, only operations invoked in `h`, and
    every completed operation with the result the client saw,
  * is legal: running the operations of `S` one after the other on the
    specification yields exactly the results in `S`,
  * respects real time: if `a` returned before `b` was invoked and `b` is in
    `S`, then `a` occurs in `S` before `b`.

The checker replays a proposed order on the specification, compares the
results with the responses in the history, and checks the real-time condition
in one pass over the order (running maximum of invocation positions against
the response position of the next operation).  `ElvProofs/C26/Checker.lean`
proves `isLinearization step init h o = true → Linearizable step init h`.
-/
namespace C26

inductive Event (Op Out : Type) where
  | inv (id : Nat) (op : Op)
  | res (id : Nat) (out : Out)
  deriving Repr, DecidableEq

abbrev History (Op Out : Type) := List (Event Op Out)

variable {σ Op Out : Type}

/-- sequential execution of the specification -/
def runSeq (step : σ → Op → σ × Out) (s : σ) : List Op → σ × List Out
  | [] => (s, [])
  | op :: ops =>
    let (s', o) := step s op
    let (s'', os) := runSeq step s' ops
    (s'', o :: os)

def Event.invId? : Event Op Out → Option Nat
  | .inv id _ => some id
  | .res _ _ => none

def Event.resId? : Event Op Out → Option Nat
  | .inv _ _ => none
  | .res id _ => some id

/-- ids of the invocation events, in order -/
def invIds (h : History Op Out) : List Nat := h.filterMap Event.invId?
/-- ids of the response events, in order -/
def resIds (h : History Op Out) : List Nat := h.filterMap Event.resId?

/-- every operation is invoked at most once, answered at most once, and
answered only after it was invoked -/
structure WellFormed (h : History Op Out) : Prop where
  inv_unique : (invIds h).Nodup
  res_unique : (resIds h).Nodup
  res_after_inv : ∀ (i id : Nat) (out : Out), h[i]? = some (Event.res id out) → ∃ (j : Nat) (op : Op), j < i ∧ h[j]? = some (Event.inv id op)

/-- `a` returned before `b` was invoked (real-time precedence) -/
def Precedes (h : History Op Out) (a b : Nat) : Prop :=
  ∃ (i j : Nat) (out : Out) (op : Op), i < j ∧ h[i]? = some (Event.res a out) ∧ h[j]? = some (Event.inv b op)

/-- `S` is a linearization of `h` -/
structure Linearization (step : σ → Op → σ × Out) (init : σ) (h : History Op Out)
    (S : List (Nat × Op × Out)) : Prop where
  /-- an operation takes effect at most once -/
  nodup : (S.map (·.1)).Nodup
  /-- only invoked operations take effect, with the arguments they were invoked with -/
  invoked : ∀ x ∈ S, Event.inv x.1 x.2.1 ∈ h
  /-- every completed operation takes effect, with the result its caller saw -/
  complete : ∀ id out, Event.res id out ∈ h → ∃ op, (id, op, out) ∈ S
  /-- the sequential specification produces exactly these results -/
  legal : (runSeq step init (S.map (·.2.1))).2 = S.map (·.2.2)
  /-- real-time order is respected -/
  realtime : ∀ a b, Precedes h a b → ∀ l1 l2, S.map (·.1) = l1 ++ b :: l2 → a ∈ l1

def Linearizable (step : σ → Op → σ × Out) (init : σ) (h : History Op Out) : Prop :=
  WellFormed h ∧ ∃ S, Linearization step init h S

/-! ### the executable checker -/

/-- the arguments operation `id` was invoked with (first invocation event) -/
def opOf (h : History Op Out) (id : Nat) : Option Op :=
  h.findSome? fun
    | .inv i op => if i = id then some op else none
    | .res _ _ => none

def isInvOf (id : Nat) : Event Op Out → Bool
  | .inv i _ => i == id
  | .res _ _ => false

def isResOf (id : Nat) : Event Op Out → Bool
  | .inv _ _ => false
  | .res i _ => i == id

/-- position of the invocation of `id` -/
def invPos (h : History Op Out) (id : Nat) : Option Nat := h.findIdx? (isInvOf id)
/-- position of the response of `id` (`none`: pending) -/
def resPos (h : History Op Out) (id : Nat) : Option Nat := h.findIdx? (isResOf id)

/-- `res_after_inv`, scanning with the ids invoked so far -/
def resAfterInvB : List Nat → History Op Out → Bool
  | _, [] => true
  | seen, .inv id _ :: r => resAfterInvB (id :: seen) r
  | seen, .res id _ :: r => seen.contains id && resAfterInvB seen r

def nodupB : List Nat → Bool
  | [] => true
  | a :: l => !l.contains a && nodupB l

def wellFormedB (h : History Op Out) : Bool :=
  nodupB (invIds h) && nodupB (resIds h) && resAfterInvB [] h

/-- replay a proposed order on the specification: the sequential witness it denotes -/
def replay (step : σ → Op → σ × Out) (h : History Op Out) : σ → List Nat → Option (List (Nat × Op × Out))
  | _, [] => some []
  | s, id :: r =>
    match opOf h id with
    | none => none
    | some op =>
      let (s', o) := step s op
      match replay step h s' r with
      | none => none
      | some S => some ((id, op, o) :: S)

/-- every response of the history is reproduced by the witness -/
def completeB [DecidableEq Out] (h : History Op Out) (S : List (Nat × Op × Out)) : Bool :=
  h.all fun
    | .inv _ _ => true
    | .res id out => S.any fun x => x.1 == id && decide (x.2.2 = out)

/-- real time, one pass: `m` = 1 + the largest invocation position among the
operations already placed (0 if none); the next operation must not have
returned before that position. -/
def realtimeB (h : History Op Out) : Nat → List Nat → Bool
  | _, [] => true
  | m, id :: r =>
    match invPos h id with
    | none => false
    | some q =>
      (match resPos h id with
        | none => true
        | some p => decide (m ≤ p + 1)) && realtimeB h (max m (q + 1)) r

/-- Is `order` (operation ids in the proposed order of taking effect) a
linearization of `h`? -/
def isLinearization [DecidableEq Out] (step : σ → Op → σ × Out) (init : σ) (h : History Op Out)
    (order : List Nat) : Bool :=
  wellFormedB h && nodupB order &&
    match replay step h init order with
    | none => false
    | some S => completeB h S && realtimeB h 0 order

end C26
