import ElvModel.C26.Driver
def main : IO Unit := C26.driver.main
