/-
C26 driver.  One history per `reset`:

  reset <description>                       → ok
  inv <id> <client> <op> <args…>            → ok        invocation event
  res <id> <result…>                        → ok        response event
  fail <id> <class> <detail>                → ok        the call returned an RPC-level error: no response event (pending)
  hang <why> / setup-failed <why>           → echoed    (judged by the oracle)
  attack-nolin <class> <why>                → echoed    (reset-attack runs, outside the property's quantifier)
  lin <id,id,…>                             → ok | reject <why>
        the witness order found by the (untrusted) search of the harness,
        VALIDATED here by `C26.isLinearization` on `C26.seqStep` / a fresh store
  nolin <why>                               → no-witness
  tr <kind> <fields…>                       → ok        one entry of the protocol trace recorded by the hook
        (hooks/C26-daemon-trace.patch) in a traced run; kinds and fields: see `parseEntry`
  trend <n>                                 → trace-ok <n> | trace-reject <index> <why>
        the recorded trace VALIDATED by the acceptor `C26.acceptAll` (Trace.lean) against the
        LTS of Model.lean with the store of C24 as sequential specification (Version calls are
        operations without effect): every entry is an enabled step of the model and every
        reply is the one the specification gives at that point of the commit order

`why` after `reject` is a diagnostic computed outside the proved checker.
-/
import ElvModel.Go.Driver
import ElvModel.C26.Linearizable
import ElvModel.C26.Store
import ElvModel.C26.Trace
namespace C26
open Go

/-- operations / replies of a traced run: `none` is the Version call (no effect on the store) -/
abbrev TOp := Option Op
abbrev TOut := Option Out

def specV (s : C24.Store) : TOp → C24.Store × TOut
  | none => (s, none)
  | some o => let (s', r) := seqStep s o; (s', some r)

structure DState where
  /-- events, newest first -/
  rev : List (Event Op Out)
  bad : Bool
  /-- trace entries, newest first -/
  tr : List (Entry TOp TOut) := []
  trBad : Bool := false
  callOps : List (Nat × TOp) := []
  reqOps : List ((Nat × Nat) × TOp) := []

def parseHexList (s : String) : Option (List Bytes) :=
  if s = "-" then some [] else (s.splitOn ",").mapM hexDecode

def parseOp : List String → Option Op
  | ["add", h] => (hexDecode h).map fun t => .cmd (.add t)
  | ["del", n] => n.toInt?.map fun n => .cmd (.del n)
  | ["get", n] => n.toInt?.map fun n => .cmd (.get n)
  | ["list", a, b] => do
    let a ← a.toInt?
    let b ← b.toInt?
    pure (.cmd (.list a b))
  | ["next", a, h] => do
    let a ← a.toInt?
    let p ← hexDecode h
    pure (.cmd (.next a p))
  | ["prev", a, h] => do
    let a ← a.toInt?
    let p ← hexDecode h
    pure (.cmd (.prev a p))
  | ["nseq"] => some (.cmd .nseq)
  | ["adddir", h, bits] => do
    let d ← hexDecode h
    let b ← bits.toNat?
    pure (.addDir d b)
  | ["deldir", h] => (hexDecode h).map .delDir
  | ["dirs", bl] => (parseHexList bl).map .dirs
  | _ => none

def parseErr : List String → Option String
  | ["nomatch"] => some C24.errNoMatchingCmd
  | ["keyrequired"] => some "key required"
  | ["keytoolarge"] => some "key too large"
  | ["other", h] => (hexDecode h).bind fun b => String.fromUTF8? (ByteArray.mk b.toArray)
  | _ => none

def parseCmd (s : String) : Option C24.Cmd :=
  match s.splitOn ":" with
  | [n, h] => do
    let n ← n.toInt?
    let t ← hexDecode h
    pure { text := t, seq := n }
  | _ => none

def parseCmds (s : String) : Option (List C24.Cmd) :=
  if s = "-" then some [] else (s.splitOn ",").mapM parseCmd

def parseDir (s : String) : Option (Bytes × Option Rat) :=
  match s.splitOn ":" with
  | [p, b] => do
    let p ← hexDecode p
    let b ← b.toNat?
    pure (p, C24.F64.ofBits b)
  | _ => none

def parseDirs (s : String) : Option (List (Bytes × Option Rat)) :=
  if s = "-" then some [] else (s.splitOn ",").mapM parseDir

/-- the reply of operation `op`, as printed by the harness -/
def parseOut (op : Op) (f : List String) : Option Out :=
  match op, f with
  | .cmd (.add _), ["seq", n] => n.toInt?.map fun n => .cmd (.seq (.ok n))
  | .cmd (.add _), "err" :: e => (parseErr e).map fun e => .cmd (.seq (.exc e))
  | .cmd (.del _), ["unit"] => some (.cmd .unit)
  | .cmd (.get _), ["text", h] => (hexDecode h).map fun t => .cmd (.text (.ok t))
  | .cmd (.get _), "err" :: e => (parseErr e).map fun e => .cmd (.text (.exc e))
  | .cmd (.list _ _), ["cmds", l] => (parseCmds l).map fun l => .cmd (.cmds (.ok l))
  | .cmd (.list _ _), "err" :: e => (parseErr e).map fun e => .cmd (.cmds (.exc e))
  | .cmd (.next _ _), ["cmd", c] => (parseCmd c).map fun c => .cmd (.cmd (.ok c))
  | .cmd (.next _ _), "err" :: e => (parseErr e).map fun e => .cmd (.cmd (.exc e))
  | .cmd (.prev _ _), ["cmd", c] => (parseCmd c).map fun c => .cmd (.cmd (.ok c))
  | .cmd (.prev _ _), "err" :: e => (parseErr e).map fun e => .cmd (.cmd (.exc e))
  | .cmd .nseq, ["nseq", n] => n.toInt?.map fun n => .cmd (.nseq n)
  | .addDir _ _, ["ok"] => some (.err none)
  | .addDir _ _, "err" :: e => (parseErr e).map fun e => .err (some e)
  | .delDir _, ["ok"] => some (.err none)
  | .delDir _, "err" :: e => (parseErr e).map fun e => .err (some e)
  | .dirs _, ["dirs", l] => (parseDirs l).map .dirs
  | _, _ => none

def parseOrder (s : String) : Option (List Nat) :=
  if s = "-" then some [] else (s.splitOn ",").mapM String.toNat?

/-- diagnostic only (not the proved checker): why a witness is rejected -/
def whyRejected (h : History Op Out) (order : List Nat) : String :=
  if !wellFormedB h then "history-ill-formed"
  else if !nodupB order then "order-has-duplicates"
  else match replay seqStep h C24.Store.fresh order with
    | none => "order-names-an-operation-never-invoked"
    | some S =>
      if !completeB h S then
        let bad := h.filterMap fun
          | .inv _ _ => none
          | .res id out => if S.any fun x => x.1 == id && decide (x.2.2 = out) then none else some id
        s!"result-mismatch-or-missing ids={bad.take 5}"
      else if !realtimeB h 0 order then "real-time-order-violated"
      else "accepted"

def parseTOp : List String → Option TOp
  | ["version"] => some none
  | f => (parseOp f).map some

def parseTOut (op : TOp) (f : List String) : Option TOut :=
  match op, f with
  | none, ["version"] => some none
  | some o, f => (parseOut o f).map some
  | _, _ => none

def nat2 (a b : String) : Option (Nat × Nat) := do
  let a ← a.toNat?
  let b ← b.toNat?
  pure (a, b)

/-- one `tr` line → entry (and the tables needed to parse later replies) -/
def parseEntry (s : DState) : List String → Option (DState × Entry TOp TOut)
  | ["new", o] => o.toNat?.map fun o => (s, .newClient o)
  | "invoke" :: id :: o :: op => do
    let (id, o) ← nat2 id o
    let op ← parseTOp op
    pure ({ s with callOps := (id, op) :: s.callOps }, .invoke id o op)
  | ["dial", id, c] => (nat2 id c).map fun (id, c) => (s, .dial id c)
  | ["send", id, c, seq] => do
    let (id, c) ← nat2 id c
    let seq ← seq.toNat?
    pure (s, .send id c seq)
  | ["sendsd", id] => id.toNat?.map fun id => (s, .sendShutdown id)
  | ["giveup", id] => id.toNat?.map fun id => (s, .giveUp id)
  | "read" :: c :: seq :: op => do
    let (c, seq) ← nat2 c seq
    let op ← parseTOp op
    pure ({ s with reqOps := ((c, seq), op) :: s.reqOps }, .read c seq op)
  | "commit" :: c :: seq :: out => do
    let (c, seq) ← nat2 c seq
    let op ← (s.reqOps.find? (fun e => e.1 == (c, seq))).map (·.2)
    let out ← parseTOut op out
    pure (s, .commit c seq out)
  | ["lock", c, seq] => (nat2 c seq).map fun (c, q) => (s, .lock c q)
  | ["whdr", c, seq] => (nat2 c seq).map fun (c, q) => (s, .writeHdr c q)
  | ["wbody", c, seq] => (nat2 c seq).map fun (c, q) => (s, .writeBody c q)
  | ["recv", c, seq] => (nat2 c seq).map fun (c, q) => (s, .recv c q)
  | "ret" :: id :: out => do
    let id ← id.toNat?
    let op ← (s.callOps.find? (fun e => e.1 == id)).map (·.2)
    let out ← parseTOut op out
    pure (s, .ret id out)
  | ["reterr", id] => id.toNat?.map fun id => (s, .retErr id)
  | ["sclose", c] => c.toNat?.map fun c => (s, .serverClose c)
  | ["ieof", c] => c.toNat?.map fun c => (s, .inputEOF c)
  | ["ierr", c] => c.toNat?.map fun c => (s, .inputErr c)
  | _ => none

def trendLine (s : DState) (n : String) : String :=
  if s.trBad then "trace-reject - trace-has-bad-lines"
  else
    match acceptAll specV C24.Store.fresh s.tr.reverse with
    | .ok _ => "trace-ok " ++ n
    | .error (i, why) => s!"trace-reject {i} {why}"

def stepLine (s : DState) : List String → DState × String
  | ["reset", _] => (⟨[], false, [], false, [], []⟩, "ok")
  | "tr" :: f =>
    match parseEntry s f with
    | some (s', e) => ({ s' with tr := e :: s'.tr }, "ok")
    | none => ({ s with trBad := true }, "bad-op")
  | ["trend", n] => (s, trendLine s n)
  | "inv" :: id :: _client :: op =>
    match id.toNat?, parseOp op with
    | some id, some op => ({ s with rev := .inv id op :: s.rev }, "ok")
    | _, _ => ({ s with bad := true }, "bad-op")
  | "res" :: id :: out =>
    match id.toNat? with
    | some id =>
      match (opOf s.rev id).bind fun op => parseOut op out with
      | some o => ({ s with rev := .res id o :: s.rev }, "ok")
      | none => ({ s with bad := true }, "bad-op")
    | none => ({ s with bad := true }, "bad-op")
  | "fail" :: _ => (s, "ok")
  | ["hang", _] => (s, "hang")
  | ["setup-failed", _] => (s, "setup-failed")
  | "attack-nolin" :: _ => (s, "attack-nolin")
  | ["lin", o] =>
    match parseOrder o with
    | some order =>
      let h := s.rev.reverse
      if s.bad then (s, "reject history-has-bad-lines")
      else if isLinearization seqStep C24.Store.fresh h order then (s, "ok")
      else (s, "reject " ++ whyRejected h order)
    | none => (s, "bad-op")
  | ["nolin", _] => (s, "no-witness")
  | _ => ({ s with bad := true }, "bad-op")

def driver : Driver := { σ := DState, init := ⟨[], false, [], false, [], []⟩, step := stepLine }
end C26
