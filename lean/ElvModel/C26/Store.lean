/-
C26: the sequential specification the daemon's clients are checked against —
the store of C24 (`ElvModel/C24`: pkg/store/cmd.go and dir.go over a bbolt
bucket, proved there to refine a sequential log with unique, never reused
sequence numbers).  One service method of pkg/daemon/service.go = one store
operation; `seqStep` is that operation together with what the RPC reply
carries back to the client.

Directory scores use the exact binary64 instance `C24.ratOps` (the instance the
C24 driver is tied with): under a fixed order of operations every score is
determined, so the replay of a witness order must reproduce the scores the
clients saw bit for bit.
-/
import ElvModel.C24.Float
namespace C26
open Go

inductive Op where
  /-- AddCmd, DelCmd, Cmd, CmdsWithSeq, NextCmd, PrevCmd, NextCmdSeq -/
  | cmd (o : C24.Op)
  /-- AddDir(dir, incFactor) — the factor as the bits of the float64 -/
  | addDir (d : Bytes) (factorBits : Nat)
  | delDir (d : Bytes)
  | dirs (blacklist : List Bytes)
  deriving Repr, DecidableEq

inductive Out where
  | cmd (o : C24.Out)
  /-- AddDir / DelDir: the error, if any -/
  | err (e : Option String)
  | dirs (l : List (Bytes × Option Rat))
  deriving DecidableEq

/-- one service method on the store: new store and the reply -/
def seqStep (s : C24.Store) : Op → C24.Store × Out
  | .cmd o => let (s', r) := C24.step s o; (s', .cmd r)
  | .addDir d f => let (s', e) := C24.addDir C24.ratOps s d (C24.F64.ofBits f); (s', .err e)
  | .delDir d => (C24.delDir s d, .err none)
  | .dirs bl => (s, .dirs (C24.dirs C24.ratOps s bl))

end C26
