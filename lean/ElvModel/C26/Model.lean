/-
C26 model: the storage daemon and its clients as a labelled transition system
(interleaving semantics, one atomic step per label), generic in the sequential
specification `step : σ → Op → σ × Out` of the store.

What is modelled, function by function:

* pkg/daemon/client.go `client.call`: the retry loop (`retriesOnShutdown`
  attempts); `c.rpcClient == nil` ⇒ dial; `rpcClient.Call`; on
  `rpc.ErrShutdown` clear `c.rpcClient` and retry; any other error is returned.
  Call states: `ready k` (top of the loop, k attempts used), `waiting c k`
  (request written on connection `c`, blocked on `call.Done`), `got out`,
  `failed`, `returned`.
* pkg/rpc/client.go: `send` (refuses with `ErrShutdown` when the connection is
  `shutdown || closing`, BEFORE writing anything; otherwise registers the call
  and writes the request), `input` (reads response header then body and hands
  the body to the pending call named by the header's `Seq`; when reading fails
  every pending call fails — with `ErrShutdown` iff the error is `io.EOF` and
  the client had called `Close`, i.e. `closing`), `Close` (via
  `client.ResetConn`: sets `closing`, closes the connection).
* pkg/rpc/server.go: `ServeCodec` reads requests and spawns one goroutine per
  request (`service.call`): run the method, then `sendResponse`:
  `sending.Lock(); write header; write body; sending.Unlock()`.  Responses of
  one connection are serialised by that mutex; a response is two frames.
* pkg/daemon/service.go: each method is ONE store operation (one bbolt
  transaction, C24/C25): the `commit` step applies `step` atomically and
  records the reply.
* the environment: `serverClose c` (the daemon closes a connection: interrupt,
  exit, or the network drops it), `clientReset o` (another goroutine calls
  `ResetConn` on the client object).

Ghost state: `hist` — the history of invocation/response events as the
callers see it; `lin` — the operations in the order in which they committed,
with their replies.

Abstractions (each widens or keeps the set of behaviours relevant to the
property): `dial` checks `rpcClient == nil` and assigns it in one step (the Go
code has a benign race there between goroutines sharing a client: both may
dial, one connection wins, the other is orphaned but works); `read` may pick
any unread request of a connection (Go reads them in FIFO order); a failed call
returns without a response event (its caller does not know whether it took
effect: the operation stays pending in the history).
-/
import ElvModel.C26.Linearizable
namespace C26

/-- `retriesOnShutdown` (pkg/daemon/client.go) -/
def retries : Nat := 3

inductive CallPc (Out : Type) where
  | ready (attempt : Nat)
  | waiting (conn attempt : Nat)
  | got (out : Out)
  | failed
  | returned
  deriving Repr, DecidableEq

structure Call (Op Out : Type) where
  /-- the client object (`*daemon.client`) the call goes through -/
  obj : Nat
  op : Op
  pc : CallPc Out

inductive Phase (Out : Type) where
  /-- written by the client, not yet read by `ServeCodec` -/
  | inbox
  /-- `go service.call(…)` spawned, method not yet run -/
  | handling
  /-- method returned `out`; before `sending.Lock()` -/
  | committed (out : Out)
  /-- holds `sending` -/
  | locked (out : Out)
  /-- header written -/
  | hdrDone (out : Out)
  /-- body written, `sending` released (`out` kept as ghost) -/
  | finished (out : Out)
  deriving Repr, DecidableEq

def Phase.out? {Out : Type} : Phase Out → Option Out
  | .inbox => none
  | .handling => none
  | .committed o => some o
  | .locked o => some o
  | .hdrDone o => some o
  | .finished o => some o

/-- a request on the server side -/
structure SReq (Op Out : Type) where
  conn : Nat
  id : Nat
  op : Op
  phase : Phase Out

/-- what travels from server to client: a response is a header naming the call
(`Response.Seq`) followed by a body; the body itself carries no name (`id` in
`body` is ghost, for the invariant) -/
inductive Frame (Out : Type) where
  | hdr (id : Nat)
  | body (id : Nat) (out : Out)
  deriving Repr, DecidableEq

structure Conn (Out : Type) where
  /-- client object that dialled it -/
  obj : Nat
  /-- bytes written by the server, not yet consumed by the client's `input` loop -/
  stream : List (Frame Out)
  /-- holder of the `sending` mutex (index of the request) -/
  sending : Option Nat
  /-- the server side is closed: no more reads or writes by the server -/
  srvClosed : Bool
  /-- `rpc.Client.closing`: the client called `Close` -/
  closing : Bool
  /-- `rpc.Client.shutdown`: the client's `input` loop has terminated -/
  shutdown : Bool

structure State (σ Op Out : Type) where
  store : σ
  nCalls : Nat
  call : Nat → Option (Call Op Out)
  nObjs : Nat
  /-- `client.rpcClient` of each client object -/
  obj : Nat → Option Nat
  nConns : Nat
  conn : Nat → Conn Out
  nReqs : Nat
  req : Nat → Option (SReq Op Out)
  hist : History Op Out
  lin : List (Nat × Op × Out)

def Conn.fresh {Out : Type} (obj : Nat) : Conn Out :=
  { obj := obj, stream := [], sending := none, srvClosed := false, closing := false, shutdown := false }

def State.init {σ Op Out : Type} (s0 : σ) : State σ Op Out :=
  { store := s0, nCalls := 0, call := fun _ => none, nObjs := 0, obj := fun _ => none,
    nConns := 0, conn := fun _ => Conn.fresh 0, nReqs := 0, req := fun _ => none, hist := [], lin := [] }

inductive Label (Op : Type) where
  /-- `daemon.NewClient`: a client object without connection -/
  | newClient
  /-- a goroutine enters `client.call` on client object `obj` -/
  | invoke (obj : Nat) (op : Op)
  /-- the call finds `c.rpcClient == nil`, dials and stores the new client -/
  | dial (id : Nat)
  /-- `rpc.Client.send`: connection usable, request written -/
  | send (id : Nat)
  /-- `rpc.Client.send`: `shutdown || closing` ⇒ `ErrShutdown` before writing; `c.rpcClient = nil`, next attempt -/
  | sendShutdown (id : Nat)
  /-- the retry loop is exhausted: `ErrDaemonUnreachable` -/
  | giveUp (id : Nat)
  /-- `ServeCodec` reads request `r` and spawns its goroutine -/
  | read (r : Nat)
  /-- the service method runs: ONE atomic store operation -/
  | commit (r : Nat)
  | lock (r : Nat)
  | writeHdr (r : Nat)
  | writeBody (r : Nat)
  /-- the client's `input` loop reads one response (header, then body) -/
  | recv (c : Nat)
  /-- `client.call` returns the reply: response event -/
  | ret (id : Nat)
  /-- `client.call` returns an error: no response event -/
  | retErr (id : Nat)
  | serverClose (c : Nat)
  | clientReset (obj : Nat)
  /-- `input` sees EOF: pending calls fail — with `ErrShutdown` (retried) iff `closing` -/
  | inputEOF (c : Nat)
  /-- `input`'s read fails on a connection the client closed itself: pending calls fail with that error -/
  | inputErr (c : Nat)
  deriving Repr, DecidableEq

def upd {α : Type} (f : Nat → α) (i : Nat) (v : α) : Nat → α := fun j => if j = i then v else f j

variable {σ Op Out : Type}

def setPc (s : State σ Op Out) (id : Nat) (c : Call Op Out) (pc : CallPc Out) : State σ Op Out :=
  { s with call := upd s.call id (some { c with pc := pc }) }

def setPhase (s : State σ Op Out) (r : Nat) (q : SReq Op Out) (ph : Phase Out) : State σ Op Out :=
  { s with req := upd s.req r (some { q with phase := ph }) }

/-- all calls waiting on connection `c` get outcome `f attempt` -/
def failWaiting (call : Nat → Option (Call Op Out)) (c : Nat) (f : Nat → CallPc Out) : Nat → Option (Call Op Out) :=
  fun i => match call i with
    | some cl => (match cl.pc with
      | .waiting c' k => if c' = c then some { cl with pc := f k } else some cl
      | _ => some cl)
    | none => none

/-- a complete response (header and body) is waiting to be read -/
def hasResponse : List (Frame Out) → Bool
  | .hdr _ :: .body _ _ :: _ => true
  | _ => false

/-- The transition function: `none` = the label is not enabled. -/
def step (spec : σ → Op → σ × Out) (s : State σ Op Out) : Label Op → Option (State σ Op Out)
  | .newClient => some { s with nObjs := s.nObjs + 1, obj := upd s.obj s.nObjs none }
  | .invoke o op =>
    if o < s.nObjs then
      some { s with nCalls := s.nCalls + 1,
                    call := upd s.call s.nCalls (some { obj := o, op := op, pc := .ready 0 }),
                    hist := s.hist ++ [.inv s.nCalls op] }
    else none
  | .dial id =>
    match s.call id with
    | some c =>
      (match c.pc with
      | .ready k =>
        if k < retries ∧ s.obj c.obj = none then
          some { s with nConns := s.nConns + 1, conn := upd s.conn s.nConns (Conn.fresh c.obj),
                        obj := upd s.obj c.obj (some s.nConns) }
        else none
      | _ => none)
    | none => none
  | .send id =>
    match s.call id with
    | some c =>
      (match c.pc, s.obj c.obj with
      | .ready k, some cn =>
        if k < retries ∧ (s.conn cn).shutdown = false ∧ (s.conn cn).closing = false then
          some { setPc s id c (.waiting cn k) with
                 nReqs := s.nReqs + 1,
                 req := upd s.req s.nReqs (some { conn := cn, id := id, op := c.op, phase := .inbox }) }
        else none
      | _, _ => none)
    | none => none
  | .sendShutdown id =>
    match s.call id with
    | some c =>
      (match c.pc, s.obj c.obj with
      | .ready k, some cn =>
        if k < retries ∧ ((s.conn cn).shutdown = true ∨ (s.conn cn).closing = true) then
          some { setPc s id c (.ready (k + 1)) with obj := upd s.obj c.obj none }
        else none
      | _, _ => none)
    | none => none
  | .giveUp id =>
    match s.call id with
    | some c =>
      (match c.pc with
      | .ready k => if k ≥ retries then some (setPc s id c .failed) else none
      | _ => none)
    | none => none
  | .read r =>
    match s.req r with
    | some q =>
      (match q.phase with
      | .inbox => if (s.conn q.conn).srvClosed = false then some (setPhase s r q .handling) else none
      | _ => none)
    | none => none
  | .commit r =>
    match s.req r with
    | some q =>
      (match q.phase with
      | .handling =>
        let (st', out) := spec s.store q.op
        some { setPhase s r q (.committed out) with store := st', lin := s.lin ++ [(q.id, q.op, out)] }
      | _ => none)
    | none => none
  | .lock r =>
    match s.req r with
    | some q =>
      (match q.phase with
      | .committed out =>
        if (s.conn q.conn).sending = none then
          some { setPhase s r q (.locked out) with
                 conn := upd s.conn q.conn { s.conn q.conn with sending := some r } }
        else none
      | _ => none)
    | none => none
  | .writeHdr r =>
    match s.req r with
    | some q =>
      (match q.phase with
      | .locked out =>
        let cn := s.conn q.conn
        some { setPhase s r q (.hdrDone out) with
               conn := upd s.conn q.conn
                 (if cn.srvClosed then cn else { cn with stream := cn.stream ++ [.hdr q.id] }) }
      | _ => none)
    | none => none
  | .writeBody r =>
    match s.req r with
    | some q =>
      (match q.phase with
      | .hdrDone out =>
        let cn := s.conn q.conn
        some { setPhase s r q (.finished out) with
               conn := upd s.conn q.conn
                 (if cn.srvClosed then { cn with sending := none }
                  else { cn with stream := cn.stream ++ [.body q.id out], sending := none }) }
      | _ => none)
    | none => none
  | .recv c =>
    if c < s.nConns ∧ (s.conn c).shutdown = false then
      match (s.conn c).stream with
      | .hdr id :: .body _ out :: rest =>
        let s' := { s with conn := upd s.conn c { s.conn c with stream := rest } }
        -- `call := client.pending[seq]`: the reply goes to the call named by the HEADER
        (match s.call id with
        | some cl =>
          (match cl.pc with
          | .waiting c' _ => if c' = c then some (setPc s' id cl (.got out)) else some s'
          | _ => some s')
        | none => some s')
      | _ => none
    else none
  | .ret id =>
    match s.call id with
    | some c =>
      (match c.pc with
      | .got out => some { setPc s id c .returned with hist := s.hist ++ [.res id out] }
      | _ => none)
    | none => none
  | .retErr id =>
    match s.call id with
    | some c =>
      (match c.pc with
      | .failed => some (setPc s id c .returned)
      | _ => none)
    | none => none
  | .serverClose c =>
    if c < s.nConns then some { s with conn := upd s.conn c { s.conn c with srvClosed := true } } else none
  | .clientReset o =>
    match s.obj o with
    | some cn => some { s with conn := upd s.conn cn { s.conn cn with closing := true }, obj := upd s.obj o none }
    | none => none
  | .inputEOF c =>
    if c < s.nConns ∧ (s.conn c).shutdown = false ∧ (s.conn c).srvClosed = true ∧
        hasResponse (s.conn c).stream = false then
      let closing := (s.conn c).closing
      some { s with conn := upd s.conn c { s.conn c with shutdown := true },
                    call := failWaiting s.call c (fun k => if closing then .ready (k + 1) else .failed),
                    obj := if closing ∧ s.obj (s.conn c).obj = some c then upd s.obj (s.conn c).obj none else s.obj }
    else none
  | .inputErr c =>
    if c < s.nConns ∧ (s.conn c).shutdown = false ∧ (s.conn c).closing = true then
      some { s with conn := upd s.conn c { s.conn c with shutdown := true },
                    call := failWaiting s.call c (fun _ => .failed) }
    else none

/-- run a list of labels -/
def run (spec : σ → Op → σ × Out) (s : State σ Op Out) : List (Label Op) → Option (State σ Op Out)
  | [] => some s
  | l :: ls => (step spec s l).bind fun s' => run spec s' ls

/-- states reachable from the initial state using only labels allowed by `ok` -/
inductive Reachable (spec : σ → Op → σ × Out) (s0 : σ) (ok : Label Op → Prop) : State σ Op Out → Prop where
  | init : Reachable spec s0 ok (State.init s0)
  | step {s s' : State σ Op Out} {l : Label Op} : Reachable spec s0 ok s → ok l → step spec s l = some s' →
      Reachable spec s0 ok s'

/-- "no connection shutdown during the history" -/
def Label.noShutdown {Op : Type} : Label Op → Prop
  | .serverClose _ => False
  | .clientReset _ => False
  | _ => True

/-- connections may die, but nobody calls `ResetConn`/`Close` on a client in use -/
def Label.noReset {Op : Type} : Label Op → Prop
  | .clientReset _ => False
  | _ => True

end C26
