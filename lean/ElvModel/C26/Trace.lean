/-
C26 (round 2): TRACE REFINEMENT — the acceptor that validates a trace recorded
from the real daemon and its real clients against the LTS of Model.lean.

The hook (hooks/C26-daemon-trace.patch, `-tags verif`, files
pkg/rpc/trace_verif.go and pkg/daemon/trace_verif.go) appends one entry to a
global in-memory log at each of these points of the REAL code:

  newClient     daemon.NewClient
  invoke        entry of daemon.client.call                (op = method + request)
  dial          client.call: net.Dial succeeded, c.rpcClient assigned
  send          rpc.Client.send: call registered in `pending` (inside client.mutex,
                after the `shutdown || closing` test), before the request is written
  sendShutdown  rpc.Client.send: refused with ErrShutdown (inside client.mutex)
  giveUp        client.call: retries exhausted
  read          rpc.Server.ServeCodec: request read, before `go service.call`
  commit        rpc service.call: the service method has returned (= the store
                operation has been performed) — with the reply
  lock, writeHdr, writeBody
                rpc.Server.sendResponse: `sending` acquired, before WriteResponse
  recv          rpc.Client.input: response header and body read, before call.done()
  ret / retErr  client.call returns
  serverClose, inputEOF, inputErr   connection failure paths

Every entry is interpreted as exactly ONE label of the LTS (`Entry.label`), with
the identifiers the hook assigned: client objects, calls, connections in the
order of their `newClient` / `invoke` / `dial` entries (which is how the model
numbers them — checked), requests by (connection, rpc sequence number).  The
acceptor runs the model's `step` on that label and rejects the trace when the
label is not enabled, and it compares everything the real code reported with
what the model computes: the request the server read is the one the client
sent, the reply of the service method is the reply of the sequential
specification AT THAT POINT of the commit order, the response goes to the call
named by the header, the caller gets that reply.

`C26_acceptor_sound` (ElvProofs/C26.lean): an accepted trace is a run of the
LTS without `clientReset`, so all theorems about reachable states apply to it;
in particular the history of invocations and responses the hook recorded is
linearizable.
-/
import ElvModel.C26.Model
namespace C26

inductive Entry (Op Out : Type) where
  | newClient (o : Nat)
  | invoke (id o : Nat) (op : Op)
  | dial (id c : Nat)
  | send (id c seq : Nat)
  | sendShutdown (id : Nat)
  | giveUp (id : Nat)
  | read (c seq : Nat) (op : Op)
  | commit (c seq : Nat) (out : Out)
  | lock (c seq : Nat)
  | writeHdr (c seq : Nat)
  | writeBody (c seq : Nat)
  | recv (c seq : Nat)
  | ret (id : Nat) (out : Out)
  | retErr (id : Nat)
  | serverClose (c : Nat)
  | inputEOF (c : Nat)
  | inputErr (c : Nat)

/-- acceptor state: the model state and the table (connection, rpc sequence number) ↦ request -/
structure AState (σ Op Out : Type) where
  s : State σ Op Out
  reqOf : List ((Nat × Nat) × Nat)

def AState.init {σ Op Out : Type} (s0 : σ) : AState σ Op Out := ⟨State.init s0, []⟩

def lookupReq (m : List ((Nat × Nat) × Nat)) (c seq : Nat) : Option Nat :=
  (m.find? (fun e => e.1.1 == c && e.1.2 == seq)).map (·.2)

variable {σ Op Out : Type} [DecidableEq Op] [DecidableEq Out]

def reqLabel (a : AState σ Op Out) (c seq : Nat) (mk : Nat → Label Op) : Except String (Label Op) :=
  match lookupReq a.reqOf c seq with
  | none => .error "no request with this connection and sequence number was sent"
  | some r =>
    match a.s.req r with
    | some q => if q.conn = c then .ok (mk r) else .error "request table inconsistent"
    | none => .error "request table inconsistent"

/-- The label an entry stands for, after the checks that can be made before the step. -/
def Entry.label (a : AState σ Op Out) : Entry Op Out → Except String (Label Op)
  | .newClient o => if o = a.s.nObjs then .ok .newClient else .error "client objects are not numbered in trace order"
  | .invoke id o op => if id = a.s.nCalls then .ok (.invoke o op) else .error "calls are not numbered in trace order"
  | .dial id c => if c = a.s.nConns then .ok (.dial id) else .error "connections are not numbered in trace order"
  | .send id c seq =>
    match a.s.call id with
    | some cl =>
      if a.s.obj cl.obj = some c then
        if (lookupReq a.reqOf c seq).isNone then .ok (.send id)
        else .error "sequence number used twice on one connection"
      else .error "the request is sent on a connection that is not the client's current one"
    | none => .error "send by an unknown call"
  | .sendShutdown id => .ok (.sendShutdown id)
  | .giveUp id => .ok (.giveUp id)
  | .read c seq op =>
    match lookupReq a.reqOf c seq with
    | none => .error "the server read a request nobody sent"
    | some r =>
      match a.s.req r with
      | some q => if q.conn = c ∧ q.op = op then .ok (.read r) else .error "the server read a request that differs from the one sent"
      | none => .error "request table inconsistent"
  | .commit c seq _ => reqLabel a c seq .commit
  | .lock c seq => reqLabel a c seq .lock
  | .writeHdr c seq => reqLabel a c seq .writeHdr
  | .writeBody c seq => reqLabel a c seq .writeBody
  | .recv c seq =>
    match lookupReq a.reqOf c seq, (a.s.conn c).stream with
    | some r, .hdr id :: _ =>
      match a.s.req r with
      | some q => if q.id = id ∧ q.conn = c then .ok (.recv c) else .error "the response read is not the next one on the connection"
      | none => .error "request table inconsistent"
    | _, _ => .error "the client read a response that was not written"
  | .ret id out =>
    match a.s.call id with
    | some cl => if cl.pc = .got out then .ok (.ret id) else .error "the caller got a reply that is not the one delivered"
    | none => .error "return of an unknown call"
  | .retErr id => .ok (.retErr id)
  | .serverClose c => .ok (.serverClose c)
  | .inputEOF c => .ok (.inputEOF c)
  | .inputErr c => .ok (.inputErr c)

/-- Checks on the state after the step, and the new request table. -/
def Entry.post (a : AState σ Op Out) (s' : State σ Op Out) : Entry Op Out → Except String (List ((Nat × Nat) × Nat))
  | .send _ c seq => .ok (((c, seq), a.s.nReqs) :: a.reqOf)
  | .commit c seq out =>
    match lookupReq a.reqOf c seq with
    | some r =>
      match s'.req r with
      | some q => if q.phase = .committed out then .ok a.reqOf
                  else .error "the reply of the service method is not the reply of the sequential specification"
      | none => .error "request table inconsistent"
    | none => .error "request table inconsistent"
  | _ => .ok a.reqOf

/-- One entry. -/
def accept1 (spec : σ → Op → σ × Out) (a : AState σ Op Out) (e : Entry Op Out) : Except String (AState σ Op Out) :=
  match e.label a with
  | .error w => .error w
  | .ok l =>
    match step spec a.s l with
    | none => .error "the model cannot take this step here"
    | some s' =>
      match e.post a s' with
      | .error w => .error w
      | .ok m => .ok ⟨s', m⟩

/-- A whole trace; on rejection the index of the offending entry. -/
def acceptFrom (spec : σ → Op → σ × Out) : AState σ Op Out → Nat → List (Entry Op Out) → Except (Nat × String) (AState σ Op Out)
  | a, _, [] => .ok a
  | a, i, e :: es =>
    match accept1 spec a e with
    | .error w => .error (i, w)
    | .ok a' => acceptFrom spec a' (i + 1) es

def acceptAll (spec : σ → Op → σ × Out) (s0 : σ) (es : List (Entry Op Out)) : Except (Nat × String) (AState σ Op Out) :=
  acceptFrom spec (AState.init s0) 0 es

end C26
