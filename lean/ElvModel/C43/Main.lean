import ElvModel.C43.Driver
def main : IO Unit := C43.driver.main
