import ElvModel.Go.Driver
import ElvModel.C43.Model
namespace C43
open Go C01

/-! Line protocol.

op: `c <hex code> <dot> <printable> <vars> <homes> <dirs> <arggen> <names> <world>`
(`u` instead of `c`: the algorithm of the unchanged tree; `<world>` is for the implementation side only)

* printable  code points `r` (ASCII included) with `unicode.IsPrint(r)`, comma separated, `-` = none
* vars       `;`-separated `hexname=S:hexvalue` | `hexname=K:hexkey,hexkey…` | `hexname=K` ; `-` = none.
             A variable not listed purely evaluates to nil.
* homes      `;`-separated `hexuname=hexhome`; an uname not listed is an error
* dirs       `;`-separated `hexdir=E` | `hexdir=L` | `hexdir=L:entry,entry…`, entry = `hexname/flags`,
             flags ⊆ `dltxn` (isDir, isLink, linkDir, exec, info failed) or `.`
* arggen     `D` (default GenerateFileNames) | `L` | `L:item,item…`
* names      `-` | `item,item…`;  item = `P/hex` | `N/hex` | `C/hexstem/hexsuffix`

→ `OK <name> <from> <to> <hexinsert:hexshow,…|->` | `NOCOMP` | `PANIC` | `FUEL`
-/

def splitNE (s : String) (sep : String) : List String :=
  if s = "-" || s = "" then [] else s.splitOn sep

def parseIntList (s : String) : Option (List Int) :=
  if s = "-" then some [] else (s.splitOn ",").mapM String.toInt?

def parseItem (s : String) : Option Raw :=
  match s.splitOn "/" with
  | ["P", h] => (hexDecode h).map fun b => { stem := b }
  | ["N", h] => (hexDecode h).map fun b => { stem := b, noQuote := true }
  | ["C", h, x] => do
    let b ← hexDecode h
    let sfx ← hexDecode x
    pure { stem := b, suffix := sfx }
  | _ => none

def parseItems (s : String) : Option (List Raw) := (splitNE s ",").mapM parseItem

def parseVar (s : String) : Option (Bytes × PVal) :=
  match s.splitOn "=" with
  | [hn, v] => do
    let n ← hexDecode hn
    match v.splitOn ":" with
    | ["S", hv] => (hexDecode hv).map fun b => (n, PVal.str b)
    | ["K"] => some (n, PVal.keys [])
    | ["K", ks] => ((ks.splitOn ",").mapM hexDecode).map fun l => (n, PVal.keys l)
    | _ => none
  | _ => none

def parseHome (s : String) : Option (Bytes × Bytes) :=
  match s.splitOn "=" with
  | [hn, hv] => do
    let n ← hexDecode hn
    let v ← hexDecode hv
    pure (n, v)
  | _ => none

def parseEntry (s : String) : Option Entry :=
  match s.splitOn "/" with
  | [hn, fl] => (hexDecode hn).map fun n =>
    { name := n, infoOk := !fl.contains 'n', isDir := fl.contains 'd', isLink := fl.contains 'l',
      linkDir := fl.contains 't', exec := fl.contains 'x' }
  | _ => none

def parseDir (s : String) : Option (Bytes × Option (List Entry)) :=
  match s.splitOn "=" with
  | [hd, v] => do
    let d ← hexDecode hd
    match v.splitOn ":" with
    | ["E"] => some (d, none)
    | ["L"] => some (d, some [])
    | ["L", es] => ((es.splitOn ",").mapM parseEntry).map fun l => (d, some l)
    | _ => none
  | _ => none

def parseArgGen (s : String) : Option (Option (List Raw)) :=
  if s = "D" then some none
  else if s = "L" then some (some [])
  else match s.splitOn ":" with
    | ["L", is] => (parseItems is).map some
    | _ => none

def lookupB {α} (k : Bytes) : List (Bytes × α) → Option α
  | [] => none
  | (k', v) :: rest => if k == k' then some v else lookupB k rest

def showItems (l : List Item) : String :=
  if l.isEmpty then "-" else ",".intercalate (l.map fun it => hexEnc it.toInsert ++ ":" ++ hexEnc it.toShow)

def showOutcome : Outcome → String
  | .result r => s!"OK {r.name} {r.frm} {r.to} {showItems r.items}"
  | .noCompletion => "NOCOMP"
  | .panic _ => "PANIC"
  | .fuel => "FUEL"

def mkEnv (printable : List Int) (vars : List (Bytes × PVal)) (homes : List (Bytes × Bytes))
    (dirs : List (Bytes × Option (List Entry))) (ag : Option (List Raw)) (names : List Raw) : Env :=
  { isPrint := fun r => printable.contains r
    varVal := fun n => lookupB n vars
    home := fun u => lookupB u homes
    readDir := fun d => match lookupB d dirs with
      | some l => l
      | none => none
    argGen := ag
    names := names }

def stepLine : List String → String
  | [op, hcode, sdot, sprint, svars, shomes, sdirs, sag, snames, _world] =>
    match hexDecode hcode, sdot.toInt?, parseIntList sprint, (splitNE svars ";").mapM parseVar,
        (splitNE shomes ";").mapM parseHome, (splitNE sdirs ";").mapM parseDir, parseArgGen sag,
        parseItems snames with
    | some code, some dot, some printable, some vars, some homes, some dirs, some ag, some names =>
      let env := mkEnv printable vars homes dirs ag names
      if op = "c" then showOutcome (complete env code dot)
      else if op = "u" then showOutcome (completeUnfixed env code dot)
      else "bad-op"
    | _, _, _, _, _, _, _, _ => "bad-op"
  | _ => "bad-op"

def driver : Driver := Driver.pure stepLine
end C43
