/-
C43 model, part 2: the completion algorithm of `pkg/edit/complete`
(`complete.go`, `completers.go`, `generators.go`, `raw_item.go`,
`filterers.go`), `pkg/parse/np` (`find`, the matchers) and
`eval.PurelyEvalPartialCompound` / `PurelyEvalPrimary`, over the C01 parse tree.

What the interpreter and the operating system contribute is a parameter
(`Env`): `unicode.IsPrint`, the value `PurelyEvalPrimary` gives a variable,
`getHome`, the listing `os.ReadDir` + `Info` + `os.Stat` give a directory, the
candidates of a custom `ArgGenerator`, and the names the interpreter knows
(commands, variables) for the generators that enumerate namespaces.

This is the code AFTER fixes/C43-*.patch:
 * no completion when the insertion point (the end of a separator) lies in a
   comment or directly after a `^` that lacks its newline;
 * the quoting style handed to `Cook` is `Bareword` unless the leaf is a
   single- or double-quoted string (a `~` or `$x` leaf is not a quoting style);
 * `completeVariable` only handles variables written bare (`$` + name);
 * a closing `)` / `}` / `]` is not taken for the opening one (no command
   completion after `(…)`, no index completion after `[…]`), nor the `&` of a
   background pipeline for a `|`.
`completeUnfixed` is the algorithm of the unchanged tree (for the
counterexample theorems).
-/
import ElvModel.C43.Quote
namespace C43
open Go C01
open Gen.C01Chars

/-! ## Environment -/

/-- What `ev.PurelyEvalPrimary` returns for a variable, as far as completion
looks at it: a string, some other value (with the string keys
`vals.IterateKeys` yields, possibly none). `nil` is `Option.none`. -/
inductive PVal where
  | str (s : Bytes)
  | keys (ks : List Bytes)
  deriving Repr, Inhabited

/-- One `fs.DirEntry` of `os.ReadDir`, with the facts `generateFileNames` asks. -/
structure Entry where
  name : Bytes
  /-- `file.Info()` succeeded -/
  infoOk : Bool := true
  /-- `stat.IsDir()` of `file.Info()` -/
  isDir : Bool := false
  /-- `stat.Mode()&os.ModeSymlink != 0` -/
  isLink : Bool := false
  /-- `os.Stat(full)` succeeds and is a directory -/
  linkDir : Bool := false
  /-- `fsutil.IsExecutable(stat)` -/
  exec : Bool := false
  deriving Repr, Inhabited

/-- `RawItem`: `PlainItem s` = `⟨s, "", false⟩`, `ComplexItem{Stem, CodeSuffix}`,
`noQuoteItem s` = `⟨s, "", true⟩`. -/
structure Raw where
  stem : Bytes
  suffix : Bytes := []
  noQuote : Bool := false
  deriving Repr, Inhabited

/-- `modes.CompletionItem` (`ToShow` as plain text). -/
structure Item where
  toInsert : Bytes
  toShow : Bytes
  deriving Repr, Inhabited, DecidableEq

structure Env where
  isPrint : Int → Bool
  /-- `ev.PurelyEvalPrimary` on a `Variable` primary, by its `Value`. -/
  varVal : Bytes → Option PVal
  /-- `getHome(uname)`; `none` = error. -/
  home : Bytes → Option Bytes
  /-- `os.ReadDir(dir)` with the per-entry facts; `none` = error. -/
  readDir : Bytes → Option (List Entry)
  /-- `cfg.ArgGenerator`: `none` = the default `GenerateFileNames`, `some l` = a
  generator returning `l`. -/
  argGen : Option (List Raw)
  /-- what the namespace-enumerating generators (`generateCommands` without a
  path, `eachVariableInNs`, `set`/`tmp`/`del` arguments) produce here. -/
  names : List Raw

/-! ## `np.Find` -/

/-- A path from a leaf to the root; each node with its index among its
parent's children (pointer identity `form.Head == compound` is index `0`). -/
abbrev Path := List (Node × Nat)

mutual
/-- the `descend:` loop of `np.find` from node `n` (child number `i`), then the
walk back to the root. -/
def findN (p : Int) (preferLeft : Bool) (i : Nat) : Node → Option Path
  | .mk k a b t f cs =>
    match cs with
    | [] => some [(.mk k a b t f [], i)]
    | _ :: _ =>
      match findL p preferLeft 0 cs with
      | some path => some (path ++ [(.mk k a b t f cs, i)])
      | none => none
def findL (p : Int) (preferLeft : Bool) (i : Nat) : List Node → Option Path
  | [] => none
  | c :: rest =>
    if ((c.frm : Int) ≤ p && p < (c.to : Int)) || (preferLeft && p == (c.to : Int)) then
      findN p preferLeft i c
    else findL p preferLeft (i + 1) rest
end

/-- `np.FindLeft(root, p)` -/
def findLeft (root : Node) (p : Int) : Option Path := findN p true 0 root

/-! ## `eval.PurelyEval…` -/

/-- `in.Head` -/
def headOf (inn : Node) : Option Node := (inn.childrenOf .primary).head?

/-- `ev.PurelyEvalPrimary(pn)` -/
def purelyEvalPrimary (env : Env) (pn : Node) : Option PVal :=
  if pn.ptype == Bareword || pn.ptype == SingleQuoted || pn.ptype == DoubleQuoted then
    some (.str pn.value)
  else if pn.ptype == Variable then env.varVal pn.value
  else none

/-- `strings.Index(head, "/")`, or `len(head)`. -/
def slashIdx (s : Bytes) : Nat := (s.takeWhile (· != 47)).length

/-- the loop of `PurelyEvalPartialCompound`: `(tilde, head)` or failure; a
missing `Head` is a nil dereference. -/
def pepcLoop (env : Env) (upto : Int) : List Node → Bool → Bytes → Res (Option (Bool × Bytes))
  | [], t, h => .ok (some (t, h))
  | inn :: rest, t, h =>
    if (inn.childrenOf .array).length > 0 then .ok none
    else if upto ≥ 0 && (inn.to : Int) > upto then .ok (some (t, h))
    else
      match headOf inn with
      | none => .panic "nil pointer dereference"
      | some hd =>
        if hd.ptype == Tilde then pepcLoop env upto rest true h
        else if hd.ptype == Bareword || hd.ptype == SingleQuoted || hd.ptype == DoubleQuoted then
          pepcLoop env upto rest t (h ++ hd.value)
        else if hd.ptype == Variable then
          match purelyEvalPrimary env hd with
          | some (.str s) => pepcLoop env upto rest t (h ++ s)
          | _ => .ok none
        else .ok none

/-- `ev.PurelyEvalPartialCompound(cn, upto)` -/
def purelyEvalPartialCompound (env : Env) (cn : Node) (upto : Int) : Res (Option Bytes) :=
  match pepcLoop env upto (cn.childrenOf .indexing) false [] with
  | .ok (some (tilde, head)) =>
    if tilde then
      let i := slashIdx head
      match env.home (head.take i) with
      | some home => .ok (some (home ++ head.drop i))
      | none => .ok none
    else .ok (some head)
  | .ok none => .ok none
  | .exc e => .exc e
  | .panic w => .panic w

/-! ## Generators -/

def dotfile (s : Bytes) : Bool := s.head? == some 46

/-- `filepath.Split` (Unix): up to and including the last `/`, and the rest. -/
def splitPath (p : Bytes) : Bytes × Bytes :=
  let file := (p.reverse.takeWhile (· != 47)).reverse
  (p.take (p.length - file.length), file)

/-- does the entry get the `/` suffix: a directory, or a symlink to one. -/
def Entry.dirLike (e : Entry) : Bool := e.isDir || (e.isLink && e.linkDir)

/-- one iteration of the loop of `generateFileNames`. -/
def fileItem (dir fileprefix : Bytes) (execOrDir : Bool) (e : Entry) : Option Raw :=
  if !e.infoOk then none
  else if dotfile fileprefix != dotfile e.name then none
  else if execOrDir && !(e.exec || e.isDir) then none
  else if e.dirLike then some { stem := dir ++ e.name ++ [47], suffix := [] }
  else some { stem := dir ++ e.name, suffix := [32] }

/-- `generateFileNames(seed, statPred)`; `statPred` is `nil` or
`executableOrDir`.  `none` = the error "cannot list directory". -/
def generateFileNames (env : Env) (seed : Bytes) (execOrDir : Bool) : Option (List Raw) :=
  let df := splitPath seed
  let dirToRead := if df.1.isEmpty then [46] else df.1
  match env.readDir dirToRead with
  | none => none
  | some files => some (files.filterMap (fileItem df.1 df.2 execOrDir))

/-- `fsutil.DontSearch` -/
def dontSearch (exe : Bytes) : Bool := exe == [46, 46] || exe.contains 47

/-- What a completer hands back besides the context: the raw candidates, or
the (non-`errNoCompletion`) error of a generator, which `Complete` ignores
(it goes on with no candidates). -/
inductive Gen where
  | items (l : List Raw)
  | err
  deriving Inhabited

def Gen.ofOpt : Option (List Raw) → Gen
  | some l => .items l
  | none => .err

/-- `cfg.ArgGenerator(args)` -/
def argGenerator (env : Env) (args : List Bytes) : Gen :=
  match env.argGen with
  | some l => .items l
  | none =>
    -- GenerateFileNames
    match args.getLast? with
    | none => .items []
    | some last => Gen.ofOpt (generateFileNames env last false)

/-- the `for i := 1; i < len(args); i++ { if args[i] == "=" {…} }` loop of
`generateArgs`: `some true` = the first `=` is the last word. -/
def firstEq : List Bytes → Option Bool
  | [] => none
  | a :: rest => if a == [61] then some rest.isEmpty else firstEq rest

/-- `generateArgs(args, ev, p, cfg)`; `args[0]` on an empty slice panics. -/
def generateArgs (env : Env) (args : List Bytes) : Res Gen :=
  match args with
  | [] => .panic "index out of range"
  | a0 :: rest =>
    if a0 == [115, 101, 116] /- set -/ || a0 == [116, 109, 112] /- tmp -/ then
      match firstEq rest with
      | some true => .ok (.items [])
      | some false => .ok (argGenerator env args)
      | none => .ok (.items env.names)
    else if a0 == [100, 101, 108] /- del -/ then .ok (.items env.names)
    else .ok (argGenerator env args)

/-- `generateCommands(seed, ev, p)` -/
def generateCommands (env : Env) (seed : Bytes) : Gen :=
  if dontSearch seed then Gen.ofOpt (generateFileNames env seed true)
  else .items env.names

/-- `generateIndices(v)` -/
def generateIndices (v : PVal) : List Raw :=
  match v with
  | .str _ => []
  | .keys ks => ks.map fun k => { stem := k }

/-! ## Completers -/

/-- `context` of completers.go -/
structure Ctx where
  name : String
  seed : Bytes
  quote : Int
  frm : Nat
  to : Nat
  deriving Repr, Inhabited

/-- `form.Head` -/
def formHead (form : Node) : Option Node :=
  match form.children with
  | c :: _ => if c.kind == .compound then some c else none
  | [] => none

/-- `form.Args`: the compounds added directly to the form after the head. -/
def formArgs (form : Node) : List Node := (form.children.drop 1).filter (·.kind == .compound)

/-- the argument loop of `purelyEvalForm` -/
def pefLoop (env : Env) (upto : Nat) : List Node → Res (List Bytes)
  | [] => .ok []
  | c :: rest =>
    if c.frm ≥ upto then .ok []
    else do
      let v ← purelyEvalPartialCompound env c (-1)
      let more ← pefLoop env upto rest
      match v with
      | some arg => pure (arg :: more)
      | none => pure more

/-- `purelyEvalForm(form, seed, upto, ev)` -/
def purelyEvalForm (env : Env) (form : Node) (seed : Bytes) (upto : Nat) : Res (List Bytes) :=
  match formHead form with
  | none => .panic "nil pointer dereference"
  | some h => do
    let hv ← purelyEvalPartialCompound env h (-1)
    let head : Bytes := match hv with
      | some s => s
      | none => []
    let words ← pefLoop env upto (formArgs form)
    pure ([head] ++ words ++ [seed])

/-- What `np.SimpleExpr` stores. -/
structure SimpleExprData where
  value : Bytes
  compound : Node
  /-- index of the compound among its parent's children -/
  cidx : Nat
  ptype : Int

/-- `simpleExprMatcher.Match` -/
def matchSimpleExpr (env : Env) : Path → Res (Option (SimpleExprData × Path))
  | (pn, _) :: (inn, _) :: (cn, ci) :: rest =>
    if pn.kind == .primary && inn.kind == .indexing && cn.kind == .compound then
      match purelyEvalPartialCompound env cn (inn.to : Int) with
      | .ok (some v) => .ok (some ({ value := v, compound := cn, cidx := ci, ptype := pn.ptype }, rest))
      | .ok none => .ok none
      | .exc e => .exc e
      | .panic w => .panic w
    else .ok none
  | _ => .ok none

/-- the next node of the path, if it has the given kind (`np.Typed` / `np.Store`). -/
def matchKind (k : Kind) : Path → Option (Node × Path)
  | (n, _) :: rest => if n.kind == k then some (n, rest) else none
  | [] => none

def range0 (name : String) (pos : Nat) : Ctx :=
  { name := name, seed := [], quote := Bareword, frm := pos, to := pos }

abbrev Completion := Option (Ctx × Gen)

/-- `p.Match(np.Sep, np.Typed[k])`: the leaf is a separator directly below a node of kind `k`. -/
def sepBelow (k : Kind) (p : Path) : Option (Node × Node) :=
  match matchKind .sep p with
  | some (sep, rest) =>
    match matchKind k rest with
    | some (n, _) => some (sep, n)
    | none => none
  | none => none

/-- case 1 of `completeArg`: `p.Match(np.Sep, np.Store(&form)) && form.Head != nil` -/
def argCase1 (p : Path) : Option (Node × Node) :=
  match sepBelow .form p with
  | some (sep, form) => if (formHead form).isSome then some (sep, form) else none
  | none => none

/-- what a `SimpleExpr` context hands back -/
def exprCtx (name : String) (expr : SimpleExprData) : Ctx :=
  { name := name, seed := expr.value, quote := expr.ptype, frm := expr.compound.frm, to := expr.compound.to }

/-- `completeArg` -/
def completeArg (env : Env) (p : Path) : Res Completion :=
  match argCase1 p with
  | some (sep, form) => do
    -- Case 1: starting a new argument
    let args ← purelyEvalForm env form [] sep.to
    let g ← generateArgs env args
    pure (some (range0 "argument" sep.to, g))
  | none => do
    -- Case 2: in an incomplete argument
    let m ← matchSimpleExpr env p
    match m with
    | some (expr, rest) =>
      match matchKind .form rest with
      | some (form, _) =>
        if (formHead form).isSome && expr.cidx != 0 then do
          let args ← purelyEvalForm env form expr.value expr.compound.frm
          let g ← generateArgs env args
          pure (some (exprCtx "argument" expr, g))
        else pure none
      | none => pure none
    | none => pure none

/-- Is the separator the `&` of a background pipeline, or after it? -/
def afterBackgroundSign (sep pl : Node) : Bool :=
  pl.fields.flag &&
    (match (pl.childrenOf .form).getLast? with
      | some f => sep.frm ≥ f.to
      | none => false)

/-- `primary.Chunk` -/
def chunkOf (pn : Node) : Option Node := (pn.childrenOf .chunk).head?

/-- cases 1–3 of `completeCommand`: a place where a new command starts.
`fixed`: case 2 not at or after the `&` of a background pipeline; case 3 only
for a separator before the chunk of the capture / lambda, not for the closing
`)` / `}` (fixes/C43-closing-separators.patch). -/
def newCommand (fixed : Bool) (p : Path) : Bool :=
  -- Case 1: the leaf is a Chunk
  (matchKind .chunk p).isSome ||
  -- Case 2: after a newline, semicolon or pipe
  (sepBelow .chunk p).isSome ||
  (match sepBelow .pipeline p with
    | some (sep, pl) => !(fixed && afterBackgroundSign sep pl)
    | none => false) ||
  -- Case 3: at the beginning of an output / exception capture or lambda
  (match sepBelow .primary p with
    | some (sep, pn) =>
      (pn.ptype == OutputCapture || pn.ptype == ExceptionCapture || pn.ptype == Lambda) &&
        (!fixed || (match chunkOf pn with
          | some ch => sep.to ≤ ch.frm
          | none => false))
    | none => false)

/-- `completeCommand` -/
def completeCommandG (fixed : Bool) (env : Env) (p : Path) : Res Completion :=
  match p with
  | [] => .panic "index out of range"
  | (leaf, _) :: _ =>
    if newCommand fixed p then
      pure (some (range0 "command" leaf.to, generateCommands env []))
    else do
      -- Case 4: at an already started command
      let m ← matchSimpleExpr env p
      match m with
      | some (expr, rest) =>
        if (matchKind .form rest).isSome && expr.cidx == 0 then
          pure (some (exprCtx "command" expr, generateCommands env expr.value))
        else pure none
      | none => pure none

/-- `len(indexing.Indices) == 1` and the indexee evaluates purely. -/
def indexee (env : Env) (indexing : Node) : Res (Option PVal) :=
  if (indexing.childrenOf .array).length == 1 then
    match headOf indexing with
    | some hd => .ok (purelyEvalPrimary env hd)
    | none => .panic "nil pointer dereference"
  else .ok none

/-- `p.Match(np.Sep, np.Store(&indexing)) || p.Match(np.Sep, np.Array, np.Store(&indexing))`.
`fixed`: a separator directly below the indexing opens a new index only if it
is the `[`, not the closing `]` (fixes/C43-closing-separators.patch). -/
def newIndex (fixed : Bool) (p : Path) : Option Node :=
  match sepBelow .indexing p with
  | some (sep, inn) => if !fixed || sep.text == [91] then some inn else none
  | none =>
    match matchKind .sep p with
    | some (_, rest) =>
      match matchKind .array rest with
      | some (_, rest2) =>
        match matchKind .indexing rest2 with
        | some (inn, _) => some inn
        | none => none
      | none => none
    | none => none

/-- the first `if` of `completeIndex` -/
def completeNewIndex (fixed : Bool) (env : Env) (p : Path) (pos : Nat) : Res Completion :=
  match newIndex fixed p with
  | some inn => do
    let v ← indexee env inn
    match v with
    | some v => pure (some (range0 "index" pos, Gen.items (generateIndices v)))
    | none => pure none
  | none => pure none

/-- the second `if` of `completeIndex`: `p.Match(np.SimpleExpr, np.Array, np.Store(&indexing))` -/
def completeOldIndex (env : Env) (p : Path) : Res Completion := do
  let m ← matchSimpleExpr env p
  match m with
  | some (expr, rest) =>
    match matchKind .array rest with
    | some (_, rest2) =>
      match matchKind .indexing rest2 with
      | some (inn, _) => do
        let v ← indexee env inn
        match v with
        | some v => pure (some (exprCtx "index" expr, Gen.items (generateIndices v)))
        | none => pure none
      | none => pure none
    | none => pure none
  | none => pure none

/-- `completeIndex` -/
def completeIndexG (fixed : Bool) (env : Env) (p : Path) : Res Completion :=
  match p with
  | [] => .panic "index out of range"
  | (leaf, _) :: _ => do
    let r1 ← completeNewIndex fixed env p leaf.to
    match r1 with
    | some c => pure (some c)
    | none => completeOldIndex env p

/-- `completeRedir` -/
def completeRedir (env : Env) (p : Path) : Res Completion :=
  match p with
  | [] => .panic "index out of range"
  | (leaf, _) :: _ =>
    if (sepBelow .redir p).isSome then
      pure (some (range0 "redir" leaf.to, Gen.ofOpt (generateFileNames env [] false)))
    else do
      let m ← matchSimpleExpr env p
      match m with
      | some (expr, rest) =>
        if (matchKind .redir rest).isSome then
          pure (some (exprCtx "redir" expr, Gen.ofOpt (generateFileNames env expr.value false)))
        else pure none
      | none => pure none

/-- `eval.SplitSigil` -/
def splitSigil (ref : Bytes) : Bytes × Bytes :=
  match ref with
  | 64 :: rest => ([64], rest)
  | _ => ([], ref)

/-- `eval.SplitIncompleteQNameNs`: up to and including the last `:`, and the rest. -/
def splitIncompleteQNameNs (qname : Bytes) : Bytes × Bytes :=
  let name := (qname.reverse.takeWhile (· != 58)).reverse
  (qname.take (qname.length - name.length), name)

/-- `completeVariable`.  `fixed`: only variables written bare (source text =
`$` + `Value`) are handled, so that offsets into `Value` are offsets into the
source (fixes/C43-variable-quoted-name.patch). -/
def completeVariableG (fixed : Bool) (env : Env) (p : Path) : Res Completion :=
  match p with
  | [] => .panic "index out of range"
  | (primary, _) :: _ =>
    if primary.kind == .primary && primary.ptype == Variable then
      if fixed && primary.text != 36 :: primary.value then .ok none
      else
        let sq := splitSigil primary.value
        let nn := splitIncompleteQNameNs sq.2
        let begin := primary.frm + 1 + sq.1.length + nn.1.length
        .ok (some ({ name := "variable", seed := nn.2, quote := Bareword, frm := begin, to := primary.to },
                    .items env.names))
    else .ok none

/-! ## `Complete` -/

/-- `FilterPrefix` -/
def filterPrefix (seed : Bytes) (items : List Raw) : List Raw :=
  items.filter fun c => seed.isPrefixOf c.stem

/-- Go's `<` on strings: bytewise lexicographic. -/
def bytesLt : Bytes → Bytes → Bool
  | [], [] => false
  | [], _ :: _ => true
  | _ :: _, [] => false
  | a :: as, b :: bs => if a < b then true else if b < a then false else bytesLt as bs

/-- `a ≤ b` in that order. -/
def bytesLe (a b : Bytes) : Bool := !bytesLt b a

/-- insertion of one item into a list sorted by `String()`, before the first
item that is not smaller -/
def insertRaw (x : Raw) : List Raw → List Raw
  | [] => [x]
  | y :: ys => if bytesLe x.stem y.stem then x :: y :: ys else y :: insertRaw x ys

/-- `sort.Slice(rawItems, by String())`, as a (stable) insertion sort.
`sort.Slice` is not stable; items with equal `String()` that cook differently
may come out in either order (the generators here never produce such pairs;
items with equal `String()` and equal cooking are merged by `dedup` anyway). -/
def sortRaw (items : List Raw) : List Raw := items.foldr insertRaw []

/-- `RawItem.Cook(q)` -/
def cook (isPrint : Int → Bool) (q : Int) (r : Raw) : Item :=
  if r.noQuote then { toInsert := r.stem, toShow := r.stem }
  else { toInsert := (QuoteAs isPrint r.stem q).1 ++ r.suffix, toShow := r.stem }

/-- `dedup`: drop an item whose `ToInsert` equals its predecessor's. -/
def dedupFrom : Option Bytes → List Item → List Item
  | _, [] => []
  | prev, it :: rest =>
    if prev == some it.toInsert then dedupFrom (some it.toInsert) rest
    else it :: dedupFrom (some it.toInsert) rest

def dedup (items : List Item) : List Item := dedupFrom none items

/-- `Result` -/
structure Result where
  name : String
  frm : Nat
  to : Nat
  items : List Item
  deriving Repr, Inhabited

/-- Does the text of a separator end inside a `#` comment (a comment runs to
the end of its line, so: the part after the last newline / carriage return
contains `#`), or in a `^` that still lacks its newline? -/
def endsInComment (sepText : Bytes) : Bool :=
  (sepText.reverse.takeWhile fun b => b != 10 && b != 13).contains 35 || sepText.getLast? == some 94

/-- The quoting style handed to `Cook`. -/
def styleOf (fixed : Bool) (q : Int) : Int :=
  if fixed then (if q == SingleQuoted || q == DoubleQuoted then q else Bareword) else q

/-- the `for _, completer := range completers` loop -/
def runCompleters (fixed : Bool) (env : Env) (p : Path) : Res Completion := do
  let c ← completeCommandG fixed env p
  if c.isSome then return c
  let c ← completeIndexG fixed env p
  if c.isSome then return c
  let c ← completeRedir env p
  if c.isSome then return c
  let c ← completeVariableG fixed env p
  if c.isSome then return c
  completeArg env p

/-- the body of the loop of `Complete` after a completer answered -/
def finish (fixed : Bool) (env : Env) (ctx : Ctx) (g : Gen) : Result :=
  let raw : List Raw := match g with
    | .items l => l
    | .err => []
  let raw := sortRaw (filterPrefix ctx.seed raw)
  let items := raw.map (cook env.isPrint (styleOf fixed ctx.quote))
  { name := ctx.name, frm := ctx.frm, to := ctx.to, items := dedup items }

/-- Outcome of `Complete`. -/
inductive Outcome where
  | result (r : Result)
  | noCompletion
  | panic (why : String)
  | fuel
  deriving Inhabited

/-- `complete.Complete(CodeBuffer{src, dot}, ev, cfg)` with the default
`FilterPrefix`. -/
def completeG (fixed : Bool) (env : Env) (src : Bytes) (dot : Int) : Outcome :=
  match parse env.isPrint src with
  | .panic w => .panic w
  | .fuel => .fuel
  | .ok tree _ =>
    match findLeft tree dot with
    | none => .noCompletion
    | some [] => .noCompletion
    | some ((leaf, i) :: rest) =>
      if fixed && leaf.kind == .sep && endsInComment leaf.text then .noCompletion
      else
        match runCompleters fixed env ((leaf, i) :: rest) with
        | .ok (some (ctx, g)) => .result (finish fixed env ctx g)
        | .ok none => .noCompletion
        | .exc w => .panic w
        | .panic w => .panic w

/-- `Complete` of the tree with the fixes. -/
def complete (env : Env) (src : Bytes) (dot : Int) : Outcome := completeG true env src dot

/-- `Complete` of the unchanged tree. -/
def completeUnfixed (env : Env) (src : Bytes) (dot : Int) : Outcome := completeG false env src dot

/-- The buffer after accepting a candidate: `buf[:from] + toInsert + buf[to:]`. -/
def applyItem (src : Bytes) (r : Result) (it : Item) : Bytes :=
  src.take r.frm ++ it.toInsert ++ src.drop r.to

end C43
