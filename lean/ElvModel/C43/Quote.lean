/-
C43 model, part 1: `pkg/parse/quote.go` — `QuoteAs` / `quoteAs`, `quoteSingle`,
`quoteDouble`, `rtohex` — over byte strings with Go's `range`-over-string
semantics (invalid bytes decode to U+FFFD, width 1).

The same functions are modelled by C03 (`ElvModel/C03/Model.lean`, with Go's
partial operations explicit).  The two are ONE model: every function here is
proved equal to its C03 counterpart (`C43_quote_is_C03`, helpers in
`ElvProofs/C43/QuoteC03.lean`); this outcome-free form is what the completion
model and the driver evaluate.  Character classes and the escape table are the
regenerated `Generated/C01Chars.lean`.
-/
import ElvModel.Go.Utf8
import ElvModel.Generated.C01Chars
import ElvModel.C01.Model
namespace C43
open Go
open Gen.C01Chars

/-- `'0' + d` / `'a' + d - 10` of `rtohex`. -/
def hexLower (d : Nat) : UInt8 :=
  if d ≤ 9 then UInt8.ofNat (48 + d) else UInt8.ofNat (87 + d)

/-- `rtohex(r, w)`: the `w` low hex digits of `r`, most significant first. -/
def rtohex : Nat → Nat → Bytes
  | _, 0 => []
  | r, w + 1 => rtohex (r / 16) w ++ [hexLower (r % 16)]

/-- `doubleUnescape`, built by `init()` as the inverse of `doubleEscape`
(the values of `doubleEscape` are pairwise distinct, so Go's map iteration
order does not matter). -/
def doubleUnescape : List (Int × Int) := doubleEscape.map fun kv => (kv.2, kv.1)

/-- `quoteSingle`: `for _, r := range s { WriteRune(r); if r == '\'' { WriteByte('\'') } }`
between two quotes. -/
def quoteSingleBody (s : Bytes) : Bytes :=
  (toRunes s).flatMap fun r => encodeRune r ++ (if r == 39 then [39] else [])

def quoteSingle (s : Bytes) : Bytes := [39] ++ quoteSingleBody s ++ [39]

/-- One iteration of the loop of `quoteDouble`: `r, w` are the decoded rune and
its width, `b0` is `s[0]`. -/
def dqPiece (isPrint : Int → Bool) (r : Rune) (w : Nat) (b0 : UInt8) : Bytes :=
  if r == RuneError && w == 1 then [92, 120] ++ rtohex b0.toNat 2
  else
    match doubleUnescape.lookup (r : Int) with
    | some e => [92] ++ C01.writeRune e
    | none =>
      if isPrint (r : Int) && r != RuneError then encodeRune r
      else if r ≤ 0x7f then [92, 120] ++ rtohex r 2
      else if r ≤ 0xffff then [92, 117] ++ rtohex r 4
      else [92, 85] ++ rtohex r 8

/-- The loop `for s != "" { r, w := DecodeRuneInString(s); …; s = s[w:] }` of
`quoteDouble`, written structurally: `skip` counts the bytes of the current
rune still to be stepped over. -/
def quoteDoubleLoop (isPrint : Int → Bool) : Nat → Bytes → Bytes
  | _, [] => []
  | skip + 1, _ :: t => quoteDoubleLoop isPrint skip t
  | 0, b :: t =>
    let rw := decodeRune (b :: t)
    dqPiece isPrint rw.1 rw.2 b ++ quoteDoubleLoop isPrint (rw.2 - 1) t

def quoteDouble (isPrint : Int → Bool) (s : Bytes) : Bytes :=
  [34] ++ quoteDoubleLoop isPrint 0 s ++ [34]

/-- The `for _, r := range s` loop of `quoteAs` returns early on the first
rune that is U+FFFD (also: any invalid byte) or not printable. -/
def needsDouble (isPrint : Int → Bool) (s : Bytes) : Bool :=
  (toRunes s).any fun r => r == RuneError || !isPrint (r : Int)

/-- `bare` at the end of that loop. -/
def isBare (isPrint : Int → Bool) (s : Bytes) (ctx : Int) : Bool :=
  (s.head? != some 126) && (toRunes s).all fun r => allowedInBareword isPrint (r : Int) ctx

/-- `quoteAs(s, q, ctx)`: the text and the quoting actually used. -/
def quoteAs (isPrint : Int → Bool) (s : Bytes) (q : Int) (ctx : Int) : Bytes × Int :=
  if q == DoubleQuoted then (quoteDouble isPrint s, DoubleQuoted)
  else if s.isEmpty then ([39, 39], SingleQuoted)
  else if needsDouble isPrint s then (quoteDouble isPrint s, DoubleQuoted)
  else if q == Bareword && isBare isPrint s ctx then (s, Bareword)
  else (quoteSingle s, SingleQuoted)

/-- `parse.QuoteAs(s, q)` -/
def QuoteAs (isPrint : Int → Bool) (s : Bytes) (q : Int) : Bytes × Int :=
  quoteAs isPrint s q strictExpr

end C43
