/-
C43: the vocabulary of the property statement — "the completed word
evaluates to the candidate's value" — over the C01 parse tree.
-/
import ElvModel.C43.Model
namespace C43
open Go C01
open Gen.C01Chars

mutual
/-- the (non-empty) `Compound` node that starts at `pos`: the outermost one,
searched below the nodes that contain `pos` -/
def compoundAtN (pos : Nat) : Node → Option Node
  | .mk k a b t f cs =>
    if k == .compound && a == pos && pos < b then some (.mk k a b t f cs) else compoundAtL pos cs
def compoundAtL (pos : Nat) : List Node → Option Node
  | [] => none
  | c :: rest => if c.frm ≤ pos && pos < c.to then compoundAtN pos c else compoundAtL pos rest
end

/-- an environment without variables and home directories: only literal
words evaluate -/
def literalEnv (isPrint : Int → Bool) : Env :=
  { isPrint := isPrint, varVal := fun _ => none, home := fun _ => none, readDir := fun _ => none,
    argGen := none, names := [] }

/-- The value and the end of the word that starts at `pos` in `buf`: `buf` is
parsed as a whole, the word is the compound starting there, its value is what
the static evaluator gives for a word made of barewords and quoted strings. -/
def wordValueAt (isPrint : Int → Bool) (buf : Bytes) (pos : Nat) : Option (Bytes × Nat) :=
  match parse isPrint buf with
  | .ok tree _ =>
    match compoundAtN pos tree with
    | some c =>
      match purelyEvalPartialCompound (literalEnv isPrint) c (-1) with
      | .ok (some v) => some (v, c.to)
      | _ => none
    | none => none
  | _ => none

/-- `generateFileNames` as a specification: the entries of the directory that
start with the typed file-name prefix and have its hiddenness (and pass the
executable-or-directory filter of command position), as candidate stems:
directory part + name, + `/` for directories and links to directories. -/
def fileStems (listing : List Entry) (dir pre : Bytes) (execOrDir : Bool) : List Bytes :=
  (listing.filter fun e =>
      e.infoOk && (dotfile pre == dotfile e.name) && (!execOrDir || e.exec || e.isDir) && pre.isPrefixOf e.name).map
    fun e => dir ++ e.name ++ (if e.dirLike then [47] else [])

end C43
