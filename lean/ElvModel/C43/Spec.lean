/-
C43: the vocabulary of the property statement — "the completed word
evaluates to the candidate's value" — over the C01 parse tree.
-/
import ElvModel.C43.Model
namespace C43
open Go C01
open Gen.C01Chars

mutual
/-- the (non-empty) `Compound` node that starts at `pos`: the outermost one,
searched below the nodes that contain `pos` -/
def compoundAtN (pos : Nat) : Node → Option Node
  | .mk k a b t f cs =>
    if k == .compound && a == pos && pos < b then some (.mk k a b t f cs) else compoundAtL pos cs
def compoundAtL (pos : Nat) : List Node → Option Node
  | [] => none
  | c :: rest => if c.frm ≤ pos && pos < c.to then compoundAtN pos c else compoundAtL pos rest
end

/-- an environment without variables and home directories: only literal
words evaluate -/
def literalEnv (isPrint : Int → Bool) : Env :=
  { isPrint := isPrint, varVal := fun _ => none, home := fun _ => none, readDir := fun _ => none,
    argGen := none, names := [] }

/-- The value and the end of the word that starts at `pos` in `buf`: `buf` is
parsed as a whole, the word is the compound starting there, its value is what
the static evaluator gives for a word made of barewords and quoted strings. -/
def wordValueAt (isPrint : Int → Bool) (buf : Bytes) (pos : Nat) : Option (Bytes × Nat) :=
  match parse isPrint buf with
  | .ok tree _ =>
    match compoundAtN pos tree with
    | some c =>
      match purelyEvalPartialCompound (literalEnv isPrint) c (-1) with
      | .ok (some v) => some (v, c.to)
      | _ => none
    | none => none
  | _ => none

/-- The text of a simple command line up to the word being completed:
`w₀ ␣ w₁ ␣ … ␣ wₖ₋₁ ␣` — every word as `QuoteAs` writes it for a string and a
preferred style (so: a bareword made of runes that are bareword runes in every
context and not starting with `~`, a single-quoted string, or a double-quoted
string), each followed by one space.  `[]` is the empty line (the word being
completed is then the command itself). -/
def lineText (isPrint : Int → Bool) : List (Bytes × Int) → Bytes
  | [] => []
  | w :: ws => (QuoteAs isPrint w.1 w.2).1 ++ 32 :: lineText isPrint ws

/-- The commands of the current pipeline before the current one: each a
non-empty simple command line (its words, one space after each) followed by
`| ` — `cat f | sort | …`. -/
def pipeText (isPrint : Int → Bool) (fs : List (List (Bytes × Int))) : Bytes :=
  fs.flatMap fun ws => lineText isPrint ws ++ [124, 32]

/-- The pipelines before the current one: each (earlier commands, last
command) as above, followed by `; ` — `cd d ; cat f | sort ; …`. -/
def chunkText (isPrint : Int → Bool) (ps : List (List (List (Bytes × Int)) × List (Bytes × Int))) : Bytes :=
  ps.flatMap fun p => pipeText isPrint p.1 ++ (lineText isPrint p.2 ++ [59, 32])

/-- every earlier command of a script has at least one word -/
def ScriptOk (ps : List (List (List (Bytes × Int)) × List (Bytes × Int))) : Prop :=
  ∀ p ∈ ps, p.2 ≠ [] ∧ ∀ ws ∈ p.1, ws ≠ []

/-- One nesting level of a buffer: earlier pipelines, earlier commands of the
current pipeline, words of the current command. -/
abbrev Frame := List (List (List (Bytes × Int)) × List (Bytes × Int)) × List (List (Bytes × Int)) × List (Bytes × Int)

def frameText (isPrint : Int → Bool) (fr : Frame) : Bytes :=
  chunkText isPrint fr.1 ++ (pipeText isPrint fr.2.1 ++ lineText isPrint fr.2.2)

def FrameOk (fr : Frame) : Prop := ScriptOk fr.1 ∧ ∀ ws ∈ fr.2.1, ws ≠ []

/-- what opens a nesting level: `(` (an output capture) or `{ ` (a lambda without parameters) -/
def opener (lambda : Bool) : Bytes := if lambda then [123, 32] else [40]

/-- The text before the word being completed when the current command sits
inside output captures and lambdas: every outer level is a script of simple
commands followed by `(` or `{ `, the innermost level is such a script —
`if $c { echo (cat f | head (ls `. -/
def nestText (isPrint : Int → Bool) (outer : List (Frame × Bool)) (inner : Frame) : Bytes :=
  outer.flatMap (fun p => frameText isPrint p.1 ++ opener p.2) ++ frameText isPrint inner

/-- a redirection sign: one or more of `<`, `>` (`<`, `>`, `>>`, `<>`, …) -/
def SignRunes (rs : List Nat) : Prop := rs ≠ [] ∧ ∀ r ∈ rs, r = 60 ∨ r = 62

/-- the optional blank after the sign -/
def blank (sp : Bool) : Bytes := if sp then [32] else []

/-- a redirection sign and the optional blank after it: what precedes the
file name in `sort < fo`, `ls >>fo` -/
def redirText (rs : List Nat) (sp : Bool) : Bytes := encodeRunes rs ++ blank sp

/-- `generateFileNames` as a specification: the entries of the directory that
start with the typed file-name prefix and have its hiddenness (and pass the
executable-or-directory filter of command position), as candidate stems:
directory part + name, + `/` for directories and links to directories. -/
def fileStems (listing : List Entry) (dir pre : Bytes) (execOrDir : Bool) : List Bytes :=
  (listing.filter fun e =>
      e.infoOk && (dotfile pre == dotfile e.name) && (!execOrDir || e.exec || e.isDir) && pre.isPrefixOf e.name).map
    fun e => dir ++ e.name ++ (if e.dirLike then [47] else [])

end C43
