/-
C41 model, part 3: the `re:` builtins of pkg/mods/re/re.go over an ABSTRACT
regular-expression engine.  The engine is represented by what it returns:

* `patOk`  — whether `regexp.Compile`/`CompilePOSIX` accepted the pattern;
* `full : List Match` — `FindAllSubmatchIndex(source, -1)`, every match a flat
  index list `[s0, e0, s1, e1, …]` (`-1, -1` for a group that did not take part);
  `FindAll…(source, n)` for `n ≥ 0` is its first `n` elements (`takeMax`);
* `names`  — `SubexpNames()`.

The wrapper logic of re.go (`find`, `replace`, `split`, `match`), Go's
`Regexp.Split`, `replaceAll`, `expand`/`extract` (functions of the match list)
and `regexp.QuoteMeta` (concrete) are modelled statement by statement; slices
and indexings are partial (`Go.slice`, `Go.index`).
-/
import ElvModel.C41.Str
namespace C41
open Go

abbrev Match := List Int

/-- `FindAll…(src, n)` from `FindAll…(src, -1)`: all matches for `n < 0`, else the
first `n` (the loop `for … i < n` of `allMatches`). -/
def takeMax (full : List Match) (n : Int) : List Match :=
  if n < 0 then full else full.take n.toNat

/-! ### re:find -/

structure Sub where
  text : Bytes
  start : Int
  stop : Int
  deriving Repr, DecidableEq

structure MatchVal where
  text : Bytes
  start : Int
  stop : Int
  groups : List Sub
  deriving Repr, DecidableEq

/-- the inner loop `for i := 0; i < len(match); i += 2` -/
def groupsOf (src : Bytes) : Match → Res (List Sub)
  | [] => .ok []
  | [_] => .panic "index out of range"
  | s :: e :: rest => do
    let text ← if s ≥ 0 ∧ e ≥ 0 then slice src s e else pure []
    let r ← groupsOf src rest
    pure ({ text, start := s, stop := e } :: r)

/-- the body of the outer loop: one `matchStruct` -/
def findOne (src : Bytes) (m : Match) : Res MatchVal := do
  let s ← index m 0
  let e ← index m 1
  let groups ← groupsOf src m
  let text ← slice src s e
  pure { text, start := s, stop := e, groups }

def mapRes {α β} (f : α → Res β) : List α → Res (List β)
  | [] => .ok []
  | a :: l => do
    let b ← f a
    let r ← mapRes f l
    pure (b :: r)

/-- `find &max pattern source` -/
def reFind (patOk : Bool) (max : Int) (src : Bytes) (full : List Match) : Res (List MatchVal) :=
  if !patOk then .exc "bad-pattern" else mapRes (findOne src) (takeMax full max)

/-- `match pattern source` (`MatchString` = there is a match) -/
def reMatch (patOk : Bool) (full : List Match) : Res Bool :=
  if !patOk then .exc "bad-pattern" else .ok (!full.isEmpty)

/-! ### Regexp.Split / re:split -/

def splitFinish (s : Bytes) (beg end_ : Int) (acc : List Bytes) : Res (List Bytes) :=
  if end_ ≠ s.length then do
    let p ← slice s beg s.length
    pure (acc ++ [p])
  else pure acc

/-- the loop `for _, match := range matches` of `Regexp.Split` -/
def reSplitLoop (s : Bytes) (n : Int) : List Match → Int → Int → List Bytes → Res (List Bytes)
  | [], beg, end_, acc => splitFinish s beg end_ acc
  | m :: rest, beg, end_, acc =>
    if n > 0 ∧ (acc.length : Int) ≥ n - 1 then splitFinish s beg end_ acc
    else do
      let m0 ← index m 0
      let m1 ← index m 1
      let acc' ← if m1 ≠ 0 then (do let p ← slice s beg m0; pure (acc ++ [p])) else pure acc
      reSplitLoop s n rest m1 m0 acc'

/-- `(*Regexp).Split(s, n)`; `exprEmpty` is `len(re.expr) == 0`. -/
def regexpSplit (exprEmpty : Bool) (s : Bytes) (n : Int) (full : List Match) : Res (List Bytes) :=
  if n = 0 then .ok []
  else if !exprEmpty ∧ s.isEmpty then .ok [[]]
  else reSplitLoop s n (takeMax full n) 0 0 []

/-- `split &max pattern source` -/
def reSplit (patOk exprEmpty : Bool) (max : Int) (src : Bytes) (full : List Match) : Res (List Bytes) :=
  if !patOk then .exc "bad-pattern" else regexpSplit exprEmpty src max full

/-! ### Regexp.expand -/

/-- length in bytes of the longest prefix made of name runes
(`unicode.IsLetter || unicode.IsDigit || '_'`, a parameter) -/
def scanName (isName : Rune → Bool) : Nat → Bytes → Nat
  | 0, _ => 0
  | f + 1, s =>
    match s with
    | [] => 0
    | _ :: _ =>
      let (r, n) := decodeRune s
      if isName r then n + scanName isName f (s.drop n) else 0

/-- the number loop of `extract` -/
def numLoop : Bytes → Int → Int
  | [], num => num
  | c :: rest, num =>
    if c < 48 ∨ 57 < c ∨ num ≥ 100000000 then -1
    else numLoop rest (num * 10 + (c.toNat - 48 : Nat))

/-- the "Parse number" part of `extract`: the number a reference name denotes
(`-1`: not a number — the name of a named group): decimal digits, the accumulated
value checked against `1e8` BEFORE each digit, no leading zero. -/
def refNum (name : Bytes) : Int :=
  if name.head? = some 48 ∧ name.length > 1 then -1 else numLoop name 0

/-- `extract(str)`: `(name, num, rest)` or `none` for `ok = false`. -/
def extract (isName : Rune → Bool) (str0 : Bytes) : Option (Bytes × Int × Bytes) :=
  match str0 with
  | [] => none
  | c0 :: t0 =>
    let brace := c0 = 123
    let str := if brace then t0 else str0
    let i := scanName isName str.length str
    if i = 0 then none
    else
      let name := str.take i
      let closed : Option Nat :=
        if brace then (if str[i]? = some 125 then some (i + 1) else none) else some i
      match closed with
      | none => none
      | some i' =>
        some (name, refNum name, str.drop i')

/-- append `src[match[2k]:match[2k+1]]` if the group exists and took part -/
def appendGroup (src : Bytes) (m : Match) (k : Int) (dst : Bytes) : Res (Option Bytes) :=
  if 2 * k + 1 < m.length then do
    let a ← index m (2 * k)
    if a ≥ 0 then do
      let b ← index m (2 * k + 1)
      let t ← slice src a b
      pure (some (dst ++ t))
    else pure none
  else pure none

/-- `for i, namei := range re.subexpNames { if name == namei && … { …; break } }` -/
def appendNamed (src : Bytes) (m : Match) (name : Bytes) : List Bytes → Int → Bytes → Res Bytes
  | [], _, dst => .ok dst
  | namei :: rest, i, dst =>
    if name = namei then do
      match ← appendGroup src m i dst with
      | some d => pure d
      | none => appendNamed src m name rest (i + 1) dst
    else appendNamed src m name rest (i + 1) dst

/-- split at the first `$` (`strings.Cut(template, "$")`) -/
def cutDollar : Bytes → Option (Bytes × Bytes)
  | [] => none
  | c :: t => if c = 36 then some ([], t) else (cutDollar t).map fun (a, b) => (c :: a, b)

/-- `(*Regexp).expand`; every iteration consumes at least the `$`, so
`fuel = len(template) + 1` always suffices (out of fuel is reported, not defaulted). -/
def expandLoop (isName : Rune → Bool) (names : List Bytes) (src : Bytes) (m : Match) :
    Nat → Bytes → Bytes → Res Bytes
  | 0, _, _ => .panic "FUEL"
  | fuel + 1, template, dst =>
    match cutDollar template with
    | none => .ok (dst ++ template)
    | some (before, after) =>
      let dst := dst ++ before
      match after with
      | 36 :: t => expandLoop isName names src m fuel t (dst ++ [36])
      | _ =>
        match extract isName after with
        | none => expandLoop isName names src m fuel after (dst ++ [36])
        | some (name, num, rest) =>
          if num ≥ 0 then do
            let d ← appendGroup src m num dst
            expandLoop isName names src m fuel rest (match d with | some d => d | none => dst)
          else do
            let d ← appendNamed src m name names 0 dst
            expandLoop isName names src m fuel rest d

def expand (isName : Rune → Bool) (names : List Bytes) (template src : Bytes) (m : Match) : Res Bytes :=
  expandLoop isName names src m (template.length + 1) template []

/-! ### Regexp.replaceAll / re:replace -/

/-- `replaceAll` as a function of the match list: copy the text between the
matches, insert `repl` for every match.  `σ` threads the error latch of the
function replacement. -/
def replaceAllLoop {σ : Type} (src : Bytes) (repl : σ → Match → Res (Bytes × σ)) :
    List Match → Int → Bytes → σ → Res (Bytes × σ)
  | [], last, buf, st => do
    let t ← slice src last src.length
    pure (buf ++ t, st)
  | m :: rest, last, buf, st => do
    let a0 ← index m 0
    let a1 ← index m 1
    let pre ← slice src last a0
    let (r, st') ← repl st m
    replaceAllLoop src repl rest a1 (buf ++ pre ++ r) st'

/-- outcome of calling the replacement function -/
inductive CallRes where
  | vals (vs : List Val)
  | err (e : String)

def arityMismatch (what : String) (lo hi actual : Int) : String := s!"AM|{what}|{lo}|{hi}|{actual}"

/-- `replFunc` of re.go with its `errReplace` latch -/
def replFunc (call : Bytes → CallRes) (errReplace : Option String) (s : Bytes) : Bytes × Option String :=
  match errReplace with
  | some e => ([], some e)
  | none =>
    match call s with
    | .err e => ([], some e)
    | .vals [.str o] => (o, none)
    | .vals [.other k] => ([], some (badValue "replacement function output" "string" k))
    | .vals vs => ([], some (arityMismatch "replacement function output" 1 1 vs.length))

/-- the `argRepl` of `re:replace` -/
inductive Repl where
  | str (b : Bytes)
  | fn (call : Bytes → CallRes)
  | other (kind : String)

/-- `replace &literal pattern repl source` -/
def reReplace (patOk literal : Bool) (isName : Rune → Bool) (names : List Bytes) (repl : Repl)
    (src : Bytes) (full : List Match) : Res Bytes :=
  if !patOk then .exc "bad-pattern"
  else if literal then
    match repl with
    | .str r => do
      let (b, _) ← replaceAllLoop src (fun (_ : Unit) _ => .ok (r, ())) full 0 [] ()
      pure b
    | .fn _ => .exc (badValue "literal replacement" "string" "fn")
    | .other k => .exc (badValue "literal replacement" "string" k)
  else
    match repl with
    | .str t => do
      let (b, _) ← replaceAllLoop src (fun (_ : Unit) m => do
        let r ← expand isName names t src m
        pure (r, ())) full 0 [] ()
      pure b
    | .fn call => do
      let (b, e) ← replaceAllLoop src (fun (st : Option String) m => do
        let a0 ← index m 0
        let a1 ← index m 1
        let t ← slice src a0 a1
        pure (replFunc call st t)) full 0 [] none
      match e with
      | some e => .exc e
      | none => pure b
    | .other k => .exc (badValue "replacement" "string or function" k)

/-! ### regexp.QuoteMeta -/

/-- `special(b)`: one of ``\.+*?()|[]{}^$`` -/
def special (b : UInt8) : Bool :=
  b = 92 || b = 46 || b = 43 || b = 42 || b = 63 || b = 40 || b = 41 || b = 124 ||
  b = 91 || b = 93 || b = 123 || b = 125 || b = 94 || b = 36

/-- `regexp.QuoteMeta(s)` -/
def quoteMeta : Bytes → Bytes
  | [] => []
  | b :: t => if special b then 92 :: b :: quoteMeta t else b :: quoteMeta t

end C41
