/-
C41 spec vocabulary: the short, independent definitions the theorems are
stated against.
-/
import ElvModel.C41.Re
namespace C41
open Go

/-- `strings.Join(l, sep)`: the elements with `sep` between neighbours. -/
def intercal (sep : Bytes) : List Bytes → Bytes
  | [] => []
  | [x] => x
  | x :: y :: l => x ++ sep ++ intercal sep (y :: l)

/-- The standard reading of a `0x…` numeral — what elvish's number parser makes
of the strings `to-codepoints` / `to-utf8-bytes` print. -/
def parseHexChars : List Char → Option Nat
  | '0' :: 'x' :: ds =>
    if ds.isEmpty then none
    else ds.foldlM (fun acc c => (hexVal c).map fun d => acc * 16 + d) 0
  | _ => none

/-- Surrogate code points. -/
def isSurrogate (n : Int) : Prop := 0xD800 ≤ n ∧ n ≤ 0xDFFF

/-! ### The engine contract (what `FindAllSubmatchIndex` promises) -/

/-- index pairs of the capture groups: `(-1, -1)` (did not take part) or a range inside the source -/
def GroupsOk (len : Nat) : Match → Prop
  | [] => True
  | [_] => False
  | s :: e :: rest => ((s = -1 ∧ e = -1) ∨ (0 ≤ s ∧ s ≤ e ∧ e ≤ len)) ∧ GroupsOk len rest

/-- one match: group 0 is a real range, the others are `GroupsOk` -/
def MatchOk (len : Nat) : Match → Prop
  | s :: e :: rest => (0 ≤ s ∧ s ≤ e ∧ e ≤ len) ∧ GroupsOk len rest
  | _ => False

/-- successive matches are ascending and do not overlap, starting at `lo` -/
def Asc : Int → List Match → Prop
  | _, [] => True
  | lo, m :: rest =>
    match m with
    | s :: e :: _ => lo ≤ s ∧ s ≤ e ∧ Asc e rest
    | _ => False

/-- every match ends strictly after the previous one ended (`allMatches` drops an
empty match adjacent to the previous match) -/
def EndsIncrease : Int → List Match → Prop
  | _, [] => True
  | prev, m :: rest =>
    match m with
    | _ :: e :: _ => prev < e ∧ EndsIncrease e rest
    | _ => False

/-- the whole contract for a source of length `len` -/
structure EngineOk (len : Nat) (full : List Match) : Prop where
  shape : ∀ m ∈ full, MatchOk len m
  asc : Asc 0 full
  strict : EndsIncrease (-1) full

/-- the text `src[s:e]` of an in-range pair, as a total function (spec side) -/
def sub (src : Bytes) (s e : Int) : Bytes := (src.drop s.toNat).take (e.toNat - s.toNat)

/-- what `re:find` must report for a group -/
def groupSpec (src : Bytes) (s e : Int) : Sub :=
  if s = -1 then { text := [], start := -1, stop := -1 } else { text := sub src s e, start := s, stop := e }

def groupsSpec (src : Bytes) : Match → List Sub
  | s :: e :: rest => groupSpec src s e :: groupsSpec src rest
  | _ => []

def matchSpec (src : Bytes) (m : Match) : MatchVal :=
  match m with
  | s :: e :: _ => { text := sub src s e, start := s, stop := e, groups := groupsSpec src m }
  | _ => { text := [], start := 0, stop := 0, groups := [] }

/-- `src` with every match replaced by `f m`: the text between matches is kept. -/
def spliceSpec (src : Bytes) (f : Match → Bytes) : Int → List Match → Bytes
  | last, [] => sub src last src.length
  | last, m :: rest =>
    match m with
    | s :: e :: _ => sub src last s ++ f m ++ spliceSpec src f e rest
    | _ => []

/-- the gaps between successive matches: `k` matches give `k + 1` gaps -/
def gaps (src : Bytes) : Int → List Match → List Bytes
  | last, [] => [sub src last src.length]
  | last, m :: rest =>
    match m with
    | s :: e :: _ => sub src last s :: gaps src e rest
    | _ => []

/-! ### Lexical reading of a quoted pattern -/

/-- Is there a metacharacter that is not escaped by a preceding backslash
(or a dangling backslash)?  Scans left to right like a regex lexer. -/
def hasUnescapedMeta : Bytes → Bool
  | [] => false
  | [b] => special b
  | b :: c :: t =>
    if b = 92 then hasUnescapedMeta t else special b || hasUnescapedMeta (c :: t)

/-- The literal a pattern made of plain bytes and `\x` escapes denotes. -/
def unquote : Bytes → Bytes
  | [] => []
  | [b] => [b]
  | b :: c :: t => if b = 92 then c :: unquote t else b :: unquote (c :: t)

end C41

namespace C41
open Go

/-- start of the last match (`d` if there is none) -/
def lastStart : Int → List Match → Int
  | d, [] => d
  | d, m :: rest =>
    match m with
    | s :: _ => lastStart s rest
    | [] => lastStart d rest

/-- `Regexp.Split(src, -1)` as documented, from the match positions: the gaps
between the matches, without the (empty) first gap when the first match is an
empty match at 0, and without the last gap when the last match starts at the
end of the text. -/
def piecesSpec (src : Bytes) (full : List Match) : List Bytes :=
  let g := gaps src 0 full
  let g := if lastStart 0 full = src.length then g.dropLast else g
  match full with
  | (_ :: e :: _) :: _ => if e = 0 then g.tail else g
  | _ => g

end C41
