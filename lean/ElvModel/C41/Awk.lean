/-
C41 model, part 4: `re:awk` of pkg/mods/re/re.go, at the wrapper level.

The separator pattern is the abstract engine again: for every input line the
match list of the separator on the TRIMMED line (`strings.Trim(line, " \t")`)
is given.  The callback is a function from its argument list to the way the
call ends (`Flow`); what is observable is the sequence of calls with their
arguments and the error `awk` returns.

    broken := false
    inputs(func(v any) {
        if broken { return }
        line, ok := v.(string)
        if !ok { broken = true; err = ErrInputOfAwkMustBeString; return }
        args := []any{line}
        for _, field := range wordSep.Split(strings.Trim(line, " \t"), -1) { args = append(args, field) }
        ex := f.Call(newFm, args, eval.NoOpts)
        if ex != nil { switch eval.Reason(ex) {
            case nil, eval.Continue:            // nop
            case eval.Break:  broken = true
            default:          broken = true; err = ex } }
    })
    return err
-/
import ElvModel.C41.Spec
namespace C41
open Go

/-- one input value of `re:awk` -/
inductive AwkIn where
  /-- a string, with `FindAllSubmatchIndex(trim(line), -1)` of the separator -/
  | line (b : Bytes) (ms : List Match)
  /-- a value of another kind -/
  | other (kind : String)
  deriving Repr

/-- how one call of the callback ends -/
inductive Flow where
  | ok
  | cont
  | brk
  | err (e : String)
  deriving Repr, DecidableEq

/-- the state of the closure passed to `inputs` -/
structure AwkSt where
  broken : Bool
  err : Option String
  /-- argument lists of the calls made so far -/
  calls : List (List Bytes)
  deriving Repr, DecidableEq

/-- the cutset `" \t"` -/
def awkCutset : Bytes := [32, 9]

def errAwkInput : String := "other:input of re:awk must be string"

/-- the closure body for one input -/
def awkStep (exprEmpty : Bool) (call : List Bytes → Flow) (st : AwkSt) : AwkIn → Res AwkSt
  | .other _ =>
    if st.broken then pure st else pure { st with broken := true, err := some errAwkInput }
  | .line b ms =>
    if st.broken then pure st
    else do
      let fields ← regexpSplit exprEmpty (trim b awkCutset) (-1) ms
      let args := b :: fields
      let st := { st with calls := st.calls ++ [args] }
      match call args with
      | .ok => pure st
      | .cont => pure st
      | .brk => pure { st with broken := true }
      | .err e => pure { st with broken := true, err := some e }

/-- `inputs(f)` calls `f` for every input; it cannot be stopped -/
def awkLoop (exprEmpty : Bool) (call : List Bytes → Flow) : AwkSt → List AwkIn → Res AwkSt
  | st, [] => pure st
  | st, v :: rest => do
    let st ← awkStep exprEmpty call st v
    awkLoop exprEmpty call st rest

/-- `re:awk &sep=… f inputs`: the calls made and the error returned.  (`&sep-posix` and
`&sep-longest` act through `makePattern`, i.e. through `patOk` and the match lists.) -/
def reAwk (patOk exprEmpty : Bool) (call : List Bytes → Flow) (inputs : List AwkIn) :
    Res (List (List Bytes) × Option String) :=
  if !patOk then .exc "bad-pattern"
  else do
    let st ← awkLoop exprEmpty call { broken := false, err := none, calls := [] } inputs
    pure (st.calls, st.err)

/-! ### specification: stop at the first input that ends the loop -/

/-- the fields of a line: Go's documented `Split` of the trimmed line; the one
special case is an empty trimmed line under a non-empty pattern (one empty field) -/
def awkFields (exprEmpty : Bool) (b : Bytes) (ms : List Match) : List Bytes :=
  let t := trim b awkCutset
  if !exprEmpty ∧ t = [] then [[]] else piecesSpec t ms

/-- The calls `re:awk` makes and its error, read off the inputs directly:
lines are processed in order until the first non-string input (error), the first
call that ends in `break` (no error) or in an exception (that exception);
`continue` and normal return go on. -/
def awkSpec (exprEmpty : Bool) (call : List Bytes → Flow) : List AwkIn → List (List Bytes) × Option String
  | [] => ([], none)
  | .other _ :: _ => ([], some errAwkInput)
  | .line b ms :: rest =>
    let args := b :: awkFields exprEmpty b ms
    match call args with
    | .ok | .cont =>
      let (cs, e) := awkSpec exprEmpty call rest
      (args :: cs, e)
    | .brk => ([args], none)
    | .err e => ([args], some e)

/-- the engine contract for the inputs: each line's match list is a contract
match list for the TRIMMED line -/
def AwkInputsOk : List AwkIn → Prop
  | [] => True
  | .other _ :: rest => AwkInputsOk rest
  | .line b ms :: rest => EngineOk (trim b awkCutset).length ms ∧ AwkInputsOk rest

end C41
