/-
C41 model, part 2: the `str:` builtins of pkg/mods/str/str.go that are elvish
code (not plain re-exports): `from-codepoints`, `from-utf8-bytes`, `join`,
`repeat`, `replace`, `split`, `to-codepoints`, `to-utf8-bytes`.
Exceptions are canonical strings `BV|what|valid|actual` (errs.BadValue) and
`OOR|what|low|high|actual` (errs.OutOfRange), the same the harness prints.
-/
import ElvModel.C41.Strings
namespace C41
open Go

/-! ### number formatting (`strconv.FormatInt(_, 16)`, `strconv.Itoa`) -/

/-- Hex digits of `n`, least significant first; exact for `n < 16 ^ fuel`. -/
def hexRev : Nat → Nat → List Nat
  | 0, _ => []
  | f + 1, n => if n < 16 then [n] else n % 16 :: hexRev f (n / 16)

/-- `strconv.FormatUint(n, 16)` for `n < 2^64`, as characters. -/
def hexChars (n : Nat) : List Char := (hexRev 16 n).reverse.map hexDigit

/-- `"0x" + strconv.FormatInt(int64(n), 16)` for `n ≥ 0` -/
def fmtHex (n : Nat) : List Char := '0' :: 'x' :: hexChars n

/-- `strconv.FormatInt(i, 16)` -/
def fmtInt16 (i : Int) : List Char :=
  if i < 0 then '-' :: hexChars i.natAbs else hexChars i.natAbs

/-- `hex(i)` of str.go: `-int64(i)` wraps for the minimum int. -/
def hexOfInt (i : Int) : List Char :=
  if i < 0 then '-' :: '0' :: 'x' :: fmtInt16 (wrap64 (-i)) else '0' :: 'x' :: fmtInt16 i

def badValue (what valid actual : String) : String := s!"BV|{what}|{valid}|{actual}"
def outOfRange (what lo hi actual : String) : String := s!"OOR|{what}|{lo}|{hi}|{actual}"

/-! ### from-codepoints / to-codepoints -/

/-- `fromCodepoints(nums ...int)` -/
def fromCodepointsLoop : List Int → Bytes → Res Bytes
  | [], buf => .ok buf
  | num :: rest, buf =>
    if num < 0 ∨ num > 0x10FFFF then
      .exc (outOfRange "codepoint" "0" "1114111" (String.ofList (hexOfInt num)))
    else if !(validRune num.toNat) then
      .exc (badValue "argument to str:from-codepoints" "valid Unicode codepoint" (String.ofList (hexOfInt num)))
    else fromCodepointsLoop rest (buf ++ encodeRune num.toNat)

def fromCodepoints (nums : List Int) : Res Bytes := fromCodepointsLoop nums []

/-- `toCodepoints`: one `"0x…"` string per `range s` rune (invalid bytes give `0xfffd`). -/
def toCodepoints (s : Bytes) : List (List Char) := (toRunes s).map fmtHex

/-! ### from-utf8-bytes / to-utf8-bytes -/

def fmtByteList (b : Bytes) : String :=
  "[" ++ " ".intercalate (b.map fun x => toString x.toNat) ++ "]"

def fromUtf8BytesLoop : List Int → Bytes → Res Bytes
  | [], buf =>
    if !(validUtf8 buf) then
      .exc (badValue "arguments to str:from-utf8-bytes" "valid UTF-8 sequence" (fmtByteList buf))
    else .ok buf
  | num :: rest, buf =>
    if num < 0 ∨ num > 255 then .exc (outOfRange "byte" "0" "255" (toString num))
    else fromUtf8BytesLoop rest (buf ++ [UInt8.ofNat num.toNat])

/-- `fromUtf8Bytes(nums ...int)` -/
def fromUtf8Bytes (nums : List Int) : Res Bytes := fromUtf8BytesLoop nums []

/-- `toUtf8Bytes` -/
def toUtf8Bytes (s : Bytes) : List (List Char) := s.map fun b => fmtHex b.toNat

/-! ### join -/

/-- An input value of `str:join`: a string or something of another kind. -/
inductive Val where
  | str (b : Bytes)
  | other (kind : String)
  deriving Repr, DecidableEq

/-- the callback of `join`, folded over the inputs (`first` flag, `errJoin` latch:
after the first non-string nothing more is written and the error is returned). -/
def joinLoop (sep : Bytes) : List Val → Bytes → Bool → Res Bytes
  | [], buf, _ => .ok buf
  | .str s :: rest, buf, first =>
    joinLoop sep rest (if first then buf ++ s else buf ++ sep ++ s) false
  | .other k :: _, _, _ => .exc (badValue "input to str:join" "string" k)

def join (sep : Bytes) (inputs : List Val) : Res Bytes := joinLoop sep inputs [] true

/-! ### split / replace -/

/-- `split &max`: the values put on the output. -/
def split (max : Int) (sep s : Bytes) : List Bytes := splitN s sep max

/-- `replace &max old repl s` -/
def strReplace (max : Int) (old repl s : Bytes) : Res Bytes := replace s old repl max

/-! ### repeat -/

/-- `repeat` AS CODED in the unchanged tree: the guard `len(s)*n < 0` is evaluated
on the wrapped 64-bit product. -/
def repeatOrig (s : Bytes) (n : Int) : Res Bytes :=
  if n < 0 then .exc (badValue "n" "non-negative number" (toString n))
  else if wrap64 (s.length * n) < 0 then
    .exc (badValue "n" "small enough not to overflow result" (toString n))
  else stringsRepeat s n

/-- `repeat` with fixes/C41-repeat-overflow.patch only: the guard divides instead of
multiplying (`len(s) > 0 && n > math.MaxInt/len(s)`), but any result length up to
`MaxInt` is handed to `strings.Repeat` (round 1's model; kept for
`C41_repeat_uncapped_counterexample`). -/
def repeatUncapped (maxAlloc : Int) (s : Bytes) (n : Int) : Res Bytes :=
  if n < 0 then .exc (badValue "n" "non-negative number" (toString n))
  else if s.length > 0 ∧ n > maxInt / s.length then
    .exc (badValue "n" "small enough not to overflow result" (toString n))
  else stringsRepeatA maxAlloc s n

/-- `repeat` as it is now (fixes/C41-repeat-overflow.patch + fixes/C41-repeat-size-cap.patch):
overflow guard by division, then the documented cap `len(s)*n > maxRepeatLen`
(the product cannot wrap here), then `strings.Repeat` on a platform whose
allocation limit is `maxAlloc`. -/
def strRepeatA (maxAlloc : Int) (s : Bytes) (n : Int) : Res Bytes :=
  if n < 0 then .exc (badValue "n" "non-negative number" (toString n))
  else if s.length > 0 ∧ n > maxInt / s.length then
    .exc (badValue "n" "small enough not to overflow result" (toString n))
  else if wrap64 (s.length * n) > maxRepeatLen then
    .exc (badValue "n" "small enough for the result not to exceed 2147483647 bytes" (toString n))
  else stringsRepeatA maxAlloc s n

/-- the allocation limit of linux/amd64 and linux/arm64 (`1 << heapAddrBits`, 48 bits) -/
def maxAlloc64 : Int := 281474976710656

/-- `str:repeat` on a 64-bit Linux (what the driver runs) -/
def strRepeat (s : Bytes) (n : Int) : Res Bytes := strRepeatA maxAlloc64 s n

end C41
