/-
C41 model, part 1: the functions of Go's `strings` package that `str:` wraps,
by their documented semantics / their source (go1.23 `strings/strings.go`),
over byte strings.  Slices inside the library are `take`/`drop` (the library
is not the subject; its partial operations are guarded by its own loop
conditions); where the library can really panic (`strings.Repeat`) the panic
is an explicit outcome.
-/
import ElvModel.Go.Utf8
namespace C41
open Go

/-- `strings.HasPrefix(s, p)` -/
def hasPrefix (s p : Bytes) : Bool := p.isPrefixOf s
/-- `strings.HasSuffix(s, p)` -/
def hasSuffix (s p : Bytes) : Bool := p.isSuffixOf s
/-- `strings.TrimPrefix(s, p)` -/
def trimPrefix (s p : Bytes) : Bytes := if hasPrefix s p then s.drop p.length else s
/-- `strings.TrimSuffix(s, p)` -/
def trimSuffix (s p : Bytes) : Bytes := if hasSuffix s p then s.take (s.length - p.length) else s

/-- `strings.Index(s, sub)`: the least `i` such that `sub` is a prefix of `s[i:]`
(`none` for Go's `-1`). -/
def strIndex (s sub : Bytes) : Option Nat :=
  if sub.isPrefixOf s then some 0
  else match s with
    | [] => none
    | _ :: t => (strIndex t sub).map (· + 1)

/-- `strings.LastIndex(s, sub)`: the greatest such `i`. -/
def strLastIndex (s sub : Bytes) : Option Nat :=
  match s with
  | [] => if sub.isEmpty then some 0 else none
  | b :: t =>
    match strLastIndex t sub with
    | some i => some (i + 1)
    | none => if sub.isPrefixOf (b :: t) then some 0 else none

/-- Go's `int` result of `Index`/`LastIndex`. -/
def optIdx : Option Nat → Int
  | some i => i
  | none => -1

/-- `strings.Contains` -/
def contains (s sub : Bytes) : Bool := (strIndex s sub).isSome

/-- `utf8.RuneCountInString` -/
def runeCount (s : Bytes) : Nat := (runes s).length

/-- The loop of `strings.Count` for a non-empty `sub`: repeatedly `Index`, skip
past the occurrence.  `fuel ≥ len s` is exact: with no fuel left the string is
empty and a non-empty `sub` does not occur. -/
def countLoop (sub : Bytes) : Nat → Bytes → Nat
  | 0, _ => 0
  | fuel + 1, s =>
    match strIndex s sub with
    | none => 0
    | some i => 1 + countLoop sub fuel (s.drop (i + sub.length))

/-- `strings.Count(s, sub)` -/
def count (s sub : Bytes) : Nat :=
  if sub.isEmpty then runeCount s + 1 else countLoop sub s.length s

/-- The loop of `genSplit` for a non-empty separator: at most `n` cuts. -/
def splitLoop (sep : Bytes) : Nat → Bytes → List Bytes
  | 0, s => [s]
  | n + 1, s =>
    match strIndex s sep with
    | none => [s]
    | some m => s.take m :: splitLoop sep n (s.drop (m + sep.length))

/-- The loop of `explode`: `k` single UTF-8 sequences (an invalid byte is a
sequence of its own), then the rest. -/
def explodeLoop : Nat → Bytes → List Bytes
  | 0, s => [s]
  | k + 1, s =>
    let size := (decodeRune s).2
    s.take size :: explodeLoop k (s.drop size)

/-- `strings.explode(s, n)` -/
def explode (s : Bytes) (n : Int) : List Bytes :=
  let l := runeCount s
  let n : Nat := if n < 0 ∨ n > l then l else n.toNat
  if n = 0 then [] else explodeLoop (n - 1) s

/-- `strings.SplitN(s, sep, n)` (= `genSplit(s, sep, 0, n)`) -/
def splitN (s sep : Bytes) (n : Int) : List Bytes :=
  if n = 0 then []
  else if sep.isEmpty then explode s n
  else
    let n : Int := if n < 0 then count s sep + 1 else n
    let n : Int := if n > s.length + 1 then s.length + 1 else n
    splitLoop sep (n.toNat - 1) s

/-- The replacement loop of `strings.Replace` on the not yet copied rest of `s`:
`k` replacements; `first` is `i == 0`.  The `Index` of a non-empty `old` that
does not occur would make Go slice `s[start:start-1]`: an explicit panic
(unreachable because `k ≤ Count(s, old)`, see `ElvProofs`). -/
def replaceLoop (old new : Bytes) : Nat → Bool → Bytes → Res Bytes
  | 0, _, rest => .ok rest
  | k + 1, first, rest =>
    let j : Option Nat :=
      if old.isEmpty then (if first then some 0 else some (decodeRune rest).2)
      else strIndex rest old
    match j with
    | none => .panic "slice bounds out of range"
    | some j =>
      match replaceLoop old new k false (rest.drop (j + old.length)) with
      | .ok r => .ok (rest.take j ++ new ++ r)
      | e => e

/-- `strings.Replace(s, old, new, n)` -/
def replace (s old new : Bytes) (n : Int) : Res Bytes :=
  if old = new ∨ n = 0 then .ok s
  else
    let m := count s old
    if m = 0 then .ok s
    else
      let n : Nat := if n < 0 ∨ (m : Int) < n then m else n.toNat
      replaceLoop old new n true s

def maxInt : Int := 9223372036854775807

/-- Two's-complement wrap-around of a 64-bit `int` product/sum. -/
def wrap64 (x : Int) : Int := (x + 9223372036854775808) % 18446744073709551616 - 9223372036854775808

/-- `math.MaxInt32`: the cap of `str:repeat` (fixes/C41-repeat-size-cap.patch) -/
def maxRepeatLen : Int := 2147483647

/-- `strings.Repeat(s, count)` of go1.23: panics on a negative count and on an
overflowing result length; then `strings.Builder.Grow(len(s)*count)` allocates the
result, and the runtime's `makeslice` panics (`len out of range`) when the length
exceeds the platform's allocation limit `maxAlloc` (2^48 on linux/amd64, 2^33 on
ios/arm64, …; a parameter).  An allocation below the limit that the machine cannot
satisfy ends the process (`fatal error: out of memory`) — not a Go panic, not
modelled: no Go program can react to it. -/
def stringsRepeatA (maxAlloc : Int) (s : Bytes) (count : Int) : Res Bytes :=
  if count = 0 then .ok []
  else if count = 1 then .ok s
  else if count < 0 then .panic "strings: negative Repeat count"
  else if (s.length : Int) > maxInt / count then .panic "strings: Repeat output length overflow"
  else if s.isEmpty then .ok []
  else if (s.length : Int) * count > maxAlloc then .panic "makeslice: len out of range"
  else .ok (List.replicate count.toNat s).flatten

/-- `strings.Repeat` on a machine without an allocation limit (what round 1 modelled) -/
def stringsRepeat (s : Bytes) (count : Int) : Res Bytes :=
  if count = 0 then .ok []
  else if count = 1 then .ok s
  else if count < 0 then .panic "strings: negative Repeat count"
  else if (s.length : Int) > maxInt / count then .panic "strings: Repeat output length overflow"
  else if s.isEmpty then .ok []
  else .ok (List.replicate count.toNat s).flatten

/-- `strings.IndexRune(s, r) >= 0` (`strings.ContainsRune`) for a rune produced
by decoding (a scalar value or `RuneError`). -/
def containsRune (cutset : Bytes) (r : Rune) : Bool :=
  if r < 0x80 then cutset.contains (UInt8.ofNat r)
  else if r = RuneError then (toRunes cutset).contains RuneError
  else if !(validRune r) then false
  else (strIndex cutset (encodeRune r)).isSome

/-- `strings.TrimLeft(s, cutset)` (all four code paths of the library agree with
the rune-wise one; checked by correspondence). -/
def trimLeftLoop (cutset : Bytes) : Nat → Bytes → Bytes
  | 0, s => s
  | fuel + 1, s =>
    match s with
    | [] => []
    | _ :: _ =>
      let (r, n) := decodeRune s
      if containsRune cutset r then trimLeftLoop cutset fuel (s.drop n) else s

def trimLeft (s cutset : Bytes) : Bytes :=
  if s.isEmpty ∨ cutset.isEmpty then s else trimLeftLoop cutset s.length s

/-- `strings.TrimRight(s, cutset)` -/
def trimRightLoop (cutset : Bytes) : Nat → Bytes → Bytes
  | 0, s => s
  | fuel + 1, s =>
    match s with
    | [] => []
    | _ :: _ =>
      let (r, n) := decodeLastRune s
      if containsRune cutset r then trimRightLoop cutset fuel (s.take (s.length - n)) else s

def trimRight (s cutset : Bytes) : Bytes :=
  if s.isEmpty ∨ cutset.isEmpty then s else trimRightLoop cutset s.length s

/-- `strings.Trim(s, cutset)` -/
def trim (s cutset : Bytes) : Bytes :=
  if s.isEmpty ∨ cutset.isEmpty then s else trimLeft (trimRight s cutset) cutset

/-- `strings.Compare(a, b)`: bytewise lexicographic, `-1 | 0 | 1`. -/
def strCompare : Bytes → Bytes → Int
  | [], [] => 0
  | [], _ :: _ => -1
  | _ :: _, [] => 1
  | a :: s, b :: t => if a < b then -1 else if b < a then 1 else strCompare s t

end C41
