/-
C41 model, part 5: `makePattern` / `compile` of pkg/mods/re/re.go with the
IDENTITY of the `*regexp.Regexp` objects made explicit.

`Regexp.Longest()` MUTATES the object it is called on.  Whether a call of a
`re:` builtin can influence a later one therefore depends on which object
`makePattern` hands out.  The heap `Heap` is the list of all `*Regexp` objects
allocated so far (oldest first; a reference is a position); an engine `Engine`
says which patterns compile and what an object in a given state matches.

* `compileH` / `makePatternH` — the code: `regexp.Compile` returns a NEW object
  on every call, `Longest()` is called on that object.
* `compileCachedH` / `makePatternCachedH` — the variant with a cache keyed by
  `(pattern, posix)` that hands out a shared object (the seeded change
  `C41-regexp-cache-shares-longest`); kept as a counter-model.

`withPatternH` is a `re:` builtin seen from here: make the pattern, match with
THAT OBJECT in its current state, continue with the wrapper logic.
-/
import ElvModel.C41.Awk
namespace C41
open Go

/-- the state of one `*regexp.Regexp` -/
structure ReObj where
  pat : Bytes
  posix : Bool
  longest : Bool
  deriving Repr, DecidableEq

/-- all `*Regexp` objects allocated so far, oldest first -/
abbrev Heap := List ReObj

/-- the regexp library, abstractly -/
structure Engine where
  /-- does `regexp.Compile` / `CompilePOSIX` accept the pattern? -/
  patOk : Bytes → Bool → Bool
  /-- `FindAllSubmatchIndex(src, -1)` of an object with this pattern, syntax and `longest` flag -/
  run : Bytes → Bool → Bool → Bytes → List Match

/-- `re.Longest()` on object `r` -/
def setLongest : Heap → Nat → Heap
  | [], _ => []
  | o :: h, 0 => { o with longest := true } :: h
  | o :: h, r + 1 => o :: setLongest h r

/-- `compile(p, posix)`: `regexp.Compile` / `CompilePOSIX` allocate a new object -/
def compileH (E : Engine) (h : Heap) (p : Bytes) (posix : Bool) : Heap × Option Nat :=
  if E.patOk p posix then (h ++ [{ pat := p, posix := posix, longest := false }], some h.length)
  else (h, none)

/-- `makePattern(p, posix, longest)` -/
def makePatternH (E : Engine) (h : Heap) (p : Bytes) (posix longest : Bool) : Heap × Option Nat :=
  match compileH E h p posix with
  | (h', none) => (h', none)
  | (h', some r) => if longest then (setLongest h' r, some r) else (h', some r)

/-- a `re:` builtin: `bad` for a pattern error, else `k` of what the OBJECT matches
in the state it is in when used (`nilDeref` if the reference dangles — unreachable) -/
def withPatternH {β : Type} (E : Engine) (h : Heap) (p : Bytes) (posix longest : Bool) (src : Bytes)
    (bad nilDeref : β) (k : List Match → β) : Heap × β :=
  match makePatternH E h p posix longest with
  | (h', none) => (h', bad)
  | (h', some r) =>
    match h'[r]? with
    | none => (h', nilDeref)
    | some o => (h', k (E.run o.pat o.posix o.longest src))

/-- the same builtin as a function of (pattern, flags, subject) only -/
def withPattern {β : Type} (E : Engine) (p : Bytes) (posix longest : Bool) (src : Bytes)
    (bad : β) (k : List Match → β) : β :=
  if E.patOk p posix then k (E.run p posix longest src) else bad

/-! ### counter-model: a pattern cache that shares the object -/

def findObj (p : Bytes) (posix : Bool) : Heap → Nat → Option Nat
  | [], _ => none
  | o :: h, i => if o.pat = p ∧ o.posix = posix then some i else findObj p posix h (i + 1)

/-- `compile` with a cache keyed by `(pattern, posix)` -/
def compileCachedH (E : Engine) (h : Heap) (p : Bytes) (posix : Bool) : Heap × Option Nat :=
  match findObj p posix h 0 with
  | some r => (h, some r)
  | none => compileH E h p posix

def makePatternCachedH (E : Engine) (h : Heap) (p : Bytes) (posix longest : Bool) : Heap × Option Nat :=
  match compileCachedH E h p posix with
  | (h', none) => (h', none)
  | (h', some r) => if longest then (setLongest h' r, some r) else (h', some r)

def withPatternCachedH {β : Type} (E : Engine) (h : Heap) (p : Bytes) (posix longest : Bool) (src : Bytes)
    (bad nilDeref : β) (k : List Match → β) : Heap × β :=
  match makePatternCachedH E h p posix longest with
  | (h', none) => (h', bad)
  | (h', some r) =>
    match h'[r]? with
    | none => (h', nilDeref)
    | some o => (h', k (E.run o.pat o.posix o.longest src))

end C41
