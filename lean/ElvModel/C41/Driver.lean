/-
C41 driver: decodes op lines (see harness/c41/c41.go for the protocol) and
prints the model's canonical outcome.
-/
import ElvModel.Go.Driver
import ElvModel.C41.Template
import ElvModel.C41.History
namespace C41
open Go

def sTok (b : Bytes) : String := "s:" ++ hexEnc b
def cTok (cs : List Char) : String := sTok (strBytes (String.ofList cs))

def okLine (toks : List String) : String := " ".intercalate ("OK" :: toks)

def resLine {α} (r : Res α) (f : α → List String) : String :=
  match r with
  | .ok a => okLine (f a)
  | .exc e => "EXC " ++ e
  | .panic w => if w = "FUEL" then "FUEL" else "PANIC"

def boolTok (b : Bool) : String := if b then "b:true" else "b:false"
def intTok (i : Int) : String := s!"n:{i}"

def parseInts (s : String) : Option (List Int) :=
  if s = "-" then some [] else (s.splitOn ",").mapM String.toInt?

def parseMatches (s : String) : Option (List Match) :=
  if s = "-" then some [] else (s.splitOn ";").mapM parseInts

def parseHexList (s : String) : Option (List Bytes) :=
  (s.splitOn ",").mapM hexDecode

def parseItems (s : String) : Option (List Val) :=
  if s = "-" then some []
  else (s.splitOn ",").mapM fun it =>
    match it.toList with
    | 's' :: rest => (hexDecode (String.ofList rest)).map Val.str
    | 'k' :: rest => some (Val.other (String.ofList rest))
    | _ => none

def subTok (g : Sub) : String := s!"[{hexEnc g.text},{g.start},{g.stop}]"
def matchTok (m : MatchVal) : String :=
  s!"m:{hexEnc m.text},{m.start},{m.stop}" ++ String.join (m.groups.map subTok)

/-- the replacement functions the harness uses, by id -/
def callById (id : String) (s : Bytes) : CallRes :=
  match id with
  | "wrap" => .vals [.str ([60] ++ s ++ [62])]
  | "two" => .vals [.str [97], .str [98]]
  | "none" => .vals []
  | "list" => .vals [.other "list"]
  | "num" => .vals [.other "number"]
  | "failb" => if s = [98] then .err "fail" else .vals [.str s]
  | _ => .err "fail"

def bin2 (a b : String) (f : Bytes → Bytes → String) : String :=
  match hexDecode a, hexDecode b with
  | some x, some y => f x y
  | _, _ => "bad-op"

def stepLine : List String → String
  | ["split", max, sep, s] =>
    match max.toInt?, hexDecode sep, hexDecode s with
    | some n, some sep, some s => okLine ((split n sep s).map sTok)
    | _, _, _ => "bad-op"
  | ["join", sep, items] =>
    match hexDecode sep, parseItems items with
    | some sep, some vs => resLine (join sep vs) fun b => [sTok b]
    | _, _ => "bad-op"
  | ["splitjoin", max, sep, s] =>
    match max.toInt?, hexDecode sep, hexDecode s with
    | some n, some sep, some s => resLine (join sep ((split n sep s).map Val.str)) fun b => [sTok b]
    | _, _, _ => "bad-op"
  | ["replace", max, old, new, s] =>
    match max.toInt?, hexDecode old, hexDecode new, hexDecode s with
    | some n, some old, some new, some s => resLine (strReplace n old new s) fun b => [sTok b]
    | _, _, _, _ => "bad-op"
  | ["repeat", s, n] =>
    match hexDecode s, n.toInt? with
    | some s, some n => resLine (strRepeat s n) fun b => [sTok b]
    | _, _ => "bad-op"
  | ["to-cp", s] =>
    match hexDecode s with
    | some s => okLine ((toCodepoints s).map cTok)
    | none => "bad-op"
  | ["from-cp", ns] =>
    match parseInts ns with
    | some ns => resLine (fromCodepoints ns) fun b => [sTok b]
    | none => "bad-op"
  | ["cp-rt", s] =>
    match hexDecode s with
    | some s =>
      match (toCodepoints s).mapM parseHexChars with
      | some ns => resLine (fromCodepoints (ns.map Int.ofNat)) fun b => [sTok b]
      | none => "unparsable"
    | none => "bad-op"
  | ["to-u8", s] =>
    match hexDecode s with
    | some s => okLine ((toUtf8Bytes s).map cTok)
    | none => "bad-op"
  | ["from-u8", ns] =>
    match parseInts ns with
    | some ns => resLine (fromUtf8Bytes ns) fun b => [sTok b]
    | none => "bad-op"
  | ["u8-rt", s] =>
    match hexDecode s with
    | some s =>
      match (toUtf8Bytes s).mapM parseHexChars with
      | some ns => resLine (fromUtf8Bytes (ns.map Int.ofNat)) fun b => [sTok b]
      | none => "unparsable"
    | none => "bad-op"
  | ["index", s, sub] => bin2 s sub fun s sub => okLine [intTok (optIdx (strIndex s sub))]
  | ["last-index", s, sub] => bin2 s sub fun s sub => okLine [intTok (optIdx (strLastIndex s sub))]
  | ["has-prefix", s, p] => bin2 s p fun s p => okLine [boolTok (hasPrefix s p)]
  | ["has-suffix", s, p] => bin2 s p fun s p => okLine [boolTok (hasSuffix s p)]
  | ["trim-prefix", s, p] => bin2 s p fun s p => okLine [sTok (trimPrefix s p)]
  | ["trim-suffix", s, p] => bin2 s p fun s p => okLine [sTok (trimSuffix s p)]
  | ["contains", s, p] => bin2 s p fun s p => okLine [boolTok (contains s p)]
  | ["count", s, p] => bin2 s p fun s p => okLine [intTok (count s p)]
  | ["trim", s, p] => bin2 s p fun s p => okLine [sTok (trim s p)]
  | ["trim-left", s, p] => bin2 s p fun s p => okLine [sTok (trimLeft s p)]
  | ["trim-right", s, p] => bin2 s p fun s p => okLine [sTok (trimRight s p)]
  | ["compare", s, p] => bin2 s p fun s p => okLine [intTok (strCompare s p)]
  | "lib" :: _ => "LIB"
  | ["quote", s] =>
    match hexDecode s with
    | some s => okLine [sTok (quoteMeta s)]
    | none => "bad-op"
  | "reset" :: _ => "RESET"
  | _ => "bad-op"

/-! ### the `re:` ops: decoded into a pattern use + the wrapper logic -/

/-- a decoded `re:` op: which pattern is made with which flags, on which subject,
what the engine says (`patOk`, `full` — from the op line), and the wrapper logic
`k` that turns (pattern accepted?, match list) into the output line -/
structure ReCall where
  pat : Bytes
  posix : Bool
  longest : Bool
  src : Bytes
  patOk : Bool
  full : List Match
  k : Bool → List Match → String

def hasFlag (flags : String) (c : Char) : Bool := flags.toList.contains c

/-- callbacks of the `awk` ops, by id: how the call ends, from its arguments -/
def awkCallById (id : String) (args : List Bytes) : Flow :=
  match id with
  | "put" => .ok
  | "cont" => .cont
  | "mix" =>
    match args with
    | _ :: f1 :: _ =>
      if f1 = [120] then .brk else if f1 = [99] then .err "fail" else if f1 = [97] then .cont else .ok
    | _ => .ok
  | _ => .err "fail"

/-- `s<hex>` | `k<kind>`, separated by `|` -/
def parseAwkItems (s : String) : Option (List (Bytes ⊕ String)) :=
  if s = "-" then some []
  else (s.splitOn "|").mapM fun it =>
    match it.toList with
    | 's' :: rest => (hexDecode (String.ofList rest)).map Sum.inl
    | 'k' :: rest => some (Sum.inr (String.ofList rest))
    | _ => none

/-- the match lists of the string items, in order, separated by `|` -/
def parseAwkMatches (s : String) : Option (List (List Match)) :=
  if s = "-" then some [] else (s.splitOn "|").mapM parseMatches

def zipAwk : List (Bytes ⊕ String) → List (List Match) → List AwkIn
  | [], _ => []
  | .inr k :: rest, mss => .other k :: zipAwk rest mss
  | .inl b :: rest, ms :: mss => .line b ms :: zipAwk rest mss
  | .inl b :: rest, [] => .line b [] :: zipAwk rest []

def awkLine (r : Res (List (List Bytes) × Option String)) : String :=
  match r with
  | .ok (calls, e) =>
    let cs := calls.map fun args => "c:" ++ ",".intercalate (args.map hexEnc)
    " ".intercalate ("AWK" :: cs) ++ (match e with | some e => " EXC " ++ e | none => " OK")
  | .exc e => "EXC " ++ e
  | .panic w => if w = "FUEL" then "FUEL" else "PANIC"

def decodeRe : List String → Option ReCall
  | ["find", flags, max, pat, src, patok, ms] =>
    match max.toInt?, hexDecode pat, hexDecode src, parseMatches ms with
    | some n, some pat, some src, some full =>
      some { pat, posix := hasFlag flags 'p', longest := hasFlag flags 'g', src, patOk := patok = "1", full,
             k := fun ok full => resLine (reFind ok n src full) fun l => l.map matchTok }
    | _, _, _, _ => none
  | ["resplit", flags, max, pat, src, patok, ms] =>
    match max.toInt?, hexDecode pat, hexDecode src, parseMatches ms with
    | some n, some pat, some src, some full =>
      some { pat, posix := hasFlag flags 'p', longest := hasFlag flags 'g', src, patOk := patok = "1", full,
             k := fun ok full => resLine (reSplit ok pat.isEmpty n src full) fun l => l.map sTok }
    | _, _, _, _ => none
  | ["rematch", flags, pat, src, patok, ms] =>
    match hexDecode pat, hexDecode src, parseMatches ms with
    | some pat, some src, some full =>
      some { pat, posix := hasFlag flags 'p', longest := false, src, patOk := patok = "1", full,
             k := fun ok full => resLine (reMatch ok full) fun b => [boolTok b] }
    | _, _, _ => none
  | ["rereplace", flags, pat, kind, repl, src, patok, ms, names, nameRunes] =>
    match hexDecode pat, hexDecode src, parseMatches ms, parseHexList names, parseInts nameRunes with
    | some pat, some src, some full, some names, some nr =>
      let literal := hasFlag flags 'l'
      let isName : Rune → Bool := fun r => r = 95 || nr.contains (Int.ofNat r)
      let r : Option Repl :=
        match kind with
        | "s" => (hexDecode repl).map Repl.str
        | "f" => some (Repl.fn (callById repl))
        | "o" => some (Repl.other repl)
        | _ => none
      match r with
      | some r =>
        some { pat, posix := hasFlag flags 'p', longest := hasFlag flags 'g', src, patOk := patok = "1", full,
               k := fun ok full => resLine (reReplace ok literal isName names r src full) fun b => [sTok b] }
      | none => none
    | _, _, _, _, _ => none
  | ["awk", flags, sep, cb, items, patok, mss] =>
    -- `makePattern(opts.Sep, opts.SepPosix, opts.SepLongest)` once; the subjects are the trimmed
    -- lines, and the engine's answers for all of them travel in the op line
    match hexDecode sep, parseAwkItems items, parseAwkMatches mss with
    | some sep, some its, some mss =>
      some { pat := sep, posix := hasFlag flags 'p', longest := hasFlag flags 'g', src := [], patOk := patok = "1",
             full := [],
             k := fun ok _ => awkLine (reAwk ok sep.isEmpty (awkCallById cb) (zipAwk its mss)) }
    | _, _, _ => none
  | _ => none

/-- the engine an op line describes: it answers for the pattern, flags and subject of the op -/
def engineOf (c : ReCall) : Engine where
  patOk := fun _ _ => c.patOk
  run := fun p px lg s => if p = c.pat ∧ px = c.posix ∧ lg = c.longest ∧ s = c.src then c.full else []

/-- A `re:` op as a function of its op line only. -/
def reLine (c : ReCall) : String :=
  withPattern (engineOf c) c.pat c.posix c.longest c.src (c.k false []) (c.k true)

/-- The same op run against the heap of `*Regexp` objects left by the ops before it. -/
def reLineH (h : Heap) (c : ReCall) : Heap × String :=
  withPatternH (engineOf c) h c.pat c.posix c.longest c.src (c.k false []) "NIL-DEREF" (c.k true)

/-- history-free semantics of an op line -/
def stepPure (l : List String) : String :=
  match decodeRe l with
  | some c => reLine c
  | none => stepLine l

/-- the driver's step: the heap of regexp objects is threaded through the `re:` ops
(`reset` = a new process image: empty heap) -/
def stepH (h : Heap) (l : List String) : Heap × String :=
  match decodeRe l with
  | some c => reLineH h c
  | none =>
    match l with
    | "reset" :: _ => ([], "RESET")
    | _ => (h, stepLine l)

def driver : Driver := { σ := Heap, init := [], step := stepH }
end C41
