/-
C41 driver: decodes op lines (see harness/c41/c41.go for the protocol) and
prints the model's canonical outcome.
-/
import ElvModel.Go.Driver
import ElvModel.C41.Spec
namespace C41
open Go

def sTok (b : Bytes) : String := "s:" ++ hexEnc b
def cTok (cs : List Char) : String := sTok (strBytes (String.ofList cs))

def okLine (toks : List String) : String := " ".intercalate ("OK" :: toks)

def resLine {α} (r : Res α) (f : α → List String) : String :=
  match r with
  | .ok a => okLine (f a)
  | .exc e => "EXC " ++ e
  | .panic w => if w = "FUEL" then "FUEL" else "PANIC"

def boolTok (b : Bool) : String := if b then "b:true" else "b:false"
def intTok (i : Int) : String := s!"n:{i}"

def parseInts (s : String) : Option (List Int) :=
  if s = "-" then some [] else (s.splitOn ",").mapM String.toInt?

def parseMatches (s : String) : Option (List Match) :=
  if s = "-" then some [] else (s.splitOn ";").mapM parseInts

def parseHexList (s : String) : Option (List Bytes) :=
  (s.splitOn ",").mapM hexDecode

def parseItems (s : String) : Option (List Val) :=
  if s = "-" then some []
  else (s.splitOn ",").mapM fun it =>
    match it.toList with
    | 's' :: rest => (hexDecode (String.ofList rest)).map Val.str
    | 'k' :: rest => some (Val.other (String.ofList rest))
    | _ => none

def subTok (g : Sub) : String := s!"[{hexEnc g.text},{g.start},{g.stop}]"
def matchTok (m : MatchVal) : String :=
  s!"m:{hexEnc m.text},{m.start},{m.stop}" ++ String.join (m.groups.map subTok)

/-- the replacement functions the harness uses, by id -/
def callById (id : String) (s : Bytes) : CallRes :=
  match id with
  | "wrap" => .vals [.str ([60] ++ s ++ [62])]
  | "two" => .vals [.str [97], .str [98]]
  | "none" => .vals []
  | "list" => .vals [.other "list"]
  | "num" => .vals [.other "number"]
  | "failb" => if s = [98] then .err "fail" else .vals [.str s]
  | _ => .err "fail"

def bin2 (a b : String) (f : Bytes → Bytes → String) : String :=
  match hexDecode a, hexDecode b with
  | some x, some y => f x y
  | _, _ => "bad-op"

def stepLine : List String → String
  | ["split", max, sep, s] =>
    match max.toInt?, hexDecode sep, hexDecode s with
    | some n, some sep, some s => okLine ((split n sep s).map sTok)
    | _, _, _ => "bad-op"
  | ["join", sep, items] =>
    match hexDecode sep, parseItems items with
    | some sep, some vs => resLine (join sep vs) fun b => [sTok b]
    | _, _ => "bad-op"
  | ["splitjoin", max, sep, s] =>
    match max.toInt?, hexDecode sep, hexDecode s with
    | some n, some sep, some s => resLine (join sep ((split n sep s).map Val.str)) fun b => [sTok b]
    | _, _, _ => "bad-op"
  | ["replace", max, old, new, s] =>
    match max.toInt?, hexDecode old, hexDecode new, hexDecode s with
    | some n, some old, some new, some s => resLine (strReplace n old new s) fun b => [sTok b]
    | _, _, _, _ => "bad-op"
  | ["repeat", s, n] =>
    match hexDecode s, n.toInt? with
    | some s, some n => resLine (strRepeat s n) fun b => [sTok b]
    | _, _ => "bad-op"
  | ["to-cp", s] =>
    match hexDecode s with
    | some s => okLine ((toCodepoints s).map cTok)
    | none => "bad-op"
  | ["from-cp", ns] =>
    match parseInts ns with
    | some ns => resLine (fromCodepoints ns) fun b => [sTok b]
    | none => "bad-op"
  | ["cp-rt", s] =>
    match hexDecode s with
    | some s =>
      match (toCodepoints s).mapM parseHexChars with
      | some ns => resLine (fromCodepoints (ns.map Int.ofNat)) fun b => [sTok b]
      | none => "unparsable"
    | none => "bad-op"
  | ["to-u8", s] =>
    match hexDecode s with
    | some s => okLine ((toUtf8Bytes s).map cTok)
    | none => "bad-op"
  | ["from-u8", ns] =>
    match parseInts ns with
    | some ns => resLine (fromUtf8Bytes ns) fun b => [sTok b]
    | none => "bad-op"
  | ["u8-rt", s] =>
    match hexDecode s with
    | some s =>
      match (toUtf8Bytes s).mapM parseHexChars with
      | some ns => resLine (fromUtf8Bytes (ns.map Int.ofNat)) fun b => [sTok b]
      | none => "unparsable"
    | none => "bad-op"
  | ["index", s, sub] => bin2 s sub fun s sub => okLine [intTok (optIdx (strIndex s sub))]
  | ["last-index", s, sub] => bin2 s sub fun s sub => okLine [intTok (optIdx (strLastIndex s sub))]
  | ["has-prefix", s, p] => bin2 s p fun s p => okLine [boolTok (hasPrefix s p)]
  | ["has-suffix", s, p] => bin2 s p fun s p => okLine [boolTok (hasSuffix s p)]
  | ["trim-prefix", s, p] => bin2 s p fun s p => okLine [sTok (trimPrefix s p)]
  | ["trim-suffix", s, p] => bin2 s p fun s p => okLine [sTok (trimSuffix s p)]
  | ["contains", s, p] => bin2 s p fun s p => okLine [boolTok (contains s p)]
  | ["count", s, p] => bin2 s p fun s p => okLine [intTok (count s p)]
  | ["trim", s, p] => bin2 s p fun s p => okLine [sTok (trim s p)]
  | ["trim-left", s, p] => bin2 s p fun s p => okLine [sTok (trimLeft s p)]
  | ["trim-right", s, p] => bin2 s p fun s p => okLine [sTok (trimRight s p)]
  | ["compare", s, p] => bin2 s p fun s p => okLine [intTok (strCompare s p)]
  | "lib" :: _ => "LIB"
  | ["quote", s] =>
    match hexDecode s with
    | some s => okLine [sTok (quoteMeta s)]
    | none => "bad-op"
  | ["find", _flags, max, _pat, src, patok, ms] =>
    match max.toInt?, hexDecode src, parseMatches ms with
    | some n, some src, some full => resLine (reFind (patok = "1") n src full) fun l => l.map matchTok
    | _, _, _ => "bad-op"
  | ["resplit", _flags, max, pat, src, patok, ms] =>
    match max.toInt?, hexDecode src, parseMatches ms with
    | some n, some src, some full =>
      resLine (reSplit (patok = "1") (pat = "-") n src full) fun l => l.map sTok
    | _, _, _ => "bad-op"
  | ["rematch", _flags, _pat, _src, patok, ms] =>
    match parseMatches ms with
    | some full => resLine (reMatch (patok = "1") full) fun b => [boolTok b]
    | none => "bad-op"
  | ["rereplace", flags, _pat, kind, repl, src, patok, ms, names, nameRunes] =>
    match hexDecode src, parseMatches ms, parseHexList names, parseInts nameRunes with
    | some src, some full, some names, some nr =>
      let literal := flags.toList.contains 'l'
      let isName : Rune → Bool := fun r => r = 95 || nr.contains (Int.ofNat r)
      let r : Option Repl :=
        match kind with
        | "s" => (hexDecode repl).map Repl.str
        | "f" => some (Repl.fn (callById repl))
        | "o" => some (Repl.other repl)
        | _ => none
      match r with
      | some r => resLine (reReplace (patok = "1") literal isName names r src full) fun b => [sTok b]
      | none => "bad-op"
    | _, _, _, _ => "bad-op"
  | _ => "bad-op"

def driver : Driver := Driver.pure stepLine
end C41
