/-
C41 spec vocabulary for replacement templates (`Regexp.Expand` of Go's regexp
package, used by `re:replace` with a string replacement and without `&literal`).

A template is read as a sequence of TOKENS; the reading is fixed by two things:

* the grammar `Tok.render` (what each token looks like) together with the
  normal form `NormalToks` (longest name: a `$name` reference extends over every
  following name rune; a lone `$` is one that starts neither `$$` nor a
  reference; text pieces contain no `$` and are maximal);
* `tokValue`: what each token contributes for one match.

`tokenize` computes the reading of an arbitrary template.  The theorems
(`ElvProofs/C41/Template*.lean`) show that `tokenize` inverts `render` on normal
token lists, that every template is the rendering of its tokens, and that the
model of Go's `expand` loop produces the concatenation of the token values.
-/
import ElvModel.C41.Spec
namespace C41
open Go

/-- one piece of a replacement template -/
inductive Tok where
  /-- text without `$`, copied -/
  | lit (b : Bytes)
  /-- `$$`, a literal dollar sign -/
  | dollar
  /-- a `$` that starts neither `$$` nor a reference (`$`, `$-`, `${`, `${1`, `${}` …): kept as `$` -/
  | raw
  /-- `$name` (`braced = false`) or `${name}` -/
  | ref (braced : Bool) (name : Bytes)
  deriving Repr, DecidableEq

/-- the grammar: how a token is written -/
def Tok.render : Tok → Bytes
  | .lit b => b
  | .dollar => [36, 36]
  | .raw => [36]
  | .ref false n => 36 :: n
  | .ref true n => 36 :: 123 :: (n ++ [125])

def renderToks : List Tok → Bytes
  | [] => []
  | t :: l => t.render ++ renderToks l

/-! ### which names are numbers -/

/-- the decimal value of a digit string, continuing from `acc` -/
def decVal : Bytes → Nat → Nat
  | [], acc => acc
  | c :: rest, acc => decVal rest (acc * 10 + (c.toNat - 48))

def isDigits (name : Bytes) : Bool := name.all fun c => 48 ≤ c && c ≤ 57

/-- the text of capture group `k` of one match, if the group exists and took part -/
def groupText (src : Bytes) (m : Match) (k : Nat) : Option Bytes :=
  match m[2 * k]?, m[2 * k + 1]? with
  | some a, some b => if a ≥ 0 then some (sub src a b) else none
  | _, _ => none

/-- a named reference: the first group of that name that exists and took part
(Go allows several groups of one name only through `SubexpNames` of nested
syntax; the loop of `expand` is what is specified), else nothing -/
def namedText (src : Bytes) (m : Match) (name : Bytes) : List Bytes → Nat → Bytes
  | [], _ => []
  | namei :: rest, i =>
    if name = namei then
      match groupText src m i with
      | some t => t
      | none => namedText src m name rest (i + 1)
    else namedText src m name rest (i + 1)

/-- what a token contributes to the replacement of the match `m` -/
def tokValue (names : List Bytes) (src : Bytes) (m : Match) : Tok → Bytes
  | .lit b => b
  | .dollar => [36]
  | .raw => [36]
  | .ref _ name =>
    if refNum name ≥ 0 then
      match groupText src m (refNum name).toNat with
      | some t => t
      | none => []
    else namedText src m name names 0

def litTok (b : Bytes) : List Tok := if b = [] then [] else [.lit b]

/-- the reading of a template: split at every `$`, decide what the `$` starts.
Every round consumes the `$`, so `len(template) + 1` rounds always suffice
(`tokenizeLoop_fuel`). -/
def tokenizeLoop (isName : Rune → Bool) : Nat → Bytes → List Tok
  | 0, _ => []
  | fuel + 1, t =>
    match cutDollar t with
    | none => litTok t
    | some (before, after) =>
      litTok before ++
      match after with
      | 36 :: t' => .dollar :: tokenizeLoop isName fuel t'
      | _ =>
        match extract isName after with
        | none => .raw :: tokenizeLoop isName fuel after
        | some (name, _, rest) =>
          .ref (decide (after.head? = some 123)) name :: tokenizeLoop isName fuel rest

def tokenize (isName : Rune → Bool) (t : Bytes) : List Tok := tokenizeLoop isName (t.length + 1) t

/-- the expansion of a template for one match, as the concatenation of its token values -/
def expandSpec (isName : Rune → Bool) (names : List Bytes) (t src : Bytes) (m : Match) : Bytes :=
  ((tokenize isName t).map (tokValue names src m)).flatten

/-! ### normal token lists -/

/-- does the text `s` start with a name rune? -/
def startsName (isName : Rune → Bool) (s : Bytes) : Bool :=
  match s with
  | [] => false
  | _ :: _ => isName (decodeRune s).1

/-- `n` is a name and, written in front of `rest`, it is the LONGEST one -/
def NameBefore (isName : Rune → Bool) (n rest : Bytes) : Prop :=
  n ≠ [] ∧ scanName isName (n ++ rest).length (n ++ rest) = n.length

/-- no `$` inside -/
def noDollar (b : Bytes) : Bool := b.all (· ≠ 36)

/-- Normal form of a token list, relative to what follows (`renderToks` of the
rest): texts are non-empty, `$`-free and not followed by another text; an
unbraced name is the longest one; a braced name is a name up to its `}`; a raw
`$` is followed by nothing that would make it `$$` or a reference. -/
def NormalToks (isName : Rune → Bool) : List Tok → Prop
  | [] => True
  | .lit b :: l =>
    b ≠ [] ∧ noDollar b = true ∧ (match l with | .lit _ :: _ => False | _ => True) ∧ NormalToks isName l
  | .dollar :: l => NormalToks isName l
  | .raw :: l =>
    (renderToks l).head? ≠ some 36 ∧ extract isName (renderToks l) = none ∧ NormalToks isName l
  | .ref false n :: l => n.head? ≠ some 123 ∧ n.head? ≠ some 36 ∧ NameBefore isName n (renderToks l) ∧ NormalToks isName l
  | .ref true n :: l => NameBefore isName n (125 :: renderToks l) ∧ NormalToks isName l

end C41
