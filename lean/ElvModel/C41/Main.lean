import ElvModel.C41.Driver
def main : IO Unit := C41.driver.main
