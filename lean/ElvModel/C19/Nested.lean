import ElvModel.C19.Interp
/-
C19 — propagation of `interrupted` through NESTED and CONCURRENT constructs with an
ASYNCHRONOUS interrupt (round 2).  Core Lean only.

`Interp.lean` covers the sequential fragment with the interrupt delivered synchronously at a
`-vstep`.  Here the interrupt arrives at an arbitrary moment and pipelines have several forms that
run concurrently, `peach` callbacks overlap, and all of it nests arbitrarily.

The only state shared between the goroutines of an evaluation that matters for interrupts is the
monotone flag "the Interrupts context is cancelled".  An arbitrary interleaving is therefore
described faithfully by giving every atomic action a time stamp: fix the delivery time
`T : Option Nat` (`none` = never); a check performed at time `t` sees the interrupt iff `T ≤ t`
(`can T t`).  Sequential composition = non-decreasing time stamps; concurrent composition = the
children run anywhere inside the interval of the parent, overlapping in any way.

The semantics is denotational: `evC T c t0 r t1` / `evP T p t0 r t1` = "started at time `t0`,
`c` / `p` can end at time `t1` with result `r`", with the checks exactly where
pkg/eval/compile_effect.go has them:

  chunkOp.exec     pipelines in order, first exception is returned;
                   after the last one `if fm.Canceled() { return interrupted }`   (time of that check = end time)
  pipelineOp.exec  `if fm.Canceled() { return interrupted }`, then all forms (goroutines), `wg.Wait()`,
                   the exceptions of the forms are combined (`MakePipelineError`)
  sleep            `select { case <-ctx.Done(): interrupted; case <-timer: nil }`
  peach            callbacks run as goroutines; the returned error is the merge of the callbacks'
                   exceptions (with fixes/C20-peach-semaphore.patch a failed `Acquire` only stops feeding)

Result class `R.int` = every leaf of the (possibly composite) exception is `interrupted`, as in
notes/C19.md.  Excluded, as in the sequential fragment: `try … catch`, commands that fail on
their own, background jobs.
-/
namespace C19

mutual
/-- one form of a pipeline -/
inductive Cmd where
  | step                                  -- `-vstep` (any command without a cancellation point)
  | sleep                                 -- `sleep d`
  | loop (n : Nat) (body : Chunk)         -- `for` / `each`: the body closure is called up to `n` times
  | call (body : Chunk)                   -- `{ body }` / a function call
  | tryFinally (body fin : Chunk)         -- `try { body } finally { fin }`
  | par (a b : Cmd)                       -- two forms of ONE pipeline (`a | b`); `a | b | c` = `par a (par b c)`
  | peach (n : Nat) (body : Chunk)        -- `peach` over `n` inputs, callbacks overlap arbitrarily
/-- a chunk: pipelines separated by newlines / `;` -/
inductive Chunk where
  | done
  | pipe (c : Cmd) (rest : Chunk)
end

/-- does a check at time `t` see the interrupt?  (`T` = delivery time, `none` = never) -/
def can (T : Option Nat) (t : Nat) : Bool :=
  match T with
  | some c => decide (c ≤ t)
  | none => false

/-- combination of the exceptions of concurrent branches -/
def R.join : R → R → R
  | .ok, .ok => .ok
  | _, _ => .int

def R.joinAll : List R → R
  | [] => .ok
  | r :: rs => r.join (R.joinAll rs)

/-- up to `n` sequential calls of a closure with semantics `f`; the first exception ends the loop -/
def iterR (f : Nat → R → Nat → Prop) : Nat → Nat → R → Nat → Prop
  | 0, t0, r, t1 => t0 ≤ t1 ∧ r = .ok
  | n + 1, t0, r, t1 =>
    ∃ r1 ta, f t0 r1 ta ∧ ((r1 ≠ .ok ∧ r = r1 ∧ t1 = ta) ∨ (r1 = .ok ∧ iterR f n ta r t1))

/-- every result in the list is the result of one run of `f` somewhere inside `[t0, t1]` -/
def allIn (f : Nat → R → Nat → Prop) (t0 t1 : Nat) : List R → Prop
  | [] => True
  | r :: rs => (∃ ts te, t0 ≤ ts ∧ te ≤ t1 ∧ f ts r te) ∧ allIn f t0 t1 rs

mutual
def evC (T : Option Nat) : Cmd → Nat → R → Nat → Prop
  | .step, t0, r, t1 => t0 ≤ t1 ∧ r = .ok
  | .sleep, t0, r, t1 => t0 ≤ t1 ∧ (r = .int → can T t1 = true)   -- both channels ready: either branch
  | .loop n body, t0, r, t1 => iterR (evP T body) n t0 r t1
  | .call body, t0, r, t1 => evP T body t0 r t1
  | .tryFinally body fin, t0, r, t1 =>
    ∃ r1 ta r2, evP T body t0 r1 ta ∧ evP T fin ta r2 t1 ∧ r = (if r2 = .ok then r1 else r2)
  | .par a b, t0, r, t1 =>
    ∃ ta ra ta' tb rb tb', t0 ≤ ta ∧ ta' ≤ t1 ∧ t0 ≤ tb ∧ tb' ≤ t1 ∧
      evC T a ta ra ta' ∧ evC T b tb rb tb' ∧ r = ra.join rb
  | .peach n body, t0, r, t1 =>
    t0 ≤ t1 ∧ ∃ rs : List R, rs.length ≤ n ∧
      -- an input is skipped only after a callback failed or after the interrupt (C20)
      (rs.length = n ∨ R.joinAll rs = .int ∨ can T t1 = true) ∧
      allIn (evP T body) t0 t1 rs ∧ r = R.joinAll rs
def evP (T : Option Nat) : Chunk → Nat → R → Nat → Prop
  | .done, t0, r, t1 => t0 ≤ t1 ∧ r = (if can T t1 then .int else .ok)
  | .pipe c rest, t0, r, t1 =>
    ∃ ta, t0 ≤ ta ∧
      ((can T ta = true ∧ r = .int ∧ t1 = ta) ∨
       (can T ta = false ∧ ∃ rc tb, evC T c ta rc tb ∧
          ((rc ≠ .ok ∧ r = rc ∧ t1 = tb) ∨ (rc = .ok ∧ evP T rest tb r t1))))
end

/-! ### one executable schedule (everything runs back to back, one time unit per atomic action) -/

def iterRun (f : Nat → R × Nat) : Nat → Nat → R × Nat
  | 0, t => (.ok, t)
  | n + 1, t =>
    match f t with
    | (.ok, ta) => iterRun f n ta
    | (r, ta) => (r, ta)

/-- all `n` callbacks, one after the other -/
def peachRun (f : Nat → R × Nat) : Nat → Nat → List R × Nat
  | 0, t => ([], t)
  | n + 1, t =>
    match f t with
    | (r, ta) => match peachRun f n ta with
      | (rs, tb) => (r :: rs, tb)

mutual
def runC (T : Option Nat) : Cmd → Nat → R × Nat
  | .step, t => (.ok, t + 1)
  | .sleep, t => (if can T (t + 1) then .int else .ok, t + 1)
  | .loop n body, t => iterRun (runP T body) n t
  | .call body, t => runP T body t
  | .tryFinally body fin, t =>
    match runP T body t with
    | (r1, ta) => match runP T fin ta with
      | (r2, tb) => (if r2 = .ok then r1 else r2, tb)
  | .par a b, t =>
    match runC T a t with
    | (ra, ta) => match runC T b ta with
      | (rb, tb) => (ra.join rb, tb)
  | .peach n body, t =>
    match peachRun (runP T body) n t with
    | (rs, tb) => (R.joinAll rs, tb)
def runP (T : Option Nat) : Chunk → Nat → R × Nat
  | .done, t => (if can T (t + 1) then .int else .ok, t + 1)
  | .pipe c rest, t =>
    if can T (t + 1) then (.int, t + 1) else
    match runC T c (t + 1) with
    | (.ok, tb) => runP T rest tb
    | (rc, tb) => (rc, tb)
end

/-- the sequential fragment of `Interp.lean` inside the nested syntax -/
def emb : Prog → Chunk
  | .done => .done
  | .step rest => .pipe .step (emb rest)
  | .sleep rest => .pipe .sleep (emb rest)
  | .loop n body rest => .pipe (.loop n (emb body)) (emb rest)
  | .call body rest => .pipe (.call (emb body)) (emb rest)
  | .tryFinally body fin rest => .pipe (.tryFinally (emb body) (emb fin)) (emb rest)

/-- delivery time of the synchronous interrupt of `Interp.lean` on the clock "number of steps run" -/
def syncT (target : Nat) : Option Nat := if target = 0 then none else some target

end C19
