/-
C19 — the signal side of interrupting an evaluation: `eval.ListenInterrupts`
(pkg/eval/interrupts.go) and the process-wide registration table of os/signal.

    func ListenInterrupts() (context.Context, func()) {
        ctx, cancel := context.WithCancel(context.Background())
        sigCh := make(chan os.Signal, 1)
        signal.Notify(sigCh, syscall.SIGINT, syscall.SIGQUIT)        -- listen i
        go func() {
            select {
            case <-sigCh:     cancel()                                 -- wakeSig i
            case <-ctx.Done():                                         -- wakeDone i
            }
            signal.Stop(sigCh)                                         -- cleanup
        }()
        return ctx, func() { cancel() }                                -- done i
    }

The state that matters is PROCESS-WIDE: os/signal keeps one table `channel →
set of signals`; a signal that no channel wants gets its default action (for
SIGINT / SIGQUIT: the Go runtime terminates the process) unless it is ignored.
Besides the listeners there is the shell's session-wide channel
(pkg/shell.initSignal → sys.NotifySignals → `signal.Notify(ch)`, all signals).

os/signal, as documented:
  Notify(c, sigs…)  adds sigs to c's set (no sigs = all signals); un-ignores them
  Stop(c)           removes c from the table — ONLY c
  Reset(sigs…)      removes sigs from EVERY channel's set, default action restored
  Ignore(sigs…)     removes sigs from EVERY channel's set, signals ignored
  delivery          non-blocking send to every channel whose set has the signal

`Cleanup` is what the listener's goroutine does when it ends: `stopOwn` is the
code; `resetSigs` / `ignoreSigs` are the class of mistakes "the cleanup of ONE
listener changes process-wide signal state" (seeded change
C19-listeninterrupts-signal-reset).  Core Lean only.
-/
namespace C19.Sig

inductive Sg where
  | int | quit
  deriving DecidableEq, Repr

/-- a set of signals, restricted to the two `ListenInterrupts` is about -/
structure Reg where
  wI : Bool
  wQ : Bool
  deriving DecidableEq, Repr

def Reg.all : Reg := ⟨true, true⟩
def Reg.none : Reg := ⟨false, false⟩

def Reg.wants (r : Reg) : Sg → Bool
  | .int => r.wI
  | .quit => r.wQ

def Reg.minus (r m : Reg) : Reg := ⟨r.wI && !m.wI, r.wQ && !m.wQ⟩
def Reg.plus (r m : Reg) : Reg := ⟨r.wI || m.wI, r.wQ || m.wQ⟩

inductive Cleanup where
  | stopOwn
  | resetSigs (m : Reg)
  | ignoreSigs (m : Reg)
  deriving DecidableEq, Repr

/-- one call of `ListenInterrupts` -/
structure Lst where
  id : Nat
  /-- the set of `sigCh` in the os/signal table (`none` = not in the table) -/
  reg : Reg := Reg.all
  /-- `sigCh` (capacity 1) holds a signal -/
  pend : Bool := false
  /-- the returned function was called: the evaluation has returned -/
  done : Bool := false
  /-- the goroutine cancelled the context because of a signal BEFORE the evaluation returned:
  the evaluation returns the interrupted exception (C19_nested_interrupt, delivery time = now) -/
  intr : Bool := false
  /-- the goroutine has finished (its cleanup has run) -/
  exited : Bool := false
  deriving DecidableEq, Repr

structure State where
  /-- the shell's session-wide channel, if installed, and its set -/
  sess : Option Reg := none
  /-- SIGINT/SIGQUIT received on the session channel -/
  sessSeen : Nat := 0
  ls : List Lst := []
  /-- signals whose disposition is "ignore" -/
  ign : Reg := Reg.none
  /-- signals that arrived and were dropped (ignored) -/
  lost : Nat := 0
  /-- the process was terminated by this signal -/
  killed : Option Sg := none
  deriving DecidableEq, Repr

inductive Label where
  | session | unsession
  | listen (i : Nat)
  | done (i : Nat)
  | wakeSig (i : Nat)
  | wakeDone (i : Nat)
  | deliver (s : Sg)
  deriving DecidableEq, Repr

def find (i : Nat) : List Lst → Option Lst
  | [] => none
  | l :: t => if l.id = i then some l else find i t

def upd (i : Nat) (f : Lst → Lst) (ls : List Lst) : List Lst :=
  ls.map (fun l => if l.id = i then f l else l)

def sessWants (s : State) (sg : Sg) : Bool :=
  match s.sess with
  | some r => r.wants sg
  | none => false

/-- the process has a handler for the signal (otherwise: default action or ignored) -/
def handles (s : State) (sg : Sg) : Bool :=
  s.ls.any (fun l => l.reg.wants sg) || sessWants s sg

def cleanup (c : Cleanup) (i : Nat) (s : State) : State :=
  match c with
  | .stopOwn => { s with ls := upd i (fun l => { l with reg := Reg.none }) s.ls }
  | .resetSigs m =>
    { s with ls := s.ls.map (fun l => { l with reg := l.reg.minus m }),
             sess := s.sess.map (·.minus m), ign := s.ign.minus m }
  | .ignoreSigs m =>
    { s with ls := s.ls.map (fun l => { l with reg := l.reg.minus m }),
             sess := s.sess.map (·.minus m), ign := s.ign.plus m }

def step (c : Cleanup) (s : State) (l : Label) : Option State :=
  if s.killed.isSome then none else
  match l with
  | .session =>
    if s.sess.isSome then none else some { s with sess := some Reg.all, ign := Reg.none }
  | .unsession =>
    if s.sess.isSome then some { s with sess := none } else none
  | .listen i =>
    if (find i s.ls).isSome then none
    else some { s with ls := { id := i } :: s.ls, ign := Reg.none }
  | .done i =>
    match find i s.ls with
    | some l => if l.done then none else some { s with ls := upd i (fun l => { l with done := true }) s.ls }
    | none => none
  | .wakeSig i =>
    match find i s.ls with
    | some l =>
      if l.pend ∧ ¬ l.exited then
        some (cleanup c i { s with ls := upd i (fun l => { l with pend := false, intr := !l.done, exited := true }) s.ls })
      else none
    | none => none
  | .wakeDone i =>
    match find i s.ls with
    | some l =>
      if l.done ∧ ¬ l.exited then
        some (cleanup c i { s with ls := upd i (fun l => { l with exited := true }) s.ls })
      else none
    | none => none
  | .deliver sg =>
    if handles s sg then
      some { s with ls := s.ls.map (fun l => if l.reg.wants sg then { l with pend := true } else l),
                    sessSeen := if sessWants s sg then s.sessSeen + 1 else s.sessSeen }
    else if s.ign.wants sg then some { s with lost := s.lost + 1 }
    else some { s with killed := some sg }

/-- a signal is only sent while somebody is supposed to handle it: the session channel is installed
or a listener's goroutine has not finished.  (In the shell the session channel is installed for
the whole session, so this holds at every moment.) -/
def expectsHandler (s : State) : Prop :=
  s.sess.isSome ∨ ∃ l ∈ s.ls, l.exited = false

/-- executions; `deliver` only while a handler is expected -/
inductive Run (c : Cleanup) : List Label → State → Prop where
  | init : Run c [] {}
  | step {tr s l s'} : Run c tr s → (∀ sg, l = .deliver sg → expectsHandler s) →
      step c s l = some s' → Run c (tr ++ [l]) s'

def applyL (c : Cleanup) : State → List Label → Option State
  | s, [] => some s
  | s, l :: ls =>
    match step c s l with
    | some s' => if s'.killed.isSome then some s' else applyL c s' ls
    | none => none

/-! ### scripts (the `sig` ops of the harness)

`S` install the session channel · `U` remove it · `B<i>:<prog>` start evaluation `i` with its own
`ListenInterrupts` (programs whose name starts with `g` end when `F<i>` releases them, the others
only when interrupted) · `F<i>` let evaluation `i` finish · `W<i>` collect its result ·
`I` / `Q` a real SIGINT / SIGQUIT · `Z<µs>` a pause.  Listener goroutines run as soon as they can
(the harness waits for the effects before it goes on). -/

inductive Tok where
  | sess | unsess
  | begin (i : Nat) (gated : Bool)
  | fin (i : Nat)
  | wait (i : Nat)
  | sig (s : Sg)
  | delay
  deriving DecidableEq, Repr

structure X where
  st : State := {}
  gated : List Nat := []
  /-- collected evaluations: id, interrupted? -/
  res : List (Nat × Bool) := []
  deriving Repr

inductive Err where
  | unhandled | bad | killed
  deriving DecidableEq, Repr

/-- the harness's bookkeeping: it sends a signal only if the session channel is installed or an
evaluation is running that has neither returned nor been interrupted -/
def mayDeliver (s : State) : Bool :=
  s.sess.isSome || s.ls.any (fun l => !l.done && !l.intr)

def tokLabels (x : X) : Tok → Except Err (List Label)
  | .sess => .ok [.session]
  | .unsess => .ok [.unsession]
  | .begin i _ => .ok [.listen i]
  | .fin i =>
    match find i x.st.ls with
    | some l => if x.gated.contains i ∧ ¬ l.done ∧ ¬ l.intr then .ok [.done i, .wakeDone i] else .error .bad
    | none => .error .bad
  | .wait i =>
    match find i x.st.ls with
    | some l =>
      if (l.done ∨ l.intr) ∧ ¬ (x.res.any (·.1 = i)) then .ok (if l.done then [] else [.done i])
      else .error .bad
    | none => .error .bad
  | .sig sg =>
    if mayDeliver x.st then
      .ok (.deliver sg :: (x.st.ls.filter (fun l => l.reg.wants sg && !l.exited)).map (fun l => .wakeSig l.id))
    else .error .unhandled
  | .delay => .ok []

def tokStep (c : Cleanup) (x : X) (t : Tok) : Except Err X :=
  match tokLabels x t with
  | .error e => .error e
  | .ok ls =>
    match applyL c x.st ls with
    | none => .error .bad
    | some st =>
      if st.killed.isSome then .error .killed else
      let x := { x with st := st }
      match t with
      | .begin i g => .ok { x with gated := if g then i :: x.gated else x.gated }
      | .wait i =>
        match find i st.ls with
        | some l => .ok { x with res := x.res ++ [(i, l.intr)] }
        | none => .error .bad
      | _ => .ok x

def runToks (c : Cleanup) : X → Nat → List Tok → X ⊕ (Nat × Err)
  | x, _, [] => .inl x
  | x, k, t :: ts =>
    match tokStep c x t with
    | .ok x' => runToks c x' (k + 1) ts
    | .error e => .inr (k, e)

end C19.Sig
