/-
C19 — the sequential effect fragment of the interpreter with the interrupt
checks exactly where the code has them (compile_effect.go):

  chunkOp.exec     runs its pipelines in order, returns the first exception;
                   after the last one: `if fm.Canceled() { return interrupted }`
  pipelineOp.exec  starts with `if fm.Canceled() { return interrupted }`

A program is a chunk: a sequence of single-form pipelines.  Forms: the harness
command `-vstep` (counts; cancels the context synchronously when the counter
reaches the target), `sleep` (returns interrupted if the context is done), a
loop (`for` / `each`: the body closure is called once per element and the first
exception stops it), a closure call, `try … finally …`.  No `catch`, no
background jobs, no command that fails on its own.
-/
namespace C19

inductive Prog where
  | done                                            -- end of the chunk
  | step (rest : Prog)                              -- `-vstep`
  | sleep (rest : Prog)                             -- `sleep <short>`
  | loop (n : Nat) (body rest : Prog)               -- `for i [(range n)] { body }` / `each`
  | call (body rest : Prog)                         -- `{ body }`
  | tryFinally (body fin rest : Prog)               -- `try { body } finally { fin }`
  deriving Repr

/-- result class of a chunk / of `Eval` -/
inductive R where
  | ok | int
  deriving DecidableEq, Repr

structure St where
  steps : Nat := 0
  cancelled : Bool := false
  deriving DecidableEq, Repr

/-- `-vstep`: count; deliver the interrupt when the counter reaches `target` (0 = never) -/
def tick (target : Nat) (st : St) : St :=
  { steps := st.steps + 1, cancelled := st.cancelled || (target != 0 && st.steps + 1 == target) }

/-- call the loop body `n` times, stopping at the first exception -/
def iter (f : St → R × St) : Nat → St → R × St
  | 0, st => (.ok, st)
  | n + 1, st =>
    match f st with
    | (.ok, st') => iter f n st'
    | (r, st') => (r, st')

def exec (target : Nat) : Prog → St → R × St
  | .done, st => if st.cancelled then (.int, st) else (.ok, st)
  | .step rest, st =>
    if st.cancelled then (.int, st) else exec target rest (tick target st)
  | .sleep rest, st =>
    if st.cancelled then (.int, st) else exec target rest st
  | .loop n body rest, st =>
    if st.cancelled then (.int, st) else
    match iter (exec target body) n st with
    | (.ok, st') => exec target rest st'
    | (r, st') => (r, st')
  | .call body rest, st =>
    if st.cancelled then (.int, st) else
    match exec target body st with
    | (.ok, st') => exec target rest st'
    | (r, st') => (r, st')
  | .tryFinally body fin rest, st =>
    if st.cancelled then (.int, st) else
    match exec target body st with
    | (r, st1) =>
      match exec target fin st1 with
      | (.ok, st2) =>
        match r with
        | .ok => exec target rest st2
        | r => (r, st2)
      | (rf, st2) => (rf, st2)

/-! ### concrete syntax for the line protocol

  s rest | z rest | L<n>( body ) rest | C( body ) rest | T( body )( fin ) rest   (blank separated tokens)
-/

def parse : Nat → List String → Option (Prog × List String)
  | 0, _ => none
  | fuel + 1, toks =>
    match toks with
    | [] => some (.done, [])
    | ")" :: rest => some (.done, ")" :: rest)
    | "s" :: rest => (parse fuel rest).map fun (p, r) => (.step p, r)
    | "z" :: rest => (parse fuel rest).map fun (p, r) => (.sleep p, r)
    | "C(" :: rest =>
      match parse fuel rest with
      | some (body, ")" :: r1) => (parse fuel r1).map fun (p, r) => (.call body p, r)
      | _ => none
    | "T(" :: rest =>
      match parse fuel rest with
      | some (body, ")" :: "(" :: r1) =>
        match parse fuel r1 with
        | some (fin, ")" :: r2) => (parse fuel r2).map fun (p, r) => (.tryFinally body fin p, r)
        | _ => none
      | _ => none
    | t :: rest =>
      if t.startsWith "L" ∧ t.endsWith "(" then
        match ((t.drop 1).toString.dropEnd 1).toString.toNat? with
        | some n =>
          match parse fuel rest with
          | some (body, ")" :: r1) => (parse fuel r1).map fun (p, r) => (.loop n body p, r)
          | _ => none
        | none => none
      else none

end C19
