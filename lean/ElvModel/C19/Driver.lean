import ElvModel.Go.Driver
import ElvModel.C19.Model
import ElvModel.C19.Interp
import ElvModel.C19.Signal
import ElvModel.C20.Driver
/-
Line protocol of C19.

  int <program> <cancel-mode> <sched> <trace>  →  ok res=<ok|int|other> maxrun=<…>  |  reject@<pos>:<token>

`trace` is the log recorded from the real evaluation; the driver replays it
with `C19.step` (trace refinement).  Tokens:
  x | ps<pid>:<bgFrame><opBg> | pa<pid>:<bgFrame> | pf<pid>:<bg> | pd<pid>:<bg> | pe<pid>:<bg>
  cb<main> | ce<main><bg><k|i|e> | si<bg> | so | pb<tid>:<k|inf>:<n>:<bg> | p<tid>/<C20 token> | ret:<ok|int|other>
-/
namespace C19
open Go

def bit : Char → Option Bool
  | '0' => some false
  | '1' => some true
  | _ => none

def parseRes (s : String) : Option Res :=
  if s = "ok" then some .ok else if s = "int" then some .int else if s = "other" then some .other else none

def showRes : Res → String
  | .ok => "ok"
  | .int => "int"
  | .other => "other"

def idBits (s : String) (n : Nat) : Option (Nat × List Char) :=
  match (s.drop n).toString.splitOn ":" with
  | [a, b] => a.toNat?.map (·, b.toList)
  | _ => none

def parseLabel (t : String) : Option Label :=
  if t = "x" then some .cancel
  else if t = "so" then some .sleepOk
  else if t.startsWith "ret:" then (parseRes (t.drop 4).toString).map .ret
  else if t.startsWith "ps" then do
    let (pid, bs) ← idBits t 2
    match bs with
    | [a, b] => pure (.pstart pid (← bit a) (← bit b))
    | _ => none
  else if t.startsWith "pa" then do
    let (pid, bs) ← idBits t 2
    match bs with
    | [a] => pure (.pabort pid (← bit a))
    | _ => none
  else if t.startsWith "pf" then do
    let (pid, bs) ← idBits t 2
    match bs with
    | [a] => pure (.pform pid (← bit a))
    | _ => none
  else if t.startsWith "pd" then do
    let (pid, bs) ← idBits t 2
    match bs with
    | [a] => pure (.pformdone pid (← bit a))
    | _ => none
  else if t.startsWith "pe" then do
    let (pid, bs) ← idBits t 2
    match bs with
    | [a] => pure (.pend pid (← bit a))
    | _ => none
  else if t.startsWith "pb" then
    match (t.drop 2).toString.splitOn ":" with
    | [a, k, n, b] => do
      let k ← C20.parseK k
      match b.toList with
      | [bc] => pure (.pbegin (← a.toNat?) k (← n.toNat?) (← bit bc))
      | _ => none
    | _ => none
  else if t.startsWith "cb" then
    match (t.drop 2).toString.toList with
    | [a] => (bit a).map .cbegin
    | _ => none
  else if t.startsWith "ce" then
    match (t.drop 2).toString.toList with
    | [a, b, e] => do
      let ex ← match e with
        | 'k' => some Exit.cok
        | 'i' => some Exit.cint
        | 'e' => some Exit.cexc
        | _ => none
      pure (.cexit (← bit a) (← bit b) ex)
    | _ => none
  else if t.startsWith "si" then
    match (t.drop 2).toString.toList with
    | [a] => (bit a).map .sleepInt
    | _ => none
  else if t.startsWith "p" then
    match (t.drop 1).toString.splitOn "/" with
    | [a, tok] => do pure (.peach (← a.toNat?) (← C20.parseLabel tok))
    | _ => none
  else none

/-- high-water mark of running callbacks per bounded foreground `peach` call: the worst
`running - bound` over the replayed states (≤ 0 iff the bound was never exceeded) -/
def overBound (s : State) : Nat :=
  s.insts.foldl (fun m i =>
    match i.cfg.k with
    | some K => max m (i.st.running - K)
    | none => m) 0

def replayMax : State → Nat → Nat → List Label → (State × Nat) ⊕ Nat
  | s, m, _, [] => .inl (s, m)
  | s, m, i, l :: ls =>
    match step s l with
    | some s' => replayMax s' (max m (overBound s')) (i + 1) ls
    | none => .inr i

def intLine (tr : String) : String :=
  let toks := C20.tokens tr
  match C20.parseAll parseLabel toks with
  | none => "bad-trace"
  | some ls =>
    match replayMax init 0 0 ls with
    | .inr i => s!"reject@{i}:{C20.tokAt toks i}"
    | .inl (s, over) =>
      let panicked := s.insts.any (fun i => i.st.panicked)
      match s.result with
      | some r => if panicked then "PANIC" else s!"ok res={showRes r} over={over}"
      | none => if panicked then "PANIC" else "partial"

/-- `seq <target> <program tokens>` → `res=<ok|int> steps=<n>` (the sequential fragment, Interp.lean) -/
def seqLine (ts prog : String) : String :=
  let toks := C20.tokens prog
  match ts.toNat?, parse (toks.length + 2) toks with
  | some t, some (p, []) =>
    let (r, st) := exec t p {}
    let rs := match r with
      | .ok => "ok"
      | .int => "int"
    s!"res={rs} steps={st.steps}"
  | _, _ => "bad-op"

/-! `sig <procs> <script>` → `alive res=<id>:<ok|int>,… sess=<n>` | `unhandled@k:<tok>` | `bad-script@k:<tok>` |
`KILLED@k:<tok>` (the signal model, Signal.lean, with the cleanup of the code: `signal.Stop(sigCh)`) -/

def parseSigTok (t : String) : Option Sig.Tok :=
  if t = "S" then some .sess
  else if t = "U" then some .unsess
  else if t = "I" then some (.sig .int)
  else if t = "Q" then some (.sig .quit)
  else if t.startsWith "Z" then (t.drop 1).toString.toNat?.map (fun _ => .delay)
  else if t.startsWith "F" then (t.drop 1).toString.toNat?.map .fin
  else if t.startsWith "W" then (t.drop 1).toString.toNat?.map .wait
  else if t.startsWith "B" then
    match (t.drop 1).toString.splitOn ":" with
    | [a, prog] => if prog.isEmpty then none else a.toNat?.map (fun i => .begin i (prog.startsWith "g"))
    | _ => none
  else none

def sigLineWith (c : Sig.Cleanup) (script : String) : String :=
  let toks := C20.tokens script
  match C20.parseAll parseSigTok toks with
  | none => "bad-op"
  | some ts =>
    match Sig.runToks c {} 0 ts with
    | .inr (k, .unhandled) => s!"unhandled@{k}:{C20.tokAt toks k}"
    | .inr (k, .bad) => s!"bad-script@{k}:{C20.tokAt toks k}"
    | .inr (k, .killed) => s!"KILLED@{k}:{C20.tokAt toks k}"
    | .inl x =>
      let rs := x.res.map (fun (i, b) => s!"{i}:{if b then "int" else "ok"}")
      s!"alive res={C20.joinWith "," rs} sess={x.st.sessSeen}"

def stepLine : List String → String
  | ["sig", _procs, script] => sigLineWith .stopOwn script
  | ["int", _prog, _mode, _sched, tr] => intLine tr
  | ["seq", t, prog] => seqLine t prog
  | _ => "bad-op"

def driver : Driver := Driver.pure stepLine
end C19
