import ElvModel.C19.Driver
def main : IO Unit := C19.driver.main
