import ElvModel.C20.Model
/-
C19 — interrupting an evaluation.  A labelled transition system over the
protocol points of pkg/eval that matter for interrupts; the environment label
`cancel` (Ctrl-C: the `EvalCfg.Interrupts` context is cancelled) is enabled in
every state.  Core Lean only.

What the labels stand for (hooks/C20-peach-trace.patch logs exactly these):

  pipelineOp.exec:  if fm.Canceled() { return interrupted }        pabort | pstart
                    for each form: go f(...) / f(...)                pform ; … pformdone (before wg.Done)
                    wg.Wait()                                        pend
  chunkOp.exec:     for each pipeline: exc := p.exec(fm); if exc != nil { return exc }    cexit … cexc
                    if fm.Canceled() { return interrupted }; return nil                    cexit … cint | cok
  sleep:            select { case <-ctx.Done(): interrupted; case <-timer: nil }          sleepInt | sleepOk
  peach:            the C20 transition system, one instance per call, sharing `cancelled`
  Evaler.Eval:      returns what the top-level chunk returned                             ret

A frame inside a background job (`… &`) has `context.Background()` as its
context: its checks never see the interrupt (`bg = true` in the labels).  The
property excludes background jobs, and so do the guards and the accounting.

The checks are atomic with respect to `cancel` (the hooks bracket both with
the log lock), so "after the interrupt is delivered" is a well defined
position in the log.
-/
namespace C19

/-- class of the value `Eval` returns -/
inductive Res where
  | ok | int | other
  deriving DecidableEq, Repr

/-- how a chunk ended: all pipelines done and not interrupted, interrupted at the final check,
or with the exception of one of its pipelines -/
inductive Exit where
  | cok | cint | cexc
  deriving DecidableEq, Repr

/-- one `peach` call -/
structure Inst where
  tid : Nat
  cfg : C20.Cfg
  bg : Bool
  st : C20.State
  deriving Repr

inductive Label where
  | cancel
  | pstart (pid : Nat) (bgFrame opBg : Bool)   -- the pipeline passed the check; `opBg`: it is a `&` job
  | pabort (pid : Nat) (bgFrame : Bool)        -- the check saw the interrupt
  | pform (pid : Nat) (bg : Bool)              -- a form of the pipeline is started (goroutine or inline)
  | pformdone (pid : Nat) (bg : Bool)
  | pend (pid : Nat) (bg : Bool)               -- `wg.Wait()` returned
  | cbegin (main : Bool)                       -- `main`: on the goroutine that called Eval
  | cexit (main bg : Bool) (e : Exit)
  | sleepInt (bg : Bool)
  | sleepOk
  | pbegin (tid : Nat) (k : Option Nat) (n : Nat) (bg : Bool)
  | peach (tid : Nat) (l : C20.Label)
  | ret (r : Res)
  deriving DecidableEq, Repr

structure State where
  cancelled : Bool := false
  /-- open foreground pipelines: (id, forms started and not yet done) -/
  pipes : List (Nat × Nat) := []
  insts : List Inst := []
  /-- nesting depth of chunks on the main goroutine -/
  depth : Nat := 0
  /-- how the top-level chunk ended, and whether the interrupt had been delivered by then -/
  topExit : Option (Exit × Bool) := none
  result : Option Res := none
  deriving Repr

def init : State := {}

def lookup (pid : Nat) : List (Nat × Nat) → Option Nat
  | [] => none
  | (p, n) :: t => if p = pid then some n else lookup pid t

def update (pid : Nat) (v : Nat) : List (Nat × Nat) → List (Nat × Nat)
  | [] => []
  | (p, n) :: t => if p = pid then (p, v) :: t else (p, n) :: update pid v t

def remove (pid : Nat) : List (Nat × Nat) → List (Nat × Nat)
  | [] => []
  | (p, n) :: t => if p = pid then t else (p, n) :: remove pid t

def findInst (tid : Nat) : List Inst → Option Inst
  | [] => none
  | i :: t => if i.tid = tid then some i else findInst tid t

def setInst (tid : Nat) (st : C20.State) : List Inst → List Inst
  | [] => []
  | i :: t => if i.tid = tid then { i with st := st } :: t else i :: setInst tid st t

/-- deliver the interrupt to a foreground `peach` call -/
def cancelInst (i : Inst) : Inst :=
  if i.bg ∨ i.st.panicked then i else { i with st := { i.st with cancelled := true } }

/-- the class of the result must fit the way the top-level chunk ended -/
def fits : Exit → Res → Bool
  | .cok, .ok => true
  | .cint, .int => true
  | .cexc, .int => true
  | .cexc, .other => true
  | _, _ => false

def step (s : State) (l : Label) : Option State :=
  if s.result.isSome then none else
  match l with
  | .cancel => some { s with cancelled := true, insts := s.insts.map cancelInst }
  | .pstart pid bgF opBg =>
    if bgF ∨ ¬ s.cancelled then
      if bgF ∨ opBg then some s
      else if (lookup pid s.pipes).isSome then none
      else some { s with pipes := (pid, 0) :: s.pipes }
    else none
  | .pabort _ bgF => if s.cancelled ∧ ¬ bgF then some s else none
  | .pform pid bg =>
    if bg then some s else
    match lookup pid s.pipes with
    | some n => some { s with pipes := update pid (n + 1) s.pipes }
    | none => none
  | .pformdone pid bg =>
    if bg then some s else
    match lookup pid s.pipes with
    | some (n + 1) => some { s with pipes := update pid n s.pipes }
    | _ => none
  | .pend pid bg =>
    if bg then some s else
    match lookup pid s.pipes with
    | some 0 => some { s with pipes := remove pid s.pipes }
    | _ => none
  | .cbegin main => if main then some { s with depth := s.depth + 1 } else some s
  | .cexit main bg e =>
    -- the main goroutine never runs background frames (a `&` job runs all its forms on new goroutines)
    let checkOk : Bool :=
      if bg then e ≠ .cint
      else (e ≠ .cok || !s.cancelled) && (e ≠ .cint || s.cancelled)
    if checkOk ∧ ¬ (main ∧ bg) then
      if main then
        match s.depth with
        | 0 => none
        | 1 => some { s with depth := 0, topExit := some (e, s.cancelled) }
        | d + 1 => some { s with depth := d }
      else some s
    else none
  | .sleepInt bg => if s.cancelled ∧ ¬ bg then some s else none
  | .sleepOk => some s
  | .pbegin tid k n bg =>
    if (findInst tid s.insts).isSome then none
    else some { s with insts :=
      { tid := tid, cfg := { k := k, n := n }, bg := bg,
        st := { C20.init with cancelled := s.cancelled && !bg } } :: s.insts }
  | .peach tid pl =>
    if pl = .cancel then none else
    match findInst tid s.insts with
    | some i =>
      match C20.step i.cfg i.st pl with
      | some st' => some { s with insts := setInst tid st' s.insts }
      | none => none
    | none => none
  | .ret r =>
    match s.topExit with
    | some (e, _) =>
      if fits e r ∧ s.depth = 0 ∧ s.pipes = [] ∧
          s.insts.all (fun i => i.bg || i.st.fpc = .ret) then
        some { s with result := some r }
      else none
    | none => none

inductive Run : List Label → State → Prop where
  | init : Run [] init
  | step {tr s l s'} : Run tr s → step s l = some s' → Run (tr ++ [l]) s'

def replay : State → Nat → List Label → State ⊕ Nat
  | s, _, [] => .inl s
  | s, i, l :: ls =>
    match step s l with
    | some s' => replay s' (i + 1) ls
    | none => .inr i

end C19
