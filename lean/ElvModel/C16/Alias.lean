/-
C16: REFERENCE semantics of `staticNs` (`pkg/eval/ns.go`) — why `compile`
clones the global static namespace, and what goes wrong when the clone shares
the backing array.

`compile(b, g, …)` starts with `g = g.clone()`.  In `Model.lean` the compiler's
namespaces are VALUES, so the caller's namespace cannot change by construction;
that is faithful only because `clone` COPIES the array.  Here the three
operations the compiler performs on a scope — `add` (shadow + append), `del`,
and `infos[i].deleted = true` — are modelled over a heap of backing arrays and
Go slice headers (array address, `len`, `cap`), together with two clones:

* `cloneCopy` — `append([]staticVarInfo(nil), ns.infos...)`, the code;
* `cloneClip` — `slices.Clip(ns.infos)`: same array, `cap = len` (the seeded
  change `C16-staticns-clone-shares-array`): appends reallocate, but the
  in-place `deleted = true` writes of `del` and of shadowing go to the shared
  array, i.e. into the live global namespace.

`ElvProofs/C16/Alias.lean` proves that after `cloneCopy` NO sequence of
operations changes what the live namespace reads (deleted flags included), and
that after `cloneClip` a single `del` does.
-/
import ElvModel.C16.Model
namespace C16.Alias
open Go

/-- a Go slice header `[]staticVarInfo`: address of the backing array, `len`, `cap` -/
structure Ref where
  arr : Nat
  len : Nat
  cap : Nat
  deriving Repr, DecidableEq

/-- the heap: backing arrays by address (each of its capacity; slots beyond a slice's `len` are junk) -/
abbrev Heap := List (List Info)

/-- `a[i].deleted = true` -/
def setDeleted : List Info → Nat → List Info
  | [], _ => []
  | x :: xs, 0 => { x with deleted := true } :: xs
  | x :: xs, i + 1 => x :: setDeleted xs i

/-- `a[i] = x` -/
def setAt : List Info → Nat → Info → List Info
  | [], _, _ => []
  | _ :: xs, 0, y => y :: xs
  | x :: xs, i + 1, y => x :: setAt xs i y

/-- write through address `a` -/
def updArr : Heap → Nat → (List Info → List Info) → Heap
  | [], _, _ => []
  | x :: xs, 0, f => f x :: xs
  | x :: xs, n + 1, f => x :: updArr xs n f

/-- index of the first entry named `k` that is not deleted (what `lookup` finds) -/
def findLive : Nat → List Info → Bytes → Option Nat
  | _, [], _ => none
  | i, x :: xs, k => if x.name == k && !x.deleted then some i else findLive (i + 1) xs k

/-- what a slice header reads: `ns.infos` as a value -/
def read (h : Heap) (r : Ref) : Option StaticNs :=
  match h[r.arr]? with
  | some a => some (a.take r.len)
  | none => none

/-- the operations the compiler performs on a scope -/
inductive NsOp where
  /-- `ns.add(k)`: `ns.del(k)`, then `append` -/
  | add (k : Bytes)
  /-- `ns.del(k)` -/
  | del (k : Bytes)
  /-- `ns.infos[i].deleted = true` (`compileDel`) -/
  | mark (i : Nat)
  deriving Repr, DecidableEq

/-- `ns.del(k)`: an in-place write into the backing array -/
def del (h : Heap) (r : Ref) (k : Bytes) : Heap :=
  match h[r.arr]? with
  | some a =>
    match findLive 0 (a.take r.len) k with
    | some i => updArr h r.arr (fun a => setDeleted a i)
    | none => h
  | none => h

/-- `append(ns.infos, x)`: in place while the capacity allows, otherwise into a NEW array -/
def append (h : Heap) (r : Ref) (x : Info) : Heap × Ref :=
  match h[r.arr]? with
  | some a =>
    if r.len < r.cap then (updArr h r.arr (fun a => setAt a r.len x), { r with len := r.len + 1 })
    else (h ++ [a.take r.len ++ [x] ++ List.replicate r.len x],
          { arr := h.length, len := r.len + 1, cap := 2 * r.len + 1 })
  | none => (h, r)

def step (h : Heap) (r : Ref) : NsOp → Heap × Ref
  | .mark i => if i < r.len then (updArr h r.arr (fun a => setDeleted a i), r) else (h, r)
  | .del k => (del h r k, r)
  | .add k => append (del h r k) r { name := k }

def run : Heap → Ref → List NsOp → Heap × Ref
  | h, r, [] => (h, r)
  | h, r, op :: ops => let p := step h r op; run p.1 p.2 ops

/-- `(*staticNs).clone` of the code: a new array with the same contents -/
def cloneCopy (h : Heap) (r : Ref) : Heap × Ref :=
  match h[r.arr]? with
  | some a => (h ++ [a.take r.len], { arr := h.length, len := r.len, cap := r.len })
  | none => (h, r)

/-- the seeded `clone`: `slices.Clip(ns.infos)` — the SAME array, capacity clipped to the length -/
def cloneClip (h : Heap) (r : Ref) : Heap × Ref := (h, { r with cap := r.len })

/-- what the live namespace reads after the compiler ran `ops` on a clone of it -/
def liveAfter (clone : Heap → Ref → Heap × Ref) (h : Heap) (live : Ref) (ops : List NsOp) : Option StaticNs :=
  let c := clone h live
  read (run c.1 c.2 ops).1 live

end C16.Alias
