/-
C16: the SHAPE facts about parse trees that the compiler relies on without
checking them (every one is a Go nil-pointer dereference or an index
expression in `pkg/eval` that would panic otherwise), as one executable
predicate over the C01 tree, and the nesting measure that bounds the
compiler's recursion.

`ElvProofs/C16/ParserShape.lean` proves that EVERY tree the C01 parser model
returns — also the partial trees it returns together with parse errors —
satisfies `shape`, and that its nesting is at most the parser's fuel;
`ElvProofs/C16/Safe.lean` proves that on such trees no compiler function of
the model panics or runs out of fuel.  The driver evaluates `shape` on every
tree as well (`SHAPE` instead of the result line if it ever fails).
-/
import ElvModel.C16.Model
namespace C16
open Go
open Gen.C01Chars

/-- the twelve `PrimaryType`s `primaryOp` has a case for (everything but `BadPrimary`) -/
def goodPType (t : Int) : Bool :=
  t == Bareword || t == SingleQuoted || t == DoubleQuoted || t == Variable || t == Wildcard ||
  t == Tilde || t == ExceptionCapture || t == OutputCapture || t == ListPrimary || t == Lambda ||
  t == MapPrimary || t == Braced

/-- `Indexing.Head` is there, is a known primary, and is not the `~` of `Compound.tilde` -/
def properIndexing (ix : Node) : Bool :=
  match Indexing.head ix with
  | some h => h.ptype != Tilde
  | none => false

/-- What the compiler assumes of ONE node, by node type:
* `Form`: `Head != nil`; every argument has at least one `Indexing`
  (`compileOneLValue` evaluates `n.Indexings[0]`);
* `Redir`: `Right != nil`;  `MapPair`: `Key != nil`;
* `Indexing`: `Head != nil` and `Head.Type` is not `BadPrimary`;
* `Primary`: the type is one of the twelve; captures and lambdas have `Chunk != nil`;
* `Compound`: only the FIRST indexing can be the `~` made by `Compound.tilde`
  (the one `compoundOp` strips before it calls `indexingOp`). -/
def nodeOk (n : Node) : Bool :=
  match n.kind with
  | .form => (Form.head n).isSome && (Form.args n).all fun c => !(Compound.indexings c).isEmpty
  | .redir => (Redir.right n).isSome
  | .mapPair => (MapPair.key n).isSome
  | .indexing =>
    match Indexing.head n with
    | some h => goodPType h.ptype
    | none => false
  | .primary =>
    goodPType n.ptype &&
      (!(n.ptype == ExceptionCapture || n.ptype == OutputCapture || n.ptype == Lambda) || (Primary.chunk n).isSome)
  | .compound => ((Compound.indexings n).drop 1).all properIndexing
  | _ => true

mutual
/-- `nodeOk` for the node and everything below it -/
def shape : Node → Bool
  | .mk k a b t f cs => nodeOk (.mk k a b t f cs) && shapeL cs
def shapeL : List Node → Bool
  | [] => true
  | c :: cs => shape c && shapeL cs
end

mutual
/-- the number of `Chunk`/`Compound` nodes on the longest path: what `compileNT`'s fuel counts -/
def nest : Node → Nat
  | .mk k _ _ _ _ cs => (if k == .chunk || k == .compound then 1 else 0) + nestL cs
def nestL : List Node → Nat
  | [] => 0
  | c :: cs => max (nest c) (nestL cs)
end

end C16
