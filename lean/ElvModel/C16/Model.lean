/-
C16 model: the static phase of `pkg/eval` — everything of the compiler that can
REPORT AN ERROR or that changes what later code resolves to — and the phase
pipeline of `Evaler.Eval` / `Evaler.Check` (`pkg/eval/eval.go`).

* The compiler works on the parse tree of the C01 model (`C01.Node`, one generic
  tree type; the Go struct fields `Head`, `Args`, `Indexings`, … are recovered
  from the children by the accessors of the first section, exactly as the C01
  driver prints them).
* `compiler` state = `CSt`: the lexical scopes (`staticNs` = list of
  `staticVarInfo`, innermost scope FIRST — Go keeps the innermost last), the
  pragma stack, the compilation errors in report order, and the arguments of
  `autofixUnresolvedVar` in call order.  Captures (`staticUpNs`), the ops being
  built, deprecation warnings (none is active in this tree) and the `Partial`
  flag of an error are not modelled: no error depends on them.
* An error is its kind (one constructor of `EK` per `cp.errorpf…` call site,
  sites with the same message share a constructor) and the reported range.
* `autofixUnresolvedVar(qname)` only reads `cp.modules` and only appends to
  `cp.autofixes`; here the compiler records the `qname`s and `autofixes`
  filters them with `modules` afterwards (same result, and it makes "the
  errors do not depend on `modules`" visible in the type of `compileCore`).
* Every Go partial operation is explicit (`panic`): `cp.scopes[len-1]` on an
  empty stack, `n.Indexings[0]`, nil node dereferences, `infos[ref.index]`.
* Recursion over the tree is by fuel (`compileNT`), like the parser model;
  running out is the outcome `fuel`, printed `FUEL` by the driver.
-/
import ElvModel.C01.Model
namespace C16
open Go
open Gen.C01Chars

abbrev Node := C01.Node

/-! ## The Go struct fields of the parse nodes, from the children -/

def compounds (n : Node) : List Node := n.childrenOf .compound
/-- `Chunk.Pipelines` -/
def Chunk.pipelines (n : Node) : List Node := n.childrenOf .pipeline
/-- `Pipeline.Forms` -/
def Pipeline.forms (n : Node) : List Node := n.childrenOf .form
/-- `Form.Head` (set by `Form.parse` before anything else) -/
def Form.head (n : Node) : Option Node := (compounds n).head?
/-- `Form.Args` (a compound followed by a redirection sign became `Redir.Left`
and is a child of the `Redir`, not of the `Form`) -/
def Form.args (n : Node) : List Node := (compounds n).drop 1
/-- `Form.Opts` -/
def Form.opts (n : Node) : List Node := n.childrenOf .mapPair
/-- `Form.Redirs` -/
def Form.redirs (n : Node) : List Node := n.childrenOf .redir
/-- `Redir.Left` -/
def Redir.left (n : Node) : Option Node := if n.fields.hasLeft then (compounds n).head? else none
/-- `Redir.Right` -/
def Redir.right (n : Node) : Option Node :=
  if n.fields.hasLeft then ((compounds n).drop 1).head? else (compounds n).head?
/-- `Compound.Indexings` -/
def Compound.indexings (n : Node) : List Node := n.childrenOf .indexing
/-- `Indexing.Head` -/
def Indexing.head (n : Node) : Option Node := (n.childrenOf .primary).head?
/-- `Indexing.Indices` -/
def Indexing.indices (n : Node) : List Node := n.childrenOf .array
/-- `Array.Compounds` -/
def arrCompounds (n : Node) : List Node := compounds n
/-- `Primary.Elements` (List and Lambda) -/
def Primary.elements (n : Node) : List Node := if n.ptype == Braced then [] else compounds n
/-- `Primary.Braced` -/
def Primary.braced (n : Node) : List Node := if n.ptype == Braced then compounds n else []
/-- `Primary.MapPairs` (Map and Lambda) -/
def Primary.mapPairs (n : Node) : List Node := n.childrenOf .mapPair
/-- `Primary.Chunk` (captures and Lambda) -/
def Primary.chunk (n : Node) : Option Node := (n.childrenOf .chunk).head?
/-- `MapPair.Key` -/
def MapPair.key (n : Node) : Option Node := (compounds n).head?
/-- `MapPair.Value` -/
def MapPair.value (n : Node) : Option Node := ((compounds n).drop 1).head?

/-- `cmpd.Primary` -/
def primaryOf (n : Node) : Option Node :=
  match Compound.indexings n with
  | [ix] => if (Indexing.indices ix).isEmpty then Indexing.head ix else none
  | _ => none

/-- `cmpd.StringLiteral` -/
def stringLiteral (n : Node) : Option Bytes :=
  match primaryOf n with
  | some p =>
    if p.ptype == Bareword || p.ptype == SingleQuoted || p.ptype == DoubleQuoted then some p.value else none
  | none => none

/-- `cmpd.Lambda` -/
def lambdaOf (n : Node) : Option Node :=
  match primaryOf n with
  | some p => if p.ptype == Lambda then some p else none
  | none => none

/-! ## ASCII literals (explicit byte lists, so that the kernel evaluates comparisons) -/

/-- `var` -/ def sVar : Bytes := [118, 97, 114]
/-- `set` -/ def sSet : Bytes := [115, 101, 116]
/-- `tmp` -/ def sTmp : Bytes := [116, 109, 112]
/-- `with` -/ def sWith : Bytes := [119, 105, 116, 104]
/-- `del` -/ def sDel : Bytes := [100, 101, 108]
/-- `fn` -/ def sFn : Bytes := [102, 110]
/-- `use` -/ def sUse : Bytes := [117, 115, 101]
/-- `and` -/ def sAnd : Bytes := [97, 110, 100]
/-- `or` -/ def sOr : Bytes := [111, 114]
/-- `coalesce` -/ def sCoalesce : Bytes := [99, 111, 97, 108, 101, 115, 99, 101]
/-- `if` -/ def sIf : Bytes := [105, 102]
/-- `while` -/ def sWhile : Bytes := [119, 104, 105, 108, 101]
/-- `for` -/ def sFor : Bytes := [102, 111, 114]
/-- `try` -/ def sTry : Bytes := [116, 114, 121]
/-- `pragma` -/ def sPragma : Bytes := [112, 114, 97, 103, 109, 97]
/-- `elif` -/ def sElif : Bytes := [101, 108, 105, 102]
/-- `else` -/ def sElse : Bytes := [101, 108, 115, 101]
/-- `catch` -/ def sCatch : Bytes := [99, 97, 116, 99, 104]
/-- `finally` -/ def sFinally : Bytes := [102, 105, 110, 97, 108, 108, 121]
/-- `=` -/ def sEq : Bytes := [61]
/-- `unknown-command` -/ def sUnknownCommand : Bytes := [117, 110, 107, 110, 111, 119, 110, 45, 99, 111, 109, 109, 97, 110, 100]
/-- `disallow` -/ def sDisallow : Bytes := [100, 105, 115, 97, 108, 108, 111, 119]
/-- `external` -/ def sExternal : Bytes := [101, 120, 116, 101, 114, 110, 97, 108]
/-- `..` -/ def sDotDot : Bytes := [46, 46]
/-- `e:` -/ def seColon : Bytes := [101, 58]
/-- `E:` -/ def sEColon : Bytes := [69, 58]
/-- `use ` -/ def sUsePrefix : Bytes := [117, 115, 101, 32]
/-- `~` (`FnSuffix`) -/ def sTilde : Bytes := [126]
/-- `:` (`NsSuffix`) -/ def sColon : Bytes := [58]
/-- `_` -/ def sUnderscore : Bytes := [95]

/-! ## Static namespaces (`pkg/eval/ns.go`) -/

/-- `staticVarInfo` -/
structure Info where
  name : Bytes
  readOnly : Bool := false
  deleted : Bool := false
  deriving DecidableEq, Repr, Inhabited

/-- `staticNs.infos` -/
abbrev StaticNs := List Info

namespace StaticNs
def lookupFrom : Nat → List Info → Bytes → Option (Info × Nat)
  | _, [], _ => none
  | i, x :: xs, k => if x.name == k && !x.deleted then some (x, i) else lookupFrom (i + 1) xs k

/-- `(*staticNs).lookup`: the first entry with that name that is not deleted. -/
def lookup (ns : StaticNs) (k : Bytes) : Option (Info × Nat) := lookupFrom 0 ns k

/-- `(*staticNs).del`: mark what `lookup` finds. -/
def del : StaticNs → Bytes → StaticNs
  | [], _ => []
  | x :: xs, k => if x.name == k && !x.deleted then { x with deleted := true } :: xs else x :: del xs k

/-- `(*staticNs).add`: shadow, append, return the new index. -/
def add (ns : StaticNs) (k : Bytes) : StaticNs × Nat :=
  let ns' := del ns k
  (ns' ++ [{ name := k }], ns'.length)

/-- `ns.infos[i].deleted = true` (`none` = index out of range). -/
def markDeleted : StaticNs → Nat → Option StaticNs
  | [], _ => none
  | x :: xs, 0 => some ({ x with deleted := true } :: xs)
  | x :: xs, i + 1 => (markDeleted xs i).map (x :: ·)

/-- The names `IterateKeysString` produces. -/
def names (ns : StaticNs) : List Bytes := (ns.filter (!·.deleted)).map (·.name)
end StaticNs

/-! ## Qualified names (`pkg/eval/var_parse.go`) -/

/-- `SplitSigil`: whether there is a leading `@`, and the rest. -/
def splitSigil : Bytes → Bool × Bytes
  | 64 :: rest => (true, rest)
  | q => (false, q)

/-- `SplitQName`: up to and including the first `:`, and the rest. -/
def splitQName : Bytes → Bytes × Bytes
  | [] => ([], [])
  | c :: cs => if c == 58 then ([58], cs) else let r := splitQName cs; (c :: r.1, r.2)

/-- `strings.SplitAfter(s, ":")` -/
def splitAfterColon : Bytes → List Bytes
  | [] => [[]]
  | c :: cs =>
    if c == 58 then [58] :: splitAfterColon cs
    else match splitAfterColon cs with
      | [] => [[c]]
      | h :: t => (c :: h) :: t

/-- `SplitQNameSegs` -/
def splitQNameSegs (q : Bytes) : List Bytes :=
  let segs := splitAfterColon q
  match segs.getLast? with
  | some [] => segs.dropLast
  | _ => segs

/-- the text after the last `/` (`spec[strings.LastIndexByte(spec, '/')+1:]`) -/
def afterLastSlash (s : Bytes) : Bytes := (s.reverse.takeWhile (· != 47)).reverse

/-- `fsutil.DontSearch` (Unix: `filepath.Separator` is `/`) -/
def dontSearch (exe : Bytes) : Bool := exe == sDotDot || exe.contains 47

/-- `parse.ValidLHSVariable` -/
def validLHSVariable (isPrint : Int → Bool) (p : Node) (allowSigil : Bool) : Bool :=
  if p.ptype == SingleQuoted || p.ptype == DoubleQuoted then true
  else if p.ptype == Bareword then
    let name := p.value
    if name.isEmpty then false
    else
      let name := if allowSigil && name.head? == some 64 then name.drop 1 else name
      (toRunes name).all fun r => allowedInVariableName isPrint (Int.ofNat r)
  else false

/-! ## Compilation errors -/

/-- One constructor per message of a `cp.errorpf` / `cp.errorpfPartial` /
`argsGetter.errorpf…` call in `pkg/eval`. -/
inductive EK where
  | tmpOutsideFn | withNeedsTwoArgs | withLastLambda | withArgCompound | withArgList
  | needEqRhs | delArg | delDollar | delNoVar | delScope
  | tryElseNeedsCatch | tryNeedsCatchOrFinally | mustBeLiteralEq | pragmaValue | unknownPragma
  | mustBeValidLvalue | restNotAllowed | exactlyOneLvalue
  | unknownCommand | badRedirSign
  | lvalueComposite | atMostOneRest | lvalueName | varNameEmpty | readOnly | cannotFindVar
  | newVarIndices | cannotCreate
  | varNotFound | badWildcard | tildeBug | badPrimary
  | argQualified | argEmpty | onlyOneRestArg | dupArg | optQualified | optEmpty | optNeedsDefault
  | mustBeStringLiteral | needArg | superfluousArgs | mustBeLambda | noArgsAllowed | noOptsAllowed
  deriving DecidableEq, Repr, Inhabited

def EK.slug : EK → String
  | .tmpOutsideFn => "tmp-outside-fn" | .withNeedsTwoArgs => "with-needs-two-args"
  | .withLastLambda => "with-last-lambda" | .withArgCompound => "with-arg-compound"
  | .withArgList => "with-arg-list" | .needEqRhs => "need-eq-rhs" | .delArg => "del-arg"
  | .delDollar => "del-dollar" | .delNoVar => "del-no-var" | .delScope => "del-scope"
  | .tryElseNeedsCatch => "try-else-needs-catch" | .tryNeedsCatchOrFinally => "try-needs-catch-or-finally"
  | .mustBeLiteralEq => "must-be-literal-eq" | .pragmaValue => "pragma-value"
  | .unknownPragma => "unknown-pragma" | .mustBeValidLvalue => "must-be-valid-lvalue"
  | .restNotAllowed => "rest-not-allowed" | .exactlyOneLvalue => "exactly-one-lvalue"
  | .unknownCommand => "unknown-command" | .badRedirSign => "bad-redir-sign"
  | .lvalueComposite => "lvalue-composite" | .atMostOneRest => "at-most-one-rest"
  | .lvalueName => "lvalue-name" | .varNameEmpty => "var-name-empty" | .readOnly => "read-only"
  | .cannotFindVar => "cannot-find-var" | .newVarIndices => "new-var-indices"
  | .cannotCreate => "cannot-create" | .varNotFound => "var-not-found" | .badWildcard => "bad-wildcard"
  | .tildeBug => "tilde-bug" | .badPrimary => "bad-primary" | .argQualified => "arg-qualified"
  | .argEmpty => "arg-empty" | .onlyOneRestArg => "only-one-rest-arg" | .dupArg => "dup-arg"
  | .optQualified => "opt-qualified" | .optEmpty => "opt-empty" | .optNeedsDefault => "opt-needs-default"
  | .mustBeStringLiteral => "must-be-string-literal" | .needArg => "need-arg"
  | .superfluousArgs => "superfluous-args" | .mustBeLambda => "must-be-lambda"
  | .noArgsAllowed => "no-args-allowed" | .noOptsAllowed => "no-opts-allowed"

/-- `CompilationError`: kind and `Context.From/To`. -/
structure CErr where
  kind : EK
  frm : Nat
  to : Nat
  deriving DecidableEq, Repr, Inhabited

/-! ## Compiler state and monad -/

/-- Read-only: the builtin namespace (`cp.builtin`, never written by the
compiler) and `unicode.IsPrint`. -/
structure Env where
  builtin : StaticNs
  isPrint : Int → Bool

/-- `compiler` (the fields an error can depend on). -/
structure CSt where
  /-- `cp.scopes`, innermost first -/
  scopes : List StaticNs
  /-- `cp.pragmas[i].unknownCommandIsExternal`, innermost first -/
  pragmas : List Bool
  /-- `cp.errors` -/
  errors : List CErr
  /-- arguments of `autofixUnresolvedVar`, in call order -/
  fixes : List Bytes
  deriving Repr, Inhabited

inductive Out (α : Type) where
  | ok (a : α) (s : CSt)
  | panic (why : String)
  | fuel
  deriving Inhabited

def M (α : Type) : Type := Env → CSt → Out α

@[inline] def M.pure {α} (a : α) : M α := fun _ s => .ok a s
@[inline] def M.bind {α β} (m : M α) (f : α → M β) : M β := fun e s =>
  match m e s with
  | .ok a s' => f a e s'
  | .panic w => .panic w
  | .fuel => .fuel
instance : Monad M where
  pure := M.pure
  bind := M.bind

def panic {α} (why : String) : M α := fun _ _ => .panic why
def outOfFuel {α} : M α := fun _ _ => .fuel
def getEnv : M Env := fun e s => .ok e s
def modifySt (f : CSt → CSt) : M Unit := fun _ s => .ok () (f s)

/-- `cp.errorpf(r, …)` / `cp.errorpfPartial(r, …)` -/
def err (k : EK) (a b : Nat) : M Unit := fun _ s =>
  .ok () { s with errors := s.errors ++ [{ kind := k, frm := a, to := b }] }
def errAt (k : EK) (n : Node) : M Unit := err k n.frm n.to
/-- `diag.PointRanging(p)` -/
def errPoint (k : EK) (p : Nat) : M Unit := err k p p

/-- `cp.autofixUnresolvedVar(qname)` (recorded; filtered by `autofixes`). -/
def autofix (q : Bytes) : M Unit := fun _ s => .ok () { s with fixes := s.fixes ++ [q] }

/-- `cp.thisScope()` -/
def thisScope : M StaticNs := fun _ s =>
  match s.scopes with
  | sc :: _ => .ok sc s
  | [] => .panic "index out of range"

def setThisScope (sc : StaticNs) : M Unit := fun _ s =>
  match s.scopes with
  | _ :: rest => .ok () { s with scopes := sc :: rest }
  | [] => .panic "index out of range"

/-- `cp.thisScope().add(k)` -/
def addName (k : Bytes) : M Nat := do
  let sc ← thisScope
  let r := sc.add k
  setThisScope r.1
  pure r.2

/-- `cp.currentPragma().unknownCommandIsExternal` -/
def currentPragma : M Bool := fun _ s =>
  match s.pragmas with
  | p :: _ => .ok p s
  | [] => .panic "index out of range"

def setCurrentPragma (b : Bool) : M Unit := fun _ s =>
  match s.pragmas with
  | _ :: rest => .ok () { s with pragmas := b :: rest }
  | [] => .panic "index out of range"

/-- `cp.pushScope()` -/
def pushScope : M Unit := do
  let p ← currentPragma
  modifySt fun s => { s with scopes := [] :: s.scopes, pragmas := p :: s.pragmas }

/-- `cp.popScope()` -/
def popScope : M Unit := fun _ s =>
  match s.scopes, s.pragmas with
  | _ :: ss, _ :: ps => .ok () { s with scopes := ss, pragmas := ps }
  | _, _ => .panic "index out of range"

/-- `len(cp.scopes)` -/
def scopeDepth : M Nat := fun _ s => .ok s.scopes.length s

def forEach {α} : List α → (α → M Unit) → M Unit
  | [], _ => pure ()
  | x :: xs, f => do f x; forEach xs f

/-- a Go pointer that the code dereferences without a nil check -/
def deref {α} (o : Option α) (what : String) : M α :=
  match o with
  | some a => pure a
  | none => panic ("nil pointer dereference: " ++ what)

/-! ## Variable resolution (`pkg/eval/var_ref.go`) -/

inductive Scope where
  | local | capture | builtin | env | external
  deriving DecidableEq, Repr, Inhabited

/-- `varRef`: `hasSub` is `len(ref.subNames) > 0`. -/
structure VarRef where
  scope : Scope
  readOnly : Bool
  index : Nat
  hasSub : Bool
  deriving DecidableEq, Repr, Inhabited

/-- `cp.searchCapture`: the nearest enclosing scope that has the name. -/
def searchCapture : List StaticNs → Bytes → Option (Info × Nat)
  | [], _ => none
  | sc :: rest, k =>
    match sc.lookup k with
    | some r => some r
    | none => searchCapture rest k

/-- `resolveVarRef(cp, qname, r)` as a function of the builtin namespace and the
scope stack (`none` = `cp.scopes[len-1]` on an empty stack). -/
def resolveIn (builtin : StaticNs) (scopes : List StaticNs) (q : Bytes) : Option (Option VarRef) :=
  if q.head? == some 58 then some none
  else
    let first := (splitQName q).1
    let rest := (splitQName q).2
    match scopes with
    | [] => none
    | this :: outer =>
      match this.lookup first with
      | some (info, i) => some (some { scope := .local, readOnly := info.readOnly, index := i, hasSub := !rest.isEmpty })
      | none =>
        match searchCapture outer first with
        | some (info, i) => some (some { scope := .capture, readOnly := info.readOnly, index := i, hasSub := !rest.isEmpty })
        | none =>
          if !rest.isEmpty && first == seColon && rest.getLast? == some 126 then
            some (some { scope := .external, readOnly := false, index := 0, hasSub := true })
          else if !rest.isEmpty && first == sEColon then
            some (some { scope := .env, readOnly := false, index := 0, hasSub := true })
          else
            match builtin.lookup first with
            | some (info, i) => some (some { scope := .builtin, readOnly := info.readOnly, index := i, hasSub := !rest.isEmpty })
            | none => some none

/-- `resolveVarRef(cp, qname, r)` -/
def resolveVarRef (q : Bytes) : M (Option VarRef) := fun e s =>
  match resolveIn e.builtin s.scopes q with
  | some r => .ok r s
  | none => .panic "index out of range"

inductive Special where
  | var | set | tmp | with_ | del | fn | use | and_ | or_ | coalesce | if_ | while_ | for_ | try_ | pragma
  deriving DecidableEq, Repr, Inhabited

/-- `builtinSpecials[head]` -/
def specialOf (h : Bytes) : Option Special :=
  if h == sVar then some .var else if h == sSet then some .set else if h == sTmp then some .tmp
  else if h == sWith then some .with_ else if h == sDel then some .del else if h == sFn then some .fn
  else if h == sUse then some .use else if h == sAnd then some .and_ else if h == sOr then some .or_
  else if h == sCoalesce then some .coalesce else if h == sIf then some .if_
  else if h == sWhile then some .while_ else if h == sFor then some .for_
  else if h == sTry then some .try_ else if h == sPragma then some .pragma else none

/-- `resolveCmdHeadInternally`, the function part (the special-form part is `specialOf`). -/
def resolveCmdHead (head : Bytes) : M (Option VarRef) :=
  let sq := splitSigil head
  if sq.1 then pure none else resolveVarRef (sq.2 ++ sTilde)

/-! ## `argsGetter` (`pkg/eval/node_utils.go`) -/

structure AG where
  fn : Node
  ok : Bool
  n : Nat

namespace AG
/-- `ag.errorpf` / `ag.errorpfPartial`: only the first error of a form is reported. -/
def err (ag : AG) (k : EK) (a b : Nat) : M AG :=
  if ag.ok then do C16.err k a b; pure { ag with ok := false } else pure ag

/-- `ag.get(i, what)`; the node is nil when the argument is missing. -/
def get (ag : AG) (i : Nat) : M (AG × Option Node) :=
  let ag := if ag.n < i + 1 then { ag with n := i + 1 } else ag
  match (Form.args ag.fn)[i]? with
  | some a => pure (ag, some a)
  | none => do
    let ag ← ag.err .needArg ag.fn.to ag.fn.to
    pure (ag, none)

def has (ag : AG) (i : Nat) : Bool := i < (Form.args ag.fn).length

def hasKeyword (ag : AG) (i : Nat) (kw : Bytes) : Bool :=
  match (Form.args ag.fn)[i]? with
  | some a => stringLiteral a == some kw
  | none => false

/-- `argAsserter.stringLiteral` -/
def stringLit (ag : AG) (node : Option Node) : M (AG × Bytes) :=
  match node with
  | none => pure (ag, [])
  | some n =>
    match stringLiteral n with
    | some s => pure (ag, s)
    | none => do
      let ag ← ag.err .mustBeStringLiteral n.frm n.to
      pure (ag, [])

/-- `argAsserter.lambda` -/
def lambda (ag : AG) (node : Option Node) : M (AG × Option Node) :=
  match node with
  | none => pure (ag, none)
  | some n =>
    match lambdaOf n with
    | some l => pure (ag, some l)
    | none => do
      let ag ← ag.err .mustBeLambda n.frm n.to
      pure (ag, none)

/-- `argAsserter.thunk` -/
def thunk (ag : AG) (node : Option Node) : M (AG × Option Node) := do
  let (ag, l) ← ag.lambda node
  match l with
  | none => pure (ag, none)
  | some l =>
    if !(Primary.elements l).isEmpty then do
      let ag ← ag.err .noArgsAllowed l.frm l.to
      pure (ag, none)
    else if !(Primary.mapPairs l).isEmpty then do
      let ag ← ag.err .noOptsAllowed l.frm l.to
      pure (ag, none)
    else pure (ag, some l)

/-- `ag.optionalKeywordBody(i, kw)` -/
def optionalKeywordBody (ag : AG) (i : Nat) (kw : Bytes) : M (AG × Option Node) :=
  if ag.has (i + 1) && ag.hasKeyword i kw then do
    let (ag, n) ← ag.get (i + 1)
    ag.thunk n
  else pure (ag, none)

/-- `ag.finish()` -/
def finish (ag : AG) : M Bool :=
  match (Form.args ag.fn)[ag.n]? with
  | some a => do
    let ag ← ag.err .superfluousArgs a.frm ag.fn.to
    pure ag.ok
  | none => pure ag.ok
end AG

/-! ## The compiler proper.  `compoundOp` and `chunkOp` are the two recursive
entry points (closed by fuel in `compileNT`). -/

section Open
variable (compoundOp : Node → M Unit) (chunkOp : Node → M Unit)

/-- `cp.compoundOps` -/
def compoundOps (ns : List Node) : M Unit := forEach ns compoundOp

/-- `cp.arrayOps` -/
def arrayOps (ns : List Node) : M Unit := forEach ns fun a => compoundOps compoundOp (arrCompounds a)

/-- `cp.mapPairs` -/
def mapPairs (pairs : List Node) : M Unit := forEach pairs fun p => do
  let k ← deref (MapPair.key p) "MapPair.Key"
  compoundOp k
  match MapPair.value p with
  | some v => compoundOp v
  | none => pure ()

/-- `stringLiteralOrError(cp, n, what)` -/
def stringLiteralOrError (n : Node) : M Bytes :=
  match stringLiteral n with
  | some s => pure s
  | none => do errAt .mustBeStringLiteral n; pure []

/-- the argument loop of `cp.lambda`; state: `seenName`, `restArg != -1`, `argNames` -/
def lambdaArgs : List Node → List Bytes → Bool → List Bytes → M (List Bytes)
  | [], _, _, names => pure names
  | arg :: rest, seen, hasRest, names => do
    let ref ← stringLiteralOrError arg
    let sq := splitSigil ref
    let nr := splitQName sq.2
    let name := nr.1
    (if !nr.2.isEmpty then errAt .argQualified arg else pure ())
    (if name.isEmpty then errAt .argEmpty arg else pure ())
    (if sq.1 && hasRest then errAt .onlyOneRestArg arg else pure ())
    let hasRest := hasRest || sq.1
    if name != sUnderscore then
      if seen.contains name then do
        errAt .dupArg arg
        lambdaArgs rest seen hasRest (names ++ [name])
      else lambdaArgs rest (name :: seen) hasRest (names ++ [name])
    else lambdaArgs rest seen hasRest (names ++ [name])

/-- the option loop of `cp.lambda` -/
def lambdaOpts : List Node → List Bytes → M (List Bytes)
  | [], names => pure names
  | opt :: rest, names => do
    let key ← deref (MapPair.key opt) "MapPair.Key"
    let qname ← stringLiteralOrError key
    let nr := splitQName qname
    (if !nr.2.isEmpty then errAt .optQualified key else pure ())
    (if nr.1.isEmpty then errAt .optEmpty key else pure ())
    (match MapPair.value opt with
     | none => errAt .optNeedsDefault key
     | some v => compoundOp v)
    lambdaOpts rest (names ++ [nr.1])

/-- `cp.lambda` -/
def lambda (n : Node) : M Unit := do
  let argNames ← lambdaArgs (Primary.elements n) [] false []
  let optNames ← lambdaOpts compoundOp (Primary.mapPairs n) []
  pushScope
  forEach argNames (fun a => do let _ ← addName a; pure ())
  forEach optNames (fun a => do let _ ← addName a; pure ())
  let c ← deref (Primary.chunk n) "Primary.Chunk"
  chunkOp c
  popScope

/-- `cp.primaryOp` -/
def primaryOp (n : Node) : M Unit :=
  let t := n.ptype
  if t == Bareword || t == SingleQuoted || t == DoubleQuoted then pure ()
  else if t == Variable then do
    let qname := (splitSigil n.value).2
    let ref ← resolveVarRef qname
    if ref.isNone then do
      autofix qname
      errAt .varNotFound n
    else pure ()
  else if t == Wildcard then
    -- `wildcardToSegment(parse.SourceText(n))`
    if n.text == [42] || n.text == [42, 42] || n.text == [63] then pure () else errAt .badWildcard n
  else if t == Tilde then errAt .tildeBug n
  else if t == ExceptionCapture || t == OutputCapture then do
    let c ← deref (Primary.chunk n) "Primary.Chunk"
    chunkOp c
  else if t == ListPrimary then compoundOps compoundOp (Primary.elements n)
  else if t == Lambda then lambda compoundOp chunkOp n
  else if t == MapPrimary then mapPairs compoundOp (Primary.mapPairs n)
  else if t == Braced then compoundOps compoundOp (Primary.braced n)
  else errAt .badPrimary n

/-- `cp.indexingOp` -/
def indexingOp (n : Node) : M Unit := do
  let h ← deref (Indexing.head n) "Indexing.Head"
  primaryOp compoundOp chunkOp h
  arrayOps compoundOp (Indexing.indices n)

/-- `cp.compoundOp` (the body; `compoundOp` itself is `compileNT … .compound`) -/
def compoundBody (n : Node) : M Unit :=
  match Compound.indexings n with
  | [] => pure ()
  | ix0 :: rest => do
    let h0 ← deref (Indexing.head ix0) "Indexing.Head"
    if h0.ptype == Tilde then
      (if rest.isEmpty then pure () else forEach rest (indexingOp compoundOp chunkOp))
    else forEach (ix0 :: rest) (indexingOp compoundOp chunkOp)

/-! ### lvalues (`compile_lvalue.go`) -/

/-- `lvalueFlag` -/
structure LVFlag where
  set : Bool
  new : Bool

/-- `lvaluesGroup`: the ranges of the lvalues and the index of the rest variable. -/
structure LVGroup where
  lvalues : List (Nat × Nat)
  rest : Option Nat

/-- `dummyLValuesGroup` -/
def dummyLVGroup : LVGroup := { lvalues := [(0, 0)], rest := none }

/-- the end of `cp.compileIndexingLValue`: the indices are compiled, the result
is the one lvalue (its range) and whether it is the rest variable -/
def lvalueResult (n : Node) (isRest : Bool) : M LVGroup := do
  arrayOps compoundOp (Indexing.indices n)
  pure { lvalues := [(n.frm, n.to)], rest := if isRest then some 0 else none }

/-- `segs := SplitQNameSegs(qname); len(segs) == 1` and then `segs[0]` -/
def singleSeg (q : Bytes) : Option Bytes :=
  match splitQNameSegs q with
  | [name] => some name
  | _ => none

/-- `cp.compileIndexingLValue`, the branch `ref == nil` with `newLValue` set:
create the variable in the current scope -/
def createLValue (n : Node) (qname : Bytes) (isRest : Bool) : M LVGroup :=
  if !(Indexing.indices n).isEmpty then do
    errAt .newVarIndices n
    pure dummyLVGroup
  else
    match singleSeg qname with
    | some name => do
      let _ ← addName name
      lvalueResult compoundOp n isRest
    | none => do
      errAt .cannotCreate n
      pure dummyLVGroup

/-- `cp.compileIndexingLValue`, after the name has been found valid and non-empty -/
def resolveLValue (n : Node) (f : LVFlag) (qname : Bytes) (isRest : Bool) : M LVGroup := do
  let ref ← (if f.set then resolveVarRef qname else pure none)
  match ref with
  | some r =>
    if !r.hasSub && r.readOnly then do
      errAt .readOnly n
      pure dummyLVGroup
    else lvalueResult compoundOp n isRest
  | none =>
    if !f.new then do
      autofix qname
      errAt .cannotFindVar n
      pure dummyLVGroup
    else createLValue compoundOp n qname isRest

/-- `cp.compileIndexingLValue` -/
def compileIndexingLValue (n : Node) (f : LVFlag) : M LVGroup := do
  let env ← getEnv
  let head ← deref (Indexing.head n) "Indexing.Head"
  if !validLHSVariable env.isPrint head true then do
    errAt .lvalueName head
    pure dummyLVGroup
  else if (splitSigil head.value).2.isEmpty then do
    errAt .varNameEmpty n
    pure dummyLVGroup
  else resolveLValue compoundOp n f (splitSigil head.value).2 (splitSigil head.value).1

/-- `len(n.Indexings) == 1` and then `n.Indexings[0]` -/
def singleIndexing (n : Node) : Option Node :=
  match Compound.indexings n with
  | [ix] => some ix
  | _ => none

/-- `cp.compileCompoundLValues` (the loop, with its `break`) -/
def compileCompoundLValues : List Node → LVFlag → LVGroup → M LVGroup
  | [], _, g => pure g
  | n :: rest, f, g =>
    match singleIndexing n with
    | some ix => do
      let more ← compileIndexingLValue compoundOp ix f
      match more.rest with
      | none => compileCompoundLValues rest f { g with lvalues := g.lvalues ++ more.lvalues }
      | some r =>
        if g.rest.isSome then do
          errAt .atMostOneRest n
          compileCompoundLValues rest f g
        else
          compileCompoundLValues rest f { lvalues := g.lvalues ++ more.lvalues, rest := some (g.lvalues.length + r) }
    | none => do
      errAt .lvalueComposite n
      pure g

/-- `cp.compileOneLValue` -/
def compileOneLValue (n : Node) (f : LVFlag) : M Unit := do
  let ixs := Compound.indexings n
  (if ixs.length != 1 then errAt .mustBeValidLvalue n else pure ())
  let ix0 ← (match ixs with
    | x :: _ => pure x
    | [] => panic "index out of range")
  let g ← compileIndexingLValue compoundOp ix0 f
  (match g.rest with
   | some r =>
     match g.lvalues[r]? with
     | some ab => err .restNotAllowed ab.1 ab.2
     | none => panic "index out of range"
   | none => pure ())
  (if g.lvalues.length != 1 then errAt .exactlyOneLvalue n else pure ())
  match g.lvalues with
  | _ :: _ => pure ()
  | [] => panic "index out of range"

/-- index of the first argument whose source text is `=` -/
def findEq : List Node → Nat → Option Nat
  | [], _ => none
  | a :: rest, i => if a.text == sEq then some i else findEq rest (i + 1)

/-- `compileLHSOptionalRHS`: the right-hand side is compiled BEFORE the
left-hand side; returns whether there is a right-hand side. -/
def compileLHSOptionalRHS (args : List Node) (f : LVFlag) : M Bool :=
  match findEq args 0 with
  | some i => do
    compoundOps compoundOp (args.drop (i + 1))
    let _ ← compileCompoundLValues compoundOp (args.take i) f { lvalues := [], rest := none }
    pure true
  | none => do
    let _ ← compileCompoundLValues compoundOp args f { lvalues := [], rest := none }
    pure false

/-- `compileLHSRHS` -/
def compileLHSRHS (args : List Node) (end_ : Nat) (f : LVFlag) : M Unit := do
  let found ← compileLHSOptionalRHS compoundOp args f
  if !found then errPoint .needEqRhs end_ else pure ()

def setLValue : LVFlag := { set := true, new := false }
def newLValue : LVFlag := { set := false, new := true }
def setNewLValue : LVFlag := { set := true, new := true }

/-! ### special forms (`builtin_special.go`) -/

/-- `compileVar` -/
def compileVar (fn : Node) : M Unit := do
  let _ ← compileLHSOptionalRHS compoundOp (Form.args fn) newLValue
  pure ()

/-- `compileSet` -/
def compileSet (fn : Node) : M Unit := compileLHSRHS compoundOp (Form.args fn) fn.to setLValue

/-- `compileTmp` -/
def compileTmp (fn : Node) : M Unit := do
  let d ← scopeDepth
  (if d ≤ 1 then errAt .tmpOutsideFn fn else pure ())
  compileLHSRHS compoundOp (Form.args fn) fn.to setLValue

/-- `compileWith` -/
def compileWith (fn : Node) : M Unit :=
  let args := Form.args fn
  if args.length < 2 then errAt .withNeedsTwoArgs fn
  else
    match args.getLast? with
    | none => panic "index out of range"
    | some lastArg =>
      match lambdaOf lastArg with
      | none => errPoint .withLastLambda fn.to
      | some body =>
        let assignNodes := args.dropLast
        match assignNodes.head?, assignNodes.getLast? with
        | some first, some lastAssign =>
          match primaryOf first with
          | none => errAt .withArgCompound first
          | some fp => do
            (if fp.ptype == ListPrimary then
              forEach assignNodes fun a =>
                match primaryOf a with
                | none => errAt .withArgCompound a
                | some p =>
                  if p.ptype != ListPrimary then errAt .withArgList a
                  else compileLHSRHS compoundOp (Primary.elements p) p.to setLValue
            else compileLHSRHS compoundOp assignNodes lastAssign.to setLValue)
            primaryOp compoundOp chunkOp body
        | _, _ => panic "index out of range"

/-- `compileDel` -/
def compileDel (fn : Node) : M Unit := forEach (Form.args fn) fun cn => do
  let env ← getEnv
  match Compound.indexings cn with
  | [ix] => do
    let head ← deref (Indexing.head ix) "Indexing.Head"
    if head.ptype == Variable then errAt .delDollar cn
    else if !validLHSVariable env.isPrint head false then errAt .delArg cn
    else do
      let ref ← resolveVarRef head.value
      match ref with
      | none => errAt .delNoVar cn
      | some r =>
        if (Indexing.indices ix).isEmpty then
          if r.scope == .env then pure ()
          else if r.scope == .local && !r.hasSub then do
            let sc ← thisScope
            match sc.markDeleted r.index with
            | some sc' => setThisScope sc'
            | none => panic "index out of range"
          else errAt .delScope cn
        else arrayOps compoundOp (Indexing.indices ix)
  | _ => errAt .delArg cn

/-- `compileFn` -/
def compileFn (fn : Node) : M Unit := do
  let ag : AG := { fn := fn, ok := true, n := 0 }
  let (ag, a0) ← ag.get 0
  let (ag, name) ← ag.stringLit a0
  let (ag, a1) ← ag.get 1
  let (ag, body) ← ag.lambda a1
  let ok ← ag.finish
  if !ok then pure ()
  else do
    let _ ← addName (name ++ sTilde)
    let b ← deref body "fn body"
    lambda compoundOp chunkOp b

/-- `compileUse` -/
def compileUse (fn : Node) : M Unit := do
  let ag : AG := { fn := fn, ok := true, n := 0 }
  let (ag, a0) ← ag.get 0
  let (ag, spec) ← ag.stringLit a0
  let (ag, name) ← (if ag.has 1 then do
      let (ag, a1) ← ag.get 1
      ag.stringLit a1
    else pure (ag, afterLastSlash spec))
  let ok ← ag.finish
  if !ok then pure ()
  else do
    let _ ← addName (name ++ sColon)
    pure ()

/-- `cp.primaryOp` on a node that `finish() == true` guarantees to be non-nil -/
def primaryOpNN (n : Option Node) (what : String) : M Unit := do
  let p ← deref n what
  primaryOp compoundOp chunkOp p

def optPrimaryOp (n : Option Node) : M Unit :=
  match n with
  | some p => primaryOp compoundOp chunkOp p
  | none => pure ()

/-- the `for { … }` loop of `compileIf`: collects condition and body nodes; the
iteration bound is the number of arguments (each round consumes at least two). -/
def ifLoop : Nat → AG → Nat → List (Option Node) → List (Option Node) →
    M (AG × Nat × List (Option Node) × List (Option Node))
  | 0, _, _, _, _ => outOfFuel
  | fuel + 1, ag, i, conds, bodies => do
    let (ag, c) ← ag.get i
    let (ag, b0) ← ag.get (i + 1)
    let (ag, b) ← ag.thunk b0
    let i := i + 2
    if !ag.hasKeyword i sElif then pure (ag, i, conds ++ [c], bodies ++ [b])
    else ifLoop fuel ag (i + 1) (conds ++ [c]) (bodies ++ [b])

/-- `compileIf` -/
def compileIf (fn : Node) : M Unit := do
  let ag : AG := { fn := fn, ok := true, n := 0 }
  let (ag, i, conds, bodies) ← ifLoop ((Form.args fn).length + 1) ag 0 [] []
  let (ag, elseBody) ← ag.optionalKeywordBody i sElse
  let ok ← ag.finish
  if !ok then pure ()
  else do
    forEach conds (fun c => do let c ← deref c "condition"; compoundOp c)
    forEach bodies (fun b => primaryOpNN compoundOp chunkOp b "if body")
    optPrimaryOp compoundOp chunkOp elseBody

/-- `compileWhile` -/
def compileWhile (fn : Node) : M Unit := do
  let ag : AG := { fn := fn, ok := true, n := 0 }
  let (ag, cond) ← ag.get 0
  let (ag, b0) ← ag.get 1
  let (ag, body) ← ag.thunk b0
  let (ag, elseBody) ← ag.optionalKeywordBody 2 sElse
  let ok ← ag.finish
  if !ok then pure ()
  else do
    let c ← deref cond "condition"
    compoundOp c
    primaryOpNN compoundOp chunkOp body "while body"
    optPrimaryOp compoundOp chunkOp elseBody

/-- `compileFor` -/
def compileFor (fn : Node) : M Unit := do
  let ag : AG := { fn := fn, ok := true, n := 0 }
  let (ag, varNode) ← ag.get 0
  let (ag, iterNode) ← ag.get 1
  let (ag, b0) ← ag.get 2
  let (ag, body) ← ag.thunk b0
  let (ag, elseBody) ← ag.optionalKeywordBody 3 sElse
  let ok ← ag.finish
  if !ok then pure ()
  else do
    let v ← deref varNode "variable"
    compileOneLValue compoundOp v setNewLValue
    let it ← deref iterNode "iterable"
    compoundOp it
    primaryOpNN compoundOp chunkOp body "for body"
    optPrimaryOp compoundOp chunkOp elseBody

/-- `compileTry` -/
def compileTry (fn : Node) : M Unit := do
  let ag : AG := { fn := fn, ok := true, n := 0 }
  let (ag, b0) ← ag.get 0
  let (ag, body) ← ag.thunk b0
  let (ag, i, catchVar, catchNode) ← (if ag.hasKeyword 1 sCatch then do
      let (ag, n) ← ag.get 2
      let isLit := match n with
        | some n => (stringLiteral n).isSome
        | none => false
      let i := if isLit then 3 else 2
      let (ag, c0) ← ag.get i
      let (ag, c) ← ag.thunk c0
      pure (ag, i + 1, (if isLit then n else none), c)
    else pure (ag, 1, none, none))
  let (ag, elseNode) ← ag.optionalKeywordBody i sElse
  let i := if elseNode.isSome then i + 2 else i
  let (ag, finallyNode) ← ag.optionalKeywordBody i sFinally
  let ok ← ag.finish
  if !ok then pure ()
  else do
    (if elseNode.isSome && catchNode.isNone then errAt .tryElseNeedsCatch fn
     else if catchNode.isNone && finallyNode.isNone then errAt .tryNeedsCatchOrFinally fn
     else pure ())
    primaryOpNN compoundOp chunkOp body "try body"
    (match catchVar with
     | some v => compileOneLValue compoundOp v setNewLValue
     | none => pure ())
    optPrimaryOp compoundOp chunkOp catchNode
    optPrimaryOp compoundOp chunkOp elseNode
    optPrimaryOp compoundOp chunkOp finallyNode

/-- `compilePragma` -/
def compilePragma (fn : Node) : M Unit := do
  let ag : AG := { fn := fn, ok := true, n := 0 }
  let (ag, a0) ← ag.get 0
  let (ag, name) ← ag.stringLit a0
  let (ag, a1) ← ag.get 1
  let (ag, eq) ← ag.stringLit a1
  let ag ← (if ag.has 1 && eq != sEq then
      match a1 with
      | some a => ag.err .mustBeLiteralEq a.frm a.to
      | none => panic "index out of range"
    else pure ag)
  let (ag, valueNode) ← ag.get 2
  let ok ← ag.finish
  if !ok then pure ()
  else if name == sUnknownCommand then do
    let vn ← deref valueNode "pragma value"
    let value ← stringLiteralOrError vn
    if value == sDisallow then setCurrentPragma false
    else if value == sExternal then setCurrentPragma true
    else errAt .pragmaValue vn
  else do
    let a ← deref a0 "pragma name"
    errAt .unknownPragma a

/-- the `compileBuiltin` of a special form -/
def compileSpecial (sp : Special) (fn : Node) : M Unit :=
  match sp with
  | .var => compileVar compoundOp fn
  | .set => compileSet compoundOp fn
  | .tmp => compileTmp compoundOp fn
  | .with_ => compileWith compoundOp chunkOp fn
  | .del => compileDel compoundOp fn
  | .fn => compileFn compoundOp chunkOp fn
  | .use => compileUse fn
  | .and_ | .or_ | .coalesce => compoundOps compoundOp (Form.args fn)
  | .if_ => compileIf compoundOp chunkOp fn
  | .while_ => compileWhile compoundOp chunkOp fn
  | .for_ => compileFor compoundOp chunkOp fn
  | .try_ => compileTry compoundOp chunkOp fn
  | .pragma => compilePragma fn

/-! ### forms, pipelines, chunks (`compile_effect.go`) -/

/-- `cp.redirOp` -/
def redirOp (n : Node) : M Unit := do
  (match Redir.left n with
   | some l => compoundOp l
   | none => pure ())
  (if n.fields.mode == Read || n.fields.mode == Write || n.fields.mode == ReadWrite || n.fields.mode == Gen.C01Chars.Append
   then pure () else errAt .badRedirSign n)
  let r ← deref (Redir.right n) "Redir.Right"
  compoundOp r

/-- `cp.formBody` -/
def formBody (n : Node) : M Unit := do
  let head ← deref (Form.head n) "Form.Head"
  match stringLiteral head with
  | some h =>
    match specialOf h with
    | some sp => compileSpecial compoundOp chunkOp sp n
    | none => do
      let ref ← resolveCmdHead h
      (if ref.isSome then pure ()
       else do
        autofix (h ++ sTilde)
        let ext ← currentPragma
        if ext || dontSearch h then pure () else errAt .unknownCommand head)
      compoundOps compoundOp (Form.args n)
      mapPairs compoundOp (Form.opts n)
  | none => do
    compoundOp head
    compoundOps compoundOp (Form.args n)
    mapPairs compoundOp (Form.opts n)

/-- `cp.formOp` -/
def formOp (n : Node) : M Unit := do
  forEach (Form.redirs n) (redirOp compoundOp)
  formBody compoundOp chunkOp n

/-- `cp.pipelineOp` -/
def pipelineOp (n : Node) : M Unit := forEach (Pipeline.forms n) (formOp compoundOp chunkOp)

/-- `cp.chunkOp` (the body; `chunkOp` itself is `compileNT … .chunk`) -/
def chunkBody (n : Node) : M Unit := forEach (Chunk.pipelines n) (pipelineOp compoundOp chunkOp)

end Open

inductive NT where
  | chunk | compound
  deriving DecidableEq, Repr

/-- The recursive compiler: `fuel` bounds the nesting of `chunkOp`/`compoundOp` calls. -/
def compileNT : Nat → NT → Node → M Unit
  | 0, _, _ => outOfFuel
  | fuel + 1, .chunk, n => chunkBody (compileNT fuel .compound) (compileNT fuel .chunk) n
  | fuel + 1, .compound, n => compoundBody (compileNT fuel .compound) (compileNT fuel .chunk) n

/-! ## `compile` (`compiler.go`) -/

/-- What `compile` returns: `nsOp.template` (the static namespace the code
leaves behind), the autofixes and the errors. -/
structure Compiled where
  template : StaticNs
  autofixes : List Bytes
  errors : List CErr
  deriving Repr, Inhabited

inductive COut where
  | ok (c : Compiled)
  | panic (why : String)
  | fuel
  deriving Inhabited

/-- `strings.TrimSuffix(first, ":")` and the test `mod != first` -/
def modOfFirst (first : Bytes) : Option Bytes :=
  if first.getLast? == some 58 then some first.dropLast else none

/-- What the recorded `autofixUnresolvedVar` calls append to `cp.autofixes`. -/
def autofixes (modules : List Bytes) (fixes : List Bytes) : List Bytes :=
  if modules.isEmpty then []
  else fixes.filterMap fun q =>
    match modOfFirst (splitQName q).1 with
    | some mod => if modules.contains mod then some (sUsePrefix ++ mod) else none
    | none => none

/-- The part of `compile` that does not look at `modules`: runs `cp.chunkOp` on a
CLONE of the global static namespace (`g = g.clone()`; the argument is a value
here, so the caller's namespace cannot change) and returns the final state. -/
def compileCore (env : Env) (fuel : Nat) (g : StaticNs) (tree : Node) : Out Unit :=
  compileNT fuel .chunk tree env { scopes := [g], pragmas := [true], errors := [], fixes := [] }

/-- `compile(b, g, modules, tree, w)` -/
def compile (env : Env) (fuel : Nat) (g : StaticNs) (modules : List Bytes) (tree : Node) : COut :=
  match compileCore env fuel g tree with
  | .ok _ s =>
    match s.scopes.getLast? with
    | some t => .ok { template := t, autofixes := autofixes modules s.fixes, errors := s.errors }
    | none => .panic "index out of range"
  | .panic w => .panic w
  | .fuel => .fuel

/-! ## `Evaler.Eval` and `Evaler.Check` (`eval.go`) -/

/-- The `Evaler`: the static side of its two namespaces, and everything only
EXECUTION reads or writes (`rt`: variable values, module table, files,
environment, ports, …). -/
structure Evaler (W : Type) where
  builtin : StaticNs
  global : StaticNs
  rt : W

/-- The parts of the pipeline that are parameters: the parser (instantiated with
the C01 model by the driver), `unicode.IsPrint`, the compiler fuel, the keys of
`ev.modules`, and the execution phase `prepareFrame` + `op.prepare` + `exec()`,
which receives the evaler with the new global already installed and returns
the evaler it leaves behind, the trace of observable effects (value and byte
output, assignments, file writes, builtin calls, …) and the exception. -/
structure Runtime (W Eff Exc : Type) where
  parse : Bytes → C01.ParseResult
  isPrint : Int → Bool
  fuel : Bytes → Nat
  modules : W → List Bytes
  exec : Node → Evaler W → Evaler W × List Eff × Option Exc

inductive Outcome (Exc : Type) where
  /-- `parse.Parse` returned an error -/
  | parseError (errs : List C01.PErr)
  /-- `compile` returned an error -/
  | compileError (errs : List CErr)
  /-- the code was executed -/
  | ran (exc : Option Exc)
  /-- a Go panic / model fuel exhaustion in the static phase -/
  | crashed (why : String)

def Outcome.isStaticError {Exc} : Outcome Exc → Bool
  | .parseError _ => true
  | .compileError _ => true
  | _ => false

section Pipeline
variable {W Eff Exc : Type} (R : Runtime W Eff Exc)

/-- `(*Evaler).Eval(src, cfg)` with `cfg.Global == nil`. -/
def eval (ev : Evaler W) (src : Bytes) : Evaler W × List Eff × Outcome Exc :=
  match R.parse src with
  | .panic w => (ev, [], .crashed w)
  | .fuel => (ev, [], .crashed "FUEL")
  | .ok tree perrs =>
    if !perrs.isEmpty then (ev, [], .parseError perrs)
    else
      match compile { builtin := ev.builtin, isPrint := R.isPrint } (R.fuel src) ev.global [] tree with
      | .panic w => (ev, [], .crashed w)
      | .fuel => (ev, [], .crashed "FUEL")
      | .ok c =>
        if !c.errors.isEmpty then (ev, [], .compileError c.errors)
        else
          -- success path: `ev.global = newLocal`, then `exec()`
          let r := R.exec tree { ev with global := c.template }
          (r.1, r.2.1, .ran r.2.2)

/-- What `Check` returns. -/
structure CheckResult where
  parseErrors : List C01.PErr
  autofixes : List Bytes
  compileErrors : List CErr

inductive CheckOut where
  | ok (r : CheckResult)
  | crashed (why : String)

/-- `(*Evaler).Check(src, w)`: parses, then compiles whatever tree the parser
produced (also after parse errors), with the names of `ev.modules`.  Returns
values only: the evaler is not an output. -/
def check (ev : Evaler W) (src : Bytes) : CheckOut :=
  match R.parse src with
  | .panic w => .crashed w
  | .fuel => .crashed "FUEL"
  | .ok tree perrs =>
    match compile { builtin := ev.builtin, isPrint := R.isPrint } (R.fuel src) ev.global (R.modules ev.rt) tree with
    | .panic w => .crashed w
    | .fuel => .crashed "FUEL"
    | .ok c => .ok { parseErrors := perrs, autofixes := c.autofixes, compileErrors := c.errors }

/-- "the static check reports a parse or compilation error" -/
def CheckOut.reportsError : CheckOut → Bool
  | .ok r => !r.parseErrors.isEmpty || !r.compileErrors.isEmpty
  | .crashed _ => false

end Pipeline
end C16
