/-
C16: the other two entry points into the static phase.

* `(*Evaler).Eval(src, cfg)` with an EXPLICIT `cfg.Global`: the code is compiled
  against `cfg.Global.static()` instead of `ev.global.static()`, `ev.mu` is
  released before compiling, and `ev.global` is NOT replaced afterwards
  (`if defaultGlobal { ev.global = newLocal }`).
* `(*Frame).PrepareEval(src, r, ns)` followed by `exec()` (`Frame.Eval`; this is
  how `evalModule` runs the source of a FILE MODULE for `use`, with
  `ns = new(Ns)`, i.e. an empty namespace, and how the `eval` builtin runs its
  argument): parse → (error ⇒ return) → `compile(builtin.static(),
  local.static(), nil, tree)` → (error ⇒ return) → `op.prepare` → `exec`.

Both are the same pipeline as `eval` of `Model.lean` with the namespace to
compile against given explicitly (`g`) and an execution phase that receives the
template as the frame's local namespace instead of installing it as the
evaler's global (`execIn`, again an arbitrary function).
-/
import ElvModel.C16.Model
namespace C16
open Go

section
variable {W Eff Exc : Type} (R : Runtime W Eff Exc)

/-- `Eval` with `cfg.Global = g` / `Frame.Eval(src, r, ns)` with `ns.static() = g`. -/
def evalIn (execIn : Node → StaticNs → Evaler W → Evaler W × List Eff × Option Exc)
    (ev : Evaler W) (g : StaticNs) (src : Bytes) : Evaler W × List Eff × Outcome Exc :=
  match R.parse src with
  | .panic w => (ev, [], .crashed w)
  | .fuel => (ev, [], .crashed "FUEL")
  | .ok tree perrs =>
    if !perrs.isEmpty then (ev, [], .parseError perrs)
    else
      match compile { builtin := ev.builtin, isPrint := R.isPrint } (R.fuel src) g [] tree with
      | .panic w => (ev, [], .crashed w)
      | .fuel => (ev, [], .crashed "FUEL")
      | .ok c =>
        if !c.errors.isEmpty then (ev, [], .compileError c.errors)
        else
          let r := execIn tree c.template ev
          (r.1, r.2.1, .ran r.2.2)

/-- `(*Evaler).Eval(src, cfg)`: `cfg.Global == nil` is `eval`, otherwise `evalIn`. -/
def evalCfg (execIn : Node → StaticNs → Evaler W → Evaler W × List Eff × Option Exc)
    (ev : Evaler W) (cfgGlobal : Option StaticNs) (src : Bytes) : Evaler W × List Eff × Outcome Exc :=
  match cfgGlobal with
  | none => eval R ev src
  | some g => evalIn R execIn ev g src

/-- `evalModule` (the file-module half of `use`): `fm.Eval(src, r, new(Ns))`. -/
def evalModuleSource (execIn : Node → StaticNs → Evaler W → Evaler W × List Eff × Option Exc)
    (ev : Evaler W) (src : Bytes) : Evaler W × List Eff × Outcome Exc :=
  evalIn R execIn ev [] src

end
end C16
