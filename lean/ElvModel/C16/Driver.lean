import ElvModel.Go.Driver
import ElvModel.C16.Model
import ElvModel.C16.Shape
namespace C16
open Go

/-! Line protocol of C16 (stateful: one history = one `Evaler`).

* `reset <builtin> <global> <modules>` — name lists: `hex[!]` joined by `,`
  (`!` = read-only), `.` = empty list → `ok`
* `extb <hex name>` — `ExtendBuiltin` with one new variable → `ok`
* `eval <hex src> <printable>` → `PARSE f:t… | fx=N g=same` / `COMPILE slug@f-t… | fx=N g=same`
  / `RUN <names>`   (`names`: sorted hex names of the global namespace afterwards)
* `check <hex src> <printable>` → `CHECK P f:t… C slug@f-t… F hex…`
* `bin <hex src> <printable>` → `BIN rc=0|2 P@f-t… slug@f-t…` (`elvish -compileonly -json -c`:
  the static check in a fresh evaler with an empty global namespace)

Every op line is `SHAPE` instead if the tree the parser model returns for the source does not have
the shape the compiler relies on (`Shape.lean`; proved impossible in `ElvProofs/C16/ParserShape3.lean`,
evaluated here on every generated source as a cross-check of that proof's statement).
-/

/-- the driver's evaler: `rt` = the keys of `ev.modules` -/
abbrev DEv := Evaler (List Bytes)

def parseIntList (s : String) : Option (List Int) :=
  if s = "-" then some [] else (s.splitOn ",").mapM String.toInt?

def parseInfo (s : String) : Option Info :=
  let ro := s.endsWith "!"
  let h := if ro then (s.dropEnd 1).toString else s
  (hexDecode h).map fun n => { name := n, readOnly := ro }

def parseInfos (s : String) : Option (List Info) :=
  if s = "." then some [] else (s.splitOn ",").mapM parseInfo

def bytesLt : Bytes → Bytes → Bool
  | [], [] => false
  | [], _ :: _ => true
  | _ :: _, [] => false
  | a :: as, b :: bs => if a < b then true else if b < a then false else bytesLt as bs

def insertSorted (x : Bytes) : List Bytes → List Bytes
  | [] => [x]
  | y :: ys => if bytesLt y x then y :: insertSorted x ys else x :: y :: ys

def sortBytes (l : List Bytes) : List Bytes := l.foldr insertSorted []

def joinWith (sep : String) (l : List String) : String :=
  match l with
  | [] => ""
  | x :: xs => xs.foldl (fun acc y => acc ++ sep ++ y) x

def showNames (ns : StaticNs) : String :=
  let l := sortBytes ns.names
  if l.isEmpty then "." else joinWith "," (l.map hexEnc)

def showPErr (e : C01.PErr) : String := s!"{e.frm}:{e.to}"
def showCErr (e : CErr) : String := s!"{e.kind.slug}@{e.frm}-{e.to}"

def sp (l : List String) : String := String.join (l.map fun x => " " ++ x)

def runtime (printable : List Int) : Runtime (List Bytes) Unit Unit :=
  { parse := C01.parse (fun r => printable.contains r)
    isPrint := fun r => printable.contains r
    fuel := C01.defaultFuel
    modules := id
    -- execution is not modelled: it leaves the evaler alone and has no visible effect
    exec := fun _ ev => (ev, [], none) }

def crashLine (w : String) : String := if w == "FUEL" then "FUEL" else "PANIC"

def sameGlobal (a b : DEv) : String := if a.global == b.global && a.builtin == b.builtin && a.rt == b.rt then "same" else "changed"

def evalLine (ev : DEv) (src : Bytes) (printable : List Int) : DEv × String :=
  let r := eval (runtime printable) ev src
  let ev' := r.1
  let fx := s!" | fx={r.2.1.length} g={sameGlobal ev ev'}"
  match r.2.2 with
  | .parseError errs => (ev', "PARSE" ++ sp (errs.map showPErr) ++ fx)
  | .compileError errs => (ev', "COMPILE" ++ sp (errs.map showCErr) ++ fx)
  | .ran _ => (ev', "RUN " ++ showNames ev'.global)
  | .crashed w => (ev', crashLine w)

def checkLine (ev : DEv) (src : Bytes) (printable : List Int) : String :=
  match check (runtime printable) ev src with
  | .ok r => "CHECK P" ++ sp (r.parseErrors.map showPErr) ++ " C" ++ sp (r.compileErrors.map showCErr)
      ++ " F" ++ sp (r.autofixes.map hexEnc)
  | .crashed w => crashLine w

def binLine (ev : DEv) (src : Bytes) (printable : List Int) : String :=
  match check (runtime printable) { ev with global := [] } src with
  | .ok r =>
    let n := r.parseErrors.length + r.compileErrors.length
    s!"BIN rc={if n == 0 then 0 else 2}" ++ sp (r.parseErrors.map fun e => s!"P@{e.frm}-{e.to}")
      ++ sp (r.compileErrors.map showCErr)
  | .crashed w => crashLine w

/-- the tree the parser model returns is not a `Chunk` of the compiler's shape within the nesting bound -/
def shapeBad (src : Bytes) (printable : List Int) : Bool :=
  match C01.parse (fun r => printable.contains r) src with
  | .ok t _ => !(shape t && t.kind == .chunk && decide (nest t ≤ C01.defaultFuel src))
  | _ => false

def emptyEv : DEv := { builtin := [], global := [], rt := [] }

def step (ev : DEv) : List String → DEv × String
  | ["reset", sb, sg, sm] =>
    match parseInfos sb, parseInfos sg, parseInfos sm with
    | some b, some g, some m => ({ builtin := b, global := g, rt := m.map (·.name) }, "ok")
    | _, _, _ => (ev, "bad-op")
  | ["extb", hname] =>
    -- `Evaler.ExtendBuiltin` with one new variable
    match hexDecode hname with
    | some n => ({ ev with builtin := ev.builtin ++ [{ name := n, readOnly := false }] }, "ok")
    | none => (ev, "bad-op")
  | ["eval", hsrc, sprint] =>
    match hexDecode hsrc, parseIntList sprint with
    | some src, some pr => if shapeBad src pr then (ev, "SHAPE") else evalLine ev src pr
    | _, _ => (ev, "bad-op")
  | ["check", hsrc, sprint] =>
    match hexDecode hsrc, parseIntList sprint with
    | some src, some pr => (ev, if shapeBad src pr then "SHAPE" else checkLine ev src pr)
    | _, _ => (ev, "bad-op")
  | ["bin", hsrc, sprint] =>
    match hexDecode hsrc, parseIntList sprint with
    | some src, some pr => (ev, if shapeBad src pr then "SHAPE" else binLine ev src pr)
    | _, _ => (ev, "bad-op")
  | _ => (ev, "bad-op")

def driver : Driver := { σ := DEv, init := emptyEv, step := step }
end C16
