import ElvModel.C16.Driver
def main : IO Unit := C16.driver.main
