/-
C09: `vals.Cmp`, `vals.CmpTotal` (pkg/eval/vals/cmp.go), number unification
(pkg/eval/vals/num.go: UnifyNums2, PromoteToBigInt, PromoteToBigRat,
ConvertToFloat64) and the builtins `eq`, `compare`, `<`, `<=`, `==`
(pkg/eval/builtin_fn_pred.go, builtin_fn_num.go).  Values, `Equal` and the
float64 bit-pattern decoding come from C08's model.

Modelled code = the tree WITH fixes/C09-exact-compare.patch (mixed exact /
inexact comparisons are exact: `UnifyNums2ForCmp`).  The unfixed path
(`UnifyNums2`, `ConvertToFloat64`: the exact operand is rounded to float64) is
kept as `unifyNums2AndOld`/`cmpNumOld` for `C09_counterexample`; its exact →
float64 conversion (`float64(int)`, `big.Rat.Float64`) is specified as
round-to-nearest-even over the transparent decoding (`ratToF64`) and was
compared bit for bit with Go on the unfixed tree.  No use of Lean's opaque
`Float` anywhere.
-/
import ElvModel.C08.Model

namespace C09
open Go C08

/-- `vals.Ordering`. -/
inductive COrd where
  | less | equal | more | uncomparable
  deriving DecidableEq, Repr, Inhabited

open COrd

/-- `compareBuiltin` on ints (also `big.Int.Cmp` followed by `compareBuiltin(·, 0)`). -/
def compareInt (a b : Int) : COrd :=
  if a < b then less else if a > b then more else equal
/-- `big.Rat.Cmp` followed by `compareBuiltin(·, 0)`. -/
def compareRat (a b : Rat) : COrd :=
  if a < b then less else if a > b then more else equal
/-- `compareBuiltin` on uintptr (type descriptors). -/
def compareNat (a b : Nat) : COrd :=
  if a < b then less else if a > b then more else equal
/-- Go `<` on strings: lexicographic on bytes. -/
def bytesLt : Bytes → Bytes → Bool
  | [], [] => false
  | [], _ :: _ => true
  | _ :: _, [] => false
  | x :: xs, y :: ys => if x < y then true else if y < x then false else bytesLt xs ys
/-- `compareBuiltin` on strings. -/
def compareBytes (a b : Bytes) : COrd :=
  if bytesLt a b then less else if bytesLt b a then more else equal

/-- `compareFloat`. -/
def compareFloat (a b : UInt64) : COrd :=
  if F64.isNaN a then (if F64.isNaN b then equal else less)
  else if F64.isNaN b then more
  else if F64.lt a b then less
  else if F64.lt b a then more
  else equal

/-! ### exact → float64: round to nearest, ties to even -/

/-- nearest integer to `n / d` (`d > 0`), ties to even. -/
def roundNE (n d : Nat) : Nat :=
  let q := n / d
  let r := n % d
  if 2 * r < d then q else if d < 2 * r then q + 1 else if q % 2 = 0 then q else q + 1

/-- magnitude bits of the float64 nearest to `n / d` (`n, d > 0`); overflows to
infinity. -/
def magToF64 (n d : Nat) : Nat :=
  let e0 : Int := (Nat.log2 n : Int) - (Nat.log2 d : Int)
  -- e = ⌊log2 (n/d)⌋
  let e : Int := if n * 2 ^ (-e0).toNat < d * 2 ^ e0.toNat then e0 - 1 else e0
  -- exponent of one unit in the last place (subnormals: 2^-1074)
  let u : Int := max e (-1022) - 52
  let m := roundNE (n * 2 ^ (-u).toNat) (d * 2 ^ u.toNat)
  let bits := (max (e + 1022) 0).toNat * 2 ^ 52 + m
  if F64.expInf ≤ bits then F64.expInf else bits

/-- float64 nearest to `num / den` (`den > 0`). -/
def fracToF64 (num : Int) (den : Nat) : UInt64 :=
  if num = 0 then 0
  else UInt64.ofNat ((if num < 0 then 2 ^ 63 else 0) + magToF64 num.natAbs den)

/-- `float64(i)` for a Go int / int64. -/
def intToF64 (i : Int) : UInt64 := fracToF64 i 1
/-- `big.Rat.Float64`. -/
def ratToF64 (r : Rat) : UInt64 := fracToF64 r.num r.den

def minInt64 : Int := -(2 ^ 63)
def maxInt64 : Int := 2 ^ 63 - 1

/-- `ConvertToFloat64` (`none`: not a number, Go panics). -/
def convertToFloat64 : Val → Option UInt64
  | .int i => some (intToF64 i)
  | .bigint i =>
    if minInt64 ≤ i ∧ i ≤ maxInt64 then some (intToF64 i)     -- IsInt64: float64(num.Int64())
    else some (if i < 0 then F64.negInf else F64.posInf)        -- math.Inf(num.Sign())
  | .rat r => some (ratToF64 r)
  | .float b => some b
  | _ => none

/-- `getNumType` (`none`: not a number). -/
def numType : Val → Option Nat
  | .int _ => some 0
  | .bigint _ => some 1
  | .rat _ => some 2
  | .float _ => some 3
  | _ => none

/-- `PromoteToBigInt`. -/
def promoteToBigInt : Val → Option Int
  | .int i => some i
  | .bigint i => some i
  | _ => none
/-- `PromoteToBigRat`. -/
def promoteToBigRat : Val → Option Rat
  | .int i => some (i : Rat)
  | .bigint i => some (i : Rat)
  | .rat r => some r
  | _ => none

/-- UNFIXED tree: `unifyNums2And(a, b, fInt, fBigInt, fBigRat, fFloat64)`:
`UnifyNums2(a, b, 0)` then dispatch on the unified type.  `none` = a Go panic
(non-number operand); never reached from `Cmp` or the builtins, which check
the types first. -/
def unifyNums2AndOld {α} (a b : Val) (fInt fBigInt : Int → Int → α) (fBigRat : Rat → Rat → α)
    (fFloat : UInt64 → UInt64 → α) : Option α := do
  let t1 ← numType a
  let t2 ← numType b
  match max t1 t2 with
  | 0 => match a, b with
    | .int x, .int y => some (fInt x y)
    | _, _ => none
  | 1 => do
    let x ← promoteToBigInt a
    let y ← promoteToBigInt b
    some (fBigInt x y)
  | 2 => do
    let x ← promoteToBigRat a
    let y ← promoteToBigRat b
    some (fBigRat x y)
  | _ => do
    let x ← convertToFloat64 a
    let y ← convertToFloat64 b
    some (fFloat x y)

/-- Exact value of a finite float64, scaled by 2^1074 (an integer):
subnormals `f`, normals `(2^52 + f) * 2^(e-1)`, with the sign. -/
def F64.scaled (b : UInt64) : Int :=
  let e := F64.mag b / 2 ^ 52
  let f := F64.mag b % 2 ^ 52
  let v : Nat := if e = 0 then f else (2 ^ 52 + f) * 2 ^ (e - 1)
  if F64.neg b then - (v : Int) else (v : Int)

/-- `new(big.Rat).SetFloat64(f)` for finite `f`: the exact value. -/
def F64.toRat (b : UInt64) : Rat := mkRat (F64.scaled b) (2 ^ 1074)

def F64.isFinite (b : UInt64) : Bool := decide (F64.mag b < F64.expInf)

/-- FIXED tree (fixes/C09-exact-compare.patch): `UnifyNums2ForCmp(a, b)` then
dispatch.  Like `UnifyNums2(a, b, 0)`, but a mix of an exact number and a
float64 is unified without rounding: a finite float becomes its exact
`*big.Rat`; next to an infinity or NaN the exact number is replaced by `0.0`. -/
def unifyNums2And {α} (a b : Val) (fInt fBigInt : Int → Int → α) (fBigRat : Rat → Rat → α)
    (fFloat : UInt64 → UInt64 → α) : Option α :=
  match a, b with
  | .float x, .float y => some (fFloat x y)
  | .float x, e =>
    if F64.isFinite x then (promoteToBigRat e).map fun r => fBigRat (F64.toRat x) r
    else (numType e).map fun _ => fFloat x 0
  | e, .float y =>
    if F64.isFinite y then (promoteToBigRat e).map fun r => fBigRat r (F64.toRat y)
    else (numType e).map fun _ => fFloat 0 y
  | _, _ => unifyNums2AndOld a b fInt fBigInt fBigRat fFloat

/-- the number branch of `cmpInner`. -/
def cmpNum (a b : Val) : Option COrd :=
  unifyNums2And a b compareInt compareInt compareRat compareFloat
/-- the number branch of `cmpInner`, unfixed tree. -/
def cmpNumOld (a b : Val) : Option COrd :=
  unifyNums2AndOld a b compareInt compareInt compareRat compareFloat

def isNum (v : Val) : Bool := (numType v).isSome

/-- Identity kinds whose Go type is a struct with only exported fields
(`externalCmd{Name}` = kind 3, `ui.Key{Rune, Mod}` = kind 4): `IsFieldMap` is
true for them, so `typeOf` puts them into the map class. -/
def structShaped (kind : Nat) : Bool := kind == 3 || kind == 4

/-- the type descriptor classes distinguished by `typeOf`: all numbers share
one; maps, field maps and struct-shaped identity kinds share one; every other
identity kind has its own. -/
def typeTag : Val → Nat
  | .nil => 0
  | .bool _ => 1
  | .int _ | .bigint _ | .rat _ | .float _ => 2
  | .str _ => 3
  | .list _ => 4
  | .map _ _ => 5
  | .ref k _ => if structShaped k then 5 else 6 + k

section
-- `rank`: the address order of the Go type descriptors in this process
-- (`typeOf`); `total`: `recurse` is `CmpTotal` (true) or `Cmp` (false).
variable (rank : Nat → Nat)

mutual
/-- `Cmp` (`total = false`) and `CmpTotal` (`total = true`):
`CmpTotal(a,b)` = type order first, then `cmpInner(a, b, CmpTotal)`, then
`CmpUncomparable ↦ CmpEqual`; `Cmp(a,b) = cmpInner(a, b, Cmp)`. -/
def cmpG (total : Bool) : Val → Val → COrd
  | a, b =>
    if total && compareNat (rank (typeTag a)) (rank (typeTag b)) != equal then
      compareNat (rank (typeTag a)) (rank (typeTag b))
    else
      let o := match a, b with
        | .nil, .nil => equal
        | .nil, _ => uncomparable
        | .bool x, .bool y => if x == y then equal else if x == false then less else more
        | .bool _, _ => uncomparable
        | .str x, .str y => compareBytes x y
        | .str _, _ => uncomparable
        | .list xs, .list ys => cmpListG total xs ys
        | .list _, _ => uncomparable
        | .int _, _ | .bigint _, _ | .rat _, _ | .float _, _ =>
          match cmpNum a b with
          | some o => o
          | none => uncomparable
        | _, _ => if Equal a b then equal else uncomparable     -- default branch
      if total && o == uncomparable then equal else o
/-- the `List` loop of `cmpInner`, then the length comparison. -/
def cmpListG (total : Bool) : List Val → List Val → COrd
  | [], [] => equal
  | [], _ :: _ => less
  | _ :: _, [] => more
  | x :: xs, y :: ys =>
    let o := cmpG total x y
    if o != equal then o else cmpListG total xs ys
end
end

/-- `vals.Cmp`. -/
abbrev Cmp : Val → Val → COrd := cmpG id false
/-- `vals.CmpTotal`. -/
abbrev CmpTotal (rank : Nat → Nat) : Val → Val → COrd := cmpG rank true

/-! ### builtins -/

/-- `eq` (variadic chain). -/
def builtinEq : List Val → Bool
  | a :: b :: rest => Equal a b && builtinEq (b :: rest)
  | _ => true

/-- `compare [&total]`: `Res.exc` = ErrUncomparable. -/
def builtinCompare (rank : Nat → Nat) (total : Bool) (a b : Val) : Res Int :=
  match (if total then CmpTotal rank a b else Cmp a b) with
  | less => .ok (-1)
  | equal => .ok 0
  | more => .ok 1
  | uncomparable => .exc "uncomparable"

/-- Go float64 `<=`. -/
def f64le (a b : UInt64) : Bool := F64.lt a b || F64.eq a b

/-- `chainCompareNums`. `none` = a non-number reached `UnifyNums2` (cannot
happen through the builtins: arguments are converted to `vals.Num` first). -/
def chainCompareNums (pInt : Int → Int → Bool) (pRat : Rat → Rat → Bool)
    (pF : UInt64 → UInt64 → Bool) : List Val → Option Bool
  | a :: b :: rest => do
    let r ← unifyNums2And a b pInt pInt pRat pF
    if !r then some false else chainCompareNums pInt pRat pF (b :: rest)
  | _ => some true

/-- `<`. -/
def builtinLt := chainCompareNums (fun a b => decide (a < b)) (fun a b => decide (a < b)) F64.lt
/-- `<=`. -/
def builtinLe := chainCompareNums (fun a b => decide (a ≤ b)) (fun a b => decide (a ≤ b)) f64le
/-- `==`. -/
def builtinEqNum := chainCompareNums (fun a b => decide (a = b)) (fun a b => decide (a = b)) F64.eq

end C09
