import ElvModel.Go.Driver
import ElvModel.C08.Codec
import ElvModel.C09.Model
namespace C09
open Go C08

def showOrd : COrd → String
  | .less => "<"
  | .equal => "="
  | .more => ">"
  | .uncomparable => "?"

def showOB : Option Bool → String
  | some true => "t"
  | some false => "f"
  | none => "!"

/-- rank table from the op line: comma-separated rank of each type tag
(`-`: not given; for corpus lines whose values are all of one type). -/
def parseRanks (s : String) : Option (List Nat) :=
  if s = "-" then some [] else (s.splitOn ",").mapM String.toNat?

def rankOf (tbl : List Nat) (tag : Nat) : Nat :=
  match tbl[tag]? with
  | some r => r
  | none => 1000 + tag

def showCompare : Res Int → String
  | .ok i => toString i
  | .exc _ => "E"
  | .panic _ => "PANIC"

/-- one ordered pair: eq, compare, compare &total, and `<`,`<=`,`==` when both are numbers. -/
def showPair (rank : Nat → Nat) (a b : Val) : String :=
  let n := if isNum a && isNum b then
      showOB (builtinLt [a, b]) ++ showOB (builtinLe [a, b]) ++ showOB (builtinEqNum [a, b])
    else "-"
  s!"{showBool (builtinEq [a, b])}{showOrd (Cmp a b)}{showOrd (CmpTotal rank a b)}" ++
  s!"/{showCompare (builtinCompare rank false a b)}/{showCompare (builtinCompare rank true a b)}/{n}"

/-- op `cmp <ranks> <a> <b> <c>` → the 9 ordered pairs. -/
def stepLine : List String → String
  | ["cmp", sr, sa, sb, sc] =>
    match parseRanks sr, decodeVal sa, decodeVal sb, decodeVal sc with
    | some tbl, some a, some b, some c =>
      let vs := [a, b, c]
      String.intercalate " " (vs.flatMap fun x => vs.map fun y => showPair (rankOf tbl) x y)
    | _, _, _, _ => "bad-op"
  | _ => "bad-op"

def driver : Driver := Driver.pure stepLine
end C09
