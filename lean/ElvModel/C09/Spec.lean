/-
C09: the abstract specification the theorems refine to.

* `NumVal` / `numVal`: the mathematical value of an elvish number
  (NaN, -∞, a rational, +∞) and the documented order on it
  (NaN = NaN < everything else, otherwise by value).
* `COrd.flip`, `COrd.seq`, `COrd.isLE`: vocabulary for antisymmetry,
  transitivity and lexicographic combination.
-/
import ElvModel.C09.Model

namespace C09
open C08 COrd

/-- the ordering seen from the other side. -/
def COrd.flip : COrd → COrd
  | less => more
  | more => less
  | o => o

/-- `a ≤ b`: less or equal. -/
def COrd.isLE : COrd → Bool
  | less | equal => true
  | _ => false

/-- lexicographic combination (first decisive comparison wins); also the
composition law of a preorder: from `a ?₁ b` and `b ?₂ c` (both ≤) follows
`a (seq ?₁ ?₂) c`. -/
def COrd.seq (o₁ o₂ : COrd) : COrd := if o₁ = equal then o₂ else o₁

/-- the mathematical value of a number. -/
inductive NumVal where
  | nan
  | negInf
  | fin (q : Rat)
  | posInf

/-- position of the four classes in the documented order. -/
def NumVal.cls : NumVal → Nat
  | .nan => 0
  | .negInf => 1
  | .fin _ => 2
  | .posInf => 3

/-- the documented order of numbers: NaN equals NaN and is below everything
else; otherwise by mathematical value. -/
def NumVal.cmp : NumVal → NumVal → COrd
  | .fin p, .fin q => compareRat p q
  | x, y => compareNat x.cls y.cls

/-- value of a float64 bit pattern. -/
def F64.val (b : UInt64) : NumVal :=
  if F64.isNaN b then .nan
  else if F64.isInf b then (if F64.neg b then .negInf else .posInf)
  else .fin (F64.toRat b)

/-- value of an elvish number (`none`: not a number). -/
def numVal : Val → Option NumVal
  | .int i => some (.fin (i : Rat))
  | .bigint i => some (.fin (i : Rat))
  | .rat r => some (.fin r)
  | .float b => some (F64.val b)
  | _ => none

end C09
