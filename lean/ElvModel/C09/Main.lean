import ElvModel.C09.Driver
def main : IO Unit := C09.driver.main
