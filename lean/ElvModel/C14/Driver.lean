/-
C14 driver: decodes the op lines of harness/c14, runs the model, prints the
canonical outcome line.

ops (tab-separated fields; inside a field, space-separated tokens):
  reset  <name>=<Val> …            new history: the store holds exactly these variables
  do     <via> <Stmt>              one top-level statement (`via` = how the harness renders it; ignored)
  mk     <k> <x|-> <Stmt>*         closure k: private variable `p<k>` := value of `x` (if given); body remembered
  run    <k>                       call closure k (= `call body`)
  obs                              print every variable in full

tokens:
  Val  := s:<hex> | n:<int> | nil | [ Val* ] | { (Key Val)* }
  Key  := s:<hex> | n:<int> | k[ <hex>* ] | knil
  LV   := lv:<tag>:<head> Key*
  Rhs  := v Val | $<name> Key*
  Stmt := set LV* = Rhs* ; | tmp LV* = Rhs* ; | del LV ; | put Rhs* ;
        | call { Stmt* } | with ( ( LV* = Rhs* ) )* { Stmt* }

outcome line:  <status> | <outputs> | <name>=<hash> …
  status  = ok | exc <msg> @<site> | compile-error | PANIC (whole line)
  outputs = full rendering when shorter than 120 bytes, else #<hash>
-/
import ElvModel.Go.Driver
import ElvModel.C14.Model
namespace C14
open Go

/-! ### canonical rendering -/

def renderKey : Key → String
  | .str s => "s:" ++ hexEnc s
  | .num i => "n:" ++ toString i
  | .strs l => "k[" ++ " ".intercalate (l.map hexEnc) ++ "]"
  | .nil => "knil"

def joinSorted (kvs : List (String × String)) : String :=
  let sorted := kvs.mergeSort (fun a b => !(b.1 < a.1))
  " ".intercalate (sorted.map (fun e => e.1 ++ "=" ++ e.2))

mutual
def renderVal : Val → String
  | .str s => "s:" ++ hexEnc s
  | .num i => "n:" ++ toString i
  | .nil => "nil"
  | .list xs => "[" ++ " ".intercalate (renderVals xs) ++ "]"
  | .map kvs => "{" ++ joinSorted (renderKVs kvs) ++ "}"
def renderVals : List Val → List String
  | [] => []
  | v :: vs => renderVal v :: renderVals vs
def renderKVs : List (Key × Val) → List (String × String)
  | [] => []
  | (k, v) :: rest => (renderKey k, renderVal v) :: renderKVs rest
end

def fnv (s : String) : UInt64 :=
  s.toUTF8.foldl (fun h b => (h ^^^ b.toUInt64) * 1099511628211) 14695981039346656037

def hashStr (s : String) : String := toString (fnv s).toNat

def renderOut (v : Val) : String :=
  let s := renderVal v
  if s.utf8ByteSize < 120 then s else "#" ++ hashStr s

def renderHashes (σ : Store) : String :=
  " ".intercalate (σ.map (fun e => e.1 ++ "=" ++ hashStr (renderVal e.2)))

/-! ### token parser (fuel = number of tokens, decreasing on every call) -/

def dropS (t : String) (n : Nat) : String := String.ofList (t.toList.drop n)

abbrev P (α : Type) := List String → Option (α × List String)

def parseHexTok (t : String) : Option Bytes := hexDecode t

def parseKeyStrs : Nat → List String → Option (List Bytes × List String)
  | 0, _ => none
  | _ + 1, [] => none
  | n + 1, t :: ts =>
    if t = "]" then some ([], ts) else do
      let b ← parseHexTok t
      let (r, ts') ← parseKeyStrs n ts
      pure (b :: r, ts')

/-- A key token (or token group), if the next token starts one. -/
def parseKey? (ts : List String) : Option (Key × List String) :=
  match ts with
  | [] => none
  | t :: rest =>
    if t.startsWith "s:" then (hexDecode (dropS t 2)).map (fun b => (Key.str b, rest))
    else if t.startsWith "n:" then (dropS t 2).toInt?.map (fun i => (Key.num i, rest))
    else if t = "k[" then (parseKeyStrs (rest.length + 1) rest).map (fun (l, r) => (Key.strs l, r))
    else if t = "knil" then some (Key.nil, rest)
    else none

def parseKeys : Nat → List String → List Key × List String
  | 0, ts => ([], ts)
  | n + 1, ts =>
    match parseKey? ts with
    | none => ([], ts)
    | some (k, rest) =>
      let (ks, r) := parseKeys n rest
      (k :: ks, r)

mutual
def parseVal : Nat → P Val
  | 0, _ => none
  | _ + 1, [] => none
  | n + 1, t :: ts =>
    if t = "nil" then some (.nil, ts)
    else if t = "[" then (parseValList n ts).map (fun (l, r) => (Val.list l, r))
    else if t = "{" then (parseKVList n ts).map (fun (l, r) => (Val.map l, r))
    else if t.startsWith "s:" then (hexDecode (dropS t 2)).map (fun b => (Val.str b, ts))
    else if t.startsWith "n:" then (dropS t 2).toInt?.map (fun i => (Val.num i, ts))
    else none
def parseValList : Nat → P (List Val)
  | 0, _ => none
  | _ + 1, [] => none
  | n + 1, t :: ts =>
    if t = "]" then some ([], ts) else do
      let (v, r) ← parseVal n (t :: ts)
      let (vs, r') ← parseValList n r
      pure (v :: vs, r')
def parseKVList : Nat → P (List (Key × Val))
  | 0, _ => none
  | _ + 1, [] => none
  | n + 1, t :: ts =>
    if t = "}" then some ([], ts) else do
      let (k, r) ← parseKey? (t :: ts)
      let (v, r1) ← parseVal n r
      let (kvs, r2) ← parseKVList n r1
      pure ((k, v) :: kvs, r2)
end

def parseLV? (ts : List String) : Option (LV × List String) :=
  match ts with
  | [] => none
  | t :: rest =>
    if t.startsWith "lv:" then
      match (dropS t 3).splitOn ":" with
      | [tag, head] =>
        let (ks, r) := parseKeys (rest.length + 1) rest
        some (⟨tag, head, ks⟩, r)
      | _ => none
    else none

def parseLVs : Nat → List String → List LV × List String
  | 0, ts => ([], ts)
  | n + 1, ts =>
    match parseLV? ts with
    | none => ([], ts)
    | some (lv, rest) =>
      let (lvs, r) := parseLVs n rest
      (lv :: lvs, r)

def parseRhs? (ts : List String) : Option (Rhs × List String) :=
  match ts with
  | [] => none
  | t :: rest =>
    if t = "v" then (parseVal (rest.length + 1) rest).map (fun (v, r) => (Rhs.lit v, r))
    else if t.startsWith "$" then
      let (ks, r) := parseKeys (rest.length + 1) rest
      some (.ref (dropS t 1) ks, r)
    else none

def parseRhss : Nat → List String → List Rhs × List String
  | 0, ts => ([], ts)
  | n + 1, ts =>
    match parseRhs? ts with
    | none => ([], ts)
    | some (r, rest) =>
      let (rs, r') := parseRhss n rest
      (r :: rs, r')

/-- `LV* = Rhs* <close>` -/
def parseAssign (close : String) (ts : List String) : Option ((List LV × List Rhs) × List String) :=
  let (lvs, r) := parseLVs (ts.length + 1) ts
  match r with
  | "=" :: r1 =>
    let (rs, r2) := parseRhss (r1.length + 1) r1
    match r2 with
    | c :: r3 => if c = close then some ((lvs, rs), r3) else none
    | [] => none
  | _ => none

def parseWithAssigns : Nat → P (List (List LV × List Rhs))
  | 0, _ => none
  | n + 1, ts =>
    match ts with
    | "(" :: r => do
      let (a, r1) ← parseAssign ")" r
      let (as, r2) ← parseWithAssigns n r1
      pure (a :: as, r2)
    | _ => some ([], ts)

mutual
def parseStmt : Nat → P Stmt
  | 0, _ => none
  | _ + 1, [] => none
  | n + 1, t :: ts =>
    if t = "set" then (parseAssign ";" ts).map (fun ((l, r), rest) => (Stmt.assign false l r, rest))
    else if t = "tmp" then (parseAssign ";" ts).map (fun ((l, r), rest) => (Stmt.assign true l r, rest))
    else if t = "del" then
      match parseLV? ts with
      | some (lv, ";" :: rest) => some (.del lv, rest)
      | _ => none
    else if t = "put" then
      let (rs, r) := parseRhss (ts.length + 1) ts
      match r with
      | ";" :: rest => some (.put rs, rest)
      | _ => none
    else if t = "call" then
      match ts with
      | "{" :: r => (parseStmts n r).map (fun (b, rest) => (Stmt.call b, rest))
      | _ => none
    else if t = "with" then do
      let (as, r) ← parseWithAssigns (ts.length + 1) ts
      match r with
      | "{" :: r1 => (parseStmts n r1).map (fun (b, rest) => (Stmt.withS as b, rest))
      | _ => none
    else none
def parseStmts : Nat → P (List Stmt)
  | 0, _ => none
  | _ + 1, [] => some ([], [])
  | n + 1, t :: ts =>
    if t = "}" then some ([], ts) else do
      let (s, r) ← parseStmt n (t :: ts)
      let (ss, r') ← parseStmts n r
      pure (s :: ss, r')
end

def tokens (s : String) : List String := (s.splitOn " ").filter (· ≠ "")

/-! ### driver state and steps -/

structure St where
  store : Store
  closures : List (String × List Stmt)

def parseResetField (f : String) : Option (String × Val) :=
  match f.splitOn "=" with
  | [name, v] =>
    let ts := tokens v
    match parseVal (ts.length + 1) ts with
    | some (val, []) => some (name, val)
    | _ => none
  | _ => none

def showFail : Fail → String
  | .exc msg site => "exc " ++ msg ++ " @" ++ site
  | .panic _ => "PANIC"

def outcome (r : R) : String :=
  match r.err with
  | some (.panic _) => "PANIC"
  | e =>
    let status := match e with | none => "ok" | some f => showFail f
    status ++ " | " ++ " ".intercalate (r.outs.map renderOut) ++ " | " ++ renderHashes r.store

def stepLine (st : St) : List String → St × String
  | "reset" :: fields =>
    match fields.mapM parseResetField with
    | some σ => (⟨σ, []⟩, "ok |  | " ++ renderHashes σ)
    | none => (st, "bad-op")
  | ["do", _via, s] =>
    let ts := tokens s
    match parseStmt (ts.length + 1) ts with
    | some (stmt, []) =>
      if !topLevelOK stmt then (st, "compile-error |  | " ++ renderHashes st.store)
      else
        let r := exec st.store stmt
        ({ st with store := r.store }, outcome r)
    | _ => (st, "bad-op")
  | ["mk", k, x, body] =>
    let ts := tokens body
    match parseStmts (ts.length + 1) ts with
    | some (stmts, []) =>
      let σ := if x = "-" then some st.store else
        (st.store.get x).map (fun v => st.store.set ("p" ++ k) v)
      match σ with
      | some σ =>
        (⟨σ, (k, stmts) :: st.closures.filter (·.1 ≠ k)⟩, "ok |  | " ++ renderHashes σ)
      | none => (st, "bad-op")
    | _ => (st, "bad-op")
  | ["run", k] =>
    match st.closures.find? (·.1 == k) with
    | some (_, body) =>
      let r := exec st.store (.call body)
      ({ st with store := r.store }, outcome r)
    | none => (st, "bad-op")
  | ["obs"] =>
    (st, " ".intercalate (st.store.map (fun e => e.1 ++ "=" ++ renderVal e.2)))
  | _ => (st, "bad-op")

def driver : Driver := { σ := St, init := ⟨[], []⟩, step := stepLine }
end C14
