/-
C14 model: element assignment and deletion (`set a[i]… = v`, `tmp`/`with` on
elements, `del a[i]…`) over pure values and a store of variables.

Follows, function by function (with fixes/C14-element-set-stale-containers.patch
applied — the unfixed `elem.Set`, which used the containers cached by
`MakeElement`, is kept as `setElemStale`/`doAssignStale` for the counterexample):

  pkg/eval/vals/index.go     Index                       → `index`
  pkg/eval/vals/assoc.go     Assoc                       → `assoc`
  pkg/eval/vals/dissoc.go    Dissoc                      → `dissoc`
  pkg/eval/vars/element.go   elemAssocers / MakeElement  → `assocers`
                             elem.Set (inside-out loop)  → `assocUp`, `setElem`
                             DelElement                  → `delWalk`, `delElem`
  pkg/eval/compile_lvalue.go derefLValue, doAssign, set,
                             save (head of an element)   → `derefAll`, `evalAll`, `setAll`, `doAssign`
  pkg/eval/builtin_special.go delElemOp.exec, withOp.exec,
                             assignOp.exec (tmp: fm.addDefer) → `exec`
  pkg/eval/closure.go        Call: body, then runDefers in reverse → `Stmt.call`

List and string index conversion, list/string indexing and assoc are the C13
model (`C13.indexList`, `C13.assocList`, `C13.indexString`, `C13.assocString`).
Lists are Lean lists (the persistent vector refines them: C06_assoc, C06_index,
C06_subvector, C06_history_refines); maps are association lists with the
reference operations of C07 (`(k,v) :: filter (≠ k)`, `filter (≠ k)`, `find?`;
the HAMT refines them: C07_index_assoc, C07_index_dissoc,
C07_history_refines_reference).  Values are therefore immutable by
construction; that the Go containers never write through shared slices/arrays
is NOT expressible here and is carried by the correspondence run (aliases
re-observed after every step).

Map keys are restricted to strings, typed ints and lists of strings (`Key`):
structural equality on them is `vals.Equal`.  Core Lean only.
-/
import ElvModel.Go.Basic
import ElvModel.C13.Model
namespace C14
open Go

/-- A value used as an index / map key: string, Go `int` (`(num 3)`), or a
list of strings (not an integer for lists/strings, a legitimate map key). -/
inductive Key where
  | str (s : Bytes)
  | num (i : Int)
  | strs (l : List Bytes)
  | nil                           -- `$nil`: a legitimate map key, stored outside the hash tree
  deriving DecidableEq, Repr

/-- The dynamic type seen by `ConvertListIndex`. -/
def Key.raw : Key → C13.Raw
  | .str s => .str s
  | .num i => .int i
  | .strs _ => .other
  | .nil => .other

/-- Elvish values of the model. -/
inductive Val where
  | str (s : Bytes)
  | num (i : Int)                 -- Go `int`: not indexable, no assoc, no dissoc
  | nil                           -- `$nil`
  | list (xs : List Val)
  | map (kvs : List (Key × Val))  -- association list, no two entries with one key

/-! ### vals.Index / vals.Assoc / vals.Dissoc -/

/-- `Map.Index(k)` (reference lookup of C07). -/
def lookup (kvs : List (Key × Val)) (k : Key) : Option Val :=
  (kvs.find? (fun e => e.1 == k)).map (·.2)

/-- `Map.Assoc(k, v)` (reference insertion of C07). -/
def mapAssoc (kvs : List (Key × Val)) (k : Key) (v : Val) : List (Key × Val) :=
  (k, v) :: kvs.filter (fun e => !(e.1 == k))

/-- `Map.Dissoc(k)` (reference deletion of C07). -/
def mapDissoc (kvs : List (Key × Val)) (k : Key) : List (Key × Val) :=
  kvs.filter (fun e => !(e.1 == k))

/-- `vals.Index(a, k)`. -/
def index (c : Val) (k : Key) : Res Val :=
  match c with
  | .str s => do
    let r ← C13.indexString s k.raw
    pure (.str r)
  | .list xs => do
    let r ← C13.indexList xs k.raw
    match r with
    | .elem v => pure v
    | .list l => pure (.list l)
    | .nil => .panic "nil from vector (excluded by C13_list_index)"
  | .map kvs =>
    match lookup kvs k with
    | some v => pure v
    | none => .exc "no-such-key"
  | .num _ => .exc "not-indexable"
  | .nil => .exc "not-indexable"

/-- `vals.Assoc(a, k, v)`. -/
def assoc (c : Val) (k : Key) (v : Val) : Res Val :=
  match c with
  | .str s => do
    let r ← C13.assocString s k.raw (match v with | .str r => some r | _ => none)
    pure (.str r)
  | .list xs => do
    let r ← C13.assocList xs k.raw v
    match r with
    | some l => pure (.list l)
    | none => .panic "nil Vector from Assoc (excluded by C13_bounds_in_range)"
  | .map kvs => pure (.map (mapAssoc kvs k v))
  | .num _ => .exc "assoc-unsupported"
  | .nil => .exc "assoc-unsupported"

/-- `vals.Dissoc(a, k)`; `none` = Go `nil` (not supported). -/
def dissoc (c : Val) (k : Key) : Option Val :=
  match c with
  | .map kvs => some (.map (mapDissoc kvs k))
  | _ => none

/-! ### pkg/eval/vars/element.go -/

/-- `elemAssocers(v, indices)` on the variable's value: `$a, $a[i₁], …` — one
container per index; the last index is not looked up. -/
def assocers (c : Val) : List Key → Res (List Val)
  | [] => .panic "index out of range [0] with length 0"
  | [_] => pure [c]
  | k :: k2 :: rest => do
    let sub ← index c k
    let r ← assocers sub (k2 :: rest)
    pure (c :: r)

/-- The loop `for i := len(assocers)-1; i >= 0; i-- { v = Assoc(assocers[i], indices[i], v) }`
(the innermost `Assoc` runs first). -/
def assocUp : List Val → List Key → Val → Res Val
  | [], _, v => pure v
  | _ :: _, [], _ => .panic "index out of range"
  | c :: cs, k :: ks, v => do
    let inner ← assocUp cs ks v
    assoc c k inner

/-- `elem.Set(v)` up to `variable.Set`: the new value of the head variable,
computed from its CURRENT value `cur`. -/
def setElem (cur : Val) (idx : List Key) (v : Val) : Res Val := do
  let cs ← assocers cur idx
  assocUp cs idx v

/-- The walk of `DelElement`: the assocers (all but the last container), the
dissocer and the last index. -/
def delWalk (c : Val) : List Key → Res (List Val × Val × Key)
  | [] => .panic "makeslice: len out of range"
  | [k] => pure ([], c, k)
  | k :: k2 :: rest => do
    let sub ← index c k
    let (cs, d, last) ← delWalk sub (k2 :: rest)
    pure (c :: cs, d, last)

/-- Marker carried by the error of `elemErr{level = len(indices)}`. -/
def noRemoval : String := "no-removal"

/-- `DelElement(variable, indices)` up to `variable.Set`. -/
def delElem (cur : Val) (idx : List Key) : Res Val := do
  let (cs, d, last) ← delWalk cur idx
  match dissoc d last with
  | none => .exc noRemoval
  | some v => assocUp cs idx v

/-- `ElementErrorLevel(err)` for an error of `DelElement` on `n` indices. -/
def delErrLevel (msg : String) (n : Nat) : Int :=
  if msg = noRemoval then n else -1

/-- The position `ends[level]` (or `ends[0]` for level −1: `delElemOp.Range()`)
that `delElemOp.exec` reports, as an index into `ends` (length `n+1`); `none`
would be an index-out-of-range panic. -/
def delErrSite (msg : String) (n : Nat) : Option Nat :=
  let level := delErrLevel msg n
  if level < 0 then some 0
  else if level.toNat < n + 1 then some level.toNat else none

/-! ### store, lvalues, right-hand sides -/

abbrev Store := List (String × Val)

def Store.get (σ : Store) (x : String) : Option Val :=
  (σ.find? (fun e => e.1 == x)).map (·.2)

/-- `variable.Set(v)` (insert-or-update; variables are declared statically, so
the insert case is only reached for names outside the store). -/
def Store.set : Store → String → Val → Store
  | [], x, v => [(x, v)]
  | (y, w) :: rest, x, v => if y == x then (y, v) :: rest else (y, w) :: Store.set rest x v

/-- An lvalue `head[i₁]…[i_k]` (`k = 0`: the variable itself); `tag` names it
in error sites. -/
structure LV where
  tag : String
  head : String
  idx : List Key

/-- A right-hand-side expression: a literal value or `$x[i₁]…[i_k]`. -/
inductive Rhs where
  | lit (v : Val)
  | ref (x : String) (path : List Key)

inductive Fail where
  | exc (msg : String) (site : String)   -- elvish exception; `site` = where the error range points
  | panic (why : String)

def indexPath (c : Val) : List Key → Res Val
  | [] => pure c
  | k :: ks => do
    let sub ← index c k
    indexPath sub ks

def evalRhs (σ : Store) : Rhs → Res Val
  | .lit v => pure v
  | .ref x path =>
    match σ.get x with
    | none => .panic "undeclared variable (compilation error)"
    | some c => indexPath c path

def liftRes {α} (site : String) : Res α → Except Fail α
  | .ok a => .ok a
  | .exc e => .error (.exc e site)
  | .panic w => .error (.panic w)

/-- `derefLValue` for every lvalue, left to right: the index chain is
evaluated (and its error reported) BEFORE the right-hand side. -/
def derefAll (σ : Store) : List LV → Except Fail Unit
  | [] => pure ()
  | lv :: rest =>
    match σ.get lv.head with
    | none => .error (.panic "undeclared variable (compilation error)")
    | some c =>
      if lv.idx.isEmpty then derefAll σ rest
      else
        match liftRes lv.tag (assocers c lv.idx) with
        | .error f => .error f
        | .ok _ => derefAll σ rest

def evalAll (σ : Store) : List Rhs → Except Fail (List Val)
  | [] => pure []
  | r :: rest => do
    let v ← liftRes "rhs" (evalRhs σ r)
    let vs ← evalAll σ rest
    pure (v :: vs)

/-- Result of a statement. `defers`: the restore actions registered with the
enclosing function (`fm.addDefer`), in registration order. -/
structure R where
  store : Store
  outs : List Val
  defers : List (String × Val)
  err : Option Fail

/-- `set(fm, lvalue, variable, value, rc)` for each lvalue in turn; `temp`
= a restore collector is present (`tmp`, `with`).  `save` of an element saves
the WHOLE head variable.  Stops at the first error (earlier assignments and
their restores stay). -/
def setAll (temp : Bool) (σ : Store) (ds : List (String × Val)) :
    List (LV × Val) → Store × List (String × Val) × Option Fail
  | [] => (σ, ds, none)
  | (lv, v) :: rest =>
    match σ.get lv.head with
    | none => (σ, ds, some (.panic "undeclared variable (compilation error)"))
    | some cur =>
      match (if lv.idx.isEmpty then Res.ok v else setElem cur lv.idx v) with
      | .ok nv =>
        setAll temp (σ.set lv.head nv) (if temp then ds ++ [(lv.head, cur)] else ds) rest
      | .exc e => (σ, ds, some (.exc e lv.tag))
      | .panic w => (σ, ds, some (.panic w))

/-- `doAssign(fm, r, lhs, rhs, rc)` (no rest variables). -/
def doAssign (temp : Bool) (σ : Store) (lhs : List LV) (rhs : List Rhs) :
    Store × List (String × Val) × Option Fail :=
  match derefAll σ lhs with
  | .error f => (σ, [], some f)
  | .ok () =>
    match evalAll σ rhs with
    | .error f => (σ, [], some f)
    | .ok vs =>
      if lhs.length ≠ vs.length then (σ, [], some (.exc "arity" "form"))
      else setAll temp σ [] (lhs.zip vs)

/-- Run restore actions: last registered first. -/
def restore (ds : List (String × Val)) (σ : Store) : Store :=
  ds.foldr (fun d acc => acc.set d.1 d.2) σ

/-- The assignments of `with`, in order, all temporary. -/
def withAssigns (σ : Store) (ds : List (String × Val)) :
    List (List LV × List Rhs) → Store × List (String × Val) × Option Fail
  | [] => (σ, ds, none)
  | (lhs, rhs) :: rest =>
    match doAssign true σ lhs rhs with
    | (σ1, d1, none) => withAssigns σ1 (ds ++ d1) rest
    | (σ1, d1, some f) => (σ1, ds ++ d1, some f)

/-- Statements. -/
inductive Stmt where
  | assign (temp : Bool) (lhs : List LV) (rhs : List Rhs)   -- `set` / `tmp`
  | del (lv : LV)                                           -- `del a[i]…` (at least one index)
  | put (rs : List Rhs)                                     -- `put e₁ … e_n`
  | call (body : List Stmt)                                 -- `{ body }`
  | withS (assigns : List (List LV × List Rhs)) (body : List Stmt)  -- `with [l = r]… { body }`

/-- `delElemOp.exec`. -/
def execDel (σ : Store) (lv : LV) : R :=
  match σ.get lv.head with
  | none => ⟨σ, [], [], some (.panic "undeclared variable (compilation error)")⟩
  | some cur =>
    match delElem cur lv.idx with
    | .ok nv => ⟨σ.set lv.head nv, [], [], none⟩
    | .exc e =>
      match delErrSite e lv.idx.length with
      | some 0 => ⟨σ, [], [], some (.exc e (lv.tag ++ ".head"))⟩
      | some _ => ⟨σ, [], [], some (.exc e lv.tag)⟩
      | none => ⟨σ, [], [], some (.panic "index out of range (ends[level])")⟩
    | .panic w => ⟨σ, [], [], some (.panic w)⟩

mutual
/-- One statement, in a function whose pending restores the caller collects. -/
def exec (σ : Store) : Stmt → R
  | .assign temp lhs rhs =>
    match doAssign temp σ lhs rhs with
    | (σ1, ds, e) => ⟨σ1, [], ds, e⟩
  | .del lv => execDel σ lv
  | .put rs =>
    match evalAll σ rs with
    | .ok vs => ⟨σ, vs, [], none⟩
    | .error f => ⟨σ, [], [], some f⟩
  | .call body =>
    -- Closure.Call: run the body, then runDefers (also after an exception)
    let r := execList σ body
    ⟨restore r.defers r.store, r.outs, [], r.err⟩
  | .withS assigns body =>
    match withAssigns σ [] assigns with
    | (σ1, ds, some f) => ⟨restore ds σ1, [], [], some f⟩
    | (σ1, ds, none) =>
      let r := execList σ1 body
      ⟨restore ds (restore r.defers r.store), r.outs, [], r.err⟩
/-- A statement sequence: stops at the first exception. -/
def execList (σ : Store) : List Stmt → R
  | [] => ⟨σ, [], [], none⟩
  | s :: rest =>
    let r1 := exec σ s
    match r1.err with
    | some f => ⟨r1.store, r1.outs, r1.defers, some f⟩
    | none =>
      let r2 := execList r1.store rest
      ⟨r2.store, r1.outs ++ r2.outs, r1.defers ++ r2.defers, r2.err⟩
end

/-- `tmp` directly in a top-level chunk is a compilation error
("tmp may only be used inside a function"). -/
def topLevelOK : Stmt → Bool
  | .assign temp _ _ => !temp
  | _ => true

/-! ### the unfixed `elem.Set` (before fixes/C14-element-set-stale-containers.patch)

`MakeElement` cached the containers of the value the variable had when the
lvalue was evaluated, and `elem.Set` rebuilt the variable from that cache. -/

/-- unfixed `setAll`: every element lvalue carries the containers computed by
`derefLValue` (`cs = none`: a plain variable). -/
def setAllStale (σ : Store) : List (LV × Option (List Val) × Val) → Store × Option Fail
  | [] => (σ, none)
  | (lv, cs, v) :: rest =>
    match (match cs with | none => Res.ok v | some cs => assocUp cs lv.idx v) with
    | .ok nv => setAllStale (σ.set lv.head nv) rest
    | .exc e => (σ, some (.exc e lv.tag))
    | .panic w => (σ, some (.panic w))

def derefStale (σ : Store) : List LV → Except Fail (List (Option (List Val)))
  | [] => pure []
  | lv :: rest =>
    match σ.get lv.head with
    | none => .error (.panic "undeclared variable (compilation error)")
    | some c =>
      if lv.idx.isEmpty then do
        let r ← derefStale σ rest
        pure (none :: r)
      else do
        let cs ← liftRes lv.tag (assocers c lv.idx)
        let r ← derefStale σ rest
        pure (some cs :: r)

/-- unfixed `doAssign` for `set` (not temporary). -/
def doAssignStale (σ : Store) (lhs : List LV) (rhs : List Rhs) : Store × Option Fail :=
  match derefStale σ lhs with
  | .error f => (σ, some f)
  | .ok css =>
    match evalAll σ rhs with
    | .error f => (σ, some f)
    | .ok vs =>
      if lhs.length ≠ vs.length then (σ, some (.exc "arity" "form"))
      else setAllStale σ (lhs.zip (css.zip vs))

end C14
