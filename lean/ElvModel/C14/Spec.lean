/-
C14 specification vocabulary: the "nested assoc / dissoc of the old value" of
the property statement, by recursion on the index path (independent of the
two-pass shape of element.go), and the variables a statement may rebind.

  set a[i₁]…[i_k] = v   rebinds a to  assocIn a [i₁,…,i_k] v
      = assoc a i₁ (assoc a[i₁] i₂ (… (assoc a[i₁]…[i_{k-1}] i_k v)))
  del a[i₁]…[i_k]       rebinds a to  dissocIn a [i₁,…,i_k]
      = assoc a i₁ (… (dissoc a[i₁]…[i_{k-1}] i_k))
-/
import ElvModel.C14.Model
namespace C14
open Go

/-- Nested assoc along a path (`[]`: the value itself). -/
def assocIn (c : Val) : List Key → Val → Res Val
  | [], v => pure v
  | [k], v => assoc c k v
  | k :: k2 :: rest, v => do
    let sub ← index c k
    let sub' ← assocIn sub (k2 :: rest) v
    assoc c k sub'

/-- Nested dissoc along a non-empty path. -/
def dissocIn (c : Val) : List Key → Res Val
  | [] => .panic "makeslice: len out of range"
  | [k] =>
    match dissoc c k with
    | some v => pure v
    | none => .exc noRemoval
  | k :: k2 :: rest => do
    let sub ← index c k
    let sub' ← dissocIn sub (k2 :: rest)
    assoc c k sub'

mutual
/-- The variables a statement can rebind: the heads of its lvalues. -/
def headsS : Stmt → List String
  | .assign _ lhs _ => lhs.map (·.head)
  | .del lv => [lv.head]
  | .put _ => []
  | .call body => headsL body
  | .withS as body => as.flatMap (fun a => a.1.map (·.head)) ++ headsL body
def headsL : List Stmt → List String
  | [] => []
  | s :: rest => headsS s ++ headsL rest
end

end C14
