import ElvModel.C14.Driver
def main : IO Unit := C14.driver.main
