import ElvModel.Go.Driver
import ElvModel.C32.Accept
namespace C32
open Go

/-- Driver state: `none` = dead (an earlier entry of this run was rejected). -/
structure DState where
  cands : Option (List Cand)
  n : Nat

def parseEntry : List String → Option Entry
  | [lab, a, b] =>
    let na := a.toNat?
    let nb := b.toNat?
    let bool (n : Option Nat) : Option Bool := match n with | some 0 => some false | some 1 => some true | _ => none
    match lab with
    | "R1" => (bool na).map .R1
    | "R2" => (bool na).map .R2
    | "I1" => na.map .I1
    | "I2" => na.map .I2
    | "T1" => na.map .T1
    | "T2" => match na, bool nb with | some r, some ok => some (.T2 r ok) | _, _ => none
    | "X" => (bool na).map .X
    | "D1" => na.map .D1
    | "D2" => some .D2
    | "SI" => na.map .SI
    | "SR" => na.map .SR
    | "ST" => some .ST
    | "H1" => na.map .H1
    | "H2" => some .H2
    | "PR" => na.map .PR
    | "PR0" => some .PR0
    | "PI" => na.map .PI
    | "PI0" => some .PI0
    | "F1" => na.map .F1
    | "F2" => some .F2
    | "RET" => na.map .RET
    | _ => none
  | _ => none

def joinNat (l : List Nat) : String :=
  match l with
  | [] => "-"
  | _ => ",".intercalate (l.map toString)

/-- Flags of the redraw callbacks, oldest first (1 = full, 2 = final). -/
def drawFlags : List Obs → List Nat
  | [] => []
  | .drawStart b :: rest => drawFlags rest ++ [if b then flagFull else 0]
  | .finalStart :: rest => drawFlags rest ++ [flagFinal]
  | _ :: rest => drawFlags rest

def returnedOf : List Obs → Option Ret
  | [] => none
  | .returned r :: _ => some r
  | _ :: rest => returnedOf rest

def describe (c : Cand) : String :=
  s!"pc={repr c.s.pc} in={c.s.inputCh.length} tok={c.s.token} ret={repr c.s.returnCh} flag={c.s.flag} mu={repr c.s.mu} inflight={c.ops.length} ahead={repr c.ahead}"

/-- ops:
  `reset <capIn> <capRedraw> <capRet> <desc>`  → `ok` | `reject caps`
  `t <label> <a> <b>`                          → `ok` | `reject …`
  `o …` (harness-side observation, not a model step) → `ok`
  `end …`  → `end h=<handled> d=<redraw flags> r=<returned>` from the ghost log
  `hang …` → `reject hang` -/
def stepLine (st : DState) : List String → DState × String
  | "reset" :: ci :: cr :: ct :: _ =>
    if ci.toNat? = some inputCap ∧ cr.toNat? = some 1 ∧ ct.toNat? = some 1 then
      ({ cands := some [Cand.init], n := 0 }, "ok")
    else ({ cands := none, n := 0 }, "reject caps")
  | "t" :: rest =>
    match st.cands with
    | none => (st, "reject dead")
    | some cs =>
      match parseEntry rest with
      | none => ({ st with cands := none }, "reject bad-entry")
      | some e =>
        match accept cs e with
        | [] =>
          let why := match closeAll cs with
            | c :: more => s!"{describe c} (+{more.length} more)"
            | [] => "no candidate"
          ({ st with cands := none }, s!"reject entry#{st.n} not enabled; candidates: {why}")
        | cs' => ({ cands := some cs', n := st.n + 1 }, "ok")
  | "o" :: _ => (st, "ok")
  | "end" :: _ =>
    match st.cands with
    | some (c :: _) =>
      if c.ops.isEmpty then
        let r := match returnedOf c.s.log with | some r => toString r | none => "-"
        (st, s!"end h={joinNat (handled c.s.log)} d={joinNat (drawFlags c.s.log)} r={r}")
      else (st, "reject end with calls in flight")
    | _ => (st, "reject dead")
  | "hang" :: _ => ({ st with cands := none }, "reject hang")
  | _ => (st, "bad-op")

def driver : Driver := { σ := DState, init := { cands := none, n := 0 }, step := stepLine }
end C32
