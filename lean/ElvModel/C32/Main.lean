import ElvModel.C32.Driver
def main : IO Unit := C32.driver.main
