/-
C32 — protocol model of the editor event loop, pkg/cli/loop.go.

A labelled transition system.  The loop goroutine (`loop.Run`) is a
program-counter machine; the environment (any number of other goroutines, and
the callbacks themselves) performs `Redraw`, `Input` and `Return` calls, split
at the granularity at which their effects are visible to other goroutines:

  Redraw(full):  r1  = Lock redrawMutex; if full { redrawFull = true }
                 r2  = non-blocking send of the token into redrawCh; Unlock
  Input(ev):     inp = lp.inputCh <- ev          (enabled iff the buffer is not full)
  Return(r):     ret = non-blocking send into returnCh (capacity 1)

  Run:  top      --extract b-->  draw b     extractRedrawFull (needs the mutex)
        draw b   --drawStart-->  drawing    lp.redrawCb(flag) begins
        drawing  --drawEnd-->    sel        … returns; at the outer `select`
        sel      --selIn e-->    handle e   case event := <-lp.inputCh
        sel      --selRet r-->   final r    case ret := <-lp.returnCh
        sel      --selTok-->     top        case <-lp.redrawCh
        handle e --hStart-->     handling   lp.handleCb(event) begins
        handling --hEnd-->       pollRet    … returns; select{returnCh / default}
        pollRet  --pollRet r?--> final r | pollIn
        pollIn   --pollIn e?-->  handle e | top       (default: break consumeAllEvents)
        final r  --fStart-->     finalDrawing r       lp.redrawCb(finalRedraw) begins
        finalDrawing r --fEnd--> finalDone r
        finalDone r --retn r-->  done r               return ret.buffer, ret.err

Nondeterminism is the choice of the label: every interleaving of loop and
environment steps, and every choice among several ready `select` cases, is a
path.  `step` is executable: the driver replays recorded traces of the real
code through it (Accept.lean).

Ghost state: `log`, the ordered record (newest first) of requests, handled
events, redraws and the return.  It does not influence any step.
-/
import ElvModel.Generated.C32Consts
namespace C32

abbrev Ev := Nat
abbrev Ret := Nat

/-- Capacity of `inputCh`, regenerated from the Go source. `redrawCh` and
`returnCh` have capacity 1 (the literal in `newLoop`; the harness checks `cap`
of the real channels on every run) and are modelled as `Bool` / `Option`. -/
def inputCap : Nat := Gen.C32Consts.inputChSize

inductive Pc
  | top
  | draw (full : Bool)
  | drawing
  | sel
  | handle (e : Ev)
  | handling
  | pollRet
  | pollIn
  | final (r : Ret)
  | finalDrawing (r : Ret)
  | finalDone (r : Ret)
  | done (r : Ret)
  deriving DecidableEq, Repr

/-- Ghost observations. -/
inductive Obs
  | req (full : Bool)        -- a `Redraw(full)` call completed its token step
  | sent (e : Ev)            -- `Input(e)` committed into `inputCh`
  | retCommit (r : Ret)      -- `Return(r)` was accepted by `returnCh`
  | retDrop (r : Ret)        -- `Return(r)` found `returnCh` full and had no effect
  | extract (full : Bool)    -- `extractRedrawFull` returned `full`
  | drawStart (full : Bool)  -- ordinary `redrawCb(flag)` begins, fullRedraw bit = full
  | drawEnd
  | handleStart (e : Ev)
  | handleEnd
  | finalStart               -- `redrawCb(finalRedraw)` begins
  | finalEnd
  | returned (r : Ret)
  deriving DecidableEq, Repr

structure State where
  pc : Pc
  inputCh : List Ev
  token : Bool
  returnCh : Option Ret
  flag : Bool
  /-- `redrawMutex`: `none` = free, `some full` = held by a `Redraw(full)` call
  that has done `r1` and not yet `r2`.  (The loop's own critical section,
  `extractRedrawFull`, is a single step.) -/
  mu : Option Bool
  log : List Obs
  deriving DecidableEq, Repr

def init : State :=
  { pc := .top, inputCh := [], token := false, returnCh := none, flag := false, mu := none, log := [] }

inductive Label
  | r1 (full : Bool)
  | r2 (sent : Bool)
  | inp (e : Ev)
  | ret (r : Ret) (ok : Bool)
  | extract (b : Bool)
  | drawStart
  | drawEnd
  | selIn (e : Ev)
  | selRet (r : Ret)
  | selTok
  | hStart
  | hEnd
  | pollRet (r : Option Ret)
  | pollIn (e : Option Ev)
  | fStart
  | fEnd
  | retn (r : Ret)
  deriving DecidableEq, Repr

/-- Is the label a step of the loop goroutine (as opposed to the environment)? -/
def Label.isLoop : Label → Bool
  | .r1 _ | .r2 _ | .inp _ | .ret _ _ => false
  | _ => true

/-- One atomic step. `none` = the label is not enabled in this state. -/
def step (s : State) : Label → Option State
  | .r1 full =>
    match s.mu with
    | none => some { s with mu := some full, flag := s.flag || full }
    | some _ => none
  | .r2 sent =>
    match s.mu with
    | some full =>
      if sent = !s.token then some { s with mu := none, token := true, log := .req full :: s.log } else none
    | none => none
  | .inp e =>
    if s.inputCh.length < inputCap then
      some { s with inputCh := s.inputCh ++ [e], log := .sent e :: s.log }
    else none
  | .ret r ok =>
    match s.returnCh with
    | none => if ok = true then some { s with returnCh := some r, log := .retCommit r :: s.log } else none
    | some _ => if ok = false then some { s with log := .retDrop r :: s.log } else none
  | .extract b =>
    match s.pc, s.mu with
    | .top, none => if b = s.flag then some { s with pc := .draw b, flag := false, log := .extract b :: s.log } else none
    | _, _ => none
  | .drawStart =>
    match s.pc with
    | .draw b => some { s with pc := .drawing, log := .drawStart b :: s.log }
    | _ => none
  | .drawEnd =>
    match s.pc with
    | .drawing => some { s with pc := .sel, log := .drawEnd :: s.log }
    | _ => none
  | .selIn e =>
    match s.pc, s.inputCh with
    | .sel, e' :: rest => if e = e' then some { s with pc := .handle e, inputCh := rest } else none
    | _, _ => none
  | .selRet r =>
    match s.pc, s.returnCh with
    | .sel, some r' => if r = r' then some { s with pc := .final r, returnCh := none } else none
    | _, _ => none
  | .selTok =>
    match s.pc, s.token with
    | .sel, true => some { s with pc := .top, token := false }
    | _, _ => none
  | .hStart =>
    match s.pc with
    | .handle e => some { s with pc := .handling, log := .handleStart e :: s.log }
    | _ => none
  | .hEnd =>
    match s.pc with
    | .handling => some { s with pc := .pollRet, log := .handleEnd :: s.log }
    | _ => none
  | .pollRet r? =>
    match s.pc, s.returnCh, r? with
    | .pollRet, some r', some r => if r = r' then some { s with pc := .final r, returnCh := none } else none
    | .pollRet, none, none => some { s with pc := .pollIn }
    | _, _, _ => none
  | .pollIn e? =>
    match s.pc, s.inputCh, e? with
    | .pollIn, e' :: rest, some e => if e = e' then some { s with pc := .handle e, inputCh := rest } else none
    | .pollIn, [], none => some { s with pc := .top }
    | _, _, _ => none
  | .fStart =>
    match s.pc with
    | .final r => some { s with pc := .finalDrawing r, log := .finalStart :: s.log }
    | _ => none
  | .fEnd =>
    match s.pc with
    | .finalDrawing r => some { s with pc := .finalDone r, log := .finalEnd :: s.log }
    | _ => none
  | .retn r =>
    match s.pc with
    | .finalDone r' => if r = r' then some { s with pc := .done r, log := .returned r :: s.log } else none
    | _ => none

/-- States reachable from a fresh loop (`newLoop()` followed by `Run`) under
every interleaving. -/
inductive Reachable : State → Prop
  | init : Reachable init
  | step {s s' : State} {l : Label} : Reachable s → step s l = some s' → Reachable s'

/-! ### Readings of the ghost log (lists in chronological order) -/

/-- Events whose handler has started, oldest first. -/
def handled : List Obs → List Ev
  | [] => []
  | .handleStart e :: rest => handled rest ++ [e]
  | _ :: rest => handled rest

/-- Events accepted by `inputCh`, oldest first (the arrival order). -/
def arrived : List Obs → List Ev
  | [] => []
  | .sent e :: rest => arrived rest ++ [e]
  | _ :: rest => arrived rest

/-- Results accepted by `returnCh`, oldest first. -/
def commits : List Obs → List Ret
  | [] => []
  | .retCommit r :: rest => commits rest ++ [r]
  | _ :: rest => commits rest

/-- A redraw request has been issued since the last extraction of the flag. -/
def pending : List Obs → Bool
  | [] => false
  | .req _ :: _ => true
  | .extract _ :: _ => false
  | _ :: rest => pending rest

/-- A *full* redraw request has been issued since the last extraction. -/
def pendingFull : List Obs → Bool
  | [] => false
  | .req full :: rest => full || pendingFull rest
  | .extract _ :: _ => false
  | _ :: rest => pendingFull rest

/-- The flag extracted for the next ordinary redraw, if the loop has extracted
one and not yet started the redraw. -/
def lastExtract : List Obs → Option Bool
  | [] => none
  | .extract b :: _ => some b
  | .drawStart _ :: _ => none
  | _ :: rest => lastExtract rest

/-- Callback begin/end observations, newest first. -/
def callbacks : List Obs → List Obs
  | [] => []
  | .drawStart b :: rest => .drawStart b :: callbacks rest
  | .drawEnd :: rest => .drawEnd :: callbacks rest
  | .handleStart e :: rest => .handleStart e :: callbacks rest
  | .handleEnd :: rest => .handleEnd :: callbacks rest
  | .finalStart :: rest => .finalStart :: callbacks rest
  | .finalEnd :: rest => .finalEnd :: callbacks rest
  | _ :: rest => callbacks rest

/-- Number of final redraws started. -/
def finals : List Obs → Nat
  | [] => 0
  | .finalStart :: rest => finals rest + 1
  | _ :: rest => finals rest

end C32
