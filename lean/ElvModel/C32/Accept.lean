/-
C32 — trace acceptor: does a trace recorded from the instrumented Go loop
correspond to an execution of the model (`step`)?

The hook (hooks/C32-loop-trace.patch) appends entries to one lock-protected
log.  An entry is *exact* when it is written while the same mutex is held that
orders the operation (`R1`, `X`: both inside `redrawMutex`), or when the step
only touches the loop goroutine's own control state (`D1 D2 H1 H2 F1 F2 RET`).
Channel operations cannot be logged atomically with their commit point:

  * `I1 e … I2 e`, `T1 r … T2 r ok`, `R1 full … R2 sent` bracket an
    environment call; its channel operation commits somewhere between the two
    entries, and the second entry carries the observed outcome;
  * `SI e | SR r | ST`, `PR r | PR0`, `PI e | PI0` are written by the loop just
    after its `select` committed, i.e. somewhere between the loop's previous
    entry and this one.

The acceptor is tolerant in exactly that respect and in no other: it tracks
the set of model states that are reachable by the exact steps in log order
plus the not-yet-confirmed channel steps placed anywhere inside their windows
(a subset construction), and rejects when the set becomes empty.  Every
candidate is obtained by `step` only, hence is a `Reachable` state of the
model (proved in ElvProofs: `C32_acceptor_sound`).
-/
import ElvModel.C32.Model
namespace C32

/-- Environment channel operations whose commit point is inside a window. -/
inductive EnvOp
  | r2
  | inp (e : Ev)
  | ret (r : Ret)
  deriving DecidableEq, Repr

/-- A candidate: a model state plus what is known about operations in flight. -/
structure Cand where
  s : State
  /-- Environment operations begun (first entry seen) and not yet ended, in
  begin order; `none` = not yet committed, `some o` = committed with outcome `o`. -/
  ops : List (EnvOp × Option Bool)
  /-- A channel step of the loop that is committed but whose entry is not yet seen. -/
  ahead : Option Label
  deriving Repr

def Cand.init : Cand := { s := C32.init, ops := [], ahead := none }

/-- Same candidate up to the ghost log. -/
def Cand.same (a b : Cand) : Bool :=
  decide ({ a.s with log := [] } = { b.s with log := [] }) && decide (a.ops = b.ops) && decide (a.ahead = b.ahead)

/-- The channel-step labels the loop could take next. -/
def chanLabels (s : State) : List Label :=
  match s.pc with
  | .sel =>
    (match s.inputCh with | e :: _ => [Label.selIn e] | [] => []) ++
    (match s.returnCh with | some r => [Label.selRet r] | none => []) ++
    (if s.token then [Label.selTok] else [])
  | .pollRet => [Label.pollRet s.returnCh]
  | .pollIn => [Label.pollIn (match s.inputCh with | e :: _ => some e | [] => none)]
  | _ => []

/-- The label with which an in-flight environment operation commits now,
together with its outcome. -/
def envLabel (s : State) : EnvOp → Label × Bool
  | .r2 => (.r2 (!s.token), !s.token)
  | .inp e => (.inp e, true)
  | .ret r => (.ret r s.returnCh.isNone, s.returnCh.isNone)

def commitAt (c : Cand) : List (EnvOp × Option Bool) → List (EnvOp × Option Bool) → List Cand
  | _, [] => []
  | pre, (op, none) :: post =>
    let (l, o) := envLabel c.s op
    (match step c.s l with
     | some s' => [{ c with s := s', ops := pre ++ (op, some o) :: post }]
     | none => []) ++ commitAt c (pre ++ [(op, none)]) post
  | pre, x :: post => commitAt c (pre ++ [x]) post

/-- All candidates one silent commit away. -/
def Cand.succs (c : Cand) : List Cand :=
  commitAt c [] c.ops ++
  (match c.ahead with
   | some _ => []
   | none => (chanLabels c.s).filterMap fun l =>
      match step c.s l with
      | some s' => some { c with s := s', ahead := some l }
      | none => none)

def insertNew (acc : List Cand) (c : Cand) : List Cand × Bool :=
  if acc.any (·.same c) then (acc, false) else (c :: acc, true)

/-- Closure under silent commits (fuel = number of rounds; every path has at
most `ops.length + 1` silent steps). -/
def closure : Nat → List Cand → List Cand → List Cand
  | 0, _, acc => acc
  | fuel + 1, frontier, acc =>
    let (acc', next) := frontier.foldl (fun (st : List Cand × List Cand) c =>
      c.succs.foldl (fun (st : List Cand × List Cand) c' =>
        let (a, fresh) := insertNew st.1 c'
        if fresh then (a, c' :: st.2) else (a, st.2)) st) (acc, [])
    match next with
    | [] => acc'
    | _ => closure fuel next acc'

def closeAll (cs : List Cand) : List Cand :=
  let fuel := (cs.foldl (fun n c => max n c.ops.length) 0) + 2
  closure fuel cs cs

/-- Trace entries (see the hook for where each is written). -/
inductive Entry
  | R1 (full : Bool) | R2 (sent : Bool)
  | I1 (e : Ev) | I2 (e : Ev)
  | T1 (r : Ret) | T2 (r : Ret) (ok : Bool)
  | X (b : Bool)
  | D1 (flag : Nat) | D2
  | SI (e : Ev) | SR (r : Ret) | ST
  | H1 (e : Ev) | H2
  | PR (r : Ret) | PR0
  | PI (e : Ev) | PI0
  | F1 (flag : Nat) | F2
  | RET (r : Ret)
  deriving Repr

/-- Bit values of `redrawFlag` (pkg/cli/loop.go: `fullRedraw = 1 << iota`, `finalRedraw`). -/
def flagFull : Nat := 1
def flagFinal : Nat := 2

/-- An exact step: the loop has no unconfirmed channel step and `l` is enabled. -/
def exact (c : Cand) (l : Label) : Option Cand :=
  match c.ahead with
  | some _ => none
  | none => (step c.s l).map fun s' => { c with s := s' }

/-- End of an environment call: it must have committed with the logged outcome. -/
def endOp (c : Cand) (op : EnvOp) (o : Bool) : Option Cand :=
  if c.ops.any (fun x => decide (x = (op, some o))) then
    some { c with ops := c.ops.filter fun x => !decide (x.1 = op) }
  else none

/-- A loop channel entry: the step must have committed with that label. -/
def confirm (c : Cand) (l : Label) : Option Cand :=
  if c.ahead = some l then some { c with ahead := none } else none

def applyEntry (c : Cand) : Entry → Option Cand
  | .R1 full =>
    -- exact with respect to the mutex; the loop may be ahead (it does not hold the mutex)
    (step c.s (.r1 full)).map fun s' => { c with s := s', ops := c.ops ++ [(.r2, none)] }
  | .R2 sent => endOp c .r2 sent
  | .I1 e => if c.ops.any (fun x => decide (x.1 = .inp e)) then none else some { c with ops := c.ops ++ [(.inp e, none)] }
  | .I2 e => endOp c (.inp e) true
  | .T1 r => if c.ops.any (fun x => decide (x.1 = .ret r)) then none else some { c with ops := c.ops ++ [(.ret r, none)] }
  | .T2 r ok => endOp c (.ret r) ok
  | .X b => exact c (.extract b)
  | .D1 flag =>
    match c.s.pc with
    | .draw b => if flag = (if b then flagFull else 0) then exact c .drawStart else none
    | _ => none
  | .D2 => exact c .drawEnd
  | .SI e => confirm c (.selIn e)
  | .SR r => confirm c (.selRet r)
  | .ST => confirm c .selTok
  | .H1 e =>
    match c.s.pc with
    | .handle e' => if e = e' then exact c .hStart else none
    | _ => none
  | .H2 => exact c .hEnd
  | .PR r => confirm c (.pollRet (some r))
  | .PR0 => confirm c (.pollRet none)
  | .PI e => confirm c (.pollIn (some e))
  | .PI0 => confirm c (.pollIn none)
  | .F1 flag => if flag = flagFinal then exact c .fStart else none
  | .F2 => exact c .fEnd
  | .RET r => exact c (.retn r)

/-- Process one entry: close under silent commits, then apply. Empty = reject. -/
def accept (cs : List Cand) (e : Entry) : List Cand :=
  (closeAll cs).foldl (fun acc c =>
    match applyEntry c e with
    | some c' => (insertNew acc c').1
    | none => acc) []

end C32
