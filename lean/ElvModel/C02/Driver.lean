import ElvModel.Go.Driver
import ElvModel.C01.Driver
import ElvModel.C02.Model
namespace C02
open Go
open C01

def errsCol (errs : List PErr) : String := String.join (errs.map fun e => " " ++ dumpErr e)

def enterCol : Enter → String
  | .newline b => s!"NL {hexEnc b.content} {b.dot}"
  | .commit => "COMMIT"
  | .panic _ => "PANIC"
  | .fuel => "FUEL"

/-- ops
* `full <hex src> <printable>` → `OK V<0|1> E <errors…>` (V: no parse error)
* `pfx <hex src> <k> <printable>` → `OK E <errors of src[:k]…> C<isSyntaxComplete> <smart-enter on {src[:k], dot = k}>`
* `enter <hex code> <dot> <printable>` → `NL <hex content> <dot>` | `COMMIT` | `PANIC`
-/
def stepLine : List String → String
  | ["full", hsrc, sprint] =>
    match hexDecode hsrc, parseIntList sprint with
    | some src, some printable =>
      match parseErrors (fun r => printable.contains r) src with
      | .ok errs => s!"OK V{b2s errs.isEmpty} E" ++ errsCol errs
      | .panic _ => "PANIC"
      | .fuel => "FUEL"
    | _, _ => "bad-op"
  | ["pfx", hsrc, sk, sprint] =>
    match hexDecode hsrc, sk.toNat?, parseIntList sprint with
    | some src, some k, some printable =>
      let isPrint : Int → Bool := fun r => printable.contains r
      let p := pfx src k
      match parseErrors isPrint p, isSyntaxComplete isPrint p with
      | .ok errs, .ok c =>
        "OK E" ++ errsCol errs ++ s!" C{b2s c} " ++ enterCol (smartEnter isPrint { content := p, dot := p.length })
      | .panic _, _ => "PANIC"
      | _, .panic _ => "PANIC"
      | _, _ => "FUEL"
    | _, _, _ => "bad-op"
  | ["enter", hcode, sdot, sprint] =>
    match hexDecode hcode, sdot.toInt?, parseIntList sprint with
    | some code, some dot, some printable =>
      enterCol (smartEnter (fun r => printable.contains r) { content := code, dot := dot })
    | _, _, _ => "bad-op"
  | _ => "bad-op"

def driver : Driver := Driver.pure stepLine
end C02
