import ElvModel.C02.Driver
def main : IO Unit := C02.driver.main
