/-
C02 model: the partial-error criterion on both sides of the REPL.

* The parser side is C01's model (`C01.parse`, imported, not copied):
  `(*parser).errorp` sets `Partial: r.Range().From == len(ps.src)` — that is the
  `partial_` field `C01.errorp` records.
* The editor side is `pkg/edit/builtins.go`: `isSyntaxComplete` re-parses the
  code and looks for an error whose *context starts at `len(code)`* (it does not
  read the `Partial` flag), and `smartEnter` inserts `"\n"` at the dot iff the
  code is not complete, otherwise submits the code (`App.CommitCode`).
* `tk.CodeBuffer.InsertAtDot` slices the content at the dot; both slices are
  explicit partial operations.
-/
import ElvModel.C01.Model
namespace C02
open Go
open C01

/-- Outcome of running the parser from the editor: the error list, or the
abnormal outcomes of the parser model (never taken: `C01_no_panic`,
`C01_terminates`). -/
inductive PRes (α : Type) where
  | ok (a : α)
  | panic (why : String)
  | fuel
  deriving Repr, DecidableEq

/-- `parse.UnpackErrors(err)` for `_, err := parse.Parse(Source{Code: code}, Config{})`. -/
def parseErrors (isPrint : Int → Bool) (code : Bytes) : PRes (List PErr) :=
  match parse isPrint code with
  | .ok _ errs => .ok errs
  | .panic w => .panic w
  | .fuel => .fuel

/-- The loop of `isSyntaxComplete`: `for _, e := range errs { if e.Context.From
== len(code) { return false } }; return true`. -/
def noErrorAtEnd (n : Nat) : List PErr → Bool
  | [] => true
  | e :: rest => if e.frm == n then false else noErrorAtEnd n rest

/-- `edit.isSyntaxComplete(code)` -/
def isSyntaxComplete (isPrint : Int → Bool) (code : Bytes) : PRes Bool :=
  match parseErrors isPrint code with
  | .ok errs => .ok (noErrorAtEnd code.length errs)
  | .panic w => .panic w
  | .fuel => .fuel

/-- `tk.CodeBuffer` -/
structure CodeBuffer where
  content : Bytes
  dot : Int
  deriving Repr, DecidableEq

/-- `(*CodeBuffer).InsertAtDot(text)`:
`Content: c.Content[:c.Dot] + text + c.Content[c.Dot:], Dot: c.Dot + len(text)`. -/
def insertAtDot (c : CodeBuffer) (text : Bytes) : Res CodeBuffer :=
  match slice c.content 0 c.dot, slice c.content c.dot c.content.length with
  | .ok a, .ok b => .ok { content := a ++ text ++ b, dot := c.dot + text.length }
  | .panic w, _ => .panic w
  | _, .panic w => .panic w
  | .exc w, _ => .panic w
  | _, .exc w => .panic w

/-- What `smartEnter` did. -/
inductive Enter where
  /-- `buf.InsertAtDot("\n")`; the buffer afterwards. -/
  | newline (buf : CodeBuffer)
  /-- `ed.applyAutofix(); ed.app.CommitCode()` — the code is submitted. -/
  | commit
  | panic (why : String)
  | fuel
  deriving Repr, DecidableEq

/-- `smartEnter(ed)` on a focused code area holding `buf`. -/
def smartEnter (isPrint : Int → Bool) (buf : CodeBuffer) : Enter :=
  match isSyntaxComplete isPrint buf.content with
  | .ok false =>
    match insertAtDot buf [10] with
    | .ok b => .newline b
    | .exc w => .panic w
    | .panic w => .panic w
  | .ok true => .commit
  | .panic w => .panic w
  | .fuel => .fuel

/-- `code[:k]` for the prefixes the property quantifies over (`0 ≤ k ≤ len`). -/
def pfx (code : Bytes) (k : Nat) : Bytes := code.take k

end C02
