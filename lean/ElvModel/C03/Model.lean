/-
C03 model: `pkg/parse/quote.go` — `Quote`, `QuoteAs`, `quoteAs`,
`QuoteCommandName`, `QuoteVariableName`, `quoteSingle`, `quoteDouble`,
`rtohex` — over byte strings, with Go's `for _, r := range s` semantics
(`Go.runes`: invalid bytes decode to U+FFFD of width 1), plus the literal
fragment of `pkg/eval/compile_value.go` (`compoundOp`/`indexingOp`/`primaryOp`
on a string literal) as `evalLit` over the C01 parse tree.

* The parser is NOT copied: `ElvModel.C01.Model` is imported; the parse entry
  point used by the theorems and by the driver is `C01.parseAs`.
* `unicode.IsPrint` is a parameter (`isPrint : Int → Bool`, the type the C01
  character classes use).
* `doubleUnescape` is derived from the generated `doubleEscape` table the way
  the Go `init()` does it (`doubleUnescape[v] = k` for every pair).
* Partial operations (`s[0]`, `s[w:]`) are explicit; the only loop that is not
  a `range` loop (`for s != ""` in `quoteDouble`) runs on fuel; outcomes are
  `QRes.ok | panic | fuel`.
-/
import ElvModel.Go.Utf8
import ElvModel.C01.Model
namespace C03
open Go
open Gen.C01Chars

/-! ## Outcomes -/

inductive QRes (α : Type) where
  | ok (a : α)
  | panic (why : String)
  | fuel
  deriving Repr, DecidableEq, Inhabited

def QRes.map {α β} (f : α → β) : QRes α → QRes β
  | .ok a => .ok (f a)
  | .panic w => .panic w
  | .fuel => .fuel

/-! ## `doubleUnescape` -/

/-- `m[k] = v` on a Go map kept as an association list. -/
def mapSet (m : List (Int × Int)) (k v : Int) : List (Int × Int) :=
  if (m.lookup k).isSome then m.map (fun p => if p.1 == k then (k, v) else p) else m ++ [(k, v)]

/-- `init()`: `for k, v := range doubleEscape { doubleUnescape[v] = k }`.
The values of `doubleEscape` are pairwise distinct (checked below, on the
generated table), so Go's unspecified map iteration order does not matter. -/
def doubleUnescape : List (Int × Int) :=
  doubleEscape.foldl (fun m kv => mapSet m kv.2 kv.1) []

/-- the values of the generated table are pairwise distinct, and so are its keys -/
example : (doubleEscape.map (·.2)).Nodup ∧ (doubleEscape.map (·.1)).Nodup := by decide

/-! ## `rtohex` -/

/-- one hex digit of `rtohex`: `'0' + d` or `'a' + d - 10` -/
def hexDigitByte (d : Nat) : UInt8 :=
  if d ≤ 9 then UInt8.ofNat (48 + d) else UInt8.ofNat (97 + d - 10)

/-- `rtohex(r, w)` for a non-negative rune: the last byte is the digit
`r % 16`, the bytes before it are `rtohex(r / 16, w - 1)`. (Callers pass a
decoded rune or a byte, never a negative value.) -/
def rtohex (r : Nat) : Nat → Bytes
  | 0 => []
  | w + 1 => rtohex (r / 16) w ++ [hexDigitByte (r % 16)]

/-! ## `quoteSingle` -/

/-- body of the `range` loop of `quoteSingle`: `buf.WriteRune(r)`, and a second
quote after a quote. -/
def sqPiece (r : Rune) : Bytes :=
  encodeRune r ++ (if r == 39 then [39] else [])

def quoteSingle (s : Bytes) : Bytes :=
  [39] ++ (runes s).flatMap (fun x => sqPiece x.2.1) ++ [39]

/-! ## `quoteDouble` -/

/-- what one iteration of the loop of `quoteDouble` appends; `b0 = s[0]`,
`(r, w) = utf8.DecodeRuneInString(s)`. -/
def dqPiece (isPrint : Int → Bool) (b0 : UInt8) (r : Rune) (w : Nat) : Bytes :=
  if r == RuneError && w == 1 then
    [92, 120] ++ rtohex b0.toNat 2
  else
    match doubleUnescape.lookup (r : Int) with
    | some e => [92] ++ C01.writeRune e
    | none =>
      if isPrint (r : Int) && r != RuneError then encodeRune r
      else if r ≤ 0x7f then [92, 120] ++ rtohex r 2
      else if r ≤ 0xffff then [92, 117] ++ rtohex r 4
      else [92, 85] ++ rtohex r 8

/-- the loop `for s != "" { …; s = s[w:] }` of `quoteDouble`. -/
def quoteDoubleLoop (isPrint : Int → Bool) : Nat → Bytes → Bytes → QRes Bytes
  | _, [], buf => .ok buf
  | 0, _ :: _, _ => .fuel
  | fuel + 1, b0 :: t, buf =>
    let s := b0 :: t
    let rw := decodeRune s
    if rw.2 ≤ s.length then
      quoteDoubleLoop isPrint fuel (s.drop rw.2) (buf ++ dqPiece isPrint b0 rw.1 rw.2)
    else .panic "slice bounds out of range"

def quoteDouble (isPrint : Int → Bool) (s : Bytes) : QRes Bytes :=
  (quoteDoubleLoop isPrint (s.length + 1) s [34]).map (· ++ [34])

/-! ## `quoteAs`, `Quote`, `QuoteCommandName`, `QuoteVariableName` -/

/-- the `range` loop shared by `quoteAs` and `QuoteVariableName`: `none` is the
early `return quoteDouble(s)`, `some bare` the value of `bare` after the loop. -/
def scanLoop (isPrint : Int → Bool) (allowed : Int → Bool) :
    List (Nat × Rune × Nat) → Bool → Option Bool
  | [], bare => some bare
  | x :: rest, bare =>
    if x.2.1 == RuneError || !isPrint (x.2.1 : Int) then none
    else scanLoop isPrint allowed rest (if !allowed (x.2.1 : Int) then false else bare)

/-- `quoteAs(s, q, ctx)`: the text and the quoting actually used. -/
def quoteAs (isPrint : Int → Bool) (s : Bytes) (q : Int) (ctx : Int) : QRes (Bytes × Int) :=
  if q == DoubleQuoted then (quoteDouble isPrint s).map (·, DoubleQuoted)
  else
    match s with
    | [] => .ok ([39, 39], SingleQuoted)
    | b0 :: _ =>
      match scanLoop isPrint (fun r => allowedInBareword isPrint r ctx) (runes s) (b0 != 126) with
      | none => (quoteDouble isPrint s).map (·, DoubleQuoted)
      | some bare =>
        if q == Bareword && bare then .ok (s, Bareword)
        else .ok (quoteSingle s, SingleQuoted)

/-- `QuoteAs(s, q)` -/
def QuoteAs (isPrint : Int → Bool) (s : Bytes) (q : Int) : QRes (Bytes × Int) :=
  quoteAs isPrint s q strictExpr

/-- `Quote(s)` -/
def Quote (isPrint : Int → Bool) (s : Bytes) : QRes Bytes :=
  (QuoteAs isPrint s Bareword).map (·.1)

/-- `QuoteCommandName(s)` -/
def QuoteCommandName (isPrint : Int → Bool) (s : Bytes) : QRes Bytes :=
  (quoteAs isPrint s Bareword CmdExpr).map (·.1)

/-- `QuoteVariableName(s)` -/
def QuoteVariableName (isPrint : Int → Bool) (s : Bytes) : QRes Bytes :=
  match s with
  | [] => .ok [39, 39]
  | _ :: _ =>
    match scanLoop isPrint (allowedInVariableName isPrint) (runes s) true with
    | none => quoteDouble isPrint s
    | some bare => if bare then .ok s else .ok (quoteSingle s)

/-! ## Evaluation of a literal word (`pkg/eval/compile_value.go`) -/

/-- `primaryOp` restricted to string literals: `literalValues(n, n.Value)`;
`none` = the node is outside the literal fragment modelled here. -/
def primaryLit (n : C01.Node) : Option Bytes :=
  if n.kind == .primary &&
      (n.ptype == Bareword || n.ptype == SingleQuoted || n.ptype == DoubleQuoted) then
    some n.value
  else none

/-- `indexingOp`: with no indices it is `primaryOp(n.Head)`. -/
def indexingLit (n : C01.Node) : Option Bytes :=
  match n.childrenOf .primary, n.childrenOf .array with
  | [h], [] => primaryLit h
  | _, _ => none

/-- `compoundOp` + `compoundOp.exec` on a compound made of literals: no
indexings gives the empty string; one non-tilde indexing gives its value
(a compound of several indexings, a tilde, wildcards, variables and captures
are outside this fragment).  The result is the single value the form
receives (`[]any{s}`); for a command head it is also what
`cmpd.StringLiteral(n.Head)` returns. -/
def evalLit (n : C01.Node) : Option Bytes :=
  if n.kind != .compound then none
  else
    match n.childrenOf .indexing with
    | [] => some []
    | [i] =>
      match i.childrenOf .primary with
      | [h] => if h.ptype == Tilde then none else indexingLit i
      | _ => none
    | _ => none

/-- `SplitSigil`-free reading of a `Variable` primary: its name. -/
def variableName (n : C01.Node) : Option Bytes :=
  if n.kind == .primary && n.ptype == Variable then some n.value else none

end C03
