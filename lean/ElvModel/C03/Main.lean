import ElvModel.C03.Driver
def main : IO Unit := C03.driver.main
