import ElvModel.Go.Driver
import ElvModel.C01.Driver
import ElvModel.C03.Model
namespace C03
open Go
open Gen.C01Chars

/-- one parse section: `OK <tree> E <errors>` as the C01 driver prints it. -/
def dumpParse (isPrint : Int → Bool) (nt : C01.NT) (src : Bytes) : String × Option C01.Node :=
  match C01.parseAs isPrint nt src with
  | .ok t errs =>
    ("OK " ++ C01.dumpNode src t ++ " E" ++ String.join (errs.map fun e => " " ++ C01.dumpErr e), some t)
  | .panic _ => ("PANIC", none)
  | .fuel => ("FUEL", none)

def optHex : Option Bytes → String
  | some b => hexEnc b
  | none => "NONE"

def showQ : QRes Bytes → String
  | .ok b => hexEnc b
  | .panic _ => "PANIC"
  | .fuel => "FUEL"

/-- quote with `f`, parse the result as `nt`; returns (quoted text column, parse column, tree). -/
def quoteAndParse (isPrint : Int → Bool) (q : QRes Bytes) (pre : Bytes) (nt : C01.NT) :
    String × Option C01.Node :=
  match q with
  | .ok t => dumpParse isPrint nt (pre ++ t)
  | _ => ("-", none)

/-- op: `q <hex s> <printable code points of s, comma separated | -> <cmdmode> <varmode>`
→ `Q <Quote s> <type> C <QuoteCommandName s> V <QuoteVariableName s> A <QuoteAs s SingleQuoted> D <QuoteAs s DoubleQuoted>`
  ` | <ParseAs Compound{NormalExpr} (Quote s)> | <… LHSExpr> | <… BracedElemExpr> | <ParseAs Compound{CmdExpr} (QuoteCommandName s)>`
  ` | <ParseAs Primary ("$" ++ QuoteVariableName s)> | EV arg=… key=… cmd=… var=…`
`cmdmode`/`varmode` say whether the implementation side can observe the
command / variable that gets resolved (`skip`: special form, reserved name). -/
def stepLine : List String → String
  | ["q", hs, sprint, cmdmode, varmode] =>
    match hexDecode hs, C01.parseIntList sprint with
    | some s, some printable =>
      let isPrint : Int → Bool := fun r => printable.contains r
      let qa := QuoteAs isPrint s Bareword
      let q := Quote isPrint s
      let c := QuoteCommandName isPrint s
      let v := QuoteVariableName isPrint s
      let ty := match qa with | .ok p => toString p.2 | _ => "-"
      let sq := (QuoteAs isPrint s SingleQuoted).map (·.1)
      let dq := (QuoteAs isPrint s DoubleQuoted).map (·.1)
      let (p0, t0) := quoteAndParse isPrint q [] (.compound NormalExpr)
      let (p2, t2) := quoteAndParse isPrint q [] (.compound LHSExpr)
      let (p3, _) := quoteAndParse isPrint q [] (.compound BracedElemExpr)
      let (p1, t1) := quoteAndParse isPrint c [] (.compound CmdExpr)
      let (pv, tv) := quoteAndParse isPrint v [36] (.primary NormalExpr)
      let ev (t : Option C01.Node) : String := optHex (t.bind evalLit)
      let evc := if cmdmode == "skip" then "-" else ev t1
      let evv := if varmode == "skip" then "-" else optHex (tv.bind variableName)
      s!"Q {showQ q} {ty} C {showQ c} V {showQ v} A {showQ sq} D {showQ dq} | {p0} | {p2} | {p3} | {p1} | {pv} | EV arg={ev t0} key={ev t2} cmd={evc} var={evv}"
    | _, _ => "bad-op"
  | _ => "bad-op"

def driver : Driver := Driver.pure stepLine
end C03
