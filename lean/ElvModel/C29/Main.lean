import ElvModel.C29.Driver
def main : IO Unit := C29.driver.main
