/-
C29 model: pkg/cli/histutil — mem_store.go, db_store.go, hybrid_store.go,
dedup_cursor.go, function by function.  The database (`histutil.DB`) is the
store of C24 (`C24.Store` with `nextCmdSeq/addCmd/cmdsWithSeq/prevCmd/nextCmd`);
it is shared with other sessions, so every cursor operation takes the database
*as it is at the time of the call*.

Go's `Cursor` interface is `CursorOps σ` (the three methods over a state `σ`);
`hybridStoreCursor` and `dedupCursor` hold `Cursor`s and are modelled generically
over `CursorOps`, exactly as in Go.  Methods return `Go.Res`: `.exc e` is a Go
error value (for `Get`), `.panic` a Go panic (index out of range).
-/
import ElvModel.C24.Model
namespace C29
open Go C24

/-- `histutil.ErrEndOfHistory.Error()` -/
def errEndOfHistory : String := "end of history"

/-- the `Cursor` interface -/
structure CursorOps (σ : Type) where
  prev : σ → Res σ
  next : σ → Res σ
  get : σ → Res Cmd

/-! ### mem_store.go -/

structure MemStore where
  cmds : List Cmd
  deriving Repr

/-- `NewMemStore(texts...)`: `Seq` is the position -/
def newMemStoreFrom : List Bytes → Nat → List Cmd
  | [], _ => []
  | t :: r, i => { text := t, seq := (i : Int) } :: newMemStoreFrom r (i + 1)

def newMemStore (texts : List Bytes) : MemStore := ⟨newMemStoreFrom texts 0⟩

def MemStore.allCmds (s : MemStore) : List Cmd := s.cmds

/-- `memStore.AddCmd` -/
def MemStore.addCmd (s : MemStore) (cmd : Cmd) : MemStore × Int :=
  let cmd := if cmd.seq < 0 then { cmd with seq := (s.cmds.length : Int) + 1 } else cmd
  (⟨s.cmds ++ [cmd]⟩, cmd.seq)

/-- `memStoreCursor`: a snapshot of the slice, the prefix and an index -/
structure MemCursor where
  cmds : List Cmd
  pfx : Bytes
  index : Int
  deriving Repr

/-- `memStore.Cursor` -/
def MemStore.cursor (s : MemStore) (p : Bytes) : MemCursor := ⟨s.cmds, p, s.cmds.length⟩

/-- the loop of `Prev`, entered with `c.index = n` after `c.index--` made it `n - 1`… i.e.
`memPrevLoop cmds p n` examines positions `n-1, n-2, …, 0` and returns the first
that matches, or `-1`.  `c.cmds[c.index]` is an indexing expression: a panic
if out of range. -/
def memPrevLoop (cmds : List Cmd) (p : Bytes) : Nat → Res Int
  | 0 => .ok (-1)
  | n + 1 =>
    match Go.index cmds (n : Int) with
    | .ok c => if hasPrefix c.text p then .ok (n : Int) else memPrevLoop cmds p n
    | .exc e => .exc e
    | .panic w => .panic w

/-- `memStoreCursor.Prev` -/
def memPrev (c : MemCursor) : Res MemCursor :=
  if c.index < 0 then .ok c
  else match memPrevLoop c.cmds c.pfx c.index.toNat with
    | .ok i => .ok { c with index := i }
    | .exc e => .exc e
    | .panic w => .panic w

/-- the loop of `Next` over the commands from position `i` on (`i < len` is the
loop condition, so the indexing is in range whenever `i ≥ 0`) -/
def memNextLoop (p : Bytes) : List Cmd → Int → Int
  | [], i => i
  | c :: rest, i => if hasPrefix c.text p then i else memNextLoop p rest (i + 1)

/-- `memStoreCursor.Next` -/
def memNext (c : MemCursor) : Res MemCursor :=
  if c.index ≥ c.cmds.length then .ok c
  else if c.index + 1 < 0 then .panic "index out of range"
  else .ok { c with index := memNextLoop c.pfx (c.cmds.drop (c.index + 1).toNat) (c.index + 1) }

/-- `memStoreCursor.Get` -/
def memGet (c : MemCursor) : Res Cmd :=
  if c.index < 0 ∨ c.index ≥ c.cmds.length then .exc errEndOfHistory
  else Go.index c.cmds c.index

def memOps : CursorOps MemCursor := ⟨memPrev, memNext, memGet⟩

/-! ### db_store.go -/

/-- `dbStore`: the database handle is implicit, `upper` is frozen at creation -/
structure DbStore where
  upper : Int
  deriving Repr

/-- `NewDBStore`: `upper, err := db.NextCmdSeq()` -/
def newDBStore (db : Store) : DbStore := ⟨nextCmdSeq db⟩

/-- `dbStore.AllCmds` -/
def DbStore.allCmds (s : DbStore) (db : Store) : Res (List Cmd) := C24.cmdsWithSeq db 0 s.upper

/-- `dbStore.AddCmd`: the `Seq` of the argument is ignored -/
def DbStore.addCmd (_s : DbStore) (db : Store) (cmd : Cmd) : Store × Res Int := C24.addCmd db cmd.text

/-- `dbStoreCursor`; `err = none` is Go's `nil` error -/
structure DbCursor where
  pfx : Bytes
  upper : Int
  cmd : Cmd
  err : Option String
  deriving Repr

/-- `dbStore.Cursor` -/
def DbStore.cursor (s : DbStore) (p : Bytes) : DbCursor :=
  ⟨p, s.upper, { text := [], seq := s.upper }, some errEndOfHistory⟩

/-- `dbStoreCursor.set(cmd, err, endSeq)` where `(cmd, err)` is the pair a DB
call returned (`.exc e` ↦ zero `Cmd` and the error) -/
def DbCursor.set (c : DbCursor) (r : Res Cmd) (endSeq : Int) : Res DbCursor :=
  match r with
  | .ok cmd => .ok { c with cmd := cmd, err := none }
  | .exc e =>
    if e = errNoMatchingCmd then .ok { c with cmd := { text := [], seq := endSeq }, err := some errEndOfHistory }
    else .ok { c with err := some e }
  | .panic w => .panic w

/-- `dbStoreCursor.Prev` -/
def dbPrev (db : Store) (c : DbCursor) : Res DbCursor :=
  if c.cmd.seq < 0 then .ok c
  else c.set (prevCmd db c.cmd.seq c.pfx) (-1)

/-- the `Seq` of the `Cmd` a DB call returned -/
def resSeq : Res Cmd → Int
  | .ok cmd => cmd.seq
  | _ => 0

/-- the part of `dbStoreCursor.Next` after the database call returned `r` -/
def dbNextWith (c : DbCursor) (r : Res Cmd) : Res DbCursor :=
  match (if resSeq r < c.upper then c.set r c.upper else .ok c) with
  | .ok c' =>
    if resSeq r ≥ c.upper then
      .ok { c' with cmd := { text := [], seq := c.upper }, err := some errEndOfHistory }
    else .ok c'
  | e => e

/-- `dbStoreCursor.Next` -/
def dbNext (db : Store) (c : DbCursor) : Res DbCursor :=
  if c.cmd.seq ≥ c.upper then .ok c
  else dbNextWith c (nextCmd db (c.cmd.seq + 1) c.pfx)

/-- `dbStoreCursor.Get` -/
def dbGet (c : DbCursor) : Res Cmd :=
  match c.err with
  | none => .ok c.cmd
  | some e => .exc e

def dbOps (db : Store) : CursorOps DbCursor := ⟨dbPrev db, dbNext db, dbGet⟩

/-! ### hybrid_store.go -/

/-- `hybridStore{shared, session}` (always a `dbStore` and a `memStore`) -/
structure HybridStore where
  shared : DbStore
  session : MemStore
  deriving Repr

/-- what `NewHybridStore` returns: a plain `memStore` when there is no database -/
inductive HStore where
  | mem (s : MemStore)
  | hybrid (s : HybridStore)
  deriving Repr

/-- `NewHybridStore(db)` -/
def newHybridStore : Option Store → HStore
  | none => .mem (newMemStore [])
  | some db => .hybrid ⟨newDBStore db, newMemStore []⟩

/-- `hybridStore.AddCmd`: add to the database, then to the session history with
the number the database issued.  (`C24.addCmd` cannot fail — an 8-byte key is
always accepted —; should it, Go would still append to the session, with the
`seq` it got; the model appends with 0 and reports the error.) -/
def HybridStore.addCmd (s : HybridStore) (db : Store) (cmd : Cmd) : HybridStore × Store × Res Int :=
  let (db', r) := s.shared.addCmd db cmd
  let seq : Int := match r with
    | .ok n => n
    | _ => 0
  ({ s with session := (s.session.addCmd { text := cmd.text, seq := seq }).1 }, db', r)

/-- `hybridStore.AllCmds` -/
def HybridStore.allCmds (s : HybridStore) (db : Store) : Res (List Cmd) :=
  match s.shared.allCmds db with
  | .ok shared => if shared.length = 0 then .ok s.session.allCmds else .ok (shared ++ s.session.allCmds)
  | e => e

/-- `hybridStoreCursor` over two `Cursor`s -/
structure Hybrid (σd σs : Type) where
  shared : σd
  session : σs
  useShared : Bool

/-- `hybridStore.Cursor` -/
def HybridStore.cursor (s : HybridStore) (p : Bytes) : Hybrid DbCursor MemCursor :=
  ⟨s.shared.cursor p, s.session.cursor p, false⟩

/-- `err == ErrEndOfHistory` on the result of a `Get` -/
def isEOH : Res Cmd → Bool
  | .exc e => e = errEndOfHistory
  | _ => false

def hybridPrev {σd σs} (sh : CursorOps σd) (se : CursorOps σs) (c : Hybrid σd σs) : Res (Hybrid σd σs) :=
  if c.useShared then
    match sh.prev c.shared with
    | .ok s => .ok { c with shared := s }
    | .exc e => .exc e
    | .panic w => .panic w
  else
    match se.prev c.session with
    | .ok s =>
      match se.get s with
      | .panic w => .panic w
      | r =>
        if isEOH r then
          match sh.prev c.shared with
          | .ok d => .ok { shared := d, session := s, useShared := true }
          | .exc e => .exc e
          | .panic w => .panic w
        else .ok { c with session := s }
    | .exc e => .exc e
    | .panic w => .panic w

def hybridNext {σd σs} (sh : CursorOps σd) (se : CursorOps σs) (c : Hybrid σd σs) : Res (Hybrid σd σs) :=
  if !c.useShared then
    match se.next c.session with
    | .ok s => .ok { c with session := s }
    | .exc e => .exc e
    | .panic w => .panic w
  else
    match sh.next c.shared with
    | .ok d =>
      match sh.get d with
      | .panic w => .panic w
      | r =>
        if isEOH r then
          match se.next c.session with
          | .ok s => .ok { shared := d, session := s, useShared := false }
          | .exc e => .exc e
          | .panic w => .panic w
        else .ok { c with shared := d }
    | .exc e => .exc e
    | .panic w => .panic w

def hybridGet {σd σs} (sh : CursorOps σd) (se : CursorOps σs) (c : Hybrid σd σs) : Res Cmd :=
  if c.useShared then sh.get c.shared else se.get c.session

def hybridOps {σd σs} (sh : CursorOps σd) (se : CursorOps σs) : CursorOps (Hybrid σd σs) :=
  ⟨hybridPrev sh se, hybridNext sh se, hybridGet sh se⟩

/-! ### dedup_cursor.go -/

/-- `dedupCursor`; `occ` (a `map[string]bool`) is the list of its keys -/
structure Dedup (σ : Type) where
  c : σ
  current : Int
  stack : List Cmd
  occ : List Bytes

/-- `NewDedupCursor` -/
def newDedup {σ} (c : σ) : Dedup σ := ⟨c, 0, [], []⟩

/-- the `for` loop of `dedupCursor.Prev`.  It ends when the inner cursor reports
an error or yields a text not seen before; nothing in `dedup_cursor.go` bounds
it, so the model takes fuel and reports running out (`FUEL`) explicitly. -/
def dedupLoop {σ} (inner : CursorOps σ) : Nat → Dedup σ → Res (Dedup σ)
  | 0, _ => .exc "FUEL"
  | fuel + 1, d =>
    match inner.prev d.c with
    | .ok c' =>
      match inner.get c' with
      | .ok cmd =>
        if !d.occ.contains cmd.text then
          .ok { c := c', current := d.stack.length, stack := d.stack ++ [cmd], occ := cmd.text :: d.occ }
        else dedupLoop inner fuel { d with c := c' }
      | .exc _ => .ok { d with c := c', current := d.stack.length }
      | .panic w => .panic w
    | .exc e => .exc e
    | .panic w => .panic w

def dedupPrev {σ} (inner : CursorOps σ) (fuel : Nat) (d : Dedup σ) : Res (Dedup σ) :=
  if d.current < (d.stack.length : Int) - 1 then .ok { d with current := d.current + 1 }
  else dedupLoop inner fuel d

def dedupNext {σ} (d : Dedup σ) : Res (Dedup σ) :=
  if d.current ≥ 0 then .ok { d with current := d.current - 1 } else .ok d

def dedupGet {σ} (inner : CursorOps σ) (d : Dedup σ) : Res Cmd :=
  if d.current < 0 then .exc errEndOfHistory
  else if d.current < d.stack.length then Go.index d.stack d.current
  else inner.get d.c

def dedupOps {σ} (inner : CursorOps σ) (fuel : Nat) : CursorOps (Dedup σ) :=
  ⟨dedupPrev inner fuel, dedupNext, dedupGet inner⟩

end C29
