import ElvModel.Go.Driver
import ElvModel.C29.Model
namespace C29
open Go C24

inductive Cur where
  | mem (c : MemCursor)
  | hyb (c : Hybrid DbCursor MemCursor)
  | dmem (c : Dedup MemCursor)
  | dhyb (c : Dedup (Hybrid DbCursor MemCursor))

structure Sys where
  db : Store
  store : Option HStore
  cur : Option Cur

def Sys.init : Sys := ⟨Store.fresh, none, none⟩

def hybOps (db : Store) : CursorOps (Hybrid DbCursor MemCursor) := hybridOps (dbOps db) memOps

/-- enough fuel for the dedup loop: more than the number of commands that exist -/
def fuelFor (s : Sys) : Nat :=
  s.db.cmd.kvs.length + (match s.store with
    | some (.mem m) => m.cmds.length
    | some (.hybrid h) => h.session.cmds.length
    | none => 0) + 3

def showCmd (c : Cmd) : String := s!"{c.seq}:{hexEnc c.text}"

def showGet : Res Cmd → String
  | .ok c => showCmd c
  | .exc e => if e = errEndOfHistory then "EOH" else "ERR " ++ e
  | .panic _ => "PANIC"

def showSeq : Res Int → String
  | .ok n => toString n
  | .exc e => "ERR " ++ e
  | .panic _ => "PANIC"

def showCmds : Res (List Cmd) → String
  | .ok l => if l.isEmpty then "-" else ",".intercalate (l.map showCmd)
  | .exc e => "ERR " ++ e
  | .panic _ => "PANIC"

def curGet (s : Sys) : Cur → Res Cmd
  | .mem c => memGet c
  | .hyb c => (hybOps s.db).get c
  | .dmem c => dedupGet memOps c
  | .dhyb c => dedupGet (hybOps s.db) c

def curMove (s : Sys) (back : Bool) : Cur → Res Cur
  | .mem c => (if back then memPrev c else memNext c) |>.bind (fun c => .ok (.mem c))
  | .hyb c => (if back then (hybOps s.db).prev c else (hybOps s.db).next c) |>.bind (fun c => .ok (.hyb c))
  | .dmem c => (if back then dedupPrev memOps (fuelFor s) c else dedupNext c) |>.bind (fun c => .ok (.dmem c))
  | .dhyb c => (if back then dedupPrev (hybOps s.db) (fuelFor s) c else dedupNext c) |>.bind (fun c => .ok (.dhyb c))

def move (s : Sys) (back : Bool) : Sys × String :=
  match s.cur with
  | none => (s, "no-cursor")
  | some c =>
    match curMove s back c with
    | .ok c' => ({ s with cur := some c' }, showGet (curGet s c'))
    | .exc e => (s, "ERR " ++ e)
    | .panic _ => (s, "PANIC")

def stepLine (s : Sys) : List String → Sys × String
  | ["reset"] => (Sys.init, "ok")
  | ["store", h] =>
    match hexDecode h with
    | some t => let (db, r) := addCmd s.db t; ({ s with db := db }, showSeq r)
    | none => (s, "bad-op")
  | ["sdel", n] =>
    match n.toInt? with
    | some n => ({ s with db := delCmd s.db n }, "ok")
    | none => (s, "bad-op")
  | ["session"] => ({ s with store := some (newHybridStore (some s.db)), cur := none }, "ok")
  | ["session-nil"] => ({ s with store := some (newHybridStore none), cur := none }, "ok")
  | ["add", h, n] =>
    match hexDecode h, n.toInt?, s.store with
    | some t, some n, some (.mem m) =>
      let (m', r) := m.addCmd { text := t, seq := n }
      ({ s with store := some (.mem m') }, toString r)
    | some t, some n, some (.hybrid hs) =>
      let (hs', db', r) := hs.addCmd s.db { text := t, seq := n }
      ({ s with store := some (.hybrid hs'), db := db' }, showSeq r)
    | _, _, _ => (s, "bad-op")
  | ["all"] =>
    match s.store with
    | some (.mem m) => (s, showCmds (.ok m.allCmds))
    | some (.hybrid hs) => (s, showCmds (hs.allCmds s.db))
    | none => (s, "bad-op")
  | ["cursor", h, d] =>
    match hexDecode h, s.store with
    | some p, some (.mem m) =>
      ({ s with cur := some (if d = "1" then .dmem (newDedup (m.cursor p)) else .mem (m.cursor p)) }, "ok")
    | some p, some (.hybrid hs) =>
      ({ s with cur := some (if d = "1" then .dhyb (newDedup (hs.cursor p)) else .hyb (hs.cursor p)) }, "ok")
    | _, _ => (s, "bad-op")
  | ["prev"] => move s true
  | ["next"] => move s false
  | ["get"] =>
    match s.cur with
    | some c => (s, showGet (curGet s c))
    | none => (s, "no-cursor")
  | _ => (s, "bad-op")

def driver : Driver := { σ := Sys, init := Sys.init, step := stepLine }
end C29
