/-
C29 specification: a history cursor is an index into a fixed list — the
session's view, newest first.
-/
import ElvModel.C29.Model
namespace C29.Spec
open Go C24 C29

/-- does the command's text start with `p` -/
def isMatch (p : Bytes) (c : Cmd) : Bool := hasPrefix c.text p

/-- The session's view for prefix `p`: the commands stored when the session
started (`stored`, oldest first) followed by the session's own additions,
restricted to those starting with `p`, newest first. -/
def view (stored session : List Cmd) (p : Bytes) : List Cmd :=
  ((stored ++ session).filter (isMatch p)).reverse

/-- keep the first occurrence of every text (in a newest-first list: the most recent one) -/
def dedupFrom (seen : List Bytes) : List Cmd → List Cmd
  | [] => []
  | c :: r => if seen.contains c.text then dedupFrom seen r else c :: dedupFrom (c.text :: seen) r

def dedupView (v : List Cmd) : List Cmd := dedupFrom [] v

/-- what `Get` reports at index `i` of view `v`: the entry, or end of history at either end -/
def walkGet (v : List Cmd) (i : Int) : Res Cmd :=
  if 0 ≤ i then
    match v[i.toNat]? with
    | some c => .ok c
    | none => .exc errEndOfHistory
  else .exc errEndOfHistory

/-- `Prev`: one step towards the oldest entry, stopping one past it -/
def walkPrev (v : List Cmd) (i : Int) : Int := min (i + 1) v.length
/-- `Next`: one step towards the newest entry, stopping one before it -/
def walkNext (i : Int) : Int := max (i - 1) (-1)

inductive Move where
  | prev
  | next
  deriving Repr, DecidableEq

def walkMove (v : List Cmd) (i : Int) : Move → Int
  | .prev => walkPrev v i
  | .next => walkNext i

/-- the `Get` results after each move of a walk that starts at index `i` -/
def walkGets (v : List Cmd) : Int → List Move → List (Res Cmd)
  | _, [] => []
  | i, m :: ms => walkGet v (walkMove v i m) :: walkGets v (walkMove v i m) ms

/-- the index a walk ends at -/
def walkIdx (v : List Cmd) : Int → List Move → Int
  | i, [] => i
  | i, m :: ms => walkIdx v (walkMove v i m) ms

end C29.Spec
