/-
C05 model: pkg/eval/vals/num.go (ParseNum, NormalizeBigInt, NormalizeBigRat,
ConvertToFloat64), pkg/eval/vals/string.go (ToString on numbers,
formatFloat64), pkg/eval/builtin_fn_num.go (num, exact-num, inexact-num) and
the library grammars they rest on, read from the Go 1.23 sources:

* math/big  `nat.scan(r, 0, false)`, `Int.SetString(s, 0)`, the fraction
  branch of `Rat.SetString`;
* strconv   `special`, `readFloat`, `underscoreOK`, `ParseFloat(s, 64)`.

Conventions.  Go strings are `Go.Bytes`.  `*big.Int`/`*big.Rat` values are
`Int`/`Rat`.  A float64 is its bit pattern (`Nat < 2^64`).  The *value* of an
accepted float literal is the exact rational the text denotes (with Go's
exponent cap) rounded to nearest-even (`roundMag`): strconv's fast paths
(Eisel–Lemire, Clinger) and its `decimal` slow path are trusted to be
correctly rounded and only cross-checked by the correspondence run.  Shortest
digit generation (`strconv.FormatFloat(f, 'f'|'e', -1, 64)`) is a parameter
(`Strconv`).
-/
import ElvModel.Go.Basic
namespace C05
open Go

/-! ## math/big: `nat.scan` with `base = 0`, `fracOk = false` -/

/-- `prev` of nat.scan: `'.'` (anything else), `'0'` (a digit or a base prefix), `'_'`. -/
inductive Prev where
  | dot | digit | us
  deriving DecidableEq, Repr

/-- Digit value of a byte for bases ≤ 36; `63` (= MaxBase+1) for a non-digit. -/
def digitVal (c : UInt8) : Nat :=
  let n := c.toNat
  if 48 ≤ n ∧ n ≤ 57 then n - 48
  else if 97 ≤ n ∧ n ≤ 122 then n - 87
  else if 65 ≤ n ∧ n ≤ 90 then n - 55
  else 63

structure ScanSt where
  prev : Prev
  invalSep : Bool
  count : Nat
  acc : Nat
  deriving Repr, DecidableEq

/-- The `for err == nil` loop of nat.scan (base argument 0, no fraction):
returns the final state and the unread rest. -/
def scanLoop (b : Nat) : ScanSt → Bytes → ScanSt × Bytes
  | st, [] => (st, [])
  | st, c :: cs =>
    if c = 0x5F then
      scanLoop b { st with invalSep := st.invalSep || (st.prev != .digit), prev := .us } cs
    else if b ≤ digitVal c then (st, c :: cs)
    else scanLoop b { st with prev := .digit, count := st.count + 1, acc := st.acc * b + digitVal c } cs

/-- The code after the loop.  `octal0`: the prefix was the bare octal `0`. -/
def scanFinish (octal0 : Bool) (r : ScanSt × Bytes) : Option (Nat × Bytes) :=
  let sepErr := r.1.invalSep || (r.1.prev == .us)
  if r.1.count = 0 then
    if octal0 then (if sepErr then none else some (0, r.2)) else none
  else if sepErr then none
  else some (r.1.acc, r.2)

/-- `nat.scan(r, 0, false)`: the value and the unread rest, `none` on any error. -/
def natScan (s : Bytes) : Option (Nat × Bytes) :=
  match s with
  | [] => none
  | c :: rest =>
    if c = 0x30 then
      match rest with
      | [] => some (0, [])
      | c1 :: cs =>
        let st0 : ScanSt := { prev := .digit, invalSep := false, count := 0, acc := 0 }
        if c1 = 0x62 ∨ c1 = 0x42 then scanFinish false (scanLoop 2 st0 cs)
        else if c1 = 0x6F ∨ c1 = 0x4F then scanFinish false (scanLoop 8 st0 cs)
        else if c1 = 0x78 ∨ c1 = 0x58 then scanFinish false (scanLoop 16 st0 cs)
        else scanFinish true (scanLoop 8 st0 (c1 :: cs))
    else
      scanFinish false (scanLoop 10 { prev := .dot, invalSep := false, count := 0, acc := 0 } s)

/-- `new(big.Int).SetString(s, 0)` -/
def intSetString (s : Bytes) : Option Int :=
  match s with
  | [] => none
  | c :: cs =>
    let body := if c = 0x2D ∨ c = 0x2B then cs else s
    match natScan body with
    | some (n, []) => some (if c = 0x2D then -(n : Int) else (n : Int))
    | _ => none

/-- Split at the first occurrence of byte `x` (`strings.Index`). -/
def splitByte (x : UInt8) : Bytes → Option (Bytes × Bytes)
  | [] => none
  | c :: cs =>
    if c = x then some ([], cs)
    else match splitByte x cs with
      | some (a, b) => some (c :: a, b)
      | none => none

/-- Split at the first `'/'`. -/
def splitSlash (s : Bytes) : Option (Bytes × Bytes) := splitByte 0x2F s

/-- The fraction branch of `new(big.Rat).SetString(s)` for `s = a ++ "/" ++ b`. -/
def ratSetFrac (a b : Bytes) : Option Rat :=
  match intSetString a, natScan b with
  | some n, some (d, []) => if d = 0 then none else some (mkRat n d)
  | _, _ => none

/-! ## Numbers and canonical forms -/

/-- An elvish typed number by Go representation. -/
inductive Num where
  | int (i : Int)       -- Go `int` (64 bit)
  | big (i : Int)       -- `*big.Int`
  | rat (q : Rat)       -- `*big.Rat`
  | float (bits : Nat)  -- `float64` by bit pattern
  deriving DecidableEq

def fitsInt (z : Int) : Bool := -9223372036854775808 ≤ z && z ≤ 9223372036854775807

/-- `NormalizeBigInt` (via `getInt`; `int` is 64 bit) -/
def normalizeBigInt (z : Int) : Num := if fitsInt z then .int z else .big z

/-- `NormalizeBigRat` -/
def normalizeBigRat (q : Rat) : Num := if q.den = 1 then normalizeBigInt q.num else .rat q

/-- `FromGo` restricted to numbers (what a builtin's return value goes through). -/
def fromGo : Num → Num
  | .big z => normalizeBigInt z
  | .rat q => normalizeBigRat q
  | n => n

/-! ## strconv.ParseFloat(s, 64) -/

def nanBits : Nat := 0x7FF8000000000001
def infBits : Nat := 0x7FF0000000000000
def signBit : Nat := 0x8000000000000000

def lower (c : UInt8) : UInt8 := c ||| 0x20
def isDec (c : UInt8) : Bool := 0x30 ≤ c && c ≤ 0x39
def isHexLetter (c : UInt8) : Bool := 0x61 ≤ lower c && lower c ≤ 0x66

/-- `commonPrefixLenIgnoreCase(s, prefix)` (prefix lower-case) -/
def commonPrefixLen : Bytes → Bytes → Nat
  | c :: cs, p :: ps =>
    let c' := if 0x41 ≤ c ∧ c ≤ 0x5A then c + 0x20 else c
    if c' = p then commonPrefixLen cs ps + 1 else 0
  | _, _ => 0

def infinityLit : Bytes := [0x69, 0x6E, 0x66, 0x69, 0x6E, 0x69, 0x74, 0x79]
def nanLit : Bytes := [0x6E, 0x61, 0x6E]

/-- the `case 'i', 'I'` arm of `special` on the text after the sign -/
def specialInf (neg : Bool) (nsign : Nat) (s : Bytes) : Option (Nat × Nat) :=
  let n := commonPrefixLen s infinityLit
  let n := if 3 < n ∧ n < 8 then 3 else n
  if n = 3 ∨ n = 8 then some ((if neg then signBit + infBits else infBits), nsign + n) else none

/-- `special(s)`: bits and number of bytes consumed. -/
def special (s : Bytes) : Option (Nat × Nat) :=
  match s with
  | [] => none
  | c :: cs =>
    if c = 0x2B then specialInf false 1 cs
    else if c = 0x2D then specialInf true 1 cs
    else if c = 0x69 ∨ c = 0x49 then specialInf false 0 s
    else if c = 0x6E ∨ c = 0x4E then
      if commonPrefixLen s nanLit = 3 then some (nanBits, 3) else none
    else none

structure MantSt where
  sawdot : Bool
  sawdigits : Bool
  underscores : Bool
  mant : Nat   -- all mantissa digits, untruncated
  frac : Nat   -- number of digits after the point  (= nd - dp of the Go code)
  deriving Repr, DecidableEq

/-- The mantissa loop of `readFloat`. -/
def mantLoop (hex : Bool) : MantSt → Bytes → MantSt × Bytes
  | st, [] => (st, [])
  | st, c :: cs =>
    if c = 0x5F then mantLoop hex { st with underscores := true } cs
    else if c = 0x2E then
      if st.sawdot then (st, c :: cs) else mantLoop hex { st with sawdot := true } cs
    else if isDec c then
      mantLoop hex { st with sawdigits := true,
                             mant := st.mant * (if hex then 16 else 10) + (c.toNat - 48),
                             frac := if st.sawdot then st.frac + 1 else st.frac } cs
    else if hex && isHexLetter c then
      mantLoop hex { st with sawdigits := true,
                             mant := st.mant * 16 + ((lower c).toNat - 87),
                             frac := if st.sawdot then st.frac + 1 else st.frac } cs
    else (st, c :: cs)

/-- The exponent digit loop of `readFloat` (`if e < 10000 { e = e*10 + d }`). -/
def expLoop : Nat → Bool → Bytes → Nat × Bool × Bytes
  | e, us, [] => (e, us, [])
  | e, us, c :: cs =>
    if c = 0x5F then expLoop e true cs
    else if isDec c then expLoop (if e < 10000 then e * 10 + (c.toNat - 48) else e) us cs
    else (e, us, c :: cs)

/-- `saw` of `underscoreOK`. -/
inductive Saw where
  | start | digit | us | bang
  deriving DecidableEq, Repr

def usLoop (hex : Bool) : Saw → Bytes → Bool
  | saw, [] => saw != .us
  | saw, c :: cs =>
    if isDec c || (hex && isHexLetter c) then usLoop hex .digit cs
    else if c = 0x5F then (if saw != .digit then false else usLoop hex .us cs)
    else if saw == .us then false
    else usLoop hex .bang cs

/-- `underscoreOK(s)` -/
def underscoreOK (s : Bytes) : Bool :=
  let s := match s with
    | c :: cs => if c = 0x2D ∨ c = 0x2B then cs else s
    | [] => s
  match s with
  | c0 :: c1 :: cs =>
    if c0 = 0x30 ∧ (lower c1 = 0x62 ∨ lower c1 = 0x6F ∨ lower c1 = 0x78) then
      usLoop (lower c1 = 0x78) .digit cs
    else usLoop false .start s
  | _ => usLoop false .start s

/-- What `readFloat` extracts from a string it accepts *entirely*. -/
structure FloatLit where
  neg : Bool
  hex : Bool
  mant : Nat
  frac : Nat      -- digits after the point
  exp : Int       -- written exponent (decimal: power of 10; hex: power of 2), capped as Go does
  deriving Repr, DecidableEq

/-- `i+2 < len(s) && s[i] == '0' && lower(s[i+1]) == 'x'`: is there a hex prefix,
and the text after it. -/
def hexPrefix (body : Bytes) : Bool × Bytes :=
  match body with
  | c0 :: c1 :: c2 :: r => if c0 = 0x30 ∧ lower c1 = 0x78 then (true, c2 :: r) else (false, body)
  | _ => (false, body)

/-- The exponent part of `readFloat` and its final checks; `rest` is what the
mantissa loop left, `s` the whole string (for `underscoreOK(s[:i])`, `i = len(s)`). -/
def readExp (neg hex : Bool) (st : MantSt) (rest s : Bytes) : Option FloatLit :=
  match rest with
  | [] =>
    if hex then none   -- a hex mantissa must have a 'p' exponent
    else if st.underscores && !underscoreOK s then none
    else some { neg, hex, mant := st.mant, frac := st.frac, exp := 0 }
  | e :: r =>
    if lower e = (if hex then 0x70 else 0x65) then
      match r with
      | [] => none
      | c1 :: r1 =>
        let r2 := if c1 = 0x2B ∨ c1 = 0x2D then r1 else r
        match r2 with
        | [] => none
        | d :: _ =>
          if !isDec d then none else
          let res := expLoop 0 st.underscores r2
          if !res.2.2.isEmpty then none
          else if res.2.1 && !underscoreOK s then none
          else some { neg, hex, mant := st.mant, frac := st.frac,
                      exp := if c1 = 0x2D then -(res.1 : Int) else (res.1 : Int) }
    else none

/-- `readFloat` after the sign. -/
def readBody (neg : Bool) (body s : Bytes) : Option FloatLit :=
  let hp := hexPrefix body
  let r := mantLoop hp.1 { sawdot := false, sawdigits := false, underscores := false, mant := 0, frac := 0 } hp.2
  if !r.1.sawdigits then none else readExp neg hp.1 r.1 r.2 s

/-- `readFloat(s)` with `ok && i == len(s)`. -/
def readFloat (s : Bytes) : Option FloatLit :=
  match s with
  | [] => none
  | c :: cs => readBody (c = 0x2D) (if c = 0x2D ∨ c = 0x2B then cs else s) s

/-- Is `n/d ≥ 2^e`? -/
def geTwoPow (n d : Nat) (e : Int) : Bool :=
  if 0 ≤ e then d * 2 ^ e.toNat ≤ n else d ≤ n * 2 ^ (-e).toNat

/-- Round the positive rational `n/d` (`d > 0`) to the nearest binary64, ties to
even; the result is the bit pattern of the magnitude, which is `≥ infBits`
exactly when the rounded value overflows. -/
def roundMag (n d : Nat) : Nat :=
  if n = 0 then 0 else
  let e0 : Int := (Nat.log2 n : Int) - (Nat.log2 d : Int)
  let e : Int := if geTwoPow n d e0 then e0 else e0 - 1     -- 2^e ≤ n/d < 2^(e+1)
  let E : Int := if e < -1022 then -1022 else e
  let q : Int := E - 52                                    -- exponent of the last place
  let N := if 0 ≤ q then n else n * 2 ^ (-q).toNat
  let D := if 0 ≤ q then d * 2 ^ q.toNat else d
  let m := N / D
  let r := N % D
  let m' := if D < 2 * r ∨ (2 * r = D ∧ m % 2 = 1) then m + 1 else m
  (E + 1022).toNat * 2 ^ 52 + m'

/-- Exact (unsigned) value of an accepted literal: `mant · b^(exp − frac·k)`, as a
reduced rational, so that equal values round equally by construction. -/
def FloatLit.value (l : FloatLit) : Rat :=
  if l.hex then
    let ex : Int := l.exp - 4 * (l.frac : Int)
    if 0 ≤ ex then mkRat ((l.mant * 2 ^ ex.toNat : Nat) : Int) 1 else mkRat (l.mant : Int) (2 ^ (-ex).toNat)
  else
    let ex : Int := l.exp - (l.frac : Int)
    if 0 ≤ ex then mkRat ((l.mant * 10 ^ ex.toNat : Nat) : Int) 1 else mkRat (l.mant : Int) (10 ^ (-ex).toNat)

/-- Bits of a literal `readFloat` accepted; `none` = `ErrRange`. -/
def FloatLit.bits (l : FloatLit) : Option Nat :=
  let q := l.value
  let mag := roundMag q.num.natAbs q.den
  if infBits ≤ mag then none     -- ErrRange
  else some (if l.neg then signBit + mag else mag)

/-- `strconv.ParseFloat(s, 64)` with `err == nil`: the bits, `none` on a syntax
error *or a range error* (elvish tests `err == nil`). -/
def parseFloat (s : Bytes) : Option Nat :=
  match special s with
  | some (bits, n) => if n = s.length then some bits else none
  | none =>
    match readFloat s with
    | none => none
    | some l => l.bits

/-! ## ParseNum -/

/-- `vals.ParseNum`; `none` is Go `nil`. -/
def parseNum (s : Bytes) : Option Num :=
  match splitSlash s with
  | some (a, b) =>          -- strings.ContainsRune(s, '/')
    match ratSetFrac a b with
    | some q => some (normalizeBigRat q)
    | none => none
  | none =>
    match intSetString s with
    | some z => some (normalizeBigInt z)
    | none =>
      match parseFloat s with
      | some f => some (.float f)
      | none => none

/-! ## ToString -/

/-- Decimal digits of a natural number (`strconv.Itoa`, `big.Int.String`). -/
def natToDec (n : Nat) : Bytes :=
  if n < 10 then [UInt8.ofNat (48 + n)]
  else natToDec (n / 10) ++ [UInt8.ofNat (48 + n % 10)]
decreasing_by omega

def intToDec (z : Int) : Bytes :=
  if z < 0 then 0x2D :: natToDec z.natAbs else natToDec z.natAbs

/-- `(*big.Rat).String` -/
def ratToString (q : Rat) : Bytes := intToDec q.num ++ 0x2F :: natToDec q.den

/-- The library functions elvish formats floats with, by bit pattern:
`strconv.FormatFloat(f, 'f', -1, 64)` and `strconv.FormatFloat(f, 'e', -1, 64)`. -/
structure Strconv where
  fmtF : Nat → Bytes
  fmtE : Nat → Bytes

def isNaN (bits : Nat) : Bool := 0x7FF0000000000000 < bits % signBit
def isInf (bits : Nat) : Bool := bits % signBit = 0x7FF0000000000000

def hasPrefix : Bytes → Bytes → Bool
  | _, [] => true
  | [], _ :: _ => false
  | c :: cs, p :: ps => c == p && hasPrefix cs ps

def zeroPrefix : Bytes := [0x30, 0x2E, 0x30, 0x30, 0x30, 0x30]  -- "0.0000"

/-- `formatFloat64` given the two library outputs for `f`. -/
def formatFloat64W (sF sE : Bytes) (bits : Nat) : Bytes :=
  let noPoint := !sF.contains 0x2E
  if (noPoint && decide (14 < sF.length) && sF.getLast? == some 0x30) || hasPrefix sF zeroPrefix then sE
  else if noPoint && !isNaN bits && !isInf bits then sF ++ [0x2E, 0x30]
  else sF

def formatFloat64 (L : Strconv) (bits : Nat) : Bytes :=
  formatFloat64W (L.fmtF bits) (L.fmtE bits) bits

/-- `vals.ToString` on numbers. -/
def toString (L : Strconv) : Num → Bytes
  | .int i => intToDec i
  | .big i => intToDec i
  | .rat q => ratToString q
  | .float f => formatFloat64 L f

/-- `repr` of a number: `(num <to-string>)`. -/
def reprNum (L : Strconv) (x : Num) : Bytes :=
  [0x28, 0x6E, 0x75, 0x6D, 0x20] ++ toString L x ++ [0x29]

/-! ## exact-num / inexact-num -/

/-- The exact value of a finite float (`big.Rat.SetFloat64`). -/
def floatToRat (bits : Nat) : Rat :=
  let neg := signBit ≤ bits
  let ef : Nat := (bits % signBit) / 2 ^ 52
  let mf : Nat := bits % 2 ^ 52
  let m : Nat := if ef = 0 then mf else 2 ^ 52 + mf
  let e : Int := (if ef = 0 then 1 else (ef : Int)) - 1075
  let mi : Int := if neg then -(m : Int) else (m : Int)
  if 0 ≤ e then mkRat (mi * 2 ^ e.toNat) 1 else mkRat mi (2 ^ (-e).toNat)

/-- `exact-num` (builtin; the result passes through `FromGo`); `none` = exception. -/
def exactNum : Num → Option Num
  | .float f => if isNaN f || isInf f then none else some (fromGo (.rat (floatToRat f)))
  | n => some n

/-- Bits of the float nearest to the rational `q` (overflow ⇒ ±Inf):
`big.Rat.Float64`, and `float64(int)` for integers. -/
def ratToFloat (q : Rat) : Nat :=
  let mag := roundMag q.num.natAbs q.den
  let mag := if infBits ≤ mag then infBits else mag
  if q.num < 0 then signBit + mag else mag

/-- `ConvertToFloat64` (what `inexact-num` does to its argument). -/
def convertToFloat64 : Num → Nat
  | .int i => ratToFloat (mkRat i 1)
  | .big i =>
    if fitsInt i then ratToFloat (mkRat i 1)           -- `num.IsInt64()`
    else if 0 < i then infBits else signBit + infBits  -- `math.Inf(num.Sign())`
  | .rat q => ratToFloat q
  | .float f => f

end C05
