/-
C05 spec side, round 2: the *complete* grammars — every string `vals.ParseNum`
accepts — as structured literals with renderers and independent value
functions.  They extend the documented syntaxes of Spec.lean by what Go's
library grammars take in addition:

* integers: the legacy octal form `0 (_? d)+` (`010`, `0_7`);
* floats: hexadecimal floats `0x1.8p3`, a mantissa without integer part (`.5`)
  or without fraction digits (`5.`), a bare digit string that the integer
  grammar does not take (`09`, `0_8`), exponents of any length;
* `inf`/`infinity` (optionally signed) and `nan`, in any letter case.

`ElvProofs/C05/Classify.lean` proves that ParseNum accepts exactly the
renderings of these literals (minus float literals whose value overflows).
-/
import ElvModel.C05.Spec
namespace C05
open Go

/-! ## integers -/

/-- Everything `nat.scan(base 0)` takes: a `NatLit` (decimal without leading
zero, `0x`/`0o`/`0b` + digits), or Go's legacy octal `0 (_? d)+`. -/
inductive GNat where
  | lit (l : NatLit)
  | oct0 (rest : List (Bool × Dig))
  deriving DecidableEq, Repr

def GNat.wf : GNat → Bool
  | .lit l => l.wf
  | .oct0 r => !r.isEmpty && r.all fun x => decide (x.2.val < 8)

def GNat.render : GNat → Bytes
  | .lit l => l.render
  | .oct0 r => 0x30 :: renderRest r

def GNat.value : GNat → Nat
  | .lit l => l.value
  | .oct0 r => valRest 8 0 r

/-- optional sign + `GNat` -/
structure GInt where
  sign : Sign
  mag : GNat
  deriving DecidableEq, Repr

def GInt.wf (l : GInt) : Bool := l.mag.wf
def GInt.render (l : GInt) : Bytes := l.sign.bytes ++ l.mag.render
def GInt.value (l : GInt) : Int := if l.sign.isNeg then -(l.mag.value : Int) else l.mag.value

/-- `a/b`: signed integer, slash, *unsigned* integer ≠ 0 -/
structure GRat where
  num : GInt
  den : GNat
  deriving DecidableEq, Repr

def GRat.wf (l : GRat) : Bool := l.num.wf && l.den.wf && l.den.value != 0
def GRat.render (l : GRat) : Bytes := l.num.render ++ 0x2F :: l.den.render
def GRat.value (l : GRat) : Rat := mkRat l.num.value l.den.value

/-! ## floats -/

def optRender : Option Digits → Bytes
  | none => []
  | some d => d.render

def optAll (p : Dig → Bool) : Option Digits → Bool
  | none => true
  | some d => d.all p

/-- value of optional digits appended to the accumulator `a` in base `b` -/
def optVal (b a : Nat) : Option Digits → Nat
  | none => a
  | some d => valRest b (a * b + d.first.val) d.rest

def optLen : Option Digits → Nat
  | none => 0
  | some d => d.len

/-- One step of the exponent accumulation as Go does it: digits are dropped
once the exponent has reached 10000 ("it doesn't matter if it's not the exact
number"). -/
def capStep (e d : Nat) : Nat := if e < 10000 then e * 10 + d else e

def capRest (e : Nat) : List (Bool × Dig) → Nat
  | [] => e
  | (_, d) :: r => capRest (capStep e d.val) r

/-- the exponent Go reads from exponent digits of any length; equals their
decimal value whenever that is below 100000 (`capExp_eq`) -/
def capExp (ds : Digits) : Nat := capRest (capStep 0 ds.first.val) ds.rest

/-- A float literal in full generality:
`sign? (0[xX] _?)? int? .? frac? ([eEpP] sign? digits)?`. -/
structure GFloatLit where
  sign : Sign
  hex : Option (Bool × Bool)      -- `0x` prefix: upper-case `X`?, an underscore right after it?
  int : Option Digits
  point : Bool
  frac : Option Digits
  exp : Option (Bool × Sign × Digits)   -- upper-case exponent letter?, sign, decimal digits
  deriving DecidableEq, Repr

def GFloatLit.isHex (l : GFloatLit) : Bool := l.hex.isSome
def GFloatLit.radix (l : GFloatLit) : Nat := if l.isHex then 16 else 10

/-- at least one mantissa digit; fraction digits need the point; a hex mantissa
needs a `p` exponent; an underscore after `0x` needs an integer digit after it -/
def GFloatLit.wf (l : GFloatLit) : Bool :=
  optAll (fun d => decide (d.val < l.radix)) l.int &&
  optAll (fun d => decide (d.val < l.radix)) l.frac &&
  (match l.exp with | some (_, _, e) => e.all isDecDig | none => true) &&
  (l.int.isSome || l.frac.isSome) &&
  (!l.frac.isSome || l.point) &&
  (!l.isHex || l.exp.isSome) &&
  (match l.hex with | some (_, true) => l.int.isSome | _ => true)

def GFloatLit.pfx (l : GFloatLit) : Bytes :=
  match l.hex with
  | some (up, us) => [0x30, if up then 0x58 else 0x78] ++ (if us then [0x5F] else [])
  | none => []

def GFloatLit.mantBytes (l : GFloatLit) : Bytes :=
  optRender l.int ++ ((if l.point then [0x2E] else []) ++ optRender l.frac)

def GFloatLit.expLetter (l : GFloatLit) (up : Bool) : UInt8 :=
  if l.isHex then (if up then 0x50 else 0x70) else (if up then 0x45 else 0x65)

def GFloatLit.expBytes (l : GFloatLit) : Bytes :=
  match l.exp with
  | some (up, sg, e) => l.expLetter up :: (sg.bytes ++ e.render)
  | none => []

def GFloatLit.render (l : GFloatLit) : Bytes :=
  l.sign.bytes ++ (l.pfx ++ (l.mantBytes ++ l.expBytes))

/-- what `readFloat` should extract; the written exponent is Go's capped one -/
def GFloatLit.lit (l : GFloatLit) : FloatLit :=
  { neg := l.sign.isNeg, hex := l.isHex,
    mant := optVal l.radix (optVal l.radix 0 l.int) l.frac,
    frac := optLen l.frac,
    exp := (match l.exp with
            | some (_, sg, e) => if sg.isNeg then -(capExp e : Int) else (capExp e : Int)
            | none => 0) }

/-- the same with the *true* value of the exponent digits -/
def GFloatLit.trueLit (l : GFloatLit) : FloatLit :=
  { l.lit with
    exp := (match l.exp with
            | some (_, sg, e) => if sg.isNeg then -(e.value 10 : Int) else (e.value 10 : Int)
            | none => 0) }

/-- exponent value below 100000: Go's cap is inert -/
def GFloatLit.expSmall (l : GFloatLit) : Bool :=
  match l.exp with
  | some (_, _, e) => decide (e.value 10 < 100000)
  | none => true

/-- point or exponent present (what separates a float literal from an integer) -/
def GFloatLit.marked (l : GFloatLit) : Bool := l.point || l.exp.isSome

/-! ## inf / nan -/

def lowerAscii (c : UInt8) : UInt8 := if 0x41 ≤ c ∧ c ≤ 0x5A then c + 0x20 else c

def infLit : Bytes := [0x69, 0x6E, 0x66]

/-- `inf`, `infinity` (optionally signed), `nan`, in any letter case -/
def specialValue (s : Bytes) : Option Nat :=
  let t := s.map lowerAscii
  if t = infLit ∨ t = 0x2B :: infLit ∨ t = infinityLit ∨ t = 0x2B :: infinityLit then some infBits
  else if t = 0x2D :: infLit ∨ t = 0x2D :: infinityLit then some (signBit + infBits)
  else if t = nanLit then some nanBits
  else none

end C05
