import ElvModel.Go.Driver
import ElvModel.C05.Model
import ElvModel.C05.Spec
namespace C05
open Go

def hexDigits16 (n : Nat) : String :=
  String.ofList ((List.range 16).reverse.map fun i => hexDigit ((n / 16 ^ i) % 16))

def showNum : Option Num → String
  | none => "nil"
  | some (.int i) => s!"int {i}"
  | some (.big i) => s!"big {i}"
  | some (.rat q) => s!"rat {q.num}/{q.den}"
  | some (.float b) => s!"float {hexDigits16 b}"

def hexNat? (s : String) : Option Nat :=
  s.toList.foldl (fun acc c => do let a ← acc; let v ← hexVal c; pure (a * 16 + v)) (some 0)

/-- A number given in the op line, with the library outputs for floats. -/
def decodeNum : List String → Option (Num × Strconv)
  | ["int", n] => do let i ← n.toInt?; pure (.int i, ⟨fun _ => [], fun _ => []⟩)
  | ["big", n] => do let i ← n.toInt?; pure (.big i, ⟨fun _ => [], fun _ => []⟩)
  | ["rat", n, d] => do
    let i ← n.toInt?; let j ← d.toNat?
    if j = 0 then none else pure (.rat (mkRat i j), ⟨fun _ => [], fun _ => []⟩)
  | ["float", b, hF, hE] => do
    let bits ← hexNat? b; let sF ← hexDecode hF; let sE ← hexDecode hE
    pure (.float bits, ⟨fun _ => sF, fun _ => sE⟩)
  | _ => none

def hypTag (x : Num) (L : Strconv) : String :=
  match x with
  | .float f => if strconvOKAt L f then " h=ok" else " h=BAD"
  | _ => ""

/-- ops (fields after the op name):
* `parse|num|lit|bad <hex s> …`      → `nil | int N | big N | rat N/D | float BITS`
* `str <num…>`                       → `<hex ToString x> <ParseNum of it>[ h=ok]`
* `bstr <num…>`                      → the same through the builtins + `<hex repr x>`
* `norm N D`, `normi N`              → NormalizeBigRat / NormalizeBigInt
* `exact <hex s>`, `inexact <hex s>` → the builtins on a string argument -/
def stepLine : List String → String
  | op :: hs :: rest =>
    if op = "parse" ∨ op = "num" ∨ op = "lit" ∨ op = "bad" then
      match hexDecode hs with
      | some s => showNum (parseNum s)
      | none => "bad-op"
    else if op = "exact" then
      match hexDecode hs with
      | some s =>
        match parseNum s with
        | none => "exc"
        | some x => match exactNum x with
          | none => "exc"
          | some y => showNum (some y)
      | none => "bad-op"
    else if op = "inexact" then
      match hexDecode hs with
      | some s =>
        match parseNum s with
        | none => "exc"
        | some x => showNum (some (.float (convertToFloat64 x)))
      | none => "bad-op"
    else if op = "str" ∨ op = "bstr" then
      match decodeNum (hs :: rest) with
        | some (x, L) =>
          let s := toString L x
          let base := s!"{hexEnc s} {showNum (parseNum s)}"
          let base := if op = "bstr" then base ++ s!" {hexEnc (reprNum L x)}" else base
          base ++ hypTag x L
        | none => "bad-op"
    else if op = "norm" then
      match hs.toInt?, rest with
        | some n, [ds] => match ds.toNat? with
          | some d => if d = 0 then "bad-op" else showNum (some (normalizeBigRat (mkRat n d)))
          | none => "bad-op"
        | _, _ => "bad-op"
    else if op = "normi" then
      match hs.toInt? with
      | some n => showNum (some (normalizeBigInt n))
      | none => "bad-op"
    else "bad-op"
  | _ => "bad-op"

def driver : Driver := Driver.pure stepLine
end C05
