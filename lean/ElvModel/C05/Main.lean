import ElvModel.C05.Driver
def main : IO Unit := C05.driver.main
