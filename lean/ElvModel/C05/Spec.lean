/-
C05 spec side: the shapes of strconv's shortest-digit outputs (library
hypotheses of the float round-trip theorem; the driver evaluates the same
recognisers on every output of the installed Go), and the documented literal
syntaxes of website/ref/language.md "Number" as *structured literals* with a
renderer and an independent value function.
-/
import ElvModel.C05.Model
namespace C05
open Go

/-! ## Shapes of `strconv.FormatFloat(f, 'f'|'e', -1, 64)` for finite `f` -/

def isDigits (s : Bytes) : Bool := !s.isEmpty && s.all isDec

def stripMinus : Bytes → Bytes
  | c :: cs => if c = 0x2D then cs else c :: cs
  | [] => []

/-- `-?d+(\.d+)?` -/
def isFShape (s : Bytes) : Bool :=
  let b := stripMinus s
  match splitByte 0x2E b with
  | none => isDigits b
  | some (i, f) => isDigits i && isDigits f

/-- `-?d(\.d+)?e[+-]dd+` -/
def isEShape (s : Bytes) : Bool :=
  let b := stripMinus s
  match splitByte 0x65 b with
  | none => false
  | some (m, ex) =>
    (match m with
     | [d] => isDec d
     | d :: p :: f => isDec d && p == 0x2E && isDigits f
     | [] => false) &&
    (match ex with
     | sg :: ds => (sg == 0x2B || sg == 0x2D) && decide (2 ≤ ds.length) && ds.all isDec
     | [] => false)

def nanStr : Bytes := [0x4E, 0x61, 0x4E]          -- "NaN"
def pInfStr : Bytes := [0x2B, 0x49, 0x6E, 0x66]   -- "+Inf"
def nInfStr : Bytes := [0x2D, 0x49, 0x6E, 0x66]   -- "-Inf"

/-- What is assumed of strconv for the bit pattern `f` (checked by the driver
on every float the harness generates, with Go's actual outputs). -/
def strconvOKAt (L : Strconv) (f : Nat) : Bool :=
  if isNaN f then L.fmtF f == nanStr
  else if f = infBits then L.fmtF f == pInfStr
  else if f = signBit + infBits then L.fmtF f == nInfStr
  else isFShape (L.fmtF f) && isEShape (L.fmtE f) &&
       parseFloat (L.fmtF f) == some f && parseFloat (L.fmtE f) == some f

/-- The representations elvish itself produces for exact numbers (num.go design
note: "each number in Elvish only has a single unique representation"). -/
def Num.CanonicalExact : Num → Prop
  | .int i => fitsInt i = true
  | .big i => fitsInt i = false
  | .rat q => q.den ≠ 1
  | .float _ => False

/-- The number alphabet `[0-9A-Za-z_+-./]`: every byte of every string that any of
the three grammars accepts. -/
def isNumByte (c : UInt8) : Bool :=
  isDec c || (0x61 ≤ c && c ≤ 0x7A) || (0x41 ≤ c && c ≤ 0x5A) ||
  c == 0x5F || c == 0x2B || c == 0x2D || c == 0x2E || c == 0x2F

/-! ## Documented literal syntaxes, structurally -/

/-- Optional sign of a literal. -/
inductive Sign where
  | none | plus | minus
  deriving DecidableEq, Repr

def Sign.bytes : Sign → Bytes
  | .none => []
  | .plus => [0x2B]
  | .minus => [0x2D]

def Sign.isNeg : Sign → Bool
  | .minus => true
  | _ => false

/-- A digit: its value and, for letters, whether it is written upper-case. -/
structure Dig where
  val : Nat
  upper : Bool
  deriving DecidableEq, Repr

def Dig.byte (d : Dig) : UInt8 :=
  if d.val < 10 then UInt8.ofNat (48 + d.val)
  else if d.upper then UInt8.ofNat (55 + d.val) else UInt8.ofNat (87 + d.val)

/-- Digits with an optional underscore *before* each digit but the first:
`d (_? d)*`.  `(us, d)` = digit `d` preceded by an underscore iff `us`. -/
structure Digits where
  first : Dig
  rest : List (Bool × Dig)
  deriving DecidableEq, Repr

def renderRest : List (Bool × Dig) → Bytes
  | [] => []
  | (us, d) :: r => (if us then [0x5F] else []) ++ d.byte :: renderRest r

def Digits.render (ds : Digits) : Bytes := ds.first.byte :: renderRest ds.rest

/-- Value of the rest digits appended to accumulator `a` in base `b`. -/
def valRest (b : Nat) (a : Nat) : List (Bool × Dig) → Nat
  | [] => a
  | (_, d) :: r => valRest b (a * b + d.val) r

def Digits.value (b : Nat) (ds : Digits) : Nat := valRest b ds.first.val ds.rest

def Digits.all (p : Dig → Bool) (ds : Digits) : Bool := p ds.first && ds.rest.all fun x => p x.2

def Digits.len (ds : Digits) : Nat := ds.rest.length + 1

/-- Base of an integer literal. -/
inductive Base where
  | dec | hex | oct | bin
  deriving DecidableEq, Repr

def Base.radix : Base → Nat
  | .dec => 10 | .hex => 16 | .oct => 8 | .bin => 2

/-- prefix bytes; `up` = the letter is upper-case -/
def Base.pfx (b : Base) (up : Bool) : Bytes :=
  match b with
  | .dec => []
  | .hex => [0x30, if up then 0x58 else 0x78]
  | .oct => [0x30, if up then 0x4F else 0x6F]
  | .bin => [0x30, if up then 0x42 else 0x62]

/-- An unsigned integer literal of the documented syntaxes: decimal without a
leading zero (or `0` itself), `0x`/`0o`/`0b` + digits; underscores between
digits (and, as Go allows, after a base prefix). -/
structure NatLit where
  base : Base
  upPfx : Bool
  usAfterPfx : Bool      -- only meaningful with a base prefix
  digits : Digits
  deriving DecidableEq, Repr

def NatLit.wf (l : NatLit) : Bool :=
  l.digits.all (fun d => decide (d.val < l.base.radix)) &&
  (l.base != .dec || (l.digits.first.val != 0 || l.digits.rest.isEmpty))

def NatLit.render (l : NatLit) : Bytes :=
  l.base.pfx l.upPfx ++ (if l.usAfterPfx && l.base != .dec then [0x5F] else []) ++ l.digits.render

def NatLit.value (l : NatLit) : Nat := l.digits.value l.base.radix

structure IntLit where
  sign : Sign
  mag : NatLit
  deriving DecidableEq, Repr

def IntLit.wf (l : IntLit) : Bool := l.mag.wf
def IntLit.render (l : IntLit) : Bytes := l.sign.bytes ++ l.mag.render
def IntLit.value (l : IntLit) : Int := if l.sign.isNeg then -(l.mag.value : Int) else l.mag.value

/-- `a/b`: an integer literal, a slash, an unsigned integer literal ≠ 0. -/
structure RatLit where
  num : IntLit
  den : NatLit
  deriving DecidableEq, Repr

def RatLit.wf (l : RatLit) : Bool := l.num.wf && l.den.wf && l.den.value != 0
def RatLit.render (l : RatLit) : Bytes := l.num.render ++ 0x2F :: l.den.render
def RatLit.value (l : RatLit) : Rat := mkRat l.num.value l.den.value

/-- Bit pattern of the IEEE 754 round-to-nearest-even value of a literal
`readFloat` extracted: overflow gives ±Inf, the sign survives on zero. -/
def FloatLit.ieeeBits (l : FloatLit) : Nat :=
  let q := l.value
  let mag := roundMag q.num.natAbs q.den
  let mag := if infBits ≤ mag then infBits else mag
  if l.neg then signBit + mag else mag

/-- Does the correctly rounded value overflow to ±Inf? -/
def FloatLit.overflows (l : FloatLit) : Bool :=
  let q := l.value
  decide (infBits ≤ roundMag q.num.natAbs q.den)

/-- Decimal / scientific float literal: `sign? int (. frac)? (e sign? exp)?` with
at least a point or an exponent. -/
structure DecFloatLit where
  sign : Sign
  int : Digits
  frac : Option Digits
  exp : Option (Bool × Sign × Digits)    -- upper-case `E`?, sign, digits
  deriving DecidableEq, Repr

def isDecDig (d : Dig) : Bool := decide (d.val < 10)

def DecFloatLit.wf (l : DecFloatLit) : Bool :=
  l.int.all isDecDig &&
  (match l.frac with | some f => f.all isDecDig | none => true) &&
  (match l.exp with | some (_, _, e) => e.all isDecDig && decide (e.len ≤ 4) | none => true) &&
  (l.frac.isSome || l.exp.isSome)

def DecFloatLit.render (l : DecFloatLit) : Bytes :=
  l.sign.bytes ++ l.int.render ++
  (match l.frac with | some f => 0x2E :: f.render | none => []) ++
  (match l.exp with
   | some (up, sg, e) => (if up then 0x45 else 0x65) :: (sg.bytes ++ e.render)
   | none => [])

/-- the literal as `readFloat` should see it -/
def DecFloatLit.lit (l : DecFloatLit) : FloatLit :=
  { neg := l.sign.isNeg, hex := false,
    mant := (match l.frac with
             | some f => valRest 10 (valRest 10 l.int.first.val l.int.rest) ((false, f.first) :: f.rest)
             | none => l.int.value 10),
    frac := (match l.frac with | some f => f.len | none => 0),
    exp := (match l.exp with
            | some (_, sg, e) => if sg.isNeg then -(e.value 10 : Int) else (e.value 10 : Int)
            | none => 0) }

end C05
