/-
C12: a transparent description of IEEE-754 binary64 bit patterns — decoding a
pattern to the rational it denotes, and rounding a rational to the nearest
pattern (ties to even).  Everything is plain `Nat`/`Int`/`Rat` arithmetic, so
the kernel can evaluate it and theorems can be proved about it
(`ElvProofs/C12/*`).  It is the specification of "converts to the nearest
double" and of "the exact binary value of a float"; its agreement with Go's
`float64(int)`, `big.Rat.Float64` and `big.Rat.SetFloat64` is checked bit for
bit by the correspondence run.
-/
namespace C12.B64

/-- Bit pattern of `+Inf`; magnitudes (patterns without the sign bit) below it
are the finite ones, and they are ordered like the values they denote. -/
def infMag : Nat := 0x7ff0000000000000

def signBit : Nat := 0x8000000000000000

/-- Every finite double is an integer multiple of `2^-1074`: the multiple
denoted by a finite magnitude pattern (biased exponent `mag / 2^52`, fraction
field `mag % 2^52`). -/
def magUnits (mag : Nat) : Nat :=
  let e := mag / 2 ^ 52
  let m := mag % 2 ^ 52
  if e = 0 then m else (2 ^ 52 + m) * 2 ^ (e - 1)

/-- The rational denoted by a finite magnitude pattern. -/
def magToRat (mag : Nat) : Rat := mkRat (magUnits mag) (2 ^ 1074)

/-- `big.Rat.SetFloat64` on the bit pattern: the exact value of a finite
double, `none` for ±Inf and NaN. -/
def toRat (bits : Nat) : Option Rat :=
  let mag := bits % signBit
  if mag ≥ infMag then none
  else if bits / signBit % 2 = 1 then some (-(magToRat mag)) else some (magToRat mag)

/-- Round `N / D` (`D > 0`) to the nearest natural number, ties to even. -/
def roundHalfEven (N D : Nat) : Nat :=
  let q := N / D
  let r := N % D
  if 2 * r < D then q
  else if D < 2 * r then q + 1
  else if q % 2 = 0 then q else q + 1

/-- `2^k ≤ n/d` for an integer exponent `k`, without division. -/
def pow2Le (k : Int) (n d : Nat) : Bool :=
  if 0 ≤ k then decide (d * 2 ^ k.toNat ≤ n) else decide (d ≤ n * 2 ^ (-k).toNat)

/-- `⌊log₂ (n/d)⌋` for positive `n`, `d`: the difference of the bit lengths,
or one less. -/
def ilog2 (n d : Nat) : Int :=
  let k0 : Int := (n.log2 : Int) - (d.log2 : Int)
  if pow2Le k0 n d then k0 else k0 - 1

/-- The exponent of the unit in the last place used for `n/d`:
`⌊log₂⌋ - 52`, but never below the subnormal spacing `2^-1074`. -/
def ulpExp (n d : Nat) : Int := max (ilog2 n d - 52) (-1074)

/-- Magnitude pattern of the double nearest to `n/d` (`n, d > 0`), ties to
even, overflowing to the pattern of infinity.  With `E = ulpExp n d` the
significand is `M = roundHalfEven (n/d / 2^E)`; the pattern is
`(E + 1074)·2^52 + M` uniformly for subnormals (`E = -1074`, `M < 2^52`),
normals (`2^52 ≤ M < 2^53`) and a rounding carry (`M = 2^53`). -/
def rneMag (n d : Nat) : Nat :=
  let E := ulpExp n d
  let M := if 0 ≤ E then roundHalfEven n (d * 2 ^ E.toNat) else roundHalfEven (n * 2 ^ (-E).toNat) d
  min ((E + 1074).toNat * 2 ^ 52 + M) infMag

/-- Bit pattern of the double nearest to `q` (round to nearest, ties to even;
`+0` for zero; ±Inf on overflow). -/
def rne (q : Rat) : Nat :=
  if q.num = 0 then 0
  else if q.num < 0 then signBit + rneMag q.num.natAbs q.den
  else rneMag q.num.natAbs q.den

def isNaNBits (bits : Nat) : Bool := bits % signBit > infMag
def isInfBits (bits : Nat) : Bool := bits % signBit == infMag

end C12.B64
