/-
C12: `exact-num` / `inexact-num` (pkg/eval/builtin_fn_num.go) on top of C11's
model of the arithmetic builtins, plus the float instance the driver runs:
hardware doubles for the IEEE operations, the transparent `B64` functions for
the conversions between exact numbers and doubles.
-/
import ElvModel.C11.Model
import ElvModel.C12.Binary64
namespace C12
open Go C11

variable {F : Type}

/-- `exactNum`: a float goes through `big.Rat.SetFloat64` (which fails on
±Inf/NaN); anything else is returned as is.  The result is canonicalised by
`FromGo` at the command boundary. -/
def exactNum (ops : F64Ops F) : Num F → Res (Num F)
  | .flt f =>
    match ops.toRat f with
    | none => .exc "finite-float"
    | some r => .ok (.rat r)
  | n => .ok n

/-- `inexactNum(f float64)`: the argument binding (`ScanToGo` into a
`float64`) is `ConvertToFloat64`. -/
def inexactNum (ops : F64Ops F) (n : Num F) : Num F := .flt (convertToFloat64 ops n)

def runC12 (ops : F64Ops F) (cmd : String) (args : List (Num F)) : Option (Res (List (Num F))) :=
  match cmd with
  | "exact-num" =>
    some (match args with
      | [a] => outs (exactNum ops a)
      | _ => .exc "arity")
  | "inexact-num" =>
    some (match args with
      | [a] => .ok [fromGo (inexactNum ops a)]
      | _ => .exc "arity")
  | _ => none

/-! ### `range` on floats (`rangeBuiltinNum[float64]`, pkg/eval/builtin_fn_num.go)

C11's model stops at `range` with a float among start/end/step
(`unmodelled-range-float`); this is that branch.  The comparisons of the float
type are a second parameter (`F64Ops` has none). -/

structure FCmp (F : Type) where
  lt : F → F → Bool
  le : F → F → Bool

/-- `for cur := start; cur < end; cur += step { put cur; if cur+step <= cur { break } }` -/
def rangeFloatUp (ops : F64Ops F) (c : FCmp F) (end_ step : F) : Nat → F → Res (List F)
  | 0, _ => .exc "FUEL"
  | fuel + 1, cur =>
    if c.lt cur end_ then
      if c.le (ops.add cur step) cur then .ok [cur]
      else resMap (cur :: ·) (rangeFloatUp ops c end_ step fuel (ops.add cur step))
    else .ok []

/-- `for cur := start; cur > end; cur += step { put cur; if cur+step >= cur { break } }` -/
def rangeFloatDown (ops : F64Ops F) (c : FCmp F) (end_ step : F) : Nat → F → Res (List F)
  | 0, _ => .exc "FUEL"
  | fuel + 1, cur =>
    if c.lt end_ cur then
      if c.le cur (ops.add cur step) then .ok [cur]
      else resMap (cur :: ·) (rangeFloatDown ops c end_ step fuel (ops.add cur step))
    else .ok []

/-- `rangeBuiltinNum[float64]`: the constants `0`, `1`, `-1` of type `T` are
`float64(0)`, `float64(1)`, `float64(-1)`.  With a NaN among start/end the
first comparison fails and the descending loop runs (zero times). -/
def rangeBuiltinFloat (ops : F64Ops F) (c : FCmp F) (fuel : Nat) (nums : List F) : Res (List F) :=
  match nums with
  | start :: end_ :: tl =>
    if c.le start end_ then
      match tl with
      | [] => rangeFloatUp ops c end_ (ops.ofInt64 1) fuel start
      | [step] =>
        if c.le step (ops.ofInt64 0) then .exc "step-positive"
        else rangeFloatUp ops c end_ step fuel start
      | _ => .panic "unreachable"
    else
      match tl with
      | [] => rangeFloatDown ops c end_ (ops.ofInt64 (-1)) fuel start
      | [step] =>
        if c.le (ops.ofInt64 0) step then .exc "step-negative"
        else rangeFloatDown ops c end_ step fuel start
      | _ => .panic "unreachable"
  | _ => .panic "index out of range"

/-- `rangeFn` including the float branch (everything else is C11's `rangeFn`). -/
def rangeC12 (ops : F64Ops F) (c : FCmp F) (fuel : Nat) (args : List (Num F)) (step : Option (Num F)) :
    Res (List (Num F)) :=
  let raw? : Option (List (Num F)) :=
    match args with
    | [e] => some [.int 0, e]
    | [s, e] => some [s, e]
    | _ => none
  match raw? with
  | none => rangeFn ops args step
  | some raw =>
    let raw := match step with
      | some s => raw ++ [s]
      | none => raw
    match unifyNums ops raw .int with
    | .ok (.flts l) => resMap (·.map fun f => fromGo (.flt f)) (rangeBuiltinFloat ops c fuel l)
    | _ => rangeFn ops args step

/-! ### The driver's instance -/

def fOfBits (b : Nat) : Float := Float.ofBits (UInt64.ofNat b)

def negZero : Float := fOfBits B64.signBit

/-- `math.Trunc` from floor/ceil (both keep the sign of a zero result). -/
def fTrunc (x : Float) : Float := if x < 0 then x.ceil else x.floor

/-- `math.RoundToEven` from C `round` (half away from zero): on an exact tie
with an odd result step back towards zero, keeping the sign for a zero result. -/
def fRoundEven (x : Float) : Float :=
  let r := x.round
  if (r - x).abs == 0.5 && (r / 2).floor != r / 2 then
    let r' := if x < 0 then r + 1 else r - 1
    if r' == 0 then (if x < 0 then negZero else 0) else r'
  else r

def fIsNegZero (x : Float) : Bool := x == 0 && x.toBits != 0

/-- Go's `math.Max` (special cases first). -/
def fMax (x y : Float) : Float :=
  if (x.isInf && x > 0) || (y.isInf && y > 0) then fOfBits B64.infMag
  else if x.isNaN || y.isNaN then fOfBits 0x7ff8000000000001
  else if x == 0 && x == y then (if fIsNegZero x then y else x)
  else if x > y then x else y

/-- Go's `math.Min`. -/
def fMin (x y : Float) : Float :=
  if (x.isInf && x < 0) || (y.isInf && y < 0) then fOfBits (B64.signBit + B64.infMag)
  else if x.isNaN || y.isNaN then fOfBits 0x7ff8000000000001
  else if x == 0 && x == y then (if fIsNegZero x then x else y)
  else if x < y then x else y

def hwOps : F64Ops Float where
  add := (· + ·)
  sub := (· - ·)
  mul := (· * ·)
  div := (· / ·)
  neg := Float.neg
  abs := Float.abs
  floor := Float.floor
  ceil := Float.ceil
  round := Float.round
  roundEven := fRoundEven
  trunc := fTrunc
  max := fMax
  min := fMin
  pow := Float.pow
  isInf := Float.isInf
  ofInt64 n := fOfBits (B64.rne (n : Rat))
  ofRat q := fOfBits (B64.rne q)
  inf s := if 0 ≤ s then fOfBits B64.infMag else fOfBits (B64.signBit + B64.infMag)
  toRat f := B64.toRat f.toBits.toNat


def hwCmp : FCmp Float where
  lt a b := decide (a < b)
  le a b := decide (a ≤ b)

end C12
