/-
C12: `exact-num` / `inexact-num` (pkg/eval/builtin_fn_num.go) on top of C11's
model of the arithmetic builtins, plus the float instance the driver runs:
hardware doubles for the IEEE operations, the transparent `B64` functions for
the conversions between exact numbers and doubles.
-/
import ElvModel.C11.Model
import ElvModel.C12.Binary64
namespace C12
open Go C11

variable {F : Type}

/-- `exactNum`: a float goes through `big.Rat.SetFloat64` (which fails on
±Inf/NaN); anything else is returned as is.  The result is canonicalised by
`FromGo` at the command boundary. -/
def exactNum (ops : F64Ops F) : Num F → Res (Num F)
  | .flt f =>
    match ops.toRat f with
    | none => .exc "finite-float"
    | some r => .ok (.rat r)
  | n => .ok n

/-- `inexactNum(f float64)`: the argument binding (`ScanToGo` into a
`float64`) is `ConvertToFloat64`. -/
def inexactNum (ops : F64Ops F) (n : Num F) : Num F := .flt (convertToFloat64 ops n)

def runC12 (ops : F64Ops F) (cmd : String) (args : List (Num F)) : Option (Res (List (Num F))) :=
  match cmd with
  | "exact-num" =>
    some (match args with
      | [a] => outs (exactNum ops a)
      | _ => .exc "arity")
  | "inexact-num" =>
    some (match args with
      | [a] => .ok [fromGo (inexactNum ops a)]
      | _ => .exc "arity")
  | _ => none

/-! ### The driver's instance -/

def fOfBits (b : Nat) : Float := Float.ofBits (UInt64.ofNat b)

def negZero : Float := fOfBits B64.signBit

/-- `math.Trunc` from floor/ceil (both keep the sign of a zero result). -/
def fTrunc (x : Float) : Float := if x < 0 then x.ceil else x.floor

/-- `math.RoundToEven` from C `round` (half away from zero): on an exact tie
with an odd result step back towards zero, keeping the sign for a zero result. -/
def fRoundEven (x : Float) : Float :=
  let r := x.round
  if (r - x).abs == 0.5 && (r / 2).floor != r / 2 then
    let r' := if x < 0 then r + 1 else r - 1
    if r' == 0 then (if x < 0 then negZero else 0) else r'
  else r

def fIsNegZero (x : Float) : Bool := x == 0 && x.toBits != 0

/-- Go's `math.Max` (special cases first). -/
def fMax (x y : Float) : Float :=
  if (x.isInf && x > 0) || (y.isInf && y > 0) then fOfBits B64.infMag
  else if x.isNaN || y.isNaN then fOfBits 0x7ff8000000000001
  else if x == 0 && x == y then (if fIsNegZero x then y else x)
  else if x > y then x else y

/-- Go's `math.Min`. -/
def fMin (x y : Float) : Float :=
  if (x.isInf && x < 0) || (y.isInf && y < 0) then fOfBits (B64.signBit + B64.infMag)
  else if x.isNaN || y.isNaN then fOfBits 0x7ff8000000000001
  else if x == 0 && x == y then (if fIsNegZero x then x else y)
  else if x < y then x else y

def hwOps : F64Ops Float where
  add := (· + ·)
  sub := (· - ·)
  mul := (· * ·)
  div := (· / ·)
  neg := Float.neg
  abs := Float.abs
  floor := Float.floor
  ceil := Float.ceil
  round := Float.round
  roundEven := fRoundEven
  trunc := fTrunc
  max := fMax
  min := fMin
  pow := Float.pow
  isInf := Float.isInf
  ofInt64 n := fOfBits (B64.rne (n : Rat))
  ofRat q := fOfBits (B64.rne q)
  inf s := if 0 ≤ s then fOfBits B64.infMag else fOfBits (B64.signBit + B64.infMag)
  toRat f := B64.toRat f.toBits.toNat

end C12
