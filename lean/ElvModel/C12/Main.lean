import ElvModel.C12.Driver
def main : IO Unit := C12.driver.main
