import ElvModel.Go.Driver
import ElvModel.C11.Driver
import ElvModel.C12.Model
/-
C12 driver.  Same op lines as C11 (`cmd <TAB> step|- <TAB> arg…`), plus the
commands `exact-num` and `inexact-num`.  Floats are hardware doubles; outputs
print their bit pattern (`f:<16 hex>`), every NaN as `f:NaN`.
-/
namespace C12
open Go C11

def hex16 (n : Nat) : String :=
  String.ofList ((List.range 16).reverse.map fun i => hexDigit (n / 16 ^ i % 16))

def showFloat (f : Float) : String :=
  if f.isNaN then "NaN" else hex16 f.toBits.toNat

def parseFloat (s : String) : Option Float :=
  if s = "NaN" then some (fOfBits 0x7ff8000000000001)
  else (parseHex64 s).map Float.ofBits

def stepLine : List String → String :=
  stepWith hwOps parseFloat showFloat (fun cmd args => runC12 hwOps cmd args)

def driver : Driver := Driver.pure stepLine
end C12
