import ElvModel.Go.Driver
import ElvModel.C11.Driver
import ElvModel.C12.Model
/-
C12 driver.  Same op lines as C11 (`cmd <TAB> step|- <TAB> arg…`), plus the
commands `exact-num` and `inexact-num`, and `range` with its float branch.  Floats are hardware doubles; outputs
print their bit pattern (`f:<16 hex>`), every NaN as `f:NaN`.
-/
namespace C12
open Go C11

def hex16 (n : Nat) : String :=
  String.ofList ((List.range 16).reverse.map fun i => hexDigit (n / 16 ^ i % 16))

def showFloat (f : Float) : String :=
  if f.isNaN then "NaN" else hex16 f.toBits.toNat

def parseFloat (s : String) : Option Float :=
  if s = "NaN" then some (fOfBits 0x7ff8000000000001)
  else (parseHex64 s).map Float.ofBits

/-- `range` needs the `&step` option together with the arguments, which C11's
`stepWith` does not hand to its extension hook: decode the line here. -/
def rangeLine (st : String) (args : List String) : String :=
  match args.mapM (parseNumWith parseFloat) with
  | none => "bad-op"
  | some nums =>
    let step? : Option (Option (Num Float)) :=
      if st = "-" then some none else (parseNumWith parseFloat st).map some
    match step? with
    | none => "bad-op"
    | some step => showRes showFloat (rangeC12 hwOps hwCmp 100000 nums step)

def stepLine : List String → String
  | "range" :: st :: args => rangeLine st args
  | l => stepWith hwOps parseFloat showFloat (fun cmd args => runC12 hwOps cmd args) l

def driver : Driver := Driver.pure stepLine
end C12
