/-
C33 model: pkg/ui — `Style`, `Segment`, `Text`, the stylings of styling.go,
`TextBuilder` (text_builder.go), `T`, `Concat`, `Partition`, `Clone`,
`SplitByRune`, `TrimWcwidth`, `StyleText`/`StyleSegment`, `TextFromSegment`,
`Segment.Concat/RConcat`, `Text.Concat/RConcat` (text.go, text_segment.go).

The code modelled is the tree after fixes/C33-*.patch (TrimWcwidth and the
Segment/Text Concat methods build their result with the TextBuilder; StyleText
and Clone return nil for an empty text).  `Text` is a list of segments, so "an
empty text is nil" is true by construction in the model; the harness prints a
non-nil empty slice differently so the correspondence checks it on the code.
Widths come from the C34 model (`C34.Of`, `C34.Trim`), generic in the rune
width function `wd`.
-/
import ElvModel.Go.Utf8
import ElvModel.C34.Model
namespace C33
open Go

/-- `ui.Color`: the four implementations in color.go. -/
inductive Color where
  | ansi (n : Nat)
  | bright (n : Nat)
  | xterm (n : Nat)
  | rgb (r g b : Nat)
  deriving DecidableEq, Repr

/-- `ui.Style` (`nil` colour = `none`). -/
structure Style where
  fg : Option Color := none
  bg : Option Color := none
  bold : Bool := false
  dim : Bool := false
  italic : Bool := false
  underlined : Bool := false
  blink : Bool := false
  inverse : Bool := false
  deriving DecidableEq, Repr

/-- `ui.Segment` -/
structure Segment where
  style : Style
  text : Bytes
  deriving DecidableEq, Repr

/-- `ui.Text` -/
abbrev Text := List Segment

/-! ### stylings -/

inductive Field where
  | bold | dim | italic | underlined | blink | inverse
  deriving DecidableEq, Repr

/-- The basic `ui.Styling` values; a `jointStyling` is a list of these. -/
inductive Styling where
  | reset
  | fg (c : Option Color)
  | bg (c : Option Color)
  | on (f : Field)
  | off (f : Field)
  | toggle (f : Field)
  deriving DecidableEq, Repr

def Style.get (s : Style) : Field → Bool
  | .bold => s.bold
  | .dim => s.dim
  | .italic => s.italic
  | .underlined => s.underlined
  | .blink => s.blink
  | .inverse => s.inverse

def Style.set (s : Style) (f : Field) (v : Bool) : Style :=
  match f with
  | .bold => { s with bold := v }
  | .dim => { s with dim := v }
  | .italic => { s with italic := v }
  | .underlined => { s with underlined := v }
  | .blink => { s with blink := v }
  | .inverse => { s with inverse := v }

/-- `Styling.transform` -/
def Styling.transform (t : Styling) (s : Style) : Style :=
  match t with
  | .reset => {}
  | .fg c => { s with fg := c }
  | .bg c => { s with bg := c }
  | .on f => s.set f true
  | .off f => s.set f false
  | .toggle f => s.set f (!s.get f)

/-- `ApplyStyling(s, ts...)` -/
def applyStyling (s : Style) (ts : List Styling) : Style := ts.foldl (fun s t => t.transform s) s

/-- `StyleSegment(seg, ts...)` -/
def styleSegment (seg : Segment) (ts : List Styling) : Segment :=
  { text := seg.text, style := applyStyling seg.style ts }

/-- `StyleText(t, ts...)` (nil for an empty text, fixes/C33-empty-text-nil.patch). -/
def styleText (t : Text) (ts : List Styling) : Text :=
  if t.isEmpty then [] else t.map fun seg => styleSegment seg ts

/-- `T(s, ts...)` -/
def T (s : Bytes) (ts : List Styling) : Text :=
  if s.isEmpty then [] else styleText [{ style := {}, text := s }] ts

/-- `TextFromSegment(seg)` -/
def textFromSegment (seg : Segment) : Text := if seg.text.isEmpty then [] else [seg]

/-! ### TextBuilder -/

/-- `ui.TextBuilder`: finished segments, and the pending segment's style and text. -/
structure TB where
  segs : List Segment := []
  style : Style := {}
  text : Bytes := []
  deriving Repr

/-- The tail of `WriteText` once `t` is known to be non-empty and its first
segment is not merged: flush the pending segment if non-empty, append all but
the last segment of `t`, make the last one pending. -/
def TB.writeRest (tb : TB) (t : Text) : TB :=
  match t.getLast? with
  | none => tb
  | some last =>
    let segs := if tb.text.isEmpty then tb.segs else tb.segs ++ [{ style := tb.style, text := tb.text }]
    let text := if tb.text.isEmpty then tb.text else []
    { segs := segs ++ t.dropLast, style := last.style, text := text ++ last.text }

/-- `(*TextBuilder).WriteText(t)` -/
def TB.writeText (tb : TB) (t : Text) : TB :=
  match t with
  | [] => tb
  | s0 :: rest =>
    if tb.style = s0.style then
      let tb := { tb with text := tb.text ++ s0.text }
      match rest with
      | [] => tb
      | _ :: _ => tb.writeRest rest
    else tb.writeRest (s0 :: rest)

/-- `(*TextBuilder).Text()` -/
def TB.toText (tb : TB) : Text :=
  if tb.segs.isEmpty && tb.text.isEmpty then [] else tb.segs ++ [{ style := tb.style, text := tb.text }]

/-- `Concat(texts...)` -/
def Concat (texts : List Text) : Text := (texts.foldl TB.writeText {}).toText

/-- `Text.Clone()` (nil for an empty text, fixes/C33-empty-text-nil.patch). -/
def clone (t : Text) : Text := t

/-! ### Partition -/

/-- The inner loop of `Partition` for one index: consume `toConsume` bytes from
the front of `segs`; returns the part and the remaining segments. -/
def consume : Text → Int → Text × Text
  | [], _ => ([], [])
  | seg :: rest, toConsume =>
    if toConsume > 0 then
      if (seg.text.length : Int) ≤ toConsume then
        let (a, b) := consume rest (toConsume - seg.text.length)
        (seg :: a, b)
      else
        ([{ style := seg.style, text := seg.text.take toConsume.toNat }],
         { style := seg.style, text := seg.text.drop toConsume.toNat } :: rest)
    else ([], seg :: rest)

def partitionGo : Text → Int → List Int → List Text
  | segs, _, [] => [segs]
  | segs, prev, idx :: rest =>
    let (part, segs) := consume segs (idx - prev)
    part :: partitionGo segs idx rest

/-- `Text.Partition(indices...)`: `toConsume := idx; if i > 0 { toConsume -= indices[i-1] }`. -/
def Partition (t : Text) (indices : List Int) : List Text := partitionGo t 0 indices

/-! ### SplitByRune -/

/-- `strings.Split(s, sep)` for a non-empty `sep`: `skip` bytes of an already
matched separator are still to be skipped. -/
def splitGo (sep : Bytes) : Nat → Bytes → List Bytes
  | _, [] => [[]]
  | skip + 1, _ :: t => splitGo sep skip t
  | 0, b :: t =>
    if sep.isPrefixOf (b :: t) then [] :: splitGo sep (sep.length - 1) t
    else match splitGo sep 0 t with
      | p :: ps => (b :: p) :: ps
      | [] => [[b]]

def splitBytes (sep s : Bytes) : List Bytes := splitGo sep 0 s

/-- `string(r)` for a Go `rune` (negative and invalid values give U+FFFD). -/
def runeString (r : Int) : Bytes := if r < 0 then encodeRune RuneError else encodeRune r.toNat

/-- `Segment.SplitByRune(r)` -/
def Segment.splitByRune (s : Segment) (r : Int) : List Segment :=
  (splitBytes (runeString r) s.text).map fun p => { style := s.style, text := p }

/-- The loop of `Text.SplitByRune`: `result` so far and the `paste` builder. -/
def splitStep (r : Int) (acc : List Text × TB) (seg : Segment) : List Text × TB :=
  match seg.splitByRune r with
  | [] => acc
  | [p] => (acc.1, acc.2.writeText (textFromSegment p))
  | p :: ps =>
    let paste := acc.2.writeText (textFromSegment p)
    let mids := ps.dropLast.map textFromSegment
    let paste2 : TB := match ps.getLast? with
      | some l => ({} : TB).writeText (textFromSegment l)
      | none => {}
    (acc.1 ++ [paste.toText] ++ mids, paste2)

/-- `Text.SplitByRune(r)`; `none` is the nil slice returned for an empty text. -/
def SplitByRune (t : Text) (r : Int) : Option (List Text) :=
  if t.isEmpty then none
  else
    let (result, paste) := t.foldl (splitStep r) ([], {})
    some (result ++ [paste.toText])

/-! ### TrimWcwidth -/

def trimGo (wd : Int → Int) (tb : TB) : Text → Int → TB
  | [], _ => tb
  | seg :: rest, wmax =>
    let w := C34.Of wd seg.text
    if w > wmax then
      tb.writeText (textFromSegment { style := seg.style, text := C34.Trim wd seg.text wmax })
    else trimGo wd (tb.writeText (textFromSegment seg)) rest (wmax - w)

/-- `Text.TrimWcwidth(wmax)` (fixes/C33-trimwcwidth-normalise.patch). -/
def TrimWcwidth (wd : Int → Int) (t : Text) (wmax : Int) : Text := (trimGo wd {} t wmax).toText

/-- The unchanged `TrimWcwidth` (before the fix), kept for the counterexample. -/
def TrimWcwidthOld (wd : Int → Int) : Text → Int → Text
  | [], _ => []
  | seg :: rest, wmax =>
    let w := C34.Of wd seg.text
    if w ≥ wmax then [{ style := seg.style, text := C34.Trim wd seg.text wmax }]
    else seg :: TrimWcwidthOld wd rest (wmax - w)

/-! ### the Concat methods (fixes/C33-segment-concat-normalise.patch) -/

/-- The right-hand sides `Segment.Concat`/`Text.Concat` accept (numbers go
through `vals.ToString` to the string case and are not modelled separately). -/
inductive Rhs where
  | str (s : Bytes)
  | seg (s : Segment)
  | text (t : Text)

/-- `(*Segment).Concat(v)` -/
def Segment.concat (s : Segment) : Rhs → Text
  | .str r => Concat [textFromSegment s, T r []]
  | .seg r => Concat [textFromSegment s, textFromSegment r]
  | .text r => Concat [textFromSegment s, r]

/-- `(*Segment).RConcat(v)` for a string. -/
def Segment.rconcat (s : Segment) (lhs : Bytes) : Text := Concat [T lhs [], textFromSegment s]

/-- `Text.Concat(rhs)` -/
def Text.concat (t : Text) : Rhs → Text
  | .str r => Concat [t, T r []]
  | .seg r => Concat [t, textFromSegment r]
  | .text r => Concat [t, r]

/-- `Text.RConcat(lhs)` for a string. -/
def Text.rconcat (t : Text) (lhs : Bytes) : Text := Concat [T lhs [], t]

/-! ### observations -/

/-- The plain content of a text. -/
def plain (t : Text) : Bytes := (t.map (·.text)).flatten

/-- Every byte of a text with the style it carries. -/
def styledBytes (t : Text) : List (Style × UInt8) := (t.map fun s => s.text.map fun b => (s.style, b)).flatten

/-- The normal form promised by the doc comment of `ui.Text`: no empty segment,
no two adjacent segments with the same style (and an empty text is `nil`, which
is the only empty list). -/
def normalB : Text → Bool
  | [] => true
  | [s] => !s.text.isEmpty
  | s1 :: s2 :: rest => !s1.text.isEmpty && decide (s1.style ≠ s2.style) && normalB (s2 :: rest)

def Normal (t : Text) : Prop := normalB t = true

instance (t : Text) : Decidable (Normal t) := by unfold Normal; exact inferInstance

end C33
