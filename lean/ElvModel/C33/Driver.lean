import ElvModel.Go.Driver
import ElvModel.C33.Model
import ElvModel.C33.Styledown
import ElvModel.C33.History
namespace C33
open Go

def parseColor (s : String) : Option (Option Color) :=
  if s = "d" then some none
  else
    let body := String.ofList (s.toList.drop 1)
    match s.toList.head? with
    | some 'a' => body.toNat?.map fun n => some (.ansi n)
    | some 'b' => body.toNat?.map fun n => some (.bright n)
    | some 'x' => body.toNat?.map fun n => some (.xterm n)
    | some 'r' => match body.splitOn "." with
      | [r, g, b] => match r.toNat?, g.toNat?, b.toNat? with
        | some r, some g, some b => some (some (.rgb r g b))
        | _, _, _ => none
      | _ => none
    | _ => none

def showColor : Option Color → String
  | none => "d"
  | some (.ansi n) => s!"a{n}"
  | some (.bright n) => s!"b{n}"
  | some (.xterm n) => s!"x{n}"
  | some (.rgb r g b) => s!"r{r}.{g}.{b}"

def fields : List Field := [.bold, .dim, .italic, .underlined, .blink, .inverse]

def parseStyle (s : String) : Option Style :=
  match s.splitOn "/" with
  | [fg, bg, bits] => match parseColor fg, parseColor bg, bits.toNat? with
    | some fg, some bg, some n =>
      some { fg, bg, bold := n.testBit 0, dim := n.testBit 1, italic := n.testBit 2,
             underlined := n.testBit 3, blink := n.testBit 4, inverse := n.testBit 5 }
    | _, _, _ => none
  | _ => none

def showStyle (s : Style) : String :=
  let b (x : Bool) (k : Nat) : Nat := if x then 2 ^ k else 0
  let bits := b s.bold 0 + b s.dim 1 + b s.italic 2 + b s.underlined 3 + b s.blink 4 + b s.inverse 5
  s!"{showColor s.fg}/{showColor s.bg}/{bits}"

def parseSegment (s : String) : Option Segment :=
  match s.splitOn ":" with
  | [st, h] => match parseStyle st, hexDecode h with
    | some style, some text => some { style, text }
    | _, _ => none
  | _ => none

def parseText (s : String) : Option Text :=
  if s = "." then some [] else (s.splitOn ",").mapM parseSegment

def showSegment (s : Segment) : String := s!"{showStyle s.style}:{hexEnc s.text}"

def showText (t : Text) : String :=
  if t.isEmpty then "." else ",".intercalate (t.map showSegment)

def showTexts (ts : List Text) : String := "|".intercalate (ts.map showText)

def parseField (s : String) : Option Field := s.toNat?.bind fun n => fields[n]?

def parseStyling (s : String) : Option Styling :=
  if s = "reset" then some .reset
  else if s.startsWith "fg=" then (parseColor (String.ofList (s.toList.drop 3))).map .fg
  else if s.startsWith "bg=" then (parseColor (String.ofList (s.toList.drop 3))).map .bg
  else if s.startsWith "on" then (parseField (String.ofList (s.toList.drop 2))).map .on
  else if s.startsWith "off" then (parseField (String.ofList (s.toList.drop 3))).map .off
  else if s.startsWith "tog" then (parseField (String.ofList (s.toList.drop 3))).map .toggle
  else none

def parseStylings (s : String) : Option (List Styling) :=
  if s = "-" then some [] else (s.splitOn "+").mapM parseStyling

def parseRhs (kind arg : String) : Option Rhs :=
  match kind with
  | "s" => (hexDecode arg).map .str
  | "g" => (parseSegment arg).map .seg
  | "t" => (parseText arg).map .text
  | _ => none

def wd0 : Int → Int := C34.OfRune []

/-- The table of parsed style-character definitions: `hex(line)=rune=style` entries joined by `;`. -/
def parseDefTable (s : String) : Option (List (Bytes × Rune × Style)) :=
  if s = "-" then some []
  else (s.splitOn ";").mapM fun e =>
    match e.splitOn "=" with
    | [h, r, st] => match hexDecode h, r.toNat?, parseStyle st with
      | some line, some r, some st => some (line, r, st)
      | _, _, _ => none
    | _ => none

def tablePd (tbl : List (Bytes × Rune × Style)) : DefParser := fun line => tbl.lookup line

def showRes (r : Res Text) : String :=
  match r with
  | .ok t => showText t
  | .exc _ => "err"
  | .panic _ => "PANIC"

def stepLine : List String → String
  | ["T", h, sts] => match hexDecode h, parseStylings sts with
    | some s, some ts => showText (T s ts)
    | _, _ => "bad-op"
  | ["concat", ts] => match (ts.splitOn "|").mapM parseText with
    | some ts => showText (Concat ts)
    | none => "bad-op"
  | ["partition", t, idx] => match parseText t, (if idx = "-" then some [] else (idx.splitOn ",").mapM String.toInt?) with
    | some t, some idx => showTexts (Partition t idx)
    | _, _ => "bad-op"
  | ["split", t, r] => match parseText t, r.toInt? with
    | some t, some r => match SplitByRune t r with
      | some ts => showTexts ts
      | none => "none"
    | _, _ => "bad-op"
  | ["trimw", t, w] => match parseText t, w.toInt? with
    | some t, some w => showText (TrimWcwidth wd0 t w)
    | _, _ => "bad-op"
  | ["styletext", t, sts] => match parseText t, parseStylings sts with
    | some t, some ts => showText (styleText t ts)
    | _, _ => "bad-op"
  | ["clone", t] => match parseText t with
    | some t => showText (clone t)
    | none => "bad-op"
  | ["segconcat", seg, kind, arg] => match parseSegment seg, parseRhs kind arg with
    | some s, some r => showText (s.concat r)
    | _, _ => "bad-op"
  | ["rsegconcat", seg, h] => match parseSegment seg, hexDecode h with
    | some s, some l => showText (s.rconcat l)
    | _, _ => "bad-op"
  | ["textconcat", t, kind, arg] => match parseText t, parseRhs kind arg with
    | some t, some r => showText (Text.concat t r)
    | _, _ => "bad-op"
  | ["rtextconcat", t, h] => match parseText t, hexDecode h with
    | some t, some l => showText (Text.rconcat t l)
    | _, _ => "bad-op"
  | ["sd", t, defs, tbl] => match parseText t, hexDecode defs, parseDefTable tbl with
    | some t, some defs, some tbl =>
      match sdDerender wd0 (tablePd tbl) t defs with
      | .ok m => s!"der={hexEnc m} ren={showRes (sdRender wd0 (tablePd tbl) m)}"
      | .exc _ => "der=err"
      | .panic _ => "PANIC"
    | _, _, _ => "bad-op"
  | ["sdren", m, tbl] => match hexDecode m, parseDefTable tbl with
    | some m, some tbl => showRes (sdRender wd0 (tablePd tbl) m)
    | _, _ => "bad-op"
  | _ => "bad-op"

/-! ### histories over named values (`reset`, then `h <op> …` lines; operands `$i` = value number `i`) -/

def parseRef (s : String) : Option Ref :=
  if s.startsWith "$" then (String.ofList (s.toList.drop 1)).toNat?.map .reg else (parseText s).map .lit

def parseSegRef (s : String) : Option SegRef :=
  if s.startsWith "$" then
    match (String.ofList (s.toList.drop 1)).splitOn "." with
    | [i, j] => match i.toNat?, j.toNat? with
      | some i, some j => some (.reg i j)
      | _, _ => none
    | _ => none
  else (parseSegment s).map .lit

def parseHRhs (kind arg : String) : Option HRhs :=
  match kind with
  | "s" => (hexDecode arg).map .str
  | "g" => (parseSegRef arg).map .seg
  | "t" => (parseRef arg).map .text
  | _ => none

def parseHOp : List String → Option HOp
  | ["lit", t] => (parseText t).map .lit
  | ["concat", ts] => ((ts.splitOn "|").mapM parseRef).map .concat
  | ["partition", t, idx] => match parseRef t, (if idx = "-" then some [] else (idx.splitOn ",").mapM String.toInt?) with
    | some t, some idx => some (.partition t idx)
    | _, _ => none
  | ["split", t, r] => match parseRef t, r.toInt? with
    | some t, some r => some (.split t r)
    | _, _ => none
  | ["trimw", t, w] => match parseRef t, w.toInt? with
    | some t, some w => some (.trimw t w)
    | _, _ => none
  | ["styletext", t, sts] => match parseRef t, parseStylings sts with
    | some t, some ts => some (.styletext t ts)
    | _, _ => none
  | ["clone", t] => (parseRef t).map .clone
  | ["sub", t, lo, hi] => match parseRef t, lo.toNat?, hi.toNat? with
    | some t, some lo, some hi => some (.sub t lo hi)
    | _, _, _ => none
  | ["textconcat", t, kind, arg] => match parseRef t, parseHRhs kind arg with
    | some t, some r => some (.textconcat t r)
    | _, _ => none
  | ["rtextconcat", t, h] => match parseRef t, hexDecode h with
    | some t, some l => some (.rtextconcat t l)
    | _, _ => none
  | ["segconcat", s, kind, arg] => match parseSegRef s, parseHRhs kind arg with
    | some s, some r => some (.segconcat s r)
    | _, _ => none
  | ["rsegconcat", s, h] => match parseSegRef s, hexDecode h with
    | some s, some l => some (.rsegconcat s l)
    | _, _ => none
  | ["tbwrite", t] => (parseRef t).map .tbwrite
  | ["tbtext"] => some .tbtext
  | ["tbreset"] => some .tbreset
  | _ => none

def showHOut : HOut → String
  | .one t => showText t
  | .many ts => showTexts ts
  | .nothing => "none"
  | .unit => "ok"
  | .err => "err"
  | .badRef => "bad-ref"

def stepState (s : HState) : List String → HState × String
  | ["reset"] => ({}, "ok")
  | "h" :: rest => match parseHOp rest with
    | some op => let r := s.step wd0 op; (r.1, showHOut r.2)
    | none => (s, "bad-op")
  | l => (s, stepLine l)

def driver : Driver := { σ := HState, init := {}, step := stepState }
end C33
