import ElvModel.C33.Driver
def main : IO Unit := C33.driver.main
