/-
C33 model, part 2: pkg/ui/styledown/styledown.go — `Render`, `parseConfig`,
`Derender`, `same` (the tree after fixes/C33-styledown-render-short-style-line.patch:
`Render` reports an error instead of slicing the style line beyond its length).

`parseStyleCharDef` = `strings.Fields`, `utf8.DecodeRuneInString`,
`string(r) == fields[0]`, `wcwidth.OfRune(r) == 1`, `ui.ParseStyling`.  Both
`Render` (`ui.T(string(r), styling)`) and `Derender` (`style(styling)`) use the
styling only through `ApplyStyling(Style{}, styling)`, so a definition is a
rune and a style.  The library/`pkg/ui` part of the parse is the parameter
`pd : Bytes → Option (Rune × Style)` (the driver gets its values for every line
of the op through a table the harness computes with `strings.Fields`,
`utf8.DecodeRuneInString`, `ui.ParseStyling`, `ui.ApplyStyling`); the width check
is modelled here.  Go maps are association lists; errors are `Res.exc`.
-/
import ElvModel.C33.Model
namespace C33
open Go

abbrev DefParser := Bytes → Option (Rune × Style)

/-- `parseStyleCharDef(line)`; every error is `none`. -/
def parseDef (wd : Int → Int) (pd : DefParser) (line : Bytes) : Option (Rune × Style) :=
  match pd line with
  | some (r, st) => if wd (r : Int) = 1 then some (r, st) else none
  | none => none

/-- `BuiltinStyleChars` with `style(styling)` applied: `' '` reset, `'*'` bold, `'_'` underlined, `'#'` inverse. -/
def builtinChars : List (Rune × Style) :=
  [(0x20, {}), (0x2A, { bold := true }), (0x5F, { underlined := true }), (0x23, { inverse := true })]

/-- `"no-eol"` -/
def noEolLine : Bytes := [0x6e, 0x6f, 0x2d, 0x65, 0x6f, 0x6c]

/-- The first loop of `parseConfig`: options and the style sheet of the configuration stanza. -/
def parseConfig (wd : Int → Int) (pd : DefParser) : List Bytes → Bool → List (Rune × Style) →
    Option (Bool × List (Rune × Style))
  | [], noEol, sheet => some (noEol, sheet)
  | line :: rest, noEol, sheet =>
    if line.isEmpty then parseConfig wd pd rest noEol sheet
    else if line = noEolLine then parseConfig wd pd rest true sheet
    else match parseDef wd pd line with
      | none => none
      | some (r, st) =>
        match sheet.lookup r with
        | some _ => none   -- duplicate style definition
        | none => parseConfig wd pd rest noEol (sheet ++ [(r, st)])

/-- `stylesheet[c]` after the second loop of `parseConfig` (builtin characters
that the stanza does not define are added). -/
def sheetLookup (sheet : List (Rune × Style)) (c : Rune) : Option Style :=
  match sheet.lookup c with
  | some s => some s
  | none => builtinChars.lookup c

/-- `same(s)` -/
def same : List Rune → Bool
  | a :: b :: rest => a == b && same (b :: rest)
  | _ => true

/-- The inner loop of `Render` for one content line (`text`, `style` as rune slices). -/
def renderLine (wd : Int → Int) (sheet : List (Rune × Style)) : List Rune → List Rune → TB → Res TB
  | [], _, tb => .ok tb
  | r :: text, style, tb =>
    let w := wd (r : Int)
    if w = 0 then .exc "zero-width character is not allowed"
    else if w < 0 then .panic "slice bounds out of range"
    else if (style.length : Int) < w then .exc "style line too short"
    else if !same (style.take w.toNat) then .exc "inconsistent style"
    else match style.head? with
      | none => .panic "index out of range"   -- unreachable: 1 ≤ w ≤ len(style)
      | some c =>
        match sheetLookup sheet c with
        | none => .exc "unknown style"
        | some st =>
          renderLine wd sheet text (style.drop w.toNat) (tb.writeText [{ style := st, text := encodeRune r }])

/-- `ui.T("\n")` -/
def nlText : Text := [{ style := {}, text := [10] }]

/-- The content loop of `Render`. -/
def renderContent (wd : Int → Int) (sheet : List (Rune × Style)) : List (Bytes × Bytes) → Bool → TB → Res TB
  | [], _, tb => .ok tb
  | (text, style) :: rest, first, tb =>
    let tb := if first then tb else tb.writeText nlText
    match renderLine wd sheet (toRunes text) (toRunes style) tb with
    | .ok tb => renderContent wd sheet rest false tb
    | .exc e => .exc e
    | .panic p => .panic p

/-- `for ; i+1 < len(lines) && wcwidth.Of(lines[i]) == wcwidth.Of(lines[i+1]); i += 2`:
the content pairs and the remaining lines. -/
def splitContent (wd : Int → Int) : List Bytes → List (Bytes × Bytes) × List Bytes
  | a :: b :: rest =>
    if C34.Of wd a = C34.Of wd b then
      let (ps, r) := splitContent wd rest
      ((a, b) :: ps, r)
    else ([], a :: b :: rest)
  | l => ([], l)

/-- `Render(s)` -/
def sdRender (wd : Int → Int) (pd : DefParser) (s : Bytes) : Res Text :=
  let lines := C34.splitNL s
  let (pairs, rest) := splitContent wd lines
  let cfg : Option (List Bytes) := match rest with
    | [] => some []
    | l :: rest' => if l.isEmpty then some rest' else none
  match cfg with
  | none => .exc "text line must be matched by a style line"
  | some cfg =>
    match parseConfig wd pd cfg false [] with
    | none => .exc "bad configuration"
    | some (noEol, sheet) =>
      match renderContent wd sheet pairs true {} with
      | .ok tb => .ok ((if noEol then tb else tb.writeText nlText).toText)
      | .exc e => .exc e
      | .panic p => .panic p

/-! ### Derender -/

/-- The first loop of `Derender`: `charForStyle` and `charDef` from `styleDefs`. -/
def derenderDefs (wd : Int → Int) (pd : DefParser) : List Bytes → List (Style × Rune) → List (Rune × Bytes) →
    Option (List (Style × Rune) × List (Rune × Bytes))
  | [], cfs, cds => some (cfs, cds)
  | line :: rest, cfs, cds =>
    if line.isEmpty then derenderDefs wd pd rest cfs cds
    else match parseDef wd pd line with
      | none => none
      | some (r, st) =>
        if (cfs.lookup st).isSome then none
        else if (cds.lookup r).isSome then none
        else derenderDefs wd pd rest (cfs ++ [(st, r)]) (cds ++ [(r, line)])

/-- `charForStyle[st]` after the builtin characters that `styleDefs` does not
define have been added (they overwrite an entry for the same style). -/
def charFor (cfs : List (Style × Rune)) (cds : List (Rune × Bytes)) (st : Style) : Option Rune :=
  match builtinChars.find? (fun b => b.2 == st && (cds.lookup b.1).isNone) with
  | some b => some b.1
  | none => cfs.lookup st

/-- `charDef[r] = ""` -/
def markWritten (cds : List (Rune × Bytes)) (r : Rune) : List (Rune × Bytes) :=
  cds.map fun p => if p.1 == r then (p.1, []) else p

/-- `strings.Repeat(string(r), n)`; panics for a negative count. -/
def repeatRune (r : Rune) (n : Int) : Res Bytes :=
  if n < 0 then .panic "strings: negative Repeat count"
  else .ok ((List.replicate n.toNat (encodeRune r)).flatten)

structure DLine where
  content : Bytes := []
  style : Bytes := []
  cds : List (Rune × Bytes)
  config : Bytes

/-- The segment loop of `Derender` for one line. -/
def derenderSegs (wd : Int → Int) (cfs : List (Style × Rune)) (cds0 : List (Rune × Bytes)) : Text → DLine → Res DLine
  | [], st => .ok st
  | seg :: rest, st =>
    match charFor cfs cds0 seg.style with
    | none => .exc "style for segment has no char defined"
    | some r =>
      match repeatRune r (C34.Of wd seg.text) with
      | .ok rep =>
        let defLine := match st.cds.lookup r with
          | some l => l
          | none => []
        let st' : DLine :=
          { content := st.content ++ seg.text, style := st.style ++ rep,
            cds := if defLine.isEmpty then st.cds else markWritten st.cds r,
            config := if defLine.isEmpty then st.config else st.config ++ defLine ++ [10] }
        derenderSegs wd cfs cds0 rest st'
      | .exc e => .exc e
      | .panic p => .panic p

/-- The line loop of `Derender`: the content stanza built so far, `charDef`, the configuration stanza. -/
def derenderLines (wd : Int → Int) (cfs : List (Style × Rune)) (cds0 : List (Rune × Bytes)) :
    List Text → Bytes → List (Rune × Bytes) → Bytes → Res (Bytes × Bytes)
  | [], sb, _, config => .ok (sb, config)
  | line :: rest, sb, cds, config =>
    match derenderSegs wd cfs cds0 line { cds := cds, config := config } with
    | .ok st => derenderLines wd cfs cds0 rest (sb ++ st.content ++ [10] ++ st.style ++ [10]) st.cds st.config
    | .exc e => .exc e
    | .panic p => .panic p

/-- `Derender(t, styleDefs)` -/
def sdDerender (wd : Int → Int) (pd : DefParser) (t : Text) (styleDefs : Bytes) : Res Bytes :=
  match derenderDefs wd pd (C34.splitNL styleDefs) [] [] with
  | none => .exc "bad styleDefs"
  | some (cfs, cds) =>
    let lines : List Text := match SplitByRune t 10 with
      | some ls => ls
      | none => []
    let (lines, config0) : List Text × Bytes :=
      match lines.getLast? with
      | some last => if last.isEmpty then (lines.dropLast, []) else (lines, noEolLine ++ [10])
      | none => (lines, noEolLine ++ [10])
    match derenderLines wd cfs cds lines [] cds config0 with
    | .ok (sb, config) => .ok (if config.isEmpty then sb else sb ++ [10] ++ config)
    | .exc e => .exc e
    | .panic p => .panic p

end C33
