/-
C33 model, histories: a sequence of ui operations over NAMED VALUES.

The harness keeps the real Go values (`ui.Text` slices with their backing
arrays, `*ui.Segment` pointers, one `ui.TextBuilder`) in a register file and
feeds them again and again to later operations of the same history
(`t1 = concat t0 s3`, then `t0` is used once more, a part of a partition is
concatenated to something else, a sub-slice `t[lo..hi]` of a value is an
operand, a builder is read with `Text()` between writes).  What the model can
say about such a history is that it has VALUE semantics: every operation is a
function of the values of its operands, producing new values and never changing
a value that already exists.  Go slice aliasing (an `append` that writes into an
operand's backing array) cannot be expressed on lists; that the Go values are
immutable is SAMPLED by the harness: it re-observes every register after every
step (oracle class `operand-mutated`) and the correspondence compares the
results of the later operations, which the model computes from the unchanged
values.
-/
import ElvModel.C33.Model
namespace C33
open Go

/-- A text operand: an earlier value of the history or a literal. -/
inductive Ref where
  | reg (i : Nat)
  | lit (t : Text)

/-- A segment operand: segment `j` of register `i` (`$t[j]`, the pointer is
shared with the text) or a literal. -/
inductive SegRef where
  | reg (i j : Nat)
  | lit (s : Segment)

/-- Right-hand sides of the Concat methods, over operands. -/
inductive HRhs where
  | str (s : Bytes)
  | seg (s : SegRef)
  | text (t : Ref)

/-- One step of a history. -/
inductive HOp where
  | lit (t : Text)
  | concat (xs : List Ref)
  | partition (x : Ref) (idx : List Int)
  | split (x : Ref) (r : Int)
  | trimw (x : Ref) (w : Int)
  | styletext (x : Ref) (ts : List Styling)
  | clone (x : Ref)
  /-- `t[lo..hi]` (`Text.Index` with a slice index): a sub-slice of the operand -/
  | sub (x : Ref) (lo hi : Nat)
  | textconcat (x : Ref) (r : HRhs)
  | rtextconcat (x : Ref) (l : Bytes)
  | segconcat (s : SegRef) (r : HRhs)
  | rsegconcat (s : SegRef) (l : Bytes)
  /-- the history's `TextBuilder` -/
  | tbwrite (x : Ref)
  | tbtext
  | tbreset

/-- The state of a history: the values made so far and the builder. -/
structure HState where
  regs : List Text := []
  tb : TB := {}

/-- What a step prints / produces. -/
inductive HOut where
  /-- one new value -/
  | one (t : Text)
  /-- several new values (the parts) -/
  | many (ts : List Text)
  /-- the nil slice of texts (`SplitByRune` of the empty text): no new value -/
  | nothing
  /-- a builder operation without result -/
  | unit
  /-- `Text.Index` reported an error -/
  | err
  /-- a reference to a value that does not exist (never generated) -/
  | badRef

/-- The values a step adds to the register file. -/
def HOut.values : HOut → List Text
  | .one t => [t]
  | .many ts => ts
  | _ => []

def resolve (regs : List Text) : Ref → Option Text
  | .reg i => regs[i]?
  | .lit t => some t

def resolveSeg (regs : List Text) : SegRef → Option Segment
  | .reg i j => (regs[i]?).bind fun t => t[j]?
  | .lit s => some s

def resolveRhs (regs : List Text) : HRhs → Option Rhs
  | .str s => some (.str s)
  | .seg s => (resolveSeg regs s).map .seg
  | .text t => (resolve regs t).map .text

/-- `Text.Index` with the slice index `lo..hi` (both given, non-negative). -/
def subText (t : Text) (lo hi : Nat) : Option Text :=
  if lo ≤ hi ∧ hi ≤ t.length then some ((t.drop lo).take (hi - lo)) else none

/-- The operation on VALUES: what a step produces from the values of its
operands and the builder, and the builder afterwards. -/
def evalOp (wd : Int → Int) (regs : List Text) (tb : TB) : HOp → HOut × TB
  | .lit t => (.one t, tb)
  | .concat xs => match xs.mapM (resolve regs) with
    | some ts => (.one (Concat ts), tb)
    | none => (.badRef, tb)
  | .partition x idx => match resolve regs x with
    | some t => (.many (Partition t idx), tb)
    | none => (.badRef, tb)
  | .split x r => match resolve regs x with
    | some t => match SplitByRune t r with
      | some ps => (.many ps, tb)
      | none => (.nothing, tb)
    | none => (.badRef, tb)
  | .trimw x w => match resolve regs x with
    | some t => (.one (TrimWcwidth wd t w), tb)
    | none => (.badRef, tb)
  | .styletext x ts => match resolve regs x with
    | some t => (.one (styleText t ts), tb)
    | none => (.badRef, tb)
  | .clone x => match resolve regs x with
    | some t => (.one (clone t), tb)
    | none => (.badRef, tb)
  | .sub x lo hi => match resolve regs x with
    | some t => match subText t lo hi with
      | some r => (.one r, tb)
      | none => (.err, tb)
    | none => (.badRef, tb)
  | .textconcat x r => match resolve regs x, resolveRhs regs r with
    | some t, some r => (.one (Text.concat t r), tb)
    | _, _ => (.badRef, tb)
  | .rtextconcat x l => match resolve regs x with
    | some t => (.one (Text.rconcat t l), tb)
    | none => (.badRef, tb)
  | .segconcat s r => match resolveSeg regs s, resolveRhs regs r with
    | some s, some r => (.one (s.concat r), tb)
    | _, _ => (.badRef, tb)
  | .rsegconcat s l => match resolveSeg regs s with
    | some s => (.one (s.rconcat l), tb)
    | none => (.badRef, tb)
  | .tbwrite x => match resolve regs x with
    | some t => (.unit, tb.writeText t)
    | none => (.badRef, tb)
  | .tbtext => (.one tb.toText, tb)
  | .tbreset => (.unit, {})

/-- One step: the new values are appended to the register file. -/
def HState.step (wd : Int → Int) (s : HState) (op : HOp) : HState × HOut :=
  let r := evalOp wd s.regs s.tb op
  ({ regs := s.regs ++ r.1.values, tb := r.2 }, r.1)

/-- A whole history. -/
def HState.run (wd : Int → Int) (s : HState) : List HOp → HState
  | [] => s
  | op :: ops => HState.run wd (s.step wd op).1 ops

/-! ### the same operation with its operands replaced by their values -/

def Ref.literal (regs : List Text) (x : Ref) : Ref :=
  match resolve regs x with
  | some t => .lit t
  | none => x

def SegRef.literal (regs : List Text) (x : SegRef) : SegRef :=
  match resolveSeg regs x with
  | some s => .lit s
  | none => x

def HRhs.literal (regs : List Text) : HRhs → HRhs
  | .str s => .str s
  | .seg s => .seg (s.literal regs)
  | .text t => .text (t.literal regs)

/-- The op with every register operand replaced by the value it has. -/
def HOp.literal (regs : List Text) : HOp → HOp
  | .lit t => .lit t
  | .concat xs => .concat (xs.map (Ref.literal regs))
  | .partition x idx => .partition (x.literal regs) idx
  | .split x r => .split (x.literal regs) r
  | .trimw x w => .trimw (x.literal regs) w
  | .styletext x ts => .styletext (x.literal regs) ts
  | .clone x => .clone (x.literal regs)
  | .sub x lo hi => .sub (x.literal regs) lo hi
  | .textconcat x r => .textconcat (x.literal regs) (r.literal regs)
  | .rtextconcat x l => .rtextconcat (x.literal regs) l
  | .segconcat s r => .segconcat (s.literal regs) (r.literal regs)
  | .rsegconcat s l => .rsegconcat (s.literal regs) l
  | .tbwrite x => .tbwrite (x.literal regs)
  | .tbtext => .tbtext
  | .tbreset => .tbreset

/-- Every register operand of the op exists. -/
def Ref.ok (regs : List Text) (x : Ref) : Bool := (resolve regs x).isSome
def SegRef.ok (regs : List Text) (x : SegRef) : Bool := (resolveSeg regs x).isSome
def HRhs.ok (regs : List Text) : HRhs → Bool
  | .str _ => true
  | .seg s => s.ok regs
  | .text t => t.ok regs

def HOp.ok (regs : List Text) : HOp → Bool
  | .lit _ => true
  | .concat xs => xs.all (Ref.ok regs)
  | .partition x _ | .split x _ | .trimw x _ | .styletext x _ | .clone x | .sub x _ _ | .rtextconcat x _
  | .tbwrite x => x.ok regs
  | .textconcat x r => x.ok regs && r.ok regs
  | .segconcat s r => s.ok regs && r.ok regs
  | .rsegconcat s _ => s.ok regs
  | .tbtext | .tbreset => true

end C33
