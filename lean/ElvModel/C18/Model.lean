/-
C18 — executable labelled transition system for `pipelineOp.exec`
(pkg/eval/compile_effect.go), `valueOutput.Put` / `byteOutput.Write`
(pkg/eval/port.go) and `MakePipelineError` (pkg/eval/exception.go).

A pipeline has `n` stages `0 … n-1`.  Between stage `k` and stage `k+1` lies
link `k`: a value channel (FIFO, capacity `cap` = pipelineChanBufferSize), a
byte pipe (FIFO of bytes, capacity `pcap`, writer-closed / reader-closed
flags), and the reader-termination signal `sendError / sendStop / readerGone`.

Stage programs are NOT part of the state: a running stage may begin any
operation at any time (labels `putBeg`, `writeBeg`, `takeBeg`, `readBeg`,
`redirIn`, `redirOutFile`, `redirOutChan`, `ret`), on three independent ports
(value input, byte input, output — `IterateInputs` really does read both
inputs concurrently with the output).  Every behaviour of every stage program
is therefore a path of this system, and an invariant of `Reachable` holds for
all stage programs and all interleavings.  `ElvModel/C18/Prog.lean` makes the
quantification over programs explicit.

Every blocking operation is split into begin / atomic commit / end, so that
the implementation's log (which can only record *before* and *after* an
operation) can be replayed: see `Accept.lean`.

The program counter of a stage is a number:
  0 goroutine not yet running        1 running `form.exec`
  2 `form.exec` returned (exception recorded)   — then the epilogue of `f`:
  2 →3 `*input.sendError = ReaderGone{}`     3 →4 `close(input.sendStop)`
  4 →5 `input.readerGone.Store(true)`        5 →6 `fops[0].close` (pipe reader)
  6 →7 `fops[1].close`: pipe writer          7 →8 `fops[1].close`: `close(Chan)`
  8 →9 `wg.Done()`                           9 done
(the three reader-gone steps do nothing for stage 0, the closes do nothing for
a port the stage no longer owns after a redirection — as in the Go code, which
is modelled with fixes/C18-pipe-input-redir-crash.patch applied.)

Go panics are explicit: `close` of a closed channel, a send on a closed
channel and a negative WaitGroup counter set `crashed`.
-/
import ElvModel.Generated.C18Consts

namespace C18

abbrev Val := Nat
abbrev Byte := Nat

/-- Reason of the exception a stage's `form.exec` returns. `ok` is an
exception whose `Reason()` is nil (what an ordinary command returns on
success, and what `fail $ok` throws). -/
inductive Exc where
  | readerGone
  | noValueOutput
  | ok
  | other (id : Nat)
  deriving DecidableEq, Repr, Inhabited

/-- Result of `valueOutput.Put`: the select chose the send, or `sendStop`
and `*sendError` was read (`none` = a nil error). -/
inductive PutRes where
  | sent
  | stopped (e : Option Exc)
  deriving DecidableEq, Repr

inductive OutSt where
  | idle
  | putting (v : Val)
  | putDone (r : PutRes)
  | writing (todo : List Byte) (n : Nat)
  | writeDone (n : Nat) (e : Option Exc)
  deriving DecidableEq, Repr

inductive VinSt where
  | idle
  | taking
  | took (r : Option Val)
  deriving DecidableEq, Repr

inductive BinSt where
  | idle
  | reading (max : Nat)
  | readDone (r : Option (List Byte))
  deriving DecidableEq, Repr

structure Link where
  q : List Val            -- buffered values
  chClosed : Bool         -- close(ch)
  sent : List Val         -- ghost: every value ever enqueued
  recvd : List Val        -- ghost: every value ever dequeued
  pipe : List Byte        -- bytes in flight
  wClosed : Bool          -- pipe writer closed
  rClosed : Bool          -- pipe reader closed
  bsent : List Byte       -- ghost
  brecvd : List Byte      -- ghost
  errSet : Bool           -- *sendError = ReaderGone{}
  stop : Bool             -- sendStop closed
  gone : Bool             -- readerGone
  sawClosed : Bool        -- ghost: the reader observed the closed channel
  sawEof : Bool           -- ghost: the reader observed EOF
  deriving Repr

def Link.init : Link :=
  { q := [], chClosed := false, sent := [], recvd := [], pipe := [], wClosed := false, rClosed := false,
    bsent := [], brecvd := [], errSet := false, stop := false, gone := false, sawClosed := false, sawEof := false }

structure Stage where
  pc : Nat
  out : OutSt
  vin : VinSt
  bin : BinSt
  inRedir : Bool            -- port 0 replaced by a redirection (pipe reader already closed)
  outRedir : Nat            -- 0 no; 1 pipe writer closed, channel not yet; 2 port 1 replaced
  retv : Option (Option Exc)  -- what form.exec returned
  exc : Option Exc          -- excs[i]
  deriving Repr

def Stage.init : Stage :=
  { pc := 0, out := .idle, vin := .idle, bin := .idle, inRedir := false, outRedir := 0, retv := none, exc := none }

inductive PipeRes where
  | nil
  | single (e : Exc)
  | multi (es : List Exc)
  deriving DecidableEq, Repr

structure Cfg where
  n : Nat
  cap : Nat
  pcap : Nat

structure State where
  stage : Nat → Stage
  link : Nat → Link
  wg : Nat
  result : Option PipeRes
  crashed : Bool

def upd {α : Type} (f : Nat → α) (i : Nat) (x : α) : Nat → α := fun j => if j = i then x else f j

def State.init (cfg : Cfg) : State :=
  { stage := fun _ => Stage.init, link := fun _ => Link.init, wg := cfg.n, result := none, crashed := false }

/-! ### MakePipelineError -/

/-- The loop of `MakePipelineError`: `(newexcs, notOK, lastNotOK)`. -/
def mpeLoop : List (Option Exc) → Nat → List Exc × Nat × Nat → List Exc × Nat × Nat
  | [], _, acc => acc
  | e :: rest, i, (newexcs, notOK, lastNotOK) =>
    match e with
    | none => mpeLoop rest (i + 1) (newexcs ++ [Exc.ok], notOK, lastNotOK)
    | some x =>
      if x ≠ Exc.ok then mpeLoop rest (i + 1) (newexcs ++ [x], notOK + 1, i)
      else mpeLoop rest (i + 1) (newexcs ++ [x], notOK, lastNotOK)

/-- `MakePipelineError(excs)`; `none` = index panic (proved impossible). -/
def makePipelineError (excs : List (Option Exc)) : Option PipeRes :=
  match mpeLoop excs 0 ([], 0, 0) with
  | (newexcs, notOK, lastNotOK) =>
    if notOK = 0 then some .nil
    else if notOK = 1 then (newexcs[lastNotOK]?).map .single
    else some (.multi newexcs)

def State.excs (cfg : Cfg) (s : State) : List (Option Exc) := (List.range cfg.n).map fun i => (s.stage i).exc

/-! ### Labels -/

inductive Label where
  | start (i : Nat)
  | putBeg (i : Nat) (v : Val) | enq (i : Nat) | selStop (i : Nat) | putEnd (i : Nat)
  | writeBeg (i : Nat) (bs : List Byte) | wr (i : Nat) (k : Nat) | wrEpipe (i : Nat) | writeEnd (i : Nat)
  | takeBeg (i : Nat) | deq (i : Nat) | deqClosed (i : Nat) | takeEnd (i : Nat)
  | readBeg (i : Nat) (max : Nat) | rd (i : Nat) (k : Nat) | rdEof (i : Nat) | readEnd (i : Nat)
  | redirIn (i : Nat) | redirOutFile (i : Nat) | redirOutChan (i : Nat)
  | ret (i : Nat) (r : Option Exc)
  | setErr (i : Nat) | closeStop (i : Nat) | storeGone (i : Nat)
  | closeIn (i : Nat) | closeOutFile (i : Nat) | closeOutChan (i : Nat) | wgDone (i : Nat)
  | waitRet
  deriving Repr, DecidableEq

def setStage (s : State) (i : Nat) (st : Stage) : State := { s with stage := upd s.stage i st }
def setLink (s : State) (k : Nat) (l : Link) : State := { s with link := upd s.link k l }
def crash (s : State) : State := { s with crashed := true }

/-- `excs[i]` after `form.exec` returned `r`:
`if exc != nil && !(outputIsPipe && isReaderGone(exc)) { *pexc = exc }`. -/
def keptExc (cfg : Cfg) (i : Nat) (r : Option Exc) : Option Exc :=
  match r with
  | none => none
  | some e => if i + 1 < cfg.n ∧ e = Exc.readerGone then none else some e

def stepStart (s : State) (i : Nat) : Option State :=
  let st := s.stage i
  if st.pc = 0 then some (setStage s i { st with pc := 1 }) else none

def stepPutBeg (s : State) (i : Nat) (v : Val) : Option State :=
  let st := s.stage i
  if st.pc = 1 ∧ st.out = .idle ∧ st.outRedir ≠ 1 then some (setStage s i { st with out := .putting v }) else none

/-- The `vo.data <- v` case of Put's select. -/
def stepEnq (cfg : Cfg) (s : State) (i : Nat) : Option State :=
  let st := s.stage i
  match st.out with
  | .putting v =>
    if st.outRedir = 0 then
      if i + 1 < cfg.n then
        let l := s.link i
        if l.chClosed then some (crash s)          -- send on closed channel
        else if l.q.length < cfg.cap then
          some (setStage (setLink s i { l with q := l.q ++ [v], sent := l.sent ++ [v] }) i { st with out := .putDone .sent })
        else none
      else some (setStage s i { st with out := .putDone .sent })   -- last stage: the caller's port
    else none                                       -- Chan is nil after a file redirection
  | _ => none

/-- The `<-vo.sendStop` case of Put's select; returns `*vo.sendError`. -/
def stepSelStop (cfg : Cfg) (s : State) (i : Nat) : Option State :=
  let st := s.stage i
  match st.out with
  | .putting _ =>
    if st.outRedir = 2 then
      some (setStage s i { st with out := .putDone (.stopped (some .noValueOutput)) })
    else if st.outRedir = 0 ∧ i + 1 < cfg.n then
      let l := s.link i
      if l.stop then
        some (setStage s i { st with out := .putDone (.stopped (if l.errSet then some .readerGone else none)) })
      else none
    else none
  | _ => none

def stepPutEnd (s : State) (i : Nat) : Option State :=
  let st := s.stage i
  match st.out with
  | .putDone _ => some (setStage s i { st with out := .idle })
  | _ => none

def stepWriteBeg (s : State) (i : Nat) (bs : List Byte) : Option State :=
  let st := s.stage i
  if st.pc = 1 ∧ st.out = .idle ∧ st.outRedir ≠ 1 then
    some (setStage s i { st with out := if bs = [] then .writeDone 0 none else .writing bs 0 })
  else none

/-- `k` more bytes of the pending write enter the pipe. -/
def stepWr (cfg : Cfg) (s : State) (i : Nat) (k : Nat) : Option State :=
  let st := s.stage i
  match st.out with
  | .writing todo n =>
    if 0 < k ∧ k ≤ todo.length then
      if st.outRedir = 0 ∧ i + 1 < cfg.n then
        let l := s.link i
        if l.rClosed = false ∧ l.pipe.length + k ≤ cfg.pcap then
          some (setStage (setLink s i { l with pipe := l.pipe ++ todo.take k, bsent := l.bsent ++ todo.take k }) i
            { st with out := if todo.drop k = [] then .writeDone (n + k) none else .writing (todo.drop k) (n + k) })
        else none
      else if k = todo.length then some (setStage s i { st with out := .writeDone (n + k) none })  -- not a pipe of this pipeline
      else none
    else none
  | _ => none

/-- The pipe has no reader: EPIPE, converted to ReaderGone. -/
def stepWrEpipe (cfg : Cfg) (s : State) (i : Nat) : Option State :=
  let st := s.stage i
  match st.out with
  | .writing _ n =>
    if st.outRedir = 0 ∧ i + 1 < cfg.n ∧ (s.link i).rClosed then
      some (setStage s i { st with out := .writeDone n (some .readerGone) })
    else none
  | _ => none

def stepWriteEnd (s : State) (i : Nat) : Option State :=
  let st := s.stage i
  match st.out with
  | .writeDone _ _ => some (setStage s i { st with out := .idle })
  | _ => none

def stepTakeBeg (s : State) (i : Nat) : Option State :=
  let st := s.stage i
  if st.pc = 1 ∧ st.vin = .idle then some (setStage s i { st with vin := .taking }) else none

def stepDeq (s : State) (i : Nat) : Option State :=
  let st := s.stage i
  match st.vin with
  | .taking =>
    if 0 < i ∧ st.inRedir = false then
      let l := s.link (i - 1)
      match l.q with
      | v :: rest => some (setStage (setLink s (i - 1) { l with q := rest, recvd := l.recvd ++ [v] }) i { st with vin := .took (some v) })
      | [] => none
    else none
  | _ => none

def stepDeqClosed (s : State) (i : Nat) : Option State :=
  let st := s.stage i
  match st.vin with
  | .taking =>
    if 0 < i ∧ st.inRedir = false then
      let l := s.link (i - 1)
      if l.q = [] ∧ l.chClosed then
        some (setStage (setLink s (i - 1) { l with sawClosed := true }) i { st with vin := .took none })
      else none
    else some (setStage s i { st with vin := .took none })   -- ClosedChan
  | _ => none

def stepTakeEnd (s : State) (i : Nat) : Option State :=
  let st := s.stage i
  match st.vin with
  | .took _ => some (setStage s i { st with vin := .idle })
  | _ => none

def stepReadBeg (s : State) (i : Nat) (max : Nat) : Option State :=
  let st := s.stage i
  if st.pc = 1 ∧ st.bin = .idle ∧ 0 < max then some (setStage s i { st with bin := .reading max }) else none

def stepRd (s : State) (i : Nat) (k : Nat) : Option State :=
  let st := s.stage i
  match st.bin with
  | .reading max =>
    if 0 < i ∧ st.inRedir = false then
      let l := s.link (i - 1)
      if 0 < k ∧ k ≤ max ∧ k ≤ l.pipe.length then
        some (setStage (setLink s (i - 1) { l with pipe := l.pipe.drop k, brecvd := l.brecvd ++ l.pipe.take k }) i
          { st with bin := .readDone (some (l.pipe.take k)) })
      else none
    else none
  | _ => none

def stepRdEof (s : State) (i : Nat) : Option State :=
  let st := s.stage i
  match st.bin with
  | .reading _ =>
    if 0 < i ∧ st.inRedir = false then
      let l := s.link (i - 1)
      if l.pipe = [] ∧ l.wClosed then
        some (setStage (setLink s (i - 1) { l with sawEof := true }) i { st with bin := .readDone none })
      else none
    else some (setStage s i { st with bin := .readDone none })   -- /dev/null
  | _ => none

def stepReadEnd (s : State) (i : Nat) : Option State :=
  let st := s.stage i
  match st.bin with
  | .readDone _ => some (setStage s i { st with bin := .idle })
  | _ => none

/-- `redirOp.exec` on fd 0: `dstFop.close` closes the pipe reader the form owns,
then the port is replaced. -/
def stepRedirIn (s : State) (i : Nat) : Option State :=
  let st := s.stage i
  if st.pc = 1 ∧ st.inRedir = false ∧ st.vin = .idle ∧ st.bin = .idle ∧ st.out = .idle ∧ st.outRedir ≠ 1 then
    let s1 := if 0 < i then setLink s (i - 1) { s.link (i - 1) with rClosed := true } else s
    some (setStage s1 i { st with inRedir := true })
  else none

/-- `redirOp.exec` on fd 1, first half of `dstFop.close`: `p.File.Close()`. -/
def stepRedirOutFile (cfg : Cfg) (s : State) (i : Nat) : Option State :=
  let st := s.stage i
  if st.pc = 1 ∧ st.outRedir = 0 ∧ st.out = .idle ∧ st.vin = .idle ∧ st.bin = .idle then
    let s1 := if i + 1 < cfg.n then setLink s i { s.link i with wClosed := true } else s
    some (setStage s1 i { st with outRedir := 1 })
  else none

/-- second half: `close(p.Chan)`, then the port is replaced. -/
def stepRedirOutChan (cfg : Cfg) (s : State) (i : Nat) : Option State :=
  let st := s.stage i
  if st.outRedir = 1 then
    if i + 1 < cfg.n then
      let l := s.link i
      if l.chClosed then some (crash s)
      else some (setStage (setLink s i { l with chClosed := true }) i { st with outRedir := 2 })
    else some (setStage s i { st with outRedir := 2 })
  else none

def stepRet (cfg : Cfg) (s : State) (i : Nat) (r : Option Exc) : Option State :=
  let st := s.stage i
  if st.pc = 1 ∧ st.out = .idle ∧ st.vin = .idle ∧ st.bin = .idle ∧ st.outRedir ≠ 1 then
    some (setStage s i { st with pc := 2, retv := some r, exc := keptExc cfg i r })
  else none

def stepSetErr (s : State) (i : Nat) : Option State :=
  let st := s.stage i
  if st.pc = 2 then
    let s1 := if 0 < i then setLink s (i - 1) { s.link (i - 1) with errSet := true } else s
    some (setStage s1 i { st with pc := 3 })
  else none

def stepCloseStop (s : State) (i : Nat) : Option State :=
  let st := s.stage i
  if st.pc = 3 then
    if 0 < i then
      let l := s.link (i - 1)
      if l.stop then some (crash s)                -- close of closed channel
      else some (setStage (setLink s (i - 1) { l with stop := true }) i { st with pc := 4 })
    else some (setStage s i { st with pc := 4 })
  else none

def stepStoreGone (s : State) (i : Nat) : Option State :=
  let st := s.stage i
  if st.pc = 4 then
    let s1 := if 0 < i then setLink s (i - 1) { s.link (i - 1) with gone := true } else s
    some (setStage s1 i { st with pc := 5 })
  else none

def stepCloseIn (s : State) (i : Nat) : Option State :=
  let st := s.stage i
  if st.pc = 5 then
    let s1 := if 0 < i ∧ st.inRedir = false then setLink s (i - 1) { s.link (i - 1) with rClosed := true } else s
    some (setStage s1 i { st with pc := 6 })
  else none

def stepCloseOutFile (cfg : Cfg) (s : State) (i : Nat) : Option State :=
  let st := s.stage i
  if st.pc = 6 then
    let s1 := if i + 1 < cfg.n ∧ st.outRedir = 0 then setLink s i { s.link i with wClosed := true } else s
    some (setStage s1 i { st with pc := 7 })
  else none

def stepCloseOutChan (cfg : Cfg) (s : State) (i : Nat) : Option State :=
  let st := s.stage i
  if st.pc = 7 then
    if i + 1 < cfg.n ∧ st.outRedir = 0 then
      let l := s.link i
      if l.chClosed then some (crash s)            -- close of closed channel
      else some (setStage (setLink s i { l with chClosed := true }) i { st with pc := 8 })
    else some (setStage s i { st with pc := 8 })
  else none

def stepWgDone (s : State) (i : Nat) : Option State :=
  let st := s.stage i
  if st.pc = 8 then
    if s.wg = 0 then some (crash s)                -- negative WaitGroup counter
    else some { setStage s i { st with pc := 9 } with wg := s.wg - 1 }
  else none

def stepWaitRet (cfg : Cfg) (s : State) : Option State :=
  if s.result = none ∧ s.wg = 0 then
    match makePipelineError (s.excs cfg) with
    | some r => some { s with result := some r }
    | none => some (crash s)
  else none

def Label.stage? : Label → Option Nat
  | .start i | .putBeg i _ | .enq i | .selStop i | .putEnd i | .writeBeg i _ | .wr i _ | .wrEpipe i | .writeEnd i
  | .takeBeg i | .deq i | .deqClosed i | .takeEnd i | .readBeg i _ | .rd i _ | .rdEof i | .readEnd i
  | .redirIn i | .redirOutFile i | .redirOutChan i | .ret i _ | .setErr i | .closeStop i | .storeGone i
  | .closeIn i | .closeOutFile i | .closeOutChan i | .wgDone i => some i
  | .waitRet => none

/-- One atomic step.  `none` = the label is not enabled. -/
def step (cfg : Cfg) (s : State) (l : Label) : Option State :=
  if s.crashed then none
  else if (match l.stage? with | some i => decide (i < cfg.n) | none => true) = false then none
  else match l with
  | .start i => stepStart s i
  | .putBeg i v => stepPutBeg s i v
  | .enq i => stepEnq cfg s i
  | .selStop i => stepSelStop cfg s i
  | .putEnd i => stepPutEnd s i
  | .writeBeg i bs => stepWriteBeg s i bs
  | .wr i k => stepWr cfg s i k
  | .wrEpipe i => stepWrEpipe cfg s i
  | .writeEnd i => stepWriteEnd s i
  | .takeBeg i => stepTakeBeg s i
  | .deq i => stepDeq s i
  | .deqClosed i => stepDeqClosed s i
  | .takeEnd i => stepTakeEnd s i
  | .readBeg i max => stepReadBeg s i max
  | .rd i k => stepRd s i k
  | .rdEof i => stepRdEof s i
  | .readEnd i => stepReadEnd s i
  | .redirIn i => stepRedirIn s i
  | .redirOutFile i => stepRedirOutFile cfg s i
  | .redirOutChan i => stepRedirOutChan cfg s i
  | .ret i r => stepRet cfg s i r
  | .setErr i => stepSetErr s i
  | .closeStop i => stepCloseStop s i
  | .storeGone i => stepStoreGone s i
  | .closeIn i => stepCloseIn s i
  | .closeOutFile i => stepCloseOutFile cfg s i
  | .closeOutChan i => stepCloseOutChan cfg s i
  | .wgDone i => stepWgDone s i
  | .waitRet => stepWaitRet cfg s

/-- States reachable from the initial state under any interleaving and any
behaviour of the stage programs. -/
inductive Reachable (cfg : Cfg) : State → Prop where
  | init : Reachable cfg (State.init cfg)
  | step {s s' : State} (l : Label) : Reachable cfg s → step cfg s l = some s' → Reachable cfg s'

/-- Run a list of labels. -/
def run (cfg : Cfg) : State → List Label → Option State
  | s, [] => some s
  | s, l :: ls => match step cfg s l with
    | some s' => run cfg s' ls
    | none => none

/-- The configuration of the real code: the regenerated channel capacity. -/
def realCfg (n pcap : Nat) : Cfg := { n := n, cap := Gen.C18Consts.pipelineChanBufferSize, pcap := pcap }

end C18
