/-
C18 — trace acceptor: replays the event log recorded from the real code as a
path of `C18.step`.

The implementation can only log *before* an operation (`…Beg`, the epilogue
and close events) or *after* it (`…End`, carrying the result).  The atomic
model step of an operation therefore lies somewhere between its begin event
and the next event of the same thread.  The acceptor commits each atomic step
as LATE as possible: at the operation's end event, or earlier when another
thread's observation needs it (a receive needs the matching send; a send into
a full buffer needs the receive that made room; `put` returning reader-gone
needs `close(sendStop)`; EPIPE needs the reader's close; EOF / closed channel
needs the writer's close; and the reader's close must come after every byte
the pending upstream write managed to deliver).  All state changes go through
`C18.step`, so an accepted trace IS a path of the model (`AccState.path`
records the labels; `C18_accept_sound` in ElvProofs proves it).
-/
import ElvModel.C18.Model

namespace C18

/-- Result annotation of a pending output operation (`none` = never ended). -/
inductive OutAnn where
  | none
  | put (r : Option PutRes)
  | write (n : Nat) (r : Option (Option Exc))
  deriving Repr

inductive Redir where
  | none | inp | outFile | outChan
  deriving Repr, DecidableEq

/-- Canonical events (see harness/c18/trace.go). -/
inductive Ev where
  | st (i : Nat)
  | pb (i : Nat) (v : Val) (r : Option PutRes) | pe (i : Nat)
  | wb (i : Nat) (bs : List Byte) (n : Nat) (r : Option (Option Exc)) | we (i : Nat)
  | tb (i : Nat) (r : Option (Option Val)) | te (i : Nat)
  | rb (i : Nat) (r : Option (Option (List Byte))) | re (i : Nat)
  | lr (i : Nat) (bs : List Byte) | le (i : Nat)
  | xr (i : Nat) (e kept : Option Exc)
  | epi (i : Nat) (pc : Nat)              -- se cs sg (cf r) (cf w) cc wd inside the epilogue: about to leave `pc`
  | cfr (i : Nat) | cfw (i : Nat) | cc (i : Nat)
  | wr (res : String)
  deriving Repr

structure AccState where
  s : State
  outRes : Nat → OutAnn
  vinRes : Nat → Option (Option Val)
  binRes : Nat → Option (Option (List Byte))
  seen : Nat → Nat          -- the epilogue step leaving pc = seen has been announced
  redir : Nat → Redir       -- announced, uncommitted redirection close
  path : List Label         -- labels applied so far, newest first

def AccState.init (cfg : Cfg) : AccState :=
  { s := State.init cfg, outRes := fun _ => .none, vinRes := fun _ => none, binRes := fun _ => none,
    seen := fun _ => 0, redir := fun _ => .none, path := [] }

abbrev M := Except String

def applyL (cfg : Cfg) (a : AccState) (l : Label) : M AccState :=
  match step cfg a.s l with
  | some s' => if s'.crashed then .error s!"model crashes (Go panic) at {repr l}" else .ok { a with s := s', path := l :: a.path }
  | none => .error s!"model does not allow {repr l}"

def epiLabel (pc i : Nat) : Label :=
  match pc with
  | 2 => .setErr i | 3 => .closeStop i | 4 => .storeGone i | 5 => .closeIn i
  | 6 => .closeOutFile i | 7 => .closeOutChan i | _ => .wgDone i

/-- The epilogue step leaving `pc` does nothing visible (and is not logged). -/
def isNoop (cfg : Cfg) (s : State) (i pc : Nat) : Bool :=
  match pc with
  | 2 | 3 | 4 => i == 0
  | 5 => i == 0 || (s.stage i).inRedir
  | 6 | 7 => !(decide (i + 1 < cfg.n) && (s.stage i).outRedir == 0)
  | _ => false

inductive Goal where
  | out (i : Nat)                 -- commit stage i's pending put / write
  | deliver (i : Nat) (need : Nat) -- `need` more bytes of stage i's pending write enter the pipe
  | deliverAll (i : Nat)          -- every byte the pending write of stage i will ever deliver
  | vin (i : Nat) | bin (i : Nat)
  | stop (k : Nat) | rclosed (k : Nat) | wclosed (k : Nat) | chclosed (k : Nat)
  | epi (i : Nat) (upto : Nat)    -- stage i's epilogue through the step leaving pc = upto
  | flush (i : Nat)               -- commit stage i's announced redirection close
  deriving Repr

def linkOut (cfg : Cfg) (s : State) (i : Nat) : Bool := decide (i + 1 < cfg.n) && (s.stage i).outRedir == 0
def linkIn (s : State) (i : Nat) : Bool := decide (0 < i) && !(s.stage i).inRedir

def force (cfg : Cfg) : Nat → Goal → AccState → M AccState
  | 0, g, _ => .error s!"FUEL forcing {repr g}"
  | fuel + 1, g, a =>
    let s := a.s
    match g with
    | .out i =>
      match (s.stage i).out, a.outRes i with
      | .putting _, .put (some .sent) => do
        let a ← if linkOut cfg s i && decide ((s.link i).q.length ≥ cfg.cap) then
            (match (s.stage (i + 1)).vin with
             | .taking => force cfg fuel (.vin (i + 1)) a
             | _ => .error s!"stage {i}: Put succeeded with {cfg.cap} values buffered and no receive in progress")
          else pure a
        applyL cfg a (.enq i)
      | .putting _, .put (some (.stopped e)) => do
        let a ← if linkOut cfg s i && !(s.link i).stop then force cfg fuel (.stop i) a else pure a
        let a ← applyL cfg a (.selStop i)
        if (a.s.stage i).out = .putDone (.stopped e) then pure a
        else .error s!"stage {i}: Put was stopped with {repr e}, model says {repr (a.s.stage i).out}"
      | .putting _, _ => .error s!"stage {i}: Put never returned"
      | .writing _ n0, .write n r => do
        let a ← if n0 < n then force cfg fuel (.deliver i (n - n0)) a else pure a
        match r with
        | some none =>
          (match (a.s.stage i).out with
           | .writeDone m none => if m = n then pure a else .error s!"stage {i}: write reported {n} bytes, model {m}"
           | o => .error s!"stage {i}: write reported success after {n} bytes, model {repr o}")
        | some (some .readerGone) => do
          let a ← if linkOut cfg a.s i && !(a.s.link i).rClosed then force cfg fuel (.rclosed i) a else pure a
          applyL cfg a (.wrEpipe i)
        | _ => .error s!"stage {i}: write ended with an error the model does not know"
      | _, _ => pure a
    | .deliver i need =>
      if need = 0 then pure a else applyL cfg a (.wr i need)
    | .deliverAll i =>
      match (s.stage i).out, a.outRes i with
      | .writing _ n0, .write n _ => if n0 < n then force cfg fuel (.deliver i (n - n0)) a else pure a
      | _, _ => pure a
    | .vin i =>
      match (s.stage i).vin, a.vinRes i with
      | .taking, some (some v) => do
        let a ← if linkIn s i && (s.link (i - 1)).q.isEmpty then
            (match (s.stage (i - 1)).out, a.outRes (i - 1) with
             | .putting _, .put (some .sent) => force cfg fuel (.out (i - 1)) a
             | _, _ => .error s!"stage {i}: received a value although nothing was buffered or being sent")
          else pure a
        let a ← applyL cfg a (.deq i)
        if (a.s.stage i).vin = .took (some v) then pure a
        else .error s!"stage {i}: received {v}, model says {repr (a.s.stage i).vin}"
      | .taking, some none => do
        let a ← if linkIn s i && !(s.link (i - 1)).chClosed then force cfg fuel (.chclosed (i - 1)) a else pure a
        applyL cfg a (.deqClosed i)
      | .taking, none => .error s!"stage {i}: receive never returned"
      | _, _ => pure a
    | .bin i =>
      match (s.stage i).bin, a.binRes i with
      | .reading _, some (some bs) => do
        let have_ := if linkIn s i then (s.link (i - 1)).pipe.length else 0
        let a ← if linkIn s i && decide (have_ < bs.length) then
            (match (s.stage (i - 1)).out, a.outRes (i - 1) with
             | .writing _ n0, .write n _ =>
               if bs.length - have_ ≤ n - n0 then force cfg fuel (.deliver (i - 1) (bs.length - have_)) a
               else .error s!"stage {i}: read {bs.length} bytes, only {have_ + (n - n0)} can have been written"
             | _, _ => .error s!"stage {i}: read {bs.length} bytes, only {have_} were written")
          else pure a
        let a ← applyL cfg a (.rd i bs.length)
        if (a.s.stage i).bin = .readDone (some bs) then pure a
        else .error s!"stage {i}: read different bytes than the model's pipe holds"
      | .reading _, some none => do
        let a ← if linkIn s i && !(s.link (i - 1)).wClosed then force cfg fuel (.wclosed (i - 1)) a else pure a
        applyL cfg a (.rdEof i)
      | .reading _, none => .error s!"stage {i}: read never returned"
      | _, _ => pure a
    | .stop k => force cfg fuel (.epi (k + 1) 3) a
    | .rclosed k =>
      if a.redir (k + 1) = .inp then force cfg fuel (.flush (k + 1)) a else force cfg fuel (.epi (k + 1) 5) a
    | .wclosed k =>
      if a.redir k = .outFile then force cfg fuel (.flush k) a else force cfg fuel (.epi k 6) a
    | .chclosed k =>
      if a.redir k = .outChan then force cfg fuel (.flush k) a
      else if a.redir k = .outFile then .error s!"stage {k + 1} saw the channel closed before stage {k} closed it"
      else force cfg fuel (.epi k 7) a
    | .flush i =>
      match a.redir i with
      | .none => pure a
      | .inp => do
        let a ← if 0 < i then force cfg fuel (.deliverAll (i - 1)) a else pure a
        let a ← applyL cfg a (.redirIn i)
        pure { a with redir := upd a.redir i .none }
      | .outFile => do
        let a ← applyL cfg a (.redirOutFile i)
        pure { a with redir := upd a.redir i .none }
      | .outChan => do
        let a ← applyL cfg a (.redirOutChan i)
        pure { a with redir := upd a.redir i .none }
    | .epi i upto =>
      let pc := (s.stage i).pc
      if pc > upto then pure a
      else if pc < 2 then .error s!"stage {i} has not returned yet (needed its epilogue step {upto})"
      else if a.seen i < upto then .error s!"stage {i} had not begun epilogue step {upto} (at {a.seen i})"
      else do
        let a ← if pc = 5 ∧ linkIn s i then force cfg fuel (.deliverAll (i - 1)) a else pure a
        let a ← applyL cfg a (epiLabel pc i)
        force cfg fuel (.epi i upto) a

def fuel0 : Nat := 64

/-- A begin event of the epilogue: the steps skipped since the last announced
one must be no-ops; everything before `pc` is committed. -/
def epiBegin (cfg : Cfg) (a : AccState) (i pc : Nat) : M AccState := do
  let cur := (a.s.stage i).pc
  if cur < 2 then .error s!"stage {i}: epilogue event before form.exec returned"
  else if pc < a.seen i ∨ pc < cur then .error s!"stage {i}: epilogue events out of order"
  else
    let unlogged := (List.range pc).filter fun q => decide (a.seen i < q) && decide (cur ≤ q)
    match unlogged.find? fun q => !isNoop cfg a.s i q with
    | some q => .error s!"stage {i}: epilogue step {q} was skipped"
    | none => do
      let a := { a with seen := upd a.seen i (pc - 1) }
      let a ← force cfg fuel0 (.epi i (pc - 1)) a
      pure { a with seen := upd a.seen i pc }

def excCode : Exc → String
  | .readerGone => "g" | .noValueOutput => "n" | .ok => "k"
  | .other id => if id = 999999 then "u" else s!"e{id}"

def resCode : Option PipeRes → String
  | none => "?"
  | some .nil => "-"
  | some (.single e) => excCode e
  | some (.multi es) => "P[" ++ ";".intercalate (es.map excCode) ++ "]"

def acceptEv (cfg : Cfg) (a : AccState) : Ev → M AccState
  | .st i => applyL cfg a (.start i)
  | .pb i v r => do
    let a ← force cfg fuel0 (.flush i) a
    let a ← applyL cfg a (.putBeg i v)
    pure { a with outRes := upd a.outRes i (.put r) }
  | .pe i => do
    let a ← force cfg fuel0 (.out i) a
    applyL cfg a (.putEnd i)
  | .wb i bs n r => do
    let a ← force cfg fuel0 (.flush i) a
    let a ← applyL cfg a (.writeBeg i bs)
    pure { a with outRes := upd a.outRes i (.write n r) }
  | .we i => do
    let a ← force cfg fuel0 (.out i) a
    applyL cfg a (.writeEnd i)
  | .tb i r => do
    let a ← applyL cfg a (.takeBeg i)
    pure { a with vinRes := upd a.vinRes i r }
  | .te i => do
    let a ← force cfg fuel0 (.vin i) a
    applyL cfg a (.takeEnd i)
  | .rb i r => do
    let a ← applyL cfg a (.readBeg i (match r with | some (some bs) => bs.length | _ => 1))
    pure { a with binRes := upd a.binRes i r }
  | .re i => do
    let a ← force cfg fuel0 (.bin i) a
    applyL cfg a (.readEnd i)
  | .lr i bs => do
    let a ← applyL cfg a (.readBeg i bs.length)
    let a := { a with binRes := upd a.binRes i (some (some bs)) }
    let a ← force cfg fuel0 (.bin i) a
    applyL cfg a (.readEnd i)
  | .le i => do
    let a ← applyL cfg a (.readBeg i 1)
    let a := { a with binRes := upd a.binRes i (some none) }
    let a ← force cfg fuel0 (.bin i) a
    applyL cfg a (.readEnd i)
  | .xr i e kept => do
    let a ← force cfg fuel0 (.flush i) a
    let a ← applyL cfg a (.ret i e)
    if (a.s.stage i).exc = kept then pure { a with seen := upd a.seen i 1 }
    else .error s!"stage {i}: exec recorded {repr kept} for {repr e}, model records {repr (a.s.stage i).exc}"
  | .epi i pc => epiBegin cfg a i pc
  | .cfr i =>
    if (a.s.stage i).pc = 1 then do
      let a ← force cfg fuel0 (.flush i) a
      pure { a with redir := upd a.redir i .inp }
    else epiBegin cfg a i 5
  | .cfw i =>
    if (a.s.stage i).pc = 1 then do
      let a ← force cfg fuel0 (.flush i) a
      pure { a with redir := upd a.redir i .outFile }
    else epiBegin cfg a i 6
  | .cc i =>
    if (a.s.stage i).pc = 1 then do
      let a ← force cfg fuel0 (.flush i) a
      pure { a with redir := upd a.redir i .outChan }
    else epiBegin cfg a i 7
  | .wr res => do
    let a ← (List.range cfg.n).foldlM (fun a i =>
      if a.seen i = 8 then force cfg fuel0 (.epi i 8) a
      else .error s!"wg.Wait returned before stage {i} announced wg.Done") a
    let a ← applyL cfg a .waitRet
    if resCode a.s.result = res then pure a
    else .error s!"MakePipelineError gave {res}, model {resCode a.s.result}"

/-- Observation summary of the final state (compared with the harness's own count). -/
def summary (cfg : Cfg) (s : State) : String :=
  if cfg.n ≤ 1 then "L-"
  else " ".intercalate ((List.range (cfg.n - 1)).map fun k =>
    let l := s.link k
    s!"L{k}:v{l.sent.length}/{l.recvd.length}{if l.sawClosed then "c" else ""}:b{l.bsent.length}/{l.brecvd.length}{if l.sawEof then "e" else ""}")

/-- Replay a whole trace; the index of the rejected event is reported. -/
def acceptAll (cfg : Cfg) : AccState → Nat → List Ev → Except String AccState
  | a, _, [] => .ok a
  | a, k, e :: es =>
    match acceptEv cfg a e with
    | .ok a' => acceptAll cfg a' (k + 1) es
    | .error why => .error s!"reject@{k} {why}"

end C18
