/-
C18 driver.  Op line: `pipe <procs> <yield seed> <yield rate> <stages> <trace>`;
only the trace (canonical events, see harness/c18/trace.go) matters here.
Output: `accept <pipeline result> <per-link summary>` or `reject@<event index> <why>`.
-/
import ElvModel.Go.Basic
import ElvModel.Go.Driver
import ElvModel.C18.Accept
namespace C18
open Go

def dropS (s : String) (n : Nat) : String := String.ofList (s.toList.drop n)
def takeS (s : String) (n : Nat) : String := String.ofList (s.toList.take n)

def parseNat? (s : String) : Option Nat := s.toNat?

def parseExc? (s : String) : Option (Option Exc) :=
  if s = "-" then some none
  else if s = "g" then some (some .readerGone)
  else if s = "n" then some (some .noValueOutput)
  else if s = "k" then some (some .ok)
  else if s = "u" then some (some (.other 999999))
  else if s.startsWith "e" then (dropS s 1).toNat?.map fun n => some (.other n)
  else if s.startsWith "P[" then some (some (.other 999998))
  else none

def hexNat? (s : String) : Option Nat :=
  s.toList.foldl (fun acc c => do
    let a ← acc
    let d ← hexVal c
    pure (a * 16 + d)) (some 0)

/-- `b<hh>*<count>.<hh>*<count>…` -/
def parseBytes? (s : String) : Option (List Byte) :=
  if !s.startsWith "b" then none
  else
    let body := dropS s 1
    if body.isEmpty then some []
    else (body.splitOn ".").foldl (fun acc run => do
      let a ← acc
      match run.splitOn "*" with
      | [h, c] => do
        let b ← hexNat? h
        let n ← c.toNat?
        pure (a ++ List.replicate n b)
      | _ => none) (some [])

def parseVal? (s : String) : Option Val :=
  if s.startsWith "v" then (dropS s 1).toNat? else none

def parseEv? (tok : String) : Option Ev :=
  let f := tok.splitOn ":"
  match f with
  | [] => none
  | h :: args =>
    let code := takeS h 2
    match (dropS h 2).toNat? with
    | none => if code = "wr" then
        match (":".intercalate args).splitOn "=" with
        | [_, res] => some (.wr res)
        | _ => none
      else none
    | some i =>
      match code, args with
      | "st", [] => some (.st i)
      | "pb", [v, r] => do
        let v ← parseVal? v
        if r = "s" then pure (.pb i v (some .sent))
        else if r = "?" then pure (.pb i v none)
        else do
          let e ← parseExc? r
          pure (.pb i v (some (.stopped e)))
      | "pe", [] => some (.pe i)
      | "wb", [bs, n, r] => do
        let bs ← parseBytes? bs
        if r = "?" then pure (.wb i bs 0 none)
        else do
          let n ← n.toNat?
          let e ← parseExc? r
          pure (.wb i bs n (some e))
      | "we", [] => some (.we i)
      | "tb", [r] =>
        if r = "c" then some (.tb i (some none))
        else if r = "?" then some (.tb i none)
        else (parseVal? r).map fun v => .tb i (some (some v))
      | "te", [] => some (.te i)
      | "rb", [r] =>
        if r = "eof" then some (.rb i (some none))
        else if r = "?" then some (.rb i none)
        else (parseBytes? r).map fun b => .rb i (some (some b))
      | "re", [] => some (.re i)
      | "lr", [bs] => (parseBytes? bs).map fun b => .lr i b
      | "le", [] => some (.le i)
      | "xr", [e, k] => do
        let e ← parseExc? e
        let k ← parseExc? k
        pure (.xr i e k)
      | "se", [] => some (.epi i 2)
      | "cs", [] => some (.epi i 3)
      | "sg", [] => some (.epi i 4)
      | "wd", [] => some (.epi i 8)
      | "cf", ["r"] => some (.cfr i)
      | "cf", ["w"] => some (.cfw i)
      | "cc", [] => some (.cc i)
      | _, _ => none

def parseTrace (toks : List String) : Except String (List Ev) :=
  toks.foldr (fun t acc => do
    let es ← acc
    match parseEv? t with
    | some e => pure (e :: es)
    | none => .error s!"bad-event {t}") (.ok [])

/-- capacity of the OS pipe: not elvish's code, never binding in the replay -/
def driverPcap : Nat := 1099511627776

def stepLine : List String → String
  | ["pipe", _, _, _, _, trace] =>
    if trace = "skipped" then "SKIPPED-after-hangs" else
    match trace.splitOn " " with
    | hd :: toks =>
      if !hd.startsWith "n" then "bad-op"
      else match (dropS hd 1).toNat? with
      | none => "bad-op"
      | some n =>
        let cfg := realCfg n driverPcap
        match parseTrace (toks.filter (· ≠ "")) with
        | .error e => e
        | .ok evs =>
          match acceptAll cfg (AccState.init cfg) 1 evs with
          | .ok a =>
            -- the verdict is computed from a re-run of the recorded labels through
            -- `run`, i.e. `step` alone: "accept" means "is a path of the model"
            -- whatever the replay heuristics of Accept.lean did
            match run cfg (State.init cfg) a.path.reverse with
            | some s => s!"accept {resCode s.result} {summary cfg s}"
            | none => "reject internal: the recorded labels are not a path of step"
          | .error why => why
    | [] => "bad-op"
  | _ => "bad-op"

def driver : Driver := Driver.pure stepLine
end C18
