import ElvModel.C18.Driver
def main : IO Unit := C18.driver.main
