/-
C18 — stage programs as explicit parameters.

`C18.step` lets a running stage begin any operation at any time.  Here a stage
runs an ARBITRARY finite program: a well-founded tree whose nodes are the
operations a stage can perform on its ports and whose branches are indexed by
the operation's result (so a program can react to `ReaderGone`, to a closed
channel, to what it read, …).  `pstep` is `step` restricted to what the
programs allow; every path of the restricted system is a path of `step`
(`C18_prog_reachable` in ElvProofs), so every theorem about `Reachable` holds
for every choice of stage programs.
-/
import ElvModel.C18.Model

namespace C18

/-- An arbitrary finite (sequential) stage program. -/
inductive Prog where
  | put (v : Val) (k : PutRes → Prog)
  | write (bs : List Byte) (k : Nat → Option Exc → Prog)
  | take (k : Option Val → Prog)
  | read (max : Nat) (k : Option (List Byte) → Prog)
  | redirIn (k : Prog)
  | redirOut (k : Prog)
  | exit (r : Option Exc)

/-- Does the program of the stepping stage allow label `l` in state `s`, and
what is the rest of the program afterwards?  Protocol-internal labels (the
atomic commits, the epilogue, `start`, `waitRet`) are never constrained. -/
def Prog.allow (s : State) (p : Prog) : Label → Option Prog
  | .putBeg _ v => match p with
    | .put v' _ => if v = v' then some p else none
    | _ => none
  | .putEnd i => match p, (s.stage i).out with
    | .put _ k, .putDone r => some (k r)
    | _, _ => none
  | .writeBeg _ bs => match p with
    | .write bs' _ => if bs = bs' then some p else none
    | _ => none
  | .writeEnd i => match p, (s.stage i).out with
    | .write _ k, .writeDone n e => some (k n e)
    | _, _ => none
  | .takeBeg _ => match p with
    | .take _ => some p
    | _ => none
  | .takeEnd i => match p, (s.stage i).vin with
    | .take k, .took r => some (k r)
    | _, _ => none
  | .readBeg _ max => match p with
    | .read max' _ => if max = max' then some p else none
    | _ => none
  | .readEnd i => match p, (s.stage i).bin with
    | .read _ k, .readDone r => some (k r)
    | _, _ => none
  | .redirIn _ => match p with
    | .redirIn k => some k
    | _ => none
  | .redirOutFile _ => match p with
    | .redirOut _ => some p
    | _ => none
  | .redirOutChan _ => match p with
    | .redirOut k => some k
    | _ => none
  | .ret _ r => match p with
    | .exit r' => if r = r' then some p else none
    | _ => none
  | _ => some p

/-- One step of the pipeline whose stage `i` runs program `progs i`. -/
def pstep (cfg : Cfg) (sp : State × (Nat → Prog)) (l : Label) : Option (State × (Nat → Prog)) :=
  match l.stage? with
  | none => (step cfg sp.1 l).map fun s' => (s', sp.2)
  | some i =>
    match (sp.2 i).allow sp.1 l with
    | none => none
    | some p' => (step cfg sp.1 l).map fun s' => (s', upd sp.2 i p')

/-- States reachable when the stages run the given programs. -/
inductive PReachable (cfg : Cfg) (progs : Nat → Prog) : State × (Nat → Prog) → Prop where
  | init : PReachable cfg progs (State.init cfg, progs)
  | step {sp sp'} (l : Label) : PReachable cfg progs sp → pstep cfg sp l = some sp' → PReachable cfg progs sp'

end C18
