import ElvModel.Go.Driver
import ElvModel.C38.Model
namespace C38
open Go

/-- The driver runs the model of the FIXED code (see Model.lean header). -/
def driverFx : Bool := true

def splitList (s : String) : List String := if s = "_" then [] else s.splitOn ","

def allSome {α} : List (Option α) → Option (List α)
  | [] => some []
  | none :: _ => none
  | some a :: rest => (allSome rest).map (a :: ·)

/-- `short:longhex:arity` -/
def decSpec (s : String) : Option OptionSpec :=
  match s.splitOn ":" with
  | [a, b, c] =>
    match a.toNat?, hexDecode b, c.toNat? with
    | some r, some l, some ar => some ⟨r, l, ar⟩
    | _, _, _ => none
  | _ => none

def decSpecs (s : String) : Option (List OptionSpec) := allSome ((splitList s).map decSpec)
def decArgs (s : String) : Option (List Bytes) := allSome ((splitList s).map hexDecode)

def encB (b : Bool) : String := if b then "1" else "0"

/-- `ref:short:longhex:arity:unknown:long:arghex` -/
def encOpt (o : Opt) : String :=
  let r := match o.ref with | some k => toString k | none => "x"
  s!"{r}:{o.spec.short}:{hexEnc o.spec.long}:{o.spec.arity}:{encB o.unknown}:{encB o.long}:{hexEnc o.argument}"

def encList (l : List String) : String := if l.isEmpty then "_" else ",".intercalate l

def encRes {α} (f : α → String) : Res α → String
  | .ok a => f a
  | .exc e => s!"EXC {e}"
  | .panic _ => "PANIC"

def stepLine : List String → String
  | ["parse", scfg, sspecs, sargs] =>
    match scfg.toNat?, decSpecs sspecs, decArgs sargs with
    | some cfg, some specs, some args =>
      encRes (fun (opts, nonOpt, err) =>
        let e := match err with | some e => hexEnc e | none => "nil"
        s!"{encList (opts.map encOpt)} {encList (nonOpt.map hexEnc)} {e}")
        (Parse driverFx args specs cfg)
    | _, _, _ => "bad-op"
  | ["complete", scfg, sspecs, sargs] =>
    match scfg.toNat?, decSpecs sspecs, decArgs sargs with
    | some cfg, some specs, some args =>
      encRes (fun (opts, nonOpt, ctx) =>
        let o := match ctx.option with | some o => encOpt o | none => "nil"
        s!"{encList (opts.map encOpt)} {encList (nonOpt.map hexEnc)} {ctx.typ} {o} {hexEnc ctx.text}")
        (Complete driverFx args specs cfg)
    | _, _, _ => "bad-op"
  -- flag:parse-getopt through the interpreter: exception message or flags
  | ["fpg", scfg, sspecs, sargs] =>
    match scfg.toNat?, decSpecs sspecs, decArgs sargs with
    | some cfg, some specs, some args =>
      encRes (fun (opts, nonOpt, err) =>
        match err with
        | some e => s!"ERR {hexEnc e}"
        | none =>
          let fl := opts.map fun o =>
            let r := match o.ref with | some k => toString k | none => "x"
            s!"{r}:{encB o.long}:{hexEnc o.argument}"
          s!"OK {encList fl} {encList (nonOpt.map hexEnc)}")
        (Parse driverFx args specs cfg)
    | _, _, _ => "bad-op"
  -- edit:complete-getopt through the interpreter (always getopt.GNU)
  | ["ecg", sspecs, sargs] =>
    match decSpecs sspecs, decArgs sargs with
    | some specs, some args =>
      encRes (fun out => encList (out.map hexEnc))
        (match Complete driverFx args specs Gen.C38Config.GNU with
         | .ok r => completeGetoptOut specs r
         | .exc e => .exc e
         | .panic p => .panic p)
    | _, _ => "bad-op"
  | _ => "bad-op"

def driver : Driver := Driver.pure stepLine
end C38
