/-
C38 model: pkg/getopt/getopt.go — `Config.has`, `findShort`, `parseShort`,
`parseLong`, `parse`, `Parse` (error composition incl. `errutil.Multi`),
`optionPart`, `Complete`; plus the dispatch of pkg/edit/complete_getopt.go
(`completeGetopt`) on the returned context.  Follows the Go code statement by
statement over byte strings; slice and index expressions are partial
(`Go.slice`, `Go.index`).

Every function takes `fx : Bool`:
  * `fx = false` is the code of the unchanged tree, defects included;
  * `fx = true` is the code after the three repairs delivered in `fixes/`:
      C38-parseshort-width      `parseShort` advances by the decoded width of
                                the rune, not by `len(string(r))`;
      C38-empty-name-match      `findShort` never matches `Short == 0` and
                                `parseLong` never matches `Long == ""`;
      C38-complete-empty-args   `Complete(nil)` returns the empty context
                                instead of slicing `args[:-1]`.
The driver runs `fx = true` (the check is meant to fail on the unchanged tree).

Pointers: `Option.Spec` points either into `specs` (then `ref = some k`, the
position; callers key maps by that pointer) or to a freshly allocated spec of
an unknown option (`ref = none`).
-/
import ElvModel.Go.Utf8
import ElvModel.Generated.C38Config
namespace C38
open Go
open Gen.C38Config

/-- `getopt.OptionSpec` (`Short` is assumed non-negative). -/
structure OptionSpec where
  short : Rune
  long : Bytes
  arity : Nat
  deriving Repr, DecidableEq

/-- `getopt.Option`, with the target of the `Spec` pointer made explicit. -/
structure Opt where
  ref : Option Nat
  spec : OptionSpec
  unknown : Bool
  long : Bool
  argument : Bytes
  deriving Repr, DecidableEq

/-- `getopt.Context` -/
structure Context where
  typ : Nat
  option : Option Opt
  text : Bytes
  deriving Repr, DecidableEq

def dash : UInt8 := 0x2D
def eqSign : UInt8 := 0x3D
/-- `"--"` -/
def dd : Bytes := [dash, dash]

/-- `Config.has`: `c&bits == bits`. -/
def has (c bits : Nat) : Bool := c &&& bits == bits

/-- `strings.HasPrefix` -/
def hasPrefix (s p : Bytes) : Bool := p.isPrefixOf s

/-- `strings.IndexRune(s, '=')` (= `IndexByte`, `'='` is ASCII): `none` is `-1`. -/
def indexByteFrom (b : UInt8) : Bytes → Nat → Option Nat
  | [], _ => none
  | x :: rest, k => if x == b then some k else indexByteFrom b rest (k + 1)

def indexEq (s : Bytes) : Option Nat := indexByteFrom eqSign s 0

/-- `strings.ContainsRune(s, '=')` -/
def containsEq (s : Bytes) : Bool := (indexEq s).isSome

/-- `findShort`: the first spec with `r == opt.Short`, with its position.
Fixed code: `opt.Short != 0 && r == opt.Short`. -/
def findShortFrom (fx : Bool) (r : Rune) : List OptionSpec → Nat → Option (Nat × OptionSpec)
  | [], _ => none
  | sp :: rest, k =>
    if (!fx || sp.short != 0) && r == sp.short then some (k, sp)
    else findShortFrom fx r rest (k + 1)

def findShort (fx : Bool) (r : Rune) (specs : List OptionSpec) : Option (Nat × OptionSpec) :=
  findShortFrom fx r specs 0

/-- The option built for an unknown short option `r`. -/
def unknownShort (r : Rune) (arg : Bytes) : Opt :=
  { ref := none, spec := ⟨r, [], OptionalArgument⟩, unknown := true, long := false, argument := arg }

/-- The body of `for i, r := range s` in `parseShort`, iterating over the
`(i, r, size)` triples of the range loop; `s` is the whole string.
Unchanged code slices at `i+len(string(r))`, fixed code at `i+size`. -/
def parseShortLoop (fx : Bool) (specs : List OptionSpec) (s : Bytes) :
    List (Nat × Rune × Nat) → List Opt → Res (List Opt × Bool)
  | [], opts => .ok (opts, false)
  | (i, r, size) :: rest, opts =>
    let w : Nat := if fx then size else (encodeRune r).length
    match findShort fx r specs with
    | some (k, sp) =>
      if sp.arity == NoArgument then
        parseShortLoop fx specs s rest (opts ++ [⟨some k, sp, false, false, []⟩])
      else
        match slice s ((i + w : Nat) : Int) s.length with
        | .ok arg =>
          .ok (opts ++ [⟨some k, sp, false, false, arg⟩], arg.isEmpty && sp.arity == RequiredArgument)
        | .exc e => .exc e
        | .panic p => .panic p
    | none =>
      match slice s ((i + w : Nat) : Int) s.length with
      | .ok arg => .ok (opts ++ [unknownShort r arg], false)
      | .exc e => .exc e
      | .panic p => .panic p

/-- `parseShort(s, specs)` -/
def parseShort (fx : Bool) (s : Bytes) (specs : List OptionSpec) : Res (List Opt × Bool) :=
  parseShortLoop fx specs s (runes s) []

/-- The loop of `parseLong`; `eq` is `strings.IndexRune(s, '=')`.
Fixed code skips specs with `Long == ""`, and has a third result: an argument
was given with `=` to an option that takes none (always `false` in the
unchanged code, which has no such result). -/
def parseLongFrom (fx : Bool) (s : Bytes) (eq : Option Nat) :
    List OptionSpec → Nat → Res (Option (Opt × Bool × Bool))
  | [], _ => .ok none
  | sp :: rest, k =>
    if fx && sp.long.isEmpty then parseLongFrom fx s eq rest (k + 1)
    else if s == sp.long then
      .ok (some (⟨some k, sp, false, true, []⟩, sp.arity == RequiredArgument, false))
    else
      match eq with
      | none => parseLongFrom fx s eq rest (k + 1)
      | some e =>
        match slice s 0 e with
        | .ok name =>
          if name == sp.long then
            match slice s ((e + 1 : Nat) : Int) s.length with
            | .ok arg => .ok (some (⟨some k, sp, false, true, arg⟩, false, fx && sp.arity == NoArgument))
            | .exc x => .exc x
            | .panic p => .panic p
          else parseLongFrom fx s eq rest (k + 1)
        | .exc x => .exc x
        | .panic p => .panic p

/-- `parseLong(s, specs)` -/
def parseLong (fx : Bool) (s : Bytes) (specs : List OptionSpec) : Res (Opt × Bool × Bool) :=
  let eq := indexEq s
  match parseLongFrom fx s eq specs 0 with
  | .ok (some r) => .ok r
  | .ok none =>
    match eq with
    | none => .ok (⟨none, ⟨0, s, OptionalArgument⟩, true, true, []⟩, false, false)
    | some e =>
      match slice s 0 e, slice s ((e + 1 : Nat) : Int) s.length with
      | .ok name, .ok arg => .ok (⟨none, ⟨0, name, OptionalArgument⟩, true, true, arg⟩, false, false)
      | .panic p, _ => .panic p
      | .exc x, _ => .exc x
      | _, .panic p => .panic p
      | _, .exc x => .exc x
  | .exc x => .exc x
  | .panic p => .panic p

/-- The loop variables of `parse`: the four of the unchanged code, and (fixed
code, `fixes/C38-noarg-attached-arg.patch`) `extraArg`: the long options that
take no argument but were written `--name=value`; they are not in `opts`. -/
structure PState where
  opts : List Opt
  nonOptArgs : List Bytes
  opt : Option Opt
  stopOpt : Bool
  extraArg : List Opt
  deriving Repr, DecidableEq

def PState.init : PState := ⟨[], [], none, false, []⟩

/-- One iteration of `for _, arg := range args { switch { … } }` in `parse`. -/
def parseStep (fx : Bool) (specs : List OptionSpec) (cfg : Nat) (st : PState) (arg : Bytes) :
    Res PState :=
  match st.opt with
  | some o =>
    .ok { st with opts := st.opts ++ [{ o with argument := arg }], opt := none }
  | none =>
    if st.stopOpt then .ok { st with nonOptArgs := st.nonOptArgs ++ [arg] }
    else if has cfg StopAfterDoubleDash && arg == dd then .ok { st with stopOpt := true }
    else if hasPrefix arg dd && arg != dd then
      match slice arg 2 arg.length with
      | .ok s =>
        match parseLong fx s specs with
        | .ok (newopt, needArg, extra) =>
          if extra then .ok { st with extraArg := st.extraArg ++ [newopt] }
          else if needArg then .ok { st with opt := some newopt }
          else .ok { st with opts := st.opts ++ [newopt] }
        | .exc x => .exc x
        | .panic p => .panic p
      | .exc x => .exc x
      | .panic p => .panic p
    else if hasPrefix arg [dash] && arg != dd && arg != [dash] then
      match slice arg 1 arg.length with
      | .ok s =>
        if has cfg LongOnly then
          match parseLong fx s specs with
          | .ok (newopt, needArg, extra) =>
            if extra then .ok { st with extraArg := st.extraArg ++ [newopt] }
            else if needArg then .ok { st with opt := some newopt }
            else .ok { st with opts := st.opts ++ [newopt] }
          | .exc x => .exc x
          | .panic p => .panic p
        else
          match parseShort fx s specs with
          | .ok (newopts, needArg) =>
            if needArg then
              match slice newopts 0 ((newopts.length : Int) - 1),
                    index newopts ((newopts.length : Int) - 1) with
              | .ok front, .ok last => .ok { st with opts := st.opts ++ front, opt := some last }
              | .panic p, _ => .panic p
              | .exc x, _ => .exc x
              | _, .panic p => .panic p
              | _, .exc x => .exc x
            else .ok { st with opts := st.opts ++ newopts }
          | .exc x => .exc x
          | .panic p => .panic p
      | .exc x => .exc x
      | .panic p => .panic p
    else
      .ok { st with nonOptArgs := st.nonOptArgs ++ [arg],
                    stopOpt := has cfg StopBeforeFirstNonOption }

def parseLoop (fx : Bool) (specs : List OptionSpec) (cfg : Nat) : PState → List Bytes → Res PState
  | st, [] => .ok st
  | st, arg :: rest =>
    match parseStep fx specs cfg st arg with
    | .ok st' => parseLoop fx specs cfg st' rest
    | .exc x => .exc x
    | .panic p => .panic p

/-- `parse(args, spec, cfg)`: `(opts, nonOptArgs, opt, stopOpt, extraArg)`. -/
def parse (fx : Bool) (args : List Bytes) (specs : List OptionSpec) (cfg : Nat) : Res PState :=
  parseLoop fx specs cfg PState.init args

/-- `optionPart` -/
def optionPart (o : Opt) : Bytes :=
  if o.long then dd ++ o.spec.long else [dash] ++ encodeRune o.spec.short

def joinSep (sep : Bytes) : List Bytes → Bytes
  | [] => []
  | [x] => x
  | x :: rest => x ++ sep ++ joinSep sep rest

/-- `errutil.Multi` folded over the error list, then `.Error()`:
`nil`, the single error, or `"multiple errors: e1; e2; …"`. -/
def multiError : List Bytes → Option Bytes
  | [] => none
  | [e] => some e
  | es => some (strBytes "multiple errors: " ++ joinSep (strBytes "; ") es)

/-- The errors `Parse` accumulates, in order. -/
def parseErrors (st : PState) : List Bytes :=
  (match st.opt with
   | some o => [strBytes "missing argument for " ++ optionPart o]
   | none => []) ++
  ((st.opts.filter (·.unknown)).map fun o => strBytes "unknown option " ++ optionPart o) ++
  st.extraArg.map fun o => strBytes "option " ++ optionPart o ++ strBytes " doesn't take an argument"

/-- `Parse(args, specs, cfg)`: `(opts, nonOptArgs, err.Error())`. -/
def Parse (fx : Bool) (args : List Bytes) (specs : List OptionSpec) (cfg : Nat) :
    Res (List Opt × List Bytes × Option Bytes) :=
  match parse fx args specs cfg with
  | .ok st => .ok (st.opts, st.nonOptArgs, multiError (parseErrors st))
  | .exc x => .exc x
  | .panic p => .panic p

/-- The `switch` of `Complete` once the prefix has been parsed into `st`. -/
def completeLast (fx : Bool) (specs : List OptionSpec) (cfg : Nat) (st : PState) (arg : Bytes) :
    Res (List Opt × List Bytes × Context) :=
  match st.opt with
  | some o =>
    .ok (st.opts, st.nonOptArgs, ⟨OptionArgument, some { o with argument := arg }, []⟩)
  | none =>
    if st.stopOpt then .ok (st.opts, st.nonOptArgs, ⟨Argument, none, arg⟩)
    else if arg == [] then .ok (st.opts, st.nonOptArgs, ⟨OptionOrArgument, none, []⟩)
    else if arg == [dash] then .ok (st.opts, st.nonOptArgs, ⟨AnyOption, none, []⟩)
    else if hasPrefix arg dd then
      match slice arg 2 arg.length with
      | .ok s =>
        if !containsEq arg then .ok (st.opts, st.nonOptArgs, ⟨LongOption, none, s⟩)
        else
          match parseLong fx s specs with
          | .ok (newopt, _, _) => .ok (st.opts, st.nonOptArgs, ⟨OptionArgument, some newopt, []⟩)
          | .exc x => .exc x
          | .panic p => .panic p
      | .exc x => .exc x
      | .panic p => .panic p
    else if hasPrefix arg [dash] then
      match slice arg 1 arg.length with
      | .ok s =>
        if has cfg LongOnly then
          if !containsEq arg then .ok (st.opts, st.nonOptArgs, ⟨LongOption, none, s⟩)
          else
            match parseLong fx s specs with
            | .ok (newopt, _, _) => .ok (st.opts, st.nonOptArgs, ⟨OptionArgument, some newopt, []⟩)
            | .exc x => .exc x
            | .panic p => .panic p
        else
          match parseShort fx s specs with
          | .ok (newopts, _) =>
            match index newopts ((newopts.length : Int) - 1) with
            | .ok last =>
              if last.spec.arity == NoArgument then
                .ok (st.opts ++ newopts, st.nonOptArgs, ⟨ChainShortOption, none, []⟩)
              else
                match slice newopts 0 ((newopts.length : Int) - 1) with
                | .ok front => .ok (st.opts ++ front, st.nonOptArgs, ⟨OptionArgument, some last, []⟩)
                | .exc x => .exc x
                | .panic p => .panic p
            | .exc x => .exc x
            | .panic p => .panic p
          | .exc x => .exc x
          | .panic p => .panic p
      | .exc x => .exc x
      | .panic p => .panic p
    else .ok (st.opts, st.nonOptArgs, ⟨Argument, none, arg⟩)

/-- `Complete(args, specs, cfg)`.  Unchanged code: `args[:len(args)-1]` panics
for empty `args`; fixed code returns the empty `OptionOrArgument` context. -/
def Complete (fx : Bool) (args : List Bytes) (specs : List OptionSpec) (cfg : Nat) :
    Res (List Opt × List Bytes × Context) :=
  if fx && args.isEmpty then .ok ([], [], ⟨OptionOrArgument, none, []⟩)
  else
    match slice args 0 ((args.length : Int) - 1) with
    | .ok front =>
      match parse fx front specs cfg with
      | .ok st =>
        match index args ((args.length : Int) - 1) with
        | .ok arg => completeLast fx specs cfg st arg
        | .exc x => .exc x
        | .panic p => .panic p
      | .exc x => .exc x
      | .panic p => .panic p
    | .exc x => .exc x
    | .panic p => .panic p

/-! ### pkg/edit/complete_getopt.go: what `edit:complete-getopt` emits

The harness installs argument handlers `h0 h1 ...` (variadic) that output
`arg<i>:<text>` and gives the spec at position `k` a completer that outputs
`opt<k>:<argument>`; option candidates are the `Stem`s. -/

def shortStem (sp : OptionSpec) : Bytes := [dash] ++ encodeRune sp.short
def longStem (sp : OptionSpec) : Bytes := dd ++ sp.long

def natBytes (n : Nat) : Bytes := strBytes (toString n)

def completeGetoptOut (specs : List OptionSpec) (r : List Opt × List Bytes × Context) :
    Res (List Bytes) :=
  let (_, parsedArgs, ctx) := r
  if ctx.typ == OptionOrArgument || ctx.typ == Argument then
    -- two handlers, variadic: handler index min(len(parsedArgs), 1)
    let h := if parsedArgs.length < 2 then parsedArgs.length else 1
    .ok [strBytes "arg" ++ natBytes h ++ strBytes ":" ++ ctx.text]
  else if ctx.typ == AnyOption then
    .ok (specs.flatMap fun sp =>
      (if sp.short != 0 then [shortStem sp] else []) ++ (if !sp.long.isEmpty then [longStem sp] else []))
  else if ctx.typ == LongOption then
    .ok ((specs.filter fun sp => !sp.long.isEmpty && hasPrefix sp.long ctx.text).map longStem)
  else if ctx.typ == ChainShortOption then
    .ok ((specs.filter fun sp => sp.short != 0).map shortStem)
  else if ctx.typ == OptionArgument then
    match ctx.option with
    | some o =>
      match o.ref with
      | some k => .ok [strBytes "opt" ++ natBytes k ++ strBytes ":" ++ o.argument]
      | none => .ok []   -- `opts.argGenerator[fresh pointer]` is nil
    | none => .panic "nil pointer dereference"
  else .ok []

end C38
