import ElvModel.C38.Driver
def main : IO Unit := C38.driver.main
