/-
C38 spec: the GNU/BSD `getopt_long` conventions that `getopt.Config` selects,
read left to right, written from getopt_long(3) / the "Getopt convention"
section of website/ref/flag.md — NOT from the code of pkg/getopt.

A word list is read into a list of `Item`s: what each word (or pair of words)
denotes.  Differences in shape from the code, on purpose: an option whose
required argument is not attached TAKES THE NEXT WORD (look-ahead; there is no
pending state); look-ups are by name among the specs that HAVE that form
(`Short ≠ 0`, `Long ≠ ""`); a long word is first split at its first `=` and
the name is then looked up; "option parsing has ended" is a property of the
items read so far.

Conventions covered (and the Config bit that selects them):
  * `-abc` chains short options that take no argument; the first one that
    takes an argument ends the chain: the rest of the word, if non-empty, is
    its (attached) argument; if empty, a REQUIRED argument is the next word
    (detached) and an OPTIONAL argument is absent;
  * `--name`, `--name=value`; a required argument may be detached
    (`--name value`), an optional one may not;
  * `--` ends option parsing and is dropped        (StopAfterDoubleDash);
  * the first operand ends option parsing           (StopBeforeFirstNonOption);
    otherwise operands and options may be mixed (GNU permutation: all
    operands are collected in order);
  * long options are written with one dash and there are no short options
    (LongOnly — as documented at `getopt.LongOnly`; `--name` still works);
  * `-` alone, the empty word and (without StopAfterDoubleDash) `--` are
    operands;
  * the argument of an option that requires one is the next word WHATEVER it
    looks like (`-f --` gives `f` the argument `--`).
Documented deviations of pkg/getopt that the spec adopts (getopt.go comments
"Unknown option, treat as taking an optional argument"): an unknown short
option swallows the rest of its word as its argument; unknown options are
reported (an error at `Parse`, tolerated by `Complete`).
NOT adopted, hence visible as `Item.badArg`: GNU and BSD reject `--name=value`
for an option that takes no argument; pkg/getopt accepts it silently.
Not part of the listed conventions and not modelled: unique-prefix
abbreviation of long names, `-W`, POSIXLY_CORRECT, optstring prefixes.

Characters of a short-option word are UTF-8 sequences; an undecodable byte is
a one-byte character U+FFFD (Go's `utf8.DecodeRuneInString`).
-/
import ElvModel.C38.Model
namespace C38.Spec
open Go C38
open Gen.C38Config

inductive Arity where
  | none | required | optional
  deriving Repr, DecidableEq

/-- Anything that is neither `NoArgument` nor `RequiredArgument` counts as optional. -/
def arityOf (n : Nat) : Arity :=
  if n = NoArgument then .none else if n = RequiredArgument then .required else .optional

/-- What the conventions make of the words. -/
inductive Item where
  /-- option number `k` of the spec list (`sp` is that spec), in long or short
  form, with its argument if it has one -/
  | option (k : Nat) (sp : OptionSpec) (viaLong : Bool) (arg : Option Bytes)
  /-- `--name=value` for an option that takes no argument (an error for GNU/BSD) -/
  | badArg (k : Nat) (sp : OptionSpec) (value : Bytes)
  | unknownShort (c : Rune) (rest : Bytes)
  | unknownLong (name : Bytes) (value : Option Bytes)
  | operand (w : Bytes)
  /-- the `--` that ended option parsing -/
  | terminator
  /-- the last word is an option that requires an argument, and nothing follows -/
  | missing (k : Nat) (sp : OptionSpec) (viaLong : Bool)
  deriving Repr, DecidableEq

/-- An option still waiting for its (detached) argument. -/
abbrev Awaiting := Option (Nat × OptionSpec × Bool)

/-- First spec satisfying `p`, with its position. -/
def lookup (p : OptionSpec → Bool) (specs : List OptionSpec) : Option (Nat × OptionSpec) :=
  (specs.zipIdx.find? fun x => p x.1).map fun x => (x.2, x.1)

def lookupShort (specs : List OptionSpec) (c : Rune) : Option (Nat × OptionSpec) :=
  lookup (fun sp => sp.short != 0 && sp.short == c) specs

def lookupLong (specs : List OptionSpec) (name : Bytes) : Option (Nat × OptionSpec) :=
  lookup (fun sp => sp.long != [] && sp.long == name) specs

/-- `name=value` ↦ `(name, some value)`; no `=` ↦ `(word, none)`. -/
def splitEq : Bytes → Bytes × Option Bytes
  | [] => ([], none)
  | b :: rest =>
    if b = eqSign then ([], some rest)
    else ((b :: (splitEq rest).1), (splitEq rest).2)

/-- A long-option word without its dashes. -/
def longWord (specs : List OptionSpec) (body : Bytes) : List Item × Awaiting :=
  let (name, value) := splitEq body
  match lookupLong specs name with
  | none => ([.unknownLong name value], none)
  | some (k, sp) =>
    match arityOf sp.arity, value with
    | .none, some v => ([.badArg k sp v], none)
    | .required, none => ([], some (k, sp, true))
    | _, v => ([.option k sp true v], none)

def nonEmpty (s : Bytes) : Option Bytes := if s = [] then none else some s

/-- A short-option word without its dash; the `Nat` bounds the number of characters. -/
def clusterN (specs : List OptionSpec) : Nat → Bytes → List Item × Awaiting
  | 0, _ => ([], none)
  | _, [] => ([], none)
  | n + 1, s@(_ :: _) =>
    let c := (decodeRune s).1
    let rest := s.drop (decodeRune s).2
    match lookupShort specs c with
    | none => ([.unknownShort c rest], none)
    | some (k, sp) =>
      match arityOf sp.arity with
      | .none => (.option k sp false none :: (clusterN specs n rest).1, (clusterN specs n rest).2)
      | .required => if rest = [] then ([], some (k, sp, false)) else ([.option k sp false (some rest)], none)
      | .optional => ([.option k sp false (nonEmpty rest)], none)

def cluster (specs : List OptionSpec) (s : Bytes) : List Item × Awaiting := clusterN specs s.length s

/-- Does the word have the form of an option?  (`-x…` but neither `-` nor `--`.) -/
def isOptionWord (w : Bytes) : Bool := hasPrefix w [dash] && w != [dash] && w != dd

def optionWord (cfg : Nat) (specs : List OptionSpec) (w : Bytes) : List Item × Awaiting :=
  if hasPrefix w dd then longWord specs (w.drop 2)
  else if has cfg LongOnly then longWord specs (w.drop 1)
  else cluster specs (w.drop 1)

/-- Read the words; `ended` says option parsing has ended before them. -/
def read (cfg : Nat) (specs : List OptionSpec) : List Bytes → Bool → List Item
  | [], _ => []
  | w :: ws, true => .operand w :: read cfg specs ws true
  | w :: ws, false =>
    if has cfg StopAfterDoubleDash && w == dd then .terminator :: read cfg specs ws true
    else if isOptionWord w then
      match (optionWord cfg specs w).2 with
      | none => (optionWord cfg specs w).1 ++ read cfg specs ws false
      | some (k, sp, l) =>
        match ws with
        | [] => (optionWord cfg specs w).1 ++ [.missing k sp l]
        | a :: ws' => (optionWord cfg specs w).1 ++ .option k sp l (some a) :: read cfg specs ws' false
    else .operand w :: read cfg specs ws (has cfg StopBeforeFirstNonOption)

/-- Has option parsing ended after these items? -/
def ended (cfg : Nat) (items : List Item) : Bool :=
  items.any (· matches .terminator) ||
  (has cfg StopBeforeFirstNonOption && items.any (· matches .operand _))

/-! ### The correspondence with `getopt.Option` values

Go cannot tell an absent argument from an empty one: both are `Argument == ""`. -/

def argOf : Option Bytes → Bytes
  | some a => a
  | none => []

/-- Known option number `k` as a `getopt.Option`. -/
def known (k : Nat) (sp : OptionSpec) (viaLong : Bool) (arg : Bytes) : Opt :=
  ⟨some k, sp, false, viaLong, arg⟩

def unknownLongOpt (name : Bytes) (arg : Bytes) : Opt :=
  ⟨none, ⟨0, name, OptionalArgument⟩, true, true, arg⟩

/-- The option an item assigns; `lenient` also turns `badArg` into the option
with that argument (what pkg/getopt did before fixes/C38-noarg-attached-arg.patch,
and what `Complete` still reports as the option of a LAST word `--name=value`),
the strict reading assigns nothing. -/
def Item.toOpt (lenient : Bool) : Item → Option Opt
  | .option k sp l arg => some (known k sp l (argOf arg))
  | .badArg k sp v => if lenient then some (known k sp true v) else none
  | .unknownShort c rest => some (C38.unknownShort c rest)
  | .unknownLong name v => some (unknownLongOpt name (argOf v))
  | .operand _ => none
  | .terminator => none
  | .missing _ _ _ => none

def optsOf (lenient : Bool) (items : List Item) : List Opt := items.filterMap (Item.toOpt lenient)

/-- The options written `--name=value` although they take no argument (each an
error for GNU/BSD), as `getopt.Option` values. -/
def extraOf (items : List Item) : List Opt :=
  items.filterMap fun | .badArg k sp v => some (known k sp true v) | _ => none

def operandsOf (items : List Item) : List Bytes :=
  items.filterMap fun | .operand w => some w | _ => none

/-- The option whose required argument is missing, if any (`read` puts it last). -/
def missingOf (items : List Item) : Option Opt :=
  items.findSome? fun | .missing k sp l => some (known k sp l []) | _ => none

def isUnknown : Item → Bool
  | .unknownShort _ _ => true
  | .unknownLong _ _ => true
  | _ => false

def isBadArg : Item → Bool
  | .badArg _ _ _ => true
  | _ => false

def isMissing : Item → Bool
  | .missing _ _ _ => true
  | _ => false

/-- GNU/BSD report no error for these items. -/
def accepted (items : List Item) : Bool :=
  !items.any isUnknown && !items.any isMissing && !items.any isBadArg

/-- The unchanged pkg/getopt reports no error for these items (it lets `badArg` through). -/
def acceptedLenient (items : List Item) : Bool :=
  !items.any isUnknown && !items.any isMissing

/-! ### Completion: how the last word is to be completed (doc comments of
`ContextType`), given the items read before it. -/

/-- The options a word denotes, the awaiting one last. -/
def wordOpts (r : List Item × Awaiting) : List Opt :=
  optsOf true r.1 ++ match r.2 with
    | some (k, sp, l) => [known k sp l []]
    | none => []

def context (cfg : Nat) (specs : List OptionSpec) (before : List Item) (last : Bytes) :
    List Opt × Context :=
  match missingOf before with
  | some o => ([], ⟨OptionArgument, some { o with argument := last }, []⟩)
  | none =>
    if ended cfg before then ([], ⟨Argument, none, last⟩)
    else if last = [] then ([], ⟨OptionOrArgument, none, []⟩)
    else if last = [dash] then ([], ⟨AnyOption, none, []⟩)
    else if hasPrefix last dd || (hasPrefix last [dash] && has cfg LongOnly) then
      let body := if hasPrefix last dd then last.drop 2 else last.drop 1
      if (splitEq body).2 = none then ([], ⟨LongOption, none, body⟩)
      else ([], ⟨OptionArgument, (wordOpts (longWord specs body)).getLast?, []⟩)
    else if hasPrefix last [dash] then
      let os := wordOpts (cluster specs (last.drop 1))
      match os.getLast? with
      | some o =>
        if o.spec.arity = NoArgument then (os, ⟨ChainShortOption, none, []⟩)
        else (os.dropLast, ⟨OptionArgument, some o, []⟩)
      | none => ([], ⟨ChainShortOption, none, []⟩)   -- unreachable: the word is longer than `-`
    else ([], ⟨Argument, none, last⟩)

/-- Long names never contain `=` (such a name could never be written on a command line). -/
def WF (specs : List OptionSpec) : Prop := ∀ sp ∈ specs, eqSign ∉ sp.long

end C38.Spec
