import ElvModel.C13.Driver
def main : IO Unit := C13.driver.main
